/* Java accelerator for the TLA+ module BigInt (TLC legacy module override:
 * a class named like the module, on the class path).  Semantics are the pure
 * TLA+ definitions in spec/lib/BigInt.tla; MC_ArithSelfTest compares the two. */
import java.math.BigInteger;
import tlc2.value.impl.IntValue;
import tlc2.value.impl.TupleValue;
import tlc2.value.impl.Value;

public class BigInt {
    static final BigInteger BASE = BigInteger.valueOf(10000);
    static final Value[] NOVALS = new Value[0];
    public static final TupleValue ZERO =
        new TupleValue(new Value[]{IntValue.gen(0), new TupleValue(NOVALS)});

    public static BigInteger nat(Value limbs) {
        TupleValue t = (TupleValue) limbs.toTuple();
        BigInteger r = BigInteger.ZERO;
        for (int k = t.elems.length - 1; k >= 0; k--) {
            r = r.multiply(BASE).add(BigInteger.valueOf(((IntValue) t.elems[k]).val));
        }
        return r;
    }
    public static BigInteger big(Value x) {
        TupleValue t = (TupleValue) x.toTuple();
        int s = ((IntValue) t.elems[0]).val;
        BigInteger m = nat(t.elems[1]);
        return s < 0 ? m.negate() : m;
    }
    public static TupleValue limbs(BigInteger m) { // m >= 0
        java.util.ArrayList<Value> l = new java.util.ArrayList<>();
        while (m.signum() != 0) {
            BigInteger[] qr = m.divideAndRemainder(BASE);
            l.add(IntValue.gen(qr[1].intValue()));
            m = qr[0];
        }
        return new TupleValue(l.toArray(NOVALS));
    }
    public static Value val(BigInteger b) {
        if (b.signum() == 0) return ZERO;
        return new TupleValue(new Value[]{IntValue.gen(b.signum()), limbs(b.abs())});
    }

    public static Value NAdd(Value a, Value b) { return limbs(nat(a).add(nat(b))); }
    public static Value NSub(Value a, Value b) { return limbs(nat(a).subtract(nat(b))); }
    public static Value NMul(Value a, Value b) { return limbs(nat(a).multiply(nat(b))); }
    public static Value NCmp(Value a, Value b) { return IntValue.gen(nat(a).compareTo(nat(b))); }
    public static Value NDivMod(Value a, Value b) {
        BigInteger[] qr = nat(a).divideAndRemainder(nat(b));
        return new TupleValue(new Value[]{limbs(qr[0]), limbs(qr[1])});
    }
    public static Value NGcd(Value a, Value b) { return limbs(nat(a).gcd(nat(b))); }

    public static Value BAdd(Value x, Value y) { return val(big(x).add(big(y))); }
    public static Value BSub(Value x, Value y) { return val(big(x).subtract(big(y))); }
    public static Value BMul(Value x, Value y) { return val(big(x).multiply(big(y))); }
    public static Value BCmp(Value x, Value y) { return IntValue.gen(big(x).compareTo(big(y))); }
    public static Value BDivMod(Value x, Value y) {
        BigInteger[] qr = big(x).divideAndRemainder(big(y));
        return new TupleValue(new Value[]{val(qr[0]), val(qr[1])});
    }
    public static Value BGcd(Value x, Value y) { return val(big(x).gcd(big(y))); }
    public static Value BQuot(Value x, Value y) { return val(big(x).divide(big(y))); }
    public static Value BPowNat(Value x, Value n) { return val(big(x).pow(((IntValue) n).val)); }
}
