/* Java accelerator for the TLA+ module Rat; see BigInt.java. */
import java.math.BigInteger;
import tlc2.value.impl.IntValue;
import tlc2.value.impl.TupleValue;
import tlc2.value.impl.Value;

public class Rat {
    static BigInteger[] rat(Value r) {
        TupleValue t = (TupleValue) r.toTuple();
        return new BigInteger[]{BigInt.big(t.elems[0]), BigInt.big(t.elems[1])};
    }
    static Value mk(BigInteger n, BigInteger d) {
        BigInteger g = n.gcd(d);
        if (g.signum() != 0 && !g.equals(BigInteger.ONE)) { n = n.divide(g); d = d.divide(g); }
        if (d.signum() < 0) { n = n.negate(); d = d.negate(); }
        return new TupleValue(new Value[]{BigInt.val(n), BigInt.val(d)});
    }
    public static Value RMk(Value n, Value d) { return mk(BigInt.big(n), BigInt.big(d)); }
    public static Value RAdd(Value a, Value b) {
        BigInteger[] x = rat(a), y = rat(b);
        return mk(x[0].multiply(y[1]).add(y[0].multiply(x[1])), x[1].multiply(y[1]));
    }
    public static Value RSub(Value a, Value b) {
        BigInteger[] x = rat(a), y = rat(b);
        return mk(x[0].multiply(y[1]).subtract(y[0].multiply(x[1])), x[1].multiply(y[1]));
    }
    public static Value RMul(Value a, Value b) {
        BigInteger[] x = rat(a), y = rat(b);
        return mk(x[0].multiply(y[0]), x[1].multiply(y[1]));
    }
    public static Value RDiv(Value a, Value b) {
        BigInteger[] x = rat(a), y = rat(b);
        return mk(x[0].multiply(y[1]), x[1].multiply(y[0]));
    }
    public static Value RCmp(Value a, Value b) {
        BigInteger[] x = rat(a), y = rat(b);
        return IntValue.gen(x[0].multiply(y[1]).compareTo(y[0].multiply(x[1])));
    }
    public static Value RPow(Value r, Value k) {
        BigInteger[] x = rat(r);
        int e = ((IntValue) k).val;
        if (e >= 0) return mk(x[0].pow(e), x[1].pow(e));
        return mk(x[1].pow(-e), x[0].pow(-e));
    }
    public static Value RSum(Value s) {
        TupleValue t = (TupleValue) s.toTuple();
        BigInteger n = BigInteger.ZERO, d = BigInteger.ONE;
        for (Value v : t.elems) {
            BigInteger[] x = rat(v);
            n = n.multiply(x[1]).add(x[0].multiply(d)); d = d.multiply(x[1]);
            BigInteger g = n.gcd(d);
            if (!g.equals(BigInteger.ONE) && g.signum() != 0) { n = n.divide(g); d = d.divide(g); }
        }
        return mk(n, d);
    }
    public static Value RAbsSum(Value s) {
        TupleValue t = (TupleValue) s.toTuple();
        BigInteger n = BigInteger.ZERO, d = BigInteger.ONE;
        for (Value v : t.elems) {
            BigInteger[] x = rat(v);
            n = n.multiply(x[1]).add(x[0].abs().multiply(d)); d = d.multiply(x[1]);
            BigInteger g = n.gcd(d);
            if (!g.equals(BigInteger.ONE) && g.signum() != 0) { n = n.divide(g); d = d.divide(g); }
        }
        return mk(n, d);
    }
    public static Value RDot(Value s, Value u) {
        TupleValue t = (TupleValue) s.toTuple();
        TupleValue w = (TupleValue) u.toTuple();
        BigInteger n = BigInteger.ZERO, d = BigInteger.ONE;
        for (int k = 0; k < t.elems.length; k++) {
            BigInteger[] x = rat(t.elems[k]), y = rat(w.elems[k]);
            BigInteger pn = x[0].multiply(y[0]), pd = x[1].multiply(y[1]);
            n = n.multiply(pd).add(pn.multiply(d)); d = d.multiply(pd);
            BigInteger g = n.gcd(d);
            if (!g.equals(BigInteger.ONE) && g.signum() != 0) { n = n.divide(g); d = d.divide(g); }
        }
        return mk(n, d);
    }
    public static Value RFromDyadic(Value dv) {
        TupleValue t = (TupleValue) dv.toTuple();
        int s = ((IntValue) t.elems[0]).val;
        BigInteger m = BigInt.nat(t.elems[1]);
        int e = ((IntValue) t.elems[2]).val;
        if (s < 0) m = m.negate();
        if (e >= 0) return mk(m.shiftLeft(e), BigInteger.ONE);
        return mk(m, BigInteger.ONE.shiftLeft(-e));
    }
    public static Value RTwoPow(Value ev) {
        int e = ((IntValue) ev).val;
        if (e >= 0) return mk(BigInteger.ONE.shiftLeft(e), BigInteger.ONE);
        return mk(BigInteger.ONE, BigInteger.ONE.shiftLeft(-e));
    }
}
