"""C01 - laminate ABD/ABDE (DESIGN.md section 5, C01)."""
import gc
import math
import random

import numpy as np

from common import (Fraction, Report, dyadic, rat, run_tlc, printed_values, validate_trace, from_rat)

TOL = 38


def angle(dirv):
    p, q = dirv
    return math.degrees(math.atan2(p, q))


def ply_from_tla(p):
    return dict(dir=list(p["dir"]), t=from_rat(p["t"]), mat=[from_rat(x) for x in p["mat"]])


def observe(stack, offset, form="per-ply"):
    """run the real code on a stack (list of dict(dir,t,mat) with Fractions)"""
    from compmech.composite.laminate import read_stack
    angles = [angle(p["dir"]) for p in stack]
    ts = [float(p["t"]) for p in stack]
    mats = [tuple(float(x) for x in p["mat"]) for p in stack]
    if form == "uniform":
        lam = read_stack(angles, plyt=ts[0], laminaprop=mats[0], offset=float(offset))
    elif form == "panel":
        from compmech.panel import Panel
        pn = Panel()
        pn.a, pn.b, pn.m, pn.n = 1., 1., 2, 2
        pn.stack, pn.plyts, pn.laminaprops, pn.offset = angles, ts, mats, float(offset)
        pn.calc_k0(silent=True)
        lam = pn.lam
    else:
        lam = read_stack(angles, plyts=ts, laminaprops=mats, offset=float(offset))
    A, B, D, E = (np.asarray(lam.A), np.asarray(lam.B), np.asarray(lam.D), np.asarray(lam.E))
    ABD, ABDE = np.asarray(lam.ABD), np.asarray(lam.ABDE)
    # the 6x6 / 8x8 forms must be the blocks they are documented to be (exact copies)
    blocks_ok = (np.array_equal(ABD[:3, :3], A) and np.array_equal(ABD[:3, 3:], B) and
                 np.array_equal(ABD[3:, :3], B) and np.array_equal(ABD[3:, 3:], D) and
                 np.array_equal(ABDE[:6, :6], ABD) and np.array_equal(ABDE[6:, 6:], E) and
                 not ABDE[:6, 6:].any() and not ABDE[6:, :6].any())
    enc = lambda M: [[dyadic(v) for v in row] for row in M]
    return dict(A=enc(A), B=enc(B), D=enc(D), E=enc(E)), blocks_ok


def enc_stack(stack):
    return [dict(dir=p["dir"], t=rat(p["t"]), mat=[rat(x) for x in p["mat"]]) for p in stack]


def uniform(stack):
    return all(p["t"] == stack[0]["t"] and p["mat"] == stack[0]["mat"] for p in stack)


def apply(stack, offset, ev):
    k = ev["ev"]
    if k == "mirror":
        return [dict(p, dir=[-p["dir"][0], p["dir"][1]]) for p in stack], offset
    if k == "rot90":
        return [dict(p, dir=[p["dir"][1], -p["dir"][0]]) for p in stack], offset
    if k == "symmetrize":
        return stack + stack[::-1], Fraction(0)
    if k == "swap":
        s = list(stack)
        s[ev["i"] - 1], s[ev["j"] - 1] = s[ev["j"] - 1], s[ev["i"] - 1]
        return s, offset
    if k == "shift":
        return stack, ev["d"]
    raise ValueError(k)


def random_def(rng):
    n = rng.randint(1, 8)
    mats = []
    for _ in range(3):
        kind = rng.choice([3, 6, 9])
        e1 = Fraction(rng.randint(8, 400), 4)
        e2 = Fraction(rng.randint(4, 32), 4) if kind != 3 else e1
        nu = Fraction(rng.randint(1, 11), 32)
        m = [e1, e2, nu]
        if kind >= 6:
            m += [Fraction(rng.randint(2, 40), 8) for _ in range(3)]
        if kind == 9:
            m += [Fraction(rng.randint(4, 32), 4), Fraction(rng.randint(1, 11), 32), Fraction(rng.randint(1, 11), 32)]
        mats.append(m)
    stack = []
    for _ in range(n):
        p, q = rng.randint(-40, 40), rng.randint(-40, 40)
        if p == 0 and q == 0:
            q = 1
        stack.append(dict(dir=[p, q], t=Fraction(rng.randint(1, 64), 256), mat=rng.choice(mats)))
    if rng.random() < 0.3:
        stack = [dict(p, t=stack[0]["t"], mat=stack[0]["mat"]) for p in stack]
    off = Fraction(rng.randint(-64, 64), 64) if rng.random() < 0.7 else Fraction(0)
    return stack, off


CONSTS = {
    "quick": dict(lat="Dirs <- QDirs\nThicks <- QThicks\nMats <- LMats\nOffsets <- QOffsets\nMaxPlies = 2\nMaxLen = 4\n",
                  beh="Dirs <- BDirs\nThicks <- BThicks\nMats <- BMats\nOffsets <- BOffsets\nMaxPlies = 2\nMaxLen = 4\n",
                  depth=2, nrand=300),
    "thorough": dict(lat="Dirs <- LDirs\nThicks <- LThicks\nMats <- LMats\nOffsets <- LOffsets\nMaxPlies = 2\nMaxLen = 4\n",
                     beh="Dirs <- QDirs\nThicks <- QThicks\nMats <- BMats\nOffsets <- QOffsets\nMaxPlies = 2\nMaxLen = 8\n",
                     graph="Dirs <- QDirs\nThicks <- BThicks\nMats <- BMats\nOffsets <- BOffsets\nMaxPlies = 2\nMaxLen = 4\n",
                     depth=5, nrand=6000, simulate="num=2500"),
}
INVS = "INVARIANT SymmetricABD\nINVARIANT PositiveDefinite\nINVARIANT OffsetLaw\n"
PROPS = "PROPERTY MirrorLaw\nPROPERTY Rot90Law\nPROPERTY OrderLaw\nPROPERTY SymmetricLaw\nPROPERTY ShiftLaw\n"


def run(tier, seed, build):
    rep = Report("C01", tier, seed)
    rng = random.Random(seed)
    c = CONSTS[tier]
    # 1. laws on the state graph (invariants + action properties), by TLC
    g = run_tlc("c01-graph", "MC_Laminate", "SPECIFICATION GraphSpec\nCONSTANTS\n%sDepth = 0\n%s%sCHECK_DEADLOCK FALSE\n"
                % (c.get("graph", c["beh"]), INVS, PROPS), workers=16, timeout=3000)
    rep.add_tlc("MC_Laminate/Spec (laws)", g)
    if not g.ok:
        rep.machinery("TLC on Laminate state graph failed: " + g.errors())
        return rep.finish()
    # 2. lattice of definitions
    lat = run_tlc("c01-lat", "MC_Laminate", "SPECIFICATION LatSpec\nCONSTANTS\n%sDepth = 0\n%sCHECK_DEADLOCK FALSE\n"
                  % (c["lat"], INVS), workers=16, timeout=3000)
    rep.add_tlc("MC_Laminate/LatSpec", lat)
    if not lat.ok:
        rep.machinery("TLC on Laminate lattice failed: " + lat.errors())
        return rep.finish()
    defs = printed_values(lat.out, "DEF")
    if len(defs) != lat.distinct:
        rep.machinery("parsed %d definitions, TLC has %d states" % (len(defs), lat.distinct))
        return rep.finish()
    # 3. behaviours
    # quick: every behaviour up to Depth (exhaustive); thorough: TLC -simulate draws longer random behaviours
    sim = c.get("simulate")
    beh = run_tlc("c01-beh", "MC_Laminate", "SPECIFICATION BehSpec\nCONSTANTS\n%sDepth = %d\n%sCHECK_DEADLOCK FALSE\n"
                  % (c["beh"], c["depth"], INVS), workers=16 if not sim else 4, timeout=3000,
                  simulate=(sim and "%s" % sim), args=(["-depth", str(c["depth"] + 1), "-seed", str(seed)] if sim else []))
    rep.add_tlc("MC_Laminate/BehSpec", beh)
    if not beh.ok and not sim:
        rep.machinery("TLC on Laminate behaviours failed: " + beh.errors())
        return rep.finish()
    hists = [v[1] for v in printed_values(beh.out, "BEH")]
    # keep maximal paths only (prefix-closed set)
    keyed = {repr(h): h for h in hists}
    prefixes = set(repr(h[:-1]) for h in hists)
    maximal = [h for k, h in keyed.items() if k not in prefixes]
    if tier == "quick" and len(maximal) > 1500:
        maximal = rng.sample(maximal, 1500)

    groups = []
    eid = [0]
    blocks_bad = []

    def add(stack, off, ev, form):
        if eid[0] % 200 == 199:
            gc.freeze()      # Panel.calc_k0 calls gc.collect(): keep the recorded trace out of its reach
        obs, ok = observe(stack, off, form)
        if not ok:
            blocks_bad.append((enc_stack(stack), str(off)))
        e = dict(ev, id=eid[0], obs=obs, form=form)
        eid[0] += 1
        return e

    for v in defs:
        d = v[1]
        stack = [ply_from_tla(p) for p in d["stack"]]
        off = from_rat(d["offset"])
        forms = ["per-ply"] + (["uniform"] if uniform(stack) else []) + (["panel"] if rng.random() < 0.02 else [])
        for f in forms:
            groups.append([add(stack, off, dict(ev="define", stack=enc_stack(stack), offset=rat(off)), f)])
            rep.nontrivial((repr(enc_stack(stack)), str(off)))
    for h in maximal:
        stack = [ply_from_tla(p) for p in h[0]["stack"]]
        off = from_rat(h[0]["offset"])
        grp = [add(stack, off, dict(ev="define", stack=enc_stack(stack), offset=rat(off)), "per-ply")]
        for a in h[1:]:
            ev = dict(ev=a["ev"])
            if a["ev"] == "swap":
                ev.update(i=a["i"], j=a["j"])
            if a["ev"] == "shift":
                ev["d"] = from_rat(a["d"])
            stack, off = apply(stack, off, ev)
            if "d" in ev:
                ev["d"] = rat(ev["d"])
            grp.append(add(stack, off, ev, "per-ply"))
        groups.append(grp)
        rep.nontrivial(repr(h))
    for _ in range(c["nrand"]):
        stack, off = random_def(rng)
        f = "uniform" if uniform(stack) and rng.random() < 0.5 else rng.choice(["per-ply"] * 9 + ["panel"])
        groups.append([add(stack, off, dict(ev="define", stack=enc_stack(stack), offset=rat(off)), f)])
        rep.nontrivial((repr(enc_stack(stack)), str(off)))

    tcfg = "CONSTANTS\nDirs = {}\nThicks = {}\nMats = {}\nOffsets = {}\nMaxPlies = 0\nMaxLen = 1000\nTol = %d\n" % TOL
    verdicts, results, problems = validate_trace("c01-tr", "Trace_Laminate", tcfg, groups, timeout=3000)
    for res in results:
        rep.add_tlc("Trace_Laminate", res)
    for p in problems:
        rep.machinery(p)
    nev = 0
    for grp in groups:
        for k, e in enumerate(grp):
            nev += 1
            v = verdicts.get(e["id"])
            if v and v[0] != "ok":
                small = [{kk: vv for kk, vv in x.items() if kk != "obs"} for x in grp[:k + 1]]
                rep.violation("laminate matrices differ from the through-thickness integral at entries %s (call form %s)"
                              % (str(v[1])[:300], e["form"]), dict(behaviour=small, bad=str(v[1])))
    for st, off in blocks_bad[:5]:
        rep.violation("ABD/ABDE are not the documented block arrangement of A, B, D, E", dict(stack=st, offset=off))
    rep.cov["traces_validated_against_impl"] = len(groups)
    rep.cov["evaluations"] = nev
    # the Laminate object's other public methods (lamination parameters, forcing, equivalent moduli): LamObject.tla
    import lamobject
    lamobject.phase(rep, tier, seed)
    rep.sample([{k: v for k, v in e.items() if k != "obs"} for e in groups[0]])
    rep.sample([{k: v for k, v in e.items() if k != "obs"} for e in groups[len(defs) + 1]])
    rep.sample([{k: v for k, v in e.items() if k != "obs"} for e in groups[-1]])
    rep.cov["rule"] = ("TLC-enumerated lattice of stacks x offsets (all call forms), TLC-generated behaviours "
                       "(definition + up to %d transformations: mirror, rot90, swap, symmetrize, shift), %d seeded random "
                       "stacks of 1..8 plies with rational-tangent angles |p|,|q|<=40; distinct = distinct (stack, offset) "
                       "or distinct behaviour" % (c["depth"], c["nrand"]))
    rep.assumptions += ["angles are handed to the code as degrees(atan2(p,q)); its rounding (1e-16 rad) is far inside 2^-%d" % TOL,
                        "tolerance 2^-%d of the term-magnitude scale computed by the specification" % TOL]
    return rep.finish()


def replay(path, build):
    """the stored replay file holds the failing definition/behaviour; the check is deterministic in VERIF_SEED, so the
    violation is re-decided by re-running the tier that found it with the same seed"""
    import json
    import os
    rp = json.load(open(path))
    print("replaying %s: %s" % (rp.get("property"), str(rp.get("what"))[:300]))
    return run(os.environ.get("VERIF_TIER", "quick"), int(os.environ.get("VERIF_SEED", "20261003")), build)
