"""C08 (DESIGN.md section 5): internal force = energy gradient, tangent = its exact Jacobian (PanelNL.tla)."""
import random

import panelmat
from panelmat import rat


def linear_link(tier, seed):
    """'the tangent at the undeformed state is the linear stiffness matrix': the analytically integrated k0 and the
    numerically integrated matrix at c = 0 of the same definitions (with and without force_orthotropic_laminate) are
    both judged against the specification's K0, so the two kernel families are tied to one laminate matrix"""
    rng = random.Random(seed + 8)
    out, bad = [], []
    for k in range(6 if tier == "quick" else 60):
        pd = panelmat.random_pd(rng, ["plate", "cpanel"])
        pd["m"], pd["n"] = rng.choice([(2, 2), (2, 3), (3, 2), (3, 3)])
        pd["y1"], pd["y2"] = rat(0), pd["b"]
        pd["Ncte"] = [rat(0)] * 3
        if k % 2 == 0:
            pd["ortho"] = True
        else:
            pd.pop("ortho", None)
        for r in (dict(q="k0", size=0, row0=0, col0=0), dict(q="k0", size=0, row0=0, col0=0, num=[pd["m"] + 3, pd["n"] + 3])):
            try:
                obs, ok = panelmat.observe(pd, r)
                out.append((pd, r, obs, ok))
            except Exception as ex:
                bad.append(("k0 at the undeformed state raised %s: %s" % (type(ex).__name__, str(ex)[:200]), dict(pd=pd, req=r)))
    return out, bad


def run(tier, seed, build):
    extra, bad = linear_link(tier, seed)
    return panelmat.run_prop("C08", ["fint", "kT"], tier, seed, build, nrand_quick=16, nrand_thorough=200,
                             what="the gradient / Hessian of the quartic strain energy", extra_observed=extra,
                             extra_violations=bad)


def replay(path, build):
    return panelmat.replay_file("C08", path, build)
