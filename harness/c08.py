"""C08 (DESIGN.md section 5): internal force = energy gradient, tangent = its exact Jacobian (PanelNL.tla)."""
import panelmat


def run(tier, seed, build):
    return panelmat.run_prop("C08", ["fint", "kT"], tier, seed, build, nrand_quick=16, nrand_thorough=200,
                             what="the gradient / Hessian of the quartic strain energy")


def replay(path, build):
    return panelmat.replay_file("C08", path, build)
