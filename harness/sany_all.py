"""Parse every TLA+ module of /verif/spec with SANY."""
import os
import shutil
import subprocess
import sys
sys.path.insert(0, os.path.dirname(os.path.abspath(__file__)))
from common import tla_modules, BUILD, TLAJAR


def main():
    d = os.path.join(BUILD, "tlc", "sany-%d" % os.getpid())
    os.makedirs(d, exist_ok=True)
    bad = []
    try:
        mods = tla_modules()
        for f, p in mods.items():
            shutil.copy(p, os.path.join(d, f))
        roots = [f for f in mods if f.startswith(("MC_", "Trace_")) or f in ("ArithSelfTest.tla",)]
        for f in sorted(roots):
            r = subprocess.run(["java", "-cp", TLAJAR, "tla2sany.SANY", f], cwd=d, capture_output=True, text=True)
            if r.returncode != 0 or "*** Errors" in r.stdout or "Fatal" in r.stdout:
                bad.append(f)
                print(r.stdout[-1500:])
    finally:
        shutil.rmtree(d, ignore_errors=True)
    print("SANY: %d root modules parsed, %d with errors" % (len(roots), len(bad)))
    return 1 if bad else 0


if __name__ == "__main__":
    sys.exit(main())
