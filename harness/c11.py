"""C11 (DESIGN.md section 5): recovered displacement / strain / stress fields."""
import panelmat


def run(tier, seed, build):
    return panelmat.run_prop("C11", ["uvw", "strain", "stress"], tier, seed, build,
                             what="the Ritz series / Donnell kinematics the specification evaluates")
