"""C11 (DESIGN.md section 5): recovered displacement / strain / stress fields."""
import random

import numpy as np

from common import Fraction, dyadic, rat
import panelmat
from panelmat import fr


exact = panelmat.exact


def assembly_groups(rng, n_cases):
    """PanelAssembly.uvw/strain/stress: each panel of a group must be evaluated with its own slice of the global
    amplitude vector.  Returns trace groups [define(panel), eval(global c + offset)]"""
    from compmech.panel.assembly import PanelAssembly
    groups, meta = [], []
    for case in range(n_cases):
        pds = []
        for k in range(3):
            pd = panelmat.random_pd(rng, ["plate", "cpanel"])
            pd.update(m=rng.randint(1, 3), n=rng.randint(1, 3), y1=rat(0), Ncte=[rat(0)] * 3)
            pd["y2"] = pd["b"]
            pds.append(pd)
        panels = [panelmat.build_panel(pd) for pd in pds]
        for p, g in zip(panels, ["a", "b", "a"]):
            p.group = g
            p.calc_k0(silent=True)
        ass = PanelAssembly(panels)
        size = ass.get_size()
        cg = [Fraction(rng.randint(-16, 16), 32) for _ in range(size)]
        c = np.array([float(v) for v in cg])
        ass.out_num_cores = rng.choice([1, 2, 3, 4, 7])
        for q in ("uvw", "strain", "stress"):
            NL = rng.random() < 0.5
            gx, gy = rng.choice([(5, 3), (3, 2), (2, 5)])
            if q == "uvw":
                res = ass.uvw(c, "a", gridx=gx, gridy=gy)
            elif q == "strain":
                res = ass.strain(c, "a", gridx=gx, gridy=gy, NLterms=NL)
            else:
                res = ass.stress(c, "a", gridx=gx, gridy=gy, NLterms=NL)
            members = [k for k in range(3) if panels[k].group == "a"]
            ok = all(len(res[key]) == len(members) for key in res)
            for pos, k in enumerate(members):
                xs = np.asarray(res["x"][pos], dtype=float).ravel()
                ys = np.asarray(res["y"][pos], dtype=float).ravel()
                comps = [np.asarray(res[key][pos], dtype=float).ravel() for key in panelmat.FIELD_KEYS[q]]
                req = dict(q=q, size=0, row0=0, col0=0, c=[rat(v) for v in cg], coff=panels[k].col_start,
                           pts=[[exact(x), exact(y)] for x, y in zip(xs, ys)])
                if q != "uvw":
                    req["NL"] = NL
                obs = [[dyadic(comp[i]) for comp in comps] for i in range(len(xs))]
                groups.append((pds[k], req, obs, ok))
                meta.append("assembly case %d panel %d %s" % (case, k, q))
    return groups, meta


def run(tier, seed, build):
    rng = random.Random(seed + 11)
    extra, crashes = [], []
    for fn, n in ((assembly_groups, 2 if tier == "quick" else 20), (bay_groups, 2 if tier == "quick" else 12)):
        try:
            res = fn(rng, n)
            extra += res[0] if isinstance(res, tuple) else res
        except Exception as ex:          # the real code raised while recovering a field: that is a verdict, not a crash
            crashes.append(("%s: field recovery raised %s: %s" % (fn.__name__, type(ex).__name__, str(ex)[:200]),
                            dict(where=fn.__name__)))
    return panelmat.run_prop("C11", ["uvw", "strain", "stress"], tier, seed, build,
                             what="the Ritz series / Donnell kinematics the specification evaluates",
                             extra_observed=extra, extra_violations=crashes)


pd_from_panel = panelmat.pd_from_panel


def bay_groups(rng, n_cases):
    """StiffPanelBay.uvw_skin / uvw_stiffener: the skin uses the first num*m*n amplitudes, each 2-D stiffener region
    its own slice at the running offset (blade flanges first, then (base, flange) of each T stiffener)"""
    from compmech.stiffpanelbay import StiffPanelBay
    out = []
    lp = (10., 2., 0.25, 1., 1., 0.5)
    for case in range(n_cases):
        b = StiffPanelBay()
        b.a, b.b, b.m, b.n = 2., 1.5, 3, rng.choice([2, 3])
        b.stack, b.plyt, b.laminaprop, b.mu = [0, 90], 0.125, lp, 3.
        b.model = "plate_clt_donnell_bardell"
        for k, v in dict(u1tx=1, u2tx=0, v1ty=1, w1rx=1, w2rx=1, w1ry=1, w2ry=0, w1tx=1).items():
            setattr(b, k, float(v))
        cuts = [0., 0.5, 0.75, 1.0, b.b]          # stiffeners sit on skin-panel boundaries
        for y1, y2 in zip(cuts[:-1], cuts[1:]):
            b.add_panel(y1=y1, y2=y2)
        nblade = rng.choice([1, 2])
        nt = 1 if case % 2 == 1 else rng.choice([0, 1])

        def blades():
            for k in range(nblade):
                b.add_bladestiff2d(ys=0.5 + 0.25 * k, fstack=[0, 90], fplyt=0.125, flaminaprop=lp, bf=0.25 + 0.125 * k,
                                   mf=2, nf=2 + k)

        def tees():
            for k in range(nt):
                b.add_tstiff2d(ys=1.0, bb=0.5, bf=0.25, bstack=[0, 90], bplyt=0.125, blaminaprop=lp,
                               fstack=[90, 0], fplyt=0.125, flaminaprop=lp, mb=2, nb=2, mf=2, nf=3)
        # both orders of insertion: the amplitude layout is blades first, then T stiffeners, whatever the order of addition
        if case % 2 == 1:
            tees()
            blades()
        else:
            blades()
            tees()
        # descriptions from what was asked for (before any evaluation can touch the objects)
        pdskin = pd_from_panel(b.panels[0])
        pdskin["y2"] = pdskin["b"]
        region_pds = {}
        for si, s in enumerate(b.stiffeners):
            for region, pan in ([("flange", s.flange)] if s in b.bladestiff2ds else [("base", s.base), ("flange", s.flange)]):
                region_pds[(si, region)] = pd_from_panel(pan, model="plate")
        b.calc_k0(silent=True)
        size = b.get_size()
        cg = [Fraction(rng.randint(-16, 16), 32) for _ in range(size)]
        c = np.array([float(v) for v in cg])
        skin = 3 * b.m * b.n
        b.out_num_cores = rng.choice([1, 3, 4])

        def record(pd, coff, res, xs, ys, label):
            comps = [np.asarray(a, dtype=float).ravel() for a in res]
            req = dict(q="uvw", size=0, row0=0, col0=0, c=[rat(v) for v in cg], coff=coff,
                       pts=[[exact(x), exact(y)] for x, y in zip(xs, ys)])
            out.append((pd, req, [[dyadic(cp[i]) for cp in comps] for i in range(len(xs))], True))

        xs = np.array([0., 0.5, 2., 1.25, 0.75])
        ys = np.array([0., 0.375, 1.5, 0.75, 1.125])
        record(pdskin, 0, b.uvw_skin(c, xs=xs, ys=ys), xs, ys, "skin")
        # layout rule (what calc_k0 / calc_kM place): skin, flanges of all 2-D blades, then base and flange of each T
        offs, off = {}, skin
        for s in b.bladestiff2ds:
            offs[(id(s), "flange")] = off
            off += s.flange.get_size()
        for s in b.tstiff2ds:
            offs[(id(s), "base")] = off
            off += s.base.get_size()
            offs[(id(s), "flange")] = off
            off += s.flange.get_size()
        for si, s in enumerate(b.stiffeners):
            if s in b.bladestiff2ds:
                regions = [("flange", s.flange)]
            else:
                regions = [("base", s.base), ("flange", s.flange)]
            for region, pan in regions:
                xs2 = np.array([0., 1., 2., 0.25])
                ys2 = np.array([0., pan.b, pan.b / 2, pan.b / 4])
                res = b.uvw_stiffener(c, si, region=region, xs=xs2, ys=ys2)
                record(region_pds[(si, region)], offs[(id(s), region)], res, xs2, ys2, "stiffener %d %s" % (si, region))
    return out


def replay(path, build):
    return panelmat.replay_file("C11", path, build)
