"""C11 (DESIGN.md section 5): recovered displacement / strain / stress fields."""
import random

import numpy as np

from common import Fraction, dyadic, rat
import panelmat
from panelmat import fr


def exact(x):
    n, d = float(x).as_integer_ratio()
    return rat(Fraction(n, d))


def assembly_groups(rng, n_cases):
    """PanelAssembly.uvw/strain/stress: each panel of a group must be evaluated with its own slice of the global
    amplitude vector.  Returns trace groups [define(panel), eval(global c + offset)]"""
    from compmech.panel.assembly import PanelAssembly
    groups, meta = [], []
    for case in range(n_cases):
        pds = []
        for k in range(3):
            pd = panelmat.random_pd(rng, ["plate", "cpanel"])
            pd.update(m=rng.randint(1, 3), n=rng.randint(1, 3), y1=rat(0), Ncte=[rat(0)] * 3)
            pd["y2"] = pd["b"]
            pds.append(pd)
        panels = [panelmat.build_panel(pd) for pd in pds]
        for p, g in zip(panels, ["a", "b", "a"]):
            p.group = g
            p.calc_k0(silent=True)
        ass = PanelAssembly(panels)
        size = ass.get_size()
        cg = [Fraction(rng.randint(-16, 16), 32) for _ in range(size)]
        c = np.array([float(v) for v in cg])
        ass.out_num_cores = rng.choice([1, 2, 3, 4, 7])
        for q in ("uvw", "strain", "stress"):
            NL = rng.random() < 0.5
            gx, gy = rng.choice([(5, 3), (3, 2), (2, 5)])
            if q == "uvw":
                res = ass.uvw(c, "a", gridx=gx, gridy=gy)
            elif q == "strain":
                res = ass.strain(c, "a", gridx=gx, gridy=gy, NLterms=NL)
            else:
                res = ass.stress(c, "a", gridx=gx, gridy=gy, NLterms=NL)
            members = [k for k in range(3) if panels[k].group == "a"]
            ok = all(len(res[key]) == len(members) for key in res)
            for pos, k in enumerate(members):
                xs = np.asarray(res["x"][pos], dtype=float).ravel()
                ys = np.asarray(res["y"][pos], dtype=float).ravel()
                comps = [np.asarray(res[key][pos], dtype=float).ravel() for key in panelmat.FIELD_KEYS[q]]
                req = dict(q=q, size=0, row0=0, col0=0, c=[rat(v) for v in cg], coff=panels[k].col_start,
                           pts=[[exact(x), exact(y)] for x, y in zip(xs, ys)])
                if q != "uvw":
                    req["NL"] = NL
                obs = [[dyadic(comp[i]) for comp in comps] for i in range(len(xs))]
                groups.append((pds[k], req, obs, ok))
                meta.append("assembly case %d panel %d %s" % (case, k, q))
    return groups, meta


def run(tier, seed, build):
    rng = random.Random(seed + 11)
    extra, _ = assembly_groups(rng, 2 if tier == "quick" else 20)
    return panelmat.run_prop("C11", ["uvw", "strain", "stress"], tier, seed, build,
                             what="the Ritz series / Donnell kinematics the specification evaluates",
                             extra_observed=extra)
