"""The assembly builder functions of compmech/panel/assembly (Layout.tla): an extra phase of C13.

Each builder is called with seeded random arguments; the panels' groups / global positions and the connection list it
produced are recorded (the T-panel functions hand their list to PanelAssembly.calc_k0, where it is captured) and TLC
judges the finished layout on Trace_Layout: geometric coincidence of every connection, completeness of the seams,
stacking, and equality with the layout the specification's builder draws for the same arguments."""
import random

import numpy as np

from common import dyadic, run_tlc, validate_trace

LAM = (142.5e9, 8.7e9, 0.28, 5.1e9, 5.1e9, 5.1e9)


def enc_layout(panels, conns, perim, ref=None, defect=False):
    idx = {id(p): k + 1 for k, p in enumerate(panels)}
    ps = [dict(grp=str(p.group), x0=dyadic(float(p.x0)), y0=dyadic(float(p.y0)), a=dyadic(float(p.a)), b=dyadic(float(p.b)))
          for p in panels]
    cs = []
    for c in conns:
        kind = c["func"]
        if kind.endswith("ycte"):
            pos = (c["ycte1"], c["ycte2"])
        elif kind.endswith("xcte"):
            pos = (c["xcte1"], c["xcte2"])
        else:
            pos = (0., 0.)
        cs.append(dict(p1=idx[id(c["p1"])], p2=idx[id(c["p2"])], kind=kind, pos1=dyadic(float(pos[0])), pos2=dyadic(float(pos[1]))))
    e = dict(ev="layout", panels=ps, conns=cs, perim=dyadic(float(perim)), defect=bool(defect))
    if ref:
        e["ref"] = ref
    return e


class CaptureConn:
    """records the connection list a builder hands to PanelAssembly.calc_k0"""

    def __enter__(self):
        from compmech.panel.assembly import PanelAssembly
        self.cls = PanelAssembly
        self.orig = PanelAssembly.calc_k0
        self.seen = []
        cap = self

        def calc_k0(self_, conn=None, *a, **k):
            if conn is not None and not cap.seen:
                cap.seen.append(list(conn))
            return cap.orig(self_, conn, *a, **k)
        PanelAssembly.calc_k0 = calc_k0
        return self

    def __exit__(self, *a):
        self.cls.calc_k0 = self.orig


def layouts(rng, tier):
    from compmech.panel.assembly.cylinder import create_cylinder_assy
    from compmech.panel.assembly.cylinder_blade_stiffened import create_cylinder_blade_stiffened
    from compmech.panel.assembly.tstiff2d_1stiff_freq import tstiff2d_1stiff_freq
    from compmech.panel.assembly.tstiff2d_1stiff_compression import tstiff2d_1stiff_compression
    from compmech.panel.assembly.tstiff2d_1stiff_flutter import tstiff2d_1stiff_flutter
    out = []
    ns = list(range(2, 9)) if tier == "quick" else list(range(2, 17))
    for n in ns:
        r, h = rng.uniform(0.2, 3.), rng.uniform(0.3, 4.)
        assy, conns = create_cylinder_assy(h, r, [0, 45, -45, 90], 1.25e-4, LAM, npanels=n, m=2, n=2)
        out.append(("create_cylinder_assy(npanels=%d)" % n,
                    enc_layout(assy.panels, conns, 2 * np.pi * r, ref=dict(kind="ring", n=n))))
        widths = [rng.uniform(0.01, 0.05) for _ in range(n)]
        assy, conns = create_cylinder_blade_stiffened(h, r, [0, 90], [[0, 90, 0]] * n, widths, 1.25e-4, LAM, npanels=n, m=2, n=2)
        out.append(("create_cylinder_blade_stiffened(npanels=%d)" % n,
                    enc_layout(assy.panels, conns, 2 * np.pi * r, ref=dict(kind="ringblades", n=n))))
    nt = 3 if tier == "quick" else 12
    for k in range(nt):
        a, b = rng.uniform(0.5, 2.), rng.uniform(0.4, 1.)
        bb = rng.uniform(0.05, 0.15) * b
        ys = rng.uniform(bb / 2 + 0.1 * b, b - bb / 2 - 0.1 * b)
        bf = rng.uniform(0.02, 0.08)
        defect = 0. if k % 2 == 0 else rng.uniform(0.1, 0.4)
        common = dict(a=a, b=b, ys=ys, bb=bb, bf=bf, defect_a=defect, mu=1.3e3, plyt=1.25e-4, laminaprop=LAM,
                      stack_skin=[0, 45, -45, 90, 90, -45, 45, 0], stack_base=[0, 90, 0], stack_flange=[0, 90, 0, 90],
                      r=(None if k % 3 else rng.uniform(1., 5.)), m=3, n=3)
        fn, extra = [(tstiff2d_1stiff_freq, {}),
                     (tstiff2d_1stiff_compression, dict(Nxx_skin=-1., Nxx_base=-1., Nxx_flange=-1., run_static_case=False)),
                     (tstiff2d_1stiff_flutter, dict(air_speed=800., rho_air=1.2, Mach=2., speed_sound=340.,
                                                    Nxx_skin=-1., Nxx_base=-1., Nxx_flange=-1., run_static_case=False))][k % 3]
        with CaptureConn() as cap:
            try:
                res = fn(**dict(common, **extra))
            except Exception as ex:
                if not cap.seen:
                    raise
                res = None            # the analysis after the assembly is not the subject here
        assy = res[0] if res is not None else None
        if assy is None:
            continue
        out.append(("%s(defect_a=%.2f)" % (fn.__name__, defect),
                    enc_layout(assy.panels, cap.seen[0], 0., ref=dict(kind="tpanel"), defect=defect > 0)))
    return out


def phase(rep, tier, seed):
    rng = random.Random(seed + 911)
    mc = run_tlc("c13-layout-mc", "MC_Layout", "SPECIFICATION MSpec\nCONSTANTS\nMaxN = %d\nINVARIANT FinishedOK\nINVARIANT EveryConnNeeded\n"
                 "INVARIANT NotEarly\nCHECK_DEADLOCK FALSE\n" % (4 if tier == "quick" else 6), workers=8, timeout=1800)
    rep.add_tlc("MC_Layout", mc)
    if not mc.ok:
        rep.machinery("TLC on MC_Layout failed: " + mc.errors())
        return
    import contextlib
    import io
    try:
        with contextlib.redirect_stdout(io.StringIO()):      # the builders narrate their analyses
            items = layouts(rng, tier)
    except Exception as ex:
        rep.violation("an assembly builder raised %s: %s" % (type(ex).__name__, str(ex)[:300]), dict(builder="layout"))
        return
    events = []
    for k, (name, e) in enumerate(items):
        e["id"] = k
        events.append(e)
        rep.nontrivial(("layout", name))
    verdicts, results, problems = validate_trace("c13-layout-tr", "Trace_Layout", "CONSTANTS\n", events, timeout=1800)
    for res in results:
        rep.add_tlc("Trace_Layout", res)
    for p in problems:
        rep.machinery(p)
    for k, (name, e) in enumerate(items):
        v = verdicts.get(k)
        if v and v[0] != "ok":
            rep.violation("%s: the returned panels / connection list violate %s" % (name, str(v[1])[:200]),
                          dict(builder=name, layout={kk: vv for kk, vv in e.items() if kk != "id"}))
    rep.cov["traces_validated_against_impl"] += len(events)
    rep.cov["evaluations"] += len(events)
    rep.cov["layouts"] = len(events)
