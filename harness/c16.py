"""C16 (PARTIAL) - complete-shell LINEAR matrices of compmech/conecyl: the clauses that do not need exact kernel values.

Decided (spec/ctrl/ShellLaws.tla; TLC on MC_ShellLaws and on Trace_ShellLaws):
  * composition, as conecyl.py performs it, from the kernels called with the argument lists the specification prescribes
    (k0 = Sym(kernel + k0edges), kG0 / kG0_Fc / kG0_P / kG0_T = Sym(kernel), F = ABD | ABDE with K | F_reuse | isotropic,
    orthotropic zeroing, Fc = Nxxtop[0] 2 pi r2 cos(alpha)), partition k0uu / k0uk (ShellPartition's operators);
  * relations between observed matrices: k0 symmetric, probe-positive (necessary condition only), dedicated cylinder
    kernels = cone kernels at zero angle (direct kernel calls and the public route alphadeg = 1e-300), iso_ short-cuts =
    general model with the isotropic laminate, kG0 additive and homogeneous in (Fc, P, T), combined-load split adds up,
    edge restraints enter affinely, the same definition gives the same matrices whatever the object's history.
NOT decided: that k0 is the Hessian of the strain energy of the package's own linear strain field; positive
semi-definiteness beyond the probes; any absolute kernel value."""
import copy
import json
import random
import time
import warnings

import numpy as np

import shelllaws_common as sl
from shelllaws_common import (Study, Report, base_def, build_cc, linear_event, kernel_event, load_plans, judge, quiet, dy,
                              is_cyl, short_def, LAMS, LAMINA, LAMINA2, RESTRAINTS)

PROP = "C16"
TINY = 1e-300          # alphadeg that makes is_cylinder False while sin(alpha) = 1.7e-302, r(x) = r2 exactly
NL_MODELS = ("clpt_donnell_bc1", "clpt_donnell_bc3", "fsdt_donnell_bc1", "clpt_sanders_bc2")


def lam_of(name, iso=False):
    if iso:
        return dict(E11=71.5e3, nu=0.25, h=0.5)
    return dict(stack=list(LAMS[name]), plyt=0.125, laminaprop=list(LAMINA))


def restr_for(model, value):
    _, plans, _, _ = load_plans(_TIER[0])
    args = plans[(model, True, 0, False, True)]["edges"]["args"]
    # a different value for every restraint (bottom / top, u / v / w / rotations), so that a swapped argument shows
    return {a: value * (1. + RESTRAINTS.index(a) / 8.) for a in args if a in RESTRAINTS}


_TIER = ["quick"]


# ----------------------------------------------------------------------------------------------------
# studies (recipe -> Study)

def study_linear(rc, plans, rng):
    """fresh object; a second fresh object through calc_k0; the first object again after other public queries"""
    d, clc = rc["d"], rc["clc"]
    st = Study(rc)
    cc = build_cc(d)
    st.add(linear_event(cc, d, clc, "fresh", plans, rng))
    if not clc:
        st.add(linear_event(build_cc(d), d, 0, "fresh:calc_k0", plans, rng, via="calc_k0", with_kern=False))
    if rc.get("requery") and sl.package()[1].db[d["model"]]["num0"] == 3:      # the shells with the common displacement field
        n = cc.get_size()
        c = np.array(sl.rand_vec(rng, n - len(cc.excluded_dofs)))
        with quiet():
            try:
                cc.calc_fext(silent=True)
                cc.uvw(c, xs=np.array([0.25 * d["L"]]), ts=np.array([0.5]))
                if d["model"] in NL_MODELS:
                    cc.calc_kT(c, silent=True)
                    cc.calc_fint(c, silent=True)
            except NotImplementedError:
                pass
        st.add(linear_event(cc, d, clc, "requery", plans, rng, with_kern=False))
    return st


def study_cylcone(rc, plans, rng):
    """the model's cylinder kernels against its cone kernels at alpharad = 0 (same other arguments), called directly following the
    two plans; then the public route: alphadeg = 0 against alphadeg = 1e-300"""
    d = rc["d"]
    st = Study(rc)
    cc = build_cc(d)
    e0 = linear_event(cc, d, 0, "fresh", plans, rng, with_kern=False)
    pc = plans[(d["model"], True, 0, False, True)]
    pk = plans[(d["model"], False, 0, False, True)]
    Fp = sl.planned_F(cc, d, pc["F"], pc["orthoZero"])
    ctx = dict(F=Fp, Fc=cc.Nxxtop[0] * (2 * np.pi * cc.r2 * cc.cosa), alpharad=0.0)
    common_args = [sl.enc_any(x if not isinstance(x, np.ndarray) else x.tolist())
                   for x in (d["model"], cc.r2, cc.L, Fp, cc.m1, cc.m2, cc.n2, ctx["Fc"], cc.P, cc.T)]
    for which, ca, cb in (("k0", pc["k0"], pk["k0"]), ("kG0", pc["kG"][0], pk["kG"][0])):
        A = sl.call_kernel(ca, cc, ctx)
        B = sl.call_kernel(cb, cc, ctx)
        ia = st.add(kernel_event(d, ca["fn"], A, [which] + common_args))
        st.add(kernel_event(d, cb["fn"], B, [which] + common_args), rel=[dict(law="CylinderIsConeAtZero", refs=[ia])])
    i0 = st.add(e0)
    d1 = dict(d, alphadeg=TINY)
    st.add(linear_event(build_cc(d1), d1, 0, "fresh", plans, rng, with_kern=False), rel=[dict(law="CylinderIsConeAtZero", refs=[i0])])
    return st


def study_iso(rc, plans, rng):
    """the general model fed the isotropic laminate, then the iso_ short-cut"""
    d = rc["d"]
    lam = d["lam"]
    G = lam["E11"] / (2 * (1 + lam["nu"]))
    dg = dict(d, model=d["model"][4:], lam=dict(stack=[0.], plyt=lam["h"], laminaprop=[lam["E11"], lam["E11"], lam["nu"], G, G, G]))
    st = Study(rc)
    ig = st.add(linear_event(build_cc(dg), dg, 0, "fresh", plans, rng, with_kern=False))
    st.add(linear_event(build_cc(d), d, 0, "fresh", plans, rng), rel=[dict(law="IsoIsGeneral", refs=[ig])])
    return st


def study_loads(rc, plans, rng):
    d, la, lb = rc["d"], rc["la"], rc["lb"]
    st = Study(rc)

    def ev(loads, clc=0):
        dd = dict(d, Fc=loads[0], P=loads[1], T=loads[2])
        return linear_event(build_cc(dd), dd, clc, "fresh", plans, rng, with_kern=False)
    ia = st.add(ev(la))
    ib = st.add(ev(lb))
    st.add(ev([la[k] + lb[k] for k in range(3)]), rel=[dict(law="KG0LinearInLoads", refs=[ia, ib])])
    st.add(ev([rc["factor"] * x for x in la]), rel=[dict(law="KG0LinearInLoads", refs=[ia], factor=rc["factor"])])
    dd = dict(d, Fc=la[0], P=la[1], T=la[2])
    st.add(linear_event(build_cc(dd), dd, rc["clc"], "fresh", plans, rng), rel=[dict(law="LoadSplitAddsUp", refs=[ia])])
    return st


def study_edges(rc, plans, rng):
    d, k = rc["d"], rc["k"]
    st = Study(rc)
    ids = []
    for mult in (0., 1., 2.):
        dd = dict(d, restr=restr_for(d["model"], mult * k))
        rel = [dict(law="EdgeRestraintsAffine", refs=list(ids))] if len(ids) == 2 else []
        ids.append(st.add(linear_event(build_cc(dd), dd, 0, "fresh", plans, rng, with_kern=(mult == 1.)), rel=rel))
    return st


def study_change(rc, plans, rng):
    """a fresh object with definition d; an object first defined and evaluated with ONE aspect different, re-defined to d and
    evaluated again: the same definition must give the same matrices"""
    d, d1, aspect = rc["d"], rc["d1"], rc["aspect"]
    st = Study(rc)
    st.add(linear_event(build_cc(d), d, rc["clc"], "fresh", plans, rng, with_kern=False))
    cc = build_cc(d1)
    with quiet():
        cc._calc_linear_matrices(combined_load_case=(rc["clc"] or None))
    sl.set_aspect(cc, aspect, d)
    st.add(linear_event(cc, d, rc["clc"], "changed:" + aspect, plans, rng, with_kern=False))
    return st


def study_freuse(rc, plans, rng):
    """the constitutive matrix handed in through F_reuse (with and without the orthotropic switch); the caller's array is logged
    before and after"""
    d = rc["d"]
    st = Study(rc)
    Fobj = np.array(d["F_reuse"], dtype=float)
    st.add(linear_event(build_cc(d, F_reuse_obj=Fobj), d, 0, "freuse:ortho" if d["ortho"] else "freuse", plans, rng, F_reuse_obj=Fobj))
    return st


BUILDERS = dict(linear=study_linear, cylcone=study_cylcone, iso=study_iso, loads=study_loads, edges=study_edges,
                change=study_change, freuse=study_freuse)


# ----------------------------------------------------------------------------------------------------
# recipes

def geom(rng):
    return dict(r2=float(rng.choice([128., 200., 256., 400.])), L=float(rng.choice([96., 256., 384., 640.])))


def recipes(tier, seed, reqs):
    rng = random.Random(seed * 13 + 5)
    out = []
    lat = [q for q in reqs if q["study"] in ("linear", "cylcone", "iso", "loads", "edges")]
    cap = 260 if tier == "quick" else 5000
    if len(lat) > cap:
        keep = [q for q in lat if q["study"] != "linear"]
        lin = [q for q in lat if q["study"] == "linear"]
        lat = keep + rng.sample(lin, max(0, cap - len(keep)))
    for q in lat:
        m = q["model"]
        iso = m.startswith("iso_")
        o = q.get("ord", [2, 2, 2])
        d = base_def(m, m1=o[0], m2=o[1], n2=o[2], alphadeg=float(q.get("alpha", 0)), lam=lam_of(q.get("lam", "unsym"), iso),
                     restr=restr_for(m, float(rng.choice([0., 512., 1e8]))), **geom(rng))
        if q["study"] == "linear":
            d.update(Fc=dy(rng, -4000, 4000, 2), P=dy(rng, -1, 1, 5), T=dy(rng, -500, 500, 2), pdC=rng.random() < 0.3, pdT=rng.random() < 0.5,
                     ortho=rng.random() < 0.25 and not iso)
            out.append(dict(kind="linear", d=d, clc=q["clc"], requery=rng.random() < 0.5))
        elif q["study"] == "cylcone":
            d.update(alphadeg=0., Fc=dy(rng, -4000, 4000, 2), P=dy(rng, -1, 1, 5), T=dy(rng, -500, 500, 2), pdT=False)
            out.append(dict(kind="cylcone", d=d))
        elif q["study"] == "iso":
            out.append(dict(kind="iso", d=d))
        elif q["study"] == "loads":
            out.append(dict(kind="loads", d=dict(d, pdT=False), la=[dy(rng, -4000, 4000, 2), dy(rng, -1, 1, 5), dy(rng, -500, 500, 2)],
                            lb=[dy(rng, -4000, 4000, 2), dy(rng, -1, 1, 5), dy(rng, -500, 500, 2)], factor=rng.choice([2, -3]),
                            clc=rng.choice([1, 2, 3])))
        elif q["study"] == "edges":
            out.append(dict(kind="edges", d=d, k=float(rng.choice([256., 4096., 2.0**20]))))
    # single-aspect re-definitions on one object
    alt = dict(r2=300., L=448., alphadeg=35., plyt=0.25, laminaprop=list(LAMINA2), stack=[30., -30., 0., 90.], stacklen=[0., 90.],
               Fc=-1500., P=0.75, T=125., model=None, orders=(3, 2, 2), K=1., s=41, kuBot=1024., kphixTop=2048., ni_num_cores=3, nx=31)
    models = ["clpt_donnell_bc3", "fsdt_donnell_bc2", "clpt_sanders_bc1"] if tier == "quick" else \
        ["clpt_donnell_bc1", "clpt_donnell_bc3", "clpt_donnell_bc4", "fsdt_donnell_bc2", "fsdt_donnell_bcn", "clpt_sanders_bc1", "clpt_sanders_bc4"]
    for mi, m in enumerate(models):
        for ai, (aspect, v) in enumerate(sorted(alt.items())):
            if tier == "quick" and (mi + ai) % 2 and aspect not in ("plyt", "Fc"):
                continue
            d = base_def(m, alphadeg=float(rng.choice([0., 20.])), Fc=2000., P=0.25, T=50., pdT=False, restr=restr_for(m, 4096.), **geom(rng))
            d1 = copy.deepcopy(d)
            if aspect in ("plyt", "laminaprop"):
                d1["lam"][aspect] = v
            elif aspect in ("stack", "stacklen"):
                d1["lam"]["stack"] = v
            elif aspect in RESTRAINTS:
                if aspect not in d["restr"]:
                    continue
                d1["restr"][aspect] = v
            elif aspect == "model":
                d1["model"] = {"clpt_donnell_bc3": "clpt_sanders_bc3", "fsdt_donnell_bc2": "fsdt_donnell_bc4", "clpt_sanders_bc1": "clpt_donnell_bc1",
                               "clpt_donnell_bc1": "clpt_sanders_bc1", "clpt_donnell_bc4": "clpt_sanders_bc4", "fsdt_donnell_bcn": "fsdt_sanders_bcn",
                               "clpt_sanders_bc4": "clpt_donnell_bc4"}[m]
                d1["restr"] = restr_for(d1["model"], 4096.)
                d["restr"] = dict(d1["restr"])
            elif aspect == "orders":
                d1["m1"], d1["m2"], d1["n2"] = v
            else:
                d1[aspect] = v
            out.append(dict(kind="change", d=d, d1=d1, aspect=aspect, clc=rng.choice([0, 1])))
    # F_reuse
    for m in (["clpt_donnell_bc1", "fsdt_donnell_bc3"] if tier == "quick" else ["clpt_donnell_bc1", "clpt_sanders_bc2", "fsdt_donnell_bc3", "fsdt_donnell_bcn"]):
        for ortho in (False, True):
            n = 8 if m.startswith("fsdt") else 6
            A = np.array([[rng.randint(-8, 8) for _ in range(n)] for _ in range(n)], dtype=float)
            F = A.dot(A.T) * 64. + np.eye(n) * 1024.
            if n == 8:
                F[:6, 6:] = 0.
                F[6:, :6] = 0.
            d = base_def(m, alphadeg=float(rng.choice([0., 25.])), F_reuse=F.tolist(), ortho=ortho, Fc=1000., **geom(rng))
            out.append(dict(kind="freuse", d=d))
    # seeded definitions off the lattice: other angles, orders (a few moderately large), laminates, shear factor
    nrand = 30 if tier == "quick" else 1200
    _, plans, _, _ = load_plans(tier)
    allm = sorted({k[0] for k in plans})
    for k in range(nrand):
        m = rng.choice(allm)
        iso = m.startswith("iso_")
        big = (k % 15 == 0)
        o = (6, 4, 4) if big else (rng.randint(1, 4), rng.randint(1, 3), rng.randint(1, 3))
        lam = lam_of("unsym", iso)
        if not iso:
            lam = dict(stack=[float(rng.choice([0, 15, 30, 45, 60, 75, 90, -45, -30])) for _ in range(rng.randint(1, 5))],
                       plyt=rng.choice([0.125, 0.25, 0.1875]), laminaprop=list(rng.choice([LAMINA, LAMINA2])))
        d = base_def(m, m1=o[0], m2=o[1], n2=o[2], alphadeg=float(rng.choice([0, 0, 5, 15, 25, 40, 50, 60])), lam=lam,
                     restr=restr_for(m, float(rng.choice([0., 64., 1e6, 1e8]))), Fc=dy(rng, -4000, 4000, 2), P=dy(rng, -1, 1, 5),
                     T=dy(rng, -500, 500, 2), pdC=rng.random() < 0.3, pdT=rng.random() < 0.5, ortho=rng.random() < 0.2 and not iso,
                     K=rng.choice([5 / 6., 1., 0.75]), geo_via=rng.choice(["r2,L", "r2,H", "r1,L"]), **geom(rng))
        out.append(dict(kind="linear", d=d, clc=rng.choice([0, 0, 1, 2, 3]), requery=rng.random() < 0.5))
    return out


def describe(s, k, e, laws, v):
    rc = s.recipe
    d = rc["d"]
    return ("%s study, step %d (%s, route %s) on %s: law(s) %s violated: %s"
            % (rc["kind"], k + 1, e["op"] if e["op"] != "kernel" else e["fn"], e.get("route"), short_def(d), ", ".join(laws), str(v[1])[:300]))


def build_all(rcs, plans, rep, seed, i0=0):
    studies = []
    for i, rc in enumerate(rcs):
        rng = random.Random(seed * 1000003 + i0 + i)
        try:
            st = BUILDERS[rc["kind"]](rc, plans, rng)
        except Exception as ex:
            import traceback
            rep.violation("%s study on %s: the package raised %s: %s" % (rc["kind"], short_def(rc["d"]), type(ex).__name__, str(ex)[:300]),
                          dict(recipe=rc, raised=traceback.format_exc()[-1200:]))
            continue
        studies.append(st)
        rep.nontrivial((rc["kind"], rc["d"]["model"], rc["d"]["alphadeg"], rc["d"]["m1"], rc["d"]["m2"], rc["d"]["n2"], rc.get("clc"),
                        rc.get("aspect"), json.dumps(rc["d"]["lam"], sort_keys=True)))
    return studies


def run(tier, seed, build):
    warnings.filterwarnings("ignore")
    _TIER[0] = tier
    rep = Report(PROP, tier, seed, level="other")
    timer = {}
    t0 = time.time()
    sl.package()
    try:
        reqs, plans, nlplans, res = load_plans(tier)
    except Exception as ex:
        rep.machinery(str(ex)[:2000])
        return rep.finish()
    rep.add_tlc("MC_ShellLaws/EmitSpec", res)
    # the bounded model of the laws (toy shell: composition, partition, load linearity, split, affine restraints) and its mutants
    import concurrent.futures as cf
    with cf.ThreadPoolExecutor(max_workers=2) as ex:
        f1 = ex.submit(sl.model_check, rep, tier, ["toy"])
        f2 = ex.submit(sl.toy_mutants, rep, tier, ["noEdges", "swapPT", "kGPwithFc"])
        rcs = recipes(tier, seed, reqs)
        nst, kinds, _ = sl.replay_and_judge(rep, PROP, rcs, lambda part, b0: build_all(part, plans, rep, seed, b0), "c16-tr", tier, describe,
                                            batch=400)
        timer["replay_and_judge_s"] = round(time.time() - t0, 1)
        f1.result()
        f2.result()
    timer["total_s"] = round(time.time() - t0, 1)
    rep.cov["studies"] = kinds
    rep.cov["section_wall_s"] = timer
    rep.cov["exhaustive"] = False
    rep.cov["rule"] = ("distinct = distinct (study kind, model, angle, series orders, load case, changed aspect, laminate) tuples executed on real "
                       "ConeCyl objects; every study of the TLC-enumerated lattice (MC_ShellLaws Studies; the 'linear' ones sub-sampled with the "
                       "seed above the cap) plus seeded definitions off the lattice")
    rep.sample(dict(recipe={k: (v if k != "d" else short_def(v)) for k, v in rcs[0].items()}))
    rep.assumptions += [
        "PARTIAL CLAIM. Not decided: k0 = second derivative of the strain energy of the package's own linear strain field (needs the exact "
        "integral of a trigonometric field); positive semi-definiteness beyond the probe vectors (unit vectors, seeded integer vectors, "
        "dyadic roundings of the two lowest numpy eigenvectors offered as candidates: x^T K x < -2^-40 |x|^2 ||K||_inf is a certificate, "
        "its absence is no proof); any absolute value of a kernel entry",
        "level: observation-level relational laws (TLC evaluates recorded doubles exactly against the laws of ShellLaws) + model-checked algebra "
        "on an exact toy shell; the kernels themselves are opaque",
        "tolerances (bits of the law's term scale, one constant per law): composition = one rounding of the float sum (2^-50 of |a|+|b|); linear "
        "relations between matrices of different runs 2^-40 of the row maxima (clean tree: 2^-51); different kernels that must agree 2^-36 of "
        "the row maxima (clean tree: 2^-50); probes x^T K x >= -2^-40 |x|^2 ||K||_inf; same definition => bitwise equal",
        "kernels are called by the harness with the argument lists printed by TLC (LinearPlan); the harness reports the plan it executed and "
        "TLC checks it is the specified one",
        "cone kernels at zero angle are reached by calling fk0 / fkG0 with alpharad = 0.0 and, publicly, with alphadeg = 1e-300 "
        "(is_cylinder False, sin(alpha) = 1.7e-302, r(x) = r2 exactly)",
        "linear matrices are asked through ConeCyl._calc_linear_matrices (the routine lb() and calc_k0() run) and calc_k0(); re-definition "
        "studies call it again after the change; calc_k0()'s cache of k0uu is not asked after a change",
        "clpt_donnell_bcn has no compiled linear module in this tree (get_linear_matrices raises UnboundLocalError): not in the lattice"]
    return rep.finish()


def replay(path, build):
    warnings.filterwarnings("ignore")
    rp = json.load(open(path))["replay"]
    if "recipe" not in rp:
        print("replay: nothing executable in", path)
        return 2
    _TIER[0] = "quick"
    sl.package()
    reqs, plans, nlplans, _ = load_plans("quick")
    rep = Report(PROP, "replay", 0)
    st = BUILDERS[rp["recipe"]["kind"]](rp["recipe"], plans, random.Random(1))
    verdicts, _ = judge(rep, PROP, [st], "c16-replay", "quick", describe)
    for e in st.events:
        print("step %s %s: %s" % (e["op"], e.get("route"), verdicts.get(e["id"])))
    if rep.machinery_errors:
        print("MACHINERY-ERROR", rep.machinery_errors[0][:1500])
        return 2
    bad = [v for v in verdicts.values() if v[0] == "fail"]
    kfs = [v for v in verdicts.values() if v[0].startswith("kf:")]
    if bad:
        print("VIOLATION property=%s replay=%s" % (PROP, path))
        return 1
    for v in kfs:
        print("KNOWN-FINDING: property=%s [%s]" % (PROP, v[0][3:]))
    return 0


# ----------------------------------------------------------------------------------------------------
# binding self-test:  /venv/bin/python /verif/harness/c16.py --selftest

MUTANTS = [
    ("swap P and T in the fkG0 calls", "ConeCyl", "_calc_linear_matrices",
     [("kG0 = fkG0_cyl(Fc, P, T, r2, L, m1, m2, n2)", "kG0 = fkG0_cyl(Fc, T, P, r2, L, m1, m2, n2)"),
      ("kG0 = fkG0(Fc, P, T, r2, alpharad, L, m1, m2, n2, s)", "kG0 = fkG0(Fc, T, P, r2, alpharad, L, m1, m2, n2, s)")]),
    ("forget k0edges", "ConeCyl", "_calc_linear_matrices", [("if k0edges is not None:", "if False:")]),
    ("kG0_P computed with Fc", "ConeCyl", "_calc_linear_matrices",
     [("kG0_P = fkG0_cyl(0, P, 0, r2, L, m1, m2, n2)", "kG0_P = fkG0_cyl(0, Fc, 0, r2, L, m1, m2, n2)"),
      ("kG0_P = fkG0(0, P, 0, r2, alpharad, L, m1, m2, n2, s)", "kG0_P = fkG0(0, Fc, 0, r2, alpharad, L, m1, m2, n2, s)")]),
    ("shear block not scaled by K", "ConeCyl", "_calc_linear_matrices", [("F[6:, 6:] *= self.K", "pass")]),
    ("Fc rebuilt with cos(alpha) in the wrong place", "ConeCyl", "_calc_linear_matrices",
     [("Fc = self.Nxxtop[0]*(2*pi*r2*cosa)", "Fc = self.Nxxtop[0]*(2*pi*r2/cosa)")]),
    ("orthotropic switch leaves B16", "ConeCyl", "_calc_linear_matrices", [("F[0, 5] = 0. # B16", "pass")]),
    ("bottom / top rotational restraints swapped (bc2)", "modelDB", "get_linear_matrices",
     [("""    elif model == 'clpt_donnell_bc2':
        k0edges = fk0edges(m1, m2, n2, r1, r2, L,
                           cc.kuBot, cc.kuTop,
                           cc.kphixBot, cc.kphixTop)""", """    elif model == 'clpt_donnell_bc2':
        k0edges = fk0edges(m1, m2, n2, r1, r2, L,
                           cc.kuBot, cc.kuTop,
                           cc.kphixTop, cc.kphixBot)""")]),
    ("cylinder kernel used for cones", "ConeCyl", "_calc_linear_matrices", [("if self.is_cylinder:", "if True:")]),
]


def selftest():
    build = sl.bootstrap()
    _TIER[0] = "quick"
    ConeCyl, modelDB, _ = sl.package()
    reqs, plans, nlplans, _ = load_plans("quick")
    rcs = [r for r in recipes("quick", 5, reqs)
           if r["d"]["model"] in ("clpt_donnell_bc2", "clpt_donnell_bc3", "fsdt_donnell_bc2", "clpt_sanders_bc4", "fsdt_donnell_bc1")
           and r["kind"] in ("linear", "loads", "edges")]
    extra = []
    for m in ("clpt_donnell_bc2", "fsdt_donnell_bc2"):
        d = base_def(m, alphadeg=25., Fc=1500., P=0.5, T=75., ortho=True, restr=restr_for(m, 2048.))
        extra += [dict(kind="linear", d=d, clc=0, requery=False), dict(kind="linear", d=dict(d, ortho=False, alphadeg=0.), clc=2, requery=False)]
    rcs = extra + rcs[:36]
    results = []
    for name, owner, meth, repl in [("none (control)", None, None, [])] + MUTANTS:
        rep = Report(PROP, "selftest", 0)
        ctx = sl.mutated(ConeCyl if owner == "ConeCyl" else modelDB, meth, repl) if owner else sl.contextlib.nullcontext()
        with ctx:
            studies = build_all(rcs, plans, rep, 5)
        saved = sl.common.open_deviations
        verdicts, _ = judge(rep, PROP, studies, "c16-self", "quick", describe)
        fails = [v for v in verdicts.values() if v[0] == "fail"]
        laws = sorted({f[0] for v in fails for f in (v[1] if isinstance(v[1], list) else [])})
        crashed = [w for w, _ in rep.violations if "raised" in w]
        if name.startswith("none"):
            results.append((name, not fails and not crashed and not rep.machinery_errors, ["control run must be clean"] if fails else [], len(fails)))
        else:
            results.append((name, bool(fails or crashed), laws + (["raised"] if crashed else []), len(fails)))
    return sl.selftest_report(PROP, results)


if __name__ == "__main__":
    import sys
    if "--selftest" in sys.argv:
        sys.exit(selftest())
    print(__doc__)
