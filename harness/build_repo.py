#!/venv/bin/python
"""Rebuild-from-working-tree support (DESIGN.md section 4.4).

Cython is not installed in this sandbox, so the extension modules can only be
re-linked from C: the Cython-generated ``*.c`` next to each ``.pyx`` (present,
git-ignored) plus the tracked C sources in ``compmech/lib/src`` and headers in
``compmech/include``.  Nothing is ever written into /repo.  For every extension
whose C inputs differ from the pinned baseline (``harness/c_baseline.json``)
an override ``.so`` is built under ``/verif/build/ext`` (objects cached by
content hash under ``/verif/build/obj``) and ``harness/repo_env.py`` makes the
import system load it instead of the stale one in /repo.

  build_repo.py --baseline     record the baseline hashes (done once, committed)
  build_repo.py --warm         compile the object cache for the current tree
  build_repo.py                ensure overrides exist for the current tree; print JSON
"""
import concurrent.futures as cf
import fcntl
import glob
import hashlib
import json
import os
import re
import subprocess
import sys
import sysconfig
import time

REPO = os.environ.get("COMPMECH_REPO", "/repo")
VERIF = os.path.dirname(os.path.dirname(os.path.abspath(__file__)))
BUILD = os.path.join(VERIF, "build")
OBJ = os.path.join(BUILD, "obj")
EXT = os.path.join(BUILD, "ext")
BASELINE = os.path.join(VERIF, "harness", "c_baseline.json")
PY = "/venv/bin/python"


def sha(path):
    h = hashlib.sha256()
    with open(path, "rb") as f:
        for blk in iter(lambda: f.read(1 << 20), b""):
            h.update(blk)
    return h.hexdigest()


def rel(p):
    """paths in the Cython metadata are absolute (/repo/...); make them repo-relative"""
    p = p.replace("\\", "/")
    i = p.find("/compmech/")
    return p[i + 1:] if i >= 0 else p


def discover():
    """extension modules re-linkable from C: name -> dict(csrc, sources, cflags, ldflags)"""
    exts = {}
    for c in sorted(glob.glob(os.path.join(REPO, "compmech/**/*.c"), recursive=True)):
        with open(c, errors="replace") as f:
            head = f.read(8000)
        m = re.search(r"BEGIN: Cython Metadata\n(.*?)\nEND: Cython Metadata", head, re.S)
        if not m:
            continue
        md = json.loads(m.group(1))
        d = md["distutils"]
        srcs = [rel(s) for s in d["sources"]]
        csrc = os.path.relpath(c, REPO)
        extra = [s for s in srcs[1:] if s.endswith(".c")]
        exts[md["module_name"]] = dict(
            csrc=csrc, pyx=srcs[0], extra=extra,
            cflags=list(d.get("extra_compile_args", [])),
            ldflags=list(d.get("extra_link_args", [])),
            libs=list(d.get("libraries", [])),
            depends=[rel(x) for x in d.get("depends", [])])
    return exts


def header_hash():
    h = hashlib.sha256()
    for p in sorted(glob.glob(os.path.join(REPO, "compmech/include/*.h"))):
        h.update(os.path.basename(p).encode())
        h.update(sha(p).encode())
    return h.hexdigest()


def input_hashes(exts):
    hh = header_hash()
    files = {}
    out = {}
    for name, e in exts.items():
        parts = [hh]
        for s in [e["csrc"]] + e["extra"]:
            if s not in files:
                files[s] = sha(os.path.join(REPO, s))
            parts.append(s + ":" + files[s])
        parts.append(" ".join(e["cflags"]))
        out[name] = hashlib.sha256("|".join(parts).encode()).hexdigest()
    return out, files, hh


def pyx_hashes():
    out = {}
    for pat in ("compmech/**/*.pyx", "compmech/**/*.pxi", "compmech/**/*.pxd"):
        for p in glob.glob(os.path.join(REPO, pat), recursive=True):
            out[os.path.relpath(p, REPO)] = sha(p)
    return out


def cc_flags(extra):
    inc = [sysconfig.get_paths()["include"]]
    try:
        import numpy
        inc.append(numpy.get_include())
    except Exception:
        pass
    inc.append(os.path.join(REPO, "compmech/include"))
    fl = ["-O3", "-fPIC", "-DNDEBUG", "-fno-strict-overflow", "-w",
          "-DNPY_NO_DEPRECATED_API=NPY_1_7_API_VERSION"] + list(extra)
    for i in inc:
        fl += ["-I", i]
    return fl


def compile_obj(src_rel, src_hash, hh, cflags):
    key = hashlib.sha256((src_rel + src_hash + hh + " ".join(cflags)).encode()).hexdigest()[:24]
    obj = os.path.join(OBJ, key + ".o")
    if os.path.exists(obj):
        return obj, 0.0
    t0 = time.time()
    tmp = obj + ".tmp%d" % os.getpid()
    cmd = ["gcc", "-c", os.path.join(REPO, src_rel), "-o", tmp] + cc_flags(cflags)
    r = subprocess.run(cmd, capture_output=True, text=True)
    if r.returncode != 0:
        raise RuntimeError("compile failed: %s\n%s" % (" ".join(cmd), r.stderr[-3000:]))
    os.replace(tmp, obj)
    return obj, time.time() - t0


def link_ext(name, objs, ldflags, dest):
    os.makedirs(os.path.dirname(dest), exist_ok=True)
    tmp = dest + ".tmp%d" % os.getpid()
    cmd = ["gcc", "-shared", "-o", tmp] + objs + list(ldflags) + ["-lm"]
    r = subprocess.run(cmd, capture_output=True, text=True)
    if r.returncode != 0:
        raise RuntimeError("link failed: %s\n%s" % (" ".join(cmd), r.stderr[-3000:]))
    os.replace(tmp, dest)


def build_many(exts, names, files, hh, workers=16):
    """compile (cached) every object the named extensions need; returns name -> [objs]"""
    jobs = {}
    for n in names:
        e = exts[n]
        for s in [e["csrc"]] + e["extra"]:
            jobs[(s, tuple(e["cflags"]))] = None
    t_total = 0.0
    with cf.ThreadPoolExecutor(max_workers=workers) as ex:
        futs = {ex.submit(compile_obj, s, files[s], hh, list(fl)): (s, fl) for (s, fl) in jobs}
        for f in cf.as_completed(futs):
            obj, dt = f.result()
            jobs[futs[f]] = obj
            t_total += dt
    out = {}
    for n in names:
        e = exts[n]
        out[n] = [jobs[(s, tuple(e["cflags"]))] for s in [e["csrc"]] + e["extra"]]
    return out, t_total


LIBSRC = ["bardell.c", "bardell_functions.c", "legendre_gauss_quadrature.c",
          "bardell_integral_ff_12.c", "bardell_integral_ffxi_12.c", "bardell_integral_ffxixi_12.c",
          "bardell_integral_fxifxi_12.c", "bardell_integral_fxifxixi_12.c",
          "bardell_integral_fxixifxixi_12.c", "bardell_integral_ff_c0c1.c",
          "bardell_integral_ffxi_c0c1.c", "bardell_integral_fxif_c0c1.c",
          "bardell_integral_fxifxi_c0c1.c", "bardell_integral_fxixifxixi_c0c1.c"]


def build_libbardell(hh=None):
    """shared object with every symbol of compmech/lib/src, for the ctypes checks (C10)"""
    hh = hh or header_hash()
    srcs = ["compmech/lib/src/" + s for s in LIBSRC if os.path.exists(os.path.join(REPO, "compmech/lib/src", s))]
    hs = {s: sha(os.path.join(REPO, s)) for s in srcs}
    key = hashlib.sha256((hh + "".join(s + hs[s] for s in srcs)).encode()).hexdigest()[:20]
    dest = os.path.join(EXT, "libbardell_%s.so" % key)
    if os.path.exists(dest):
        return dest
    objs = []
    with cf.ThreadPoolExecutor(max_workers=16) as ex:
        for obj, _ in ex.map(lambda s: compile_obj(s, hs[s], hh, ["-fopenmp"]), srcs):
            objs.append(obj)
    link_ext("libbardell", objs, ["-fopenmp"], dest)
    return dest


class Lock:
    def __enter__(self):
        os.makedirs(BUILD, exist_ok=True)
        self.f = open(os.path.join(BUILD, ".lock"), "w")
        fcntl.flock(self.f, fcntl.LOCK_EX)
        return self

    def __exit__(self, *a):
        fcntl.flock(self.f, fcntl.LOCK_UN)
        self.f.close()


def ensure(warm=False, want_lib=True):
    """returns dict(overrides={module: so}, libbardell=path, pyx_drift=[...], rebuilt=[...])"""
    os.makedirs(OBJ, exist_ok=True)
    os.makedirs(EXT, exist_ok=True)
    with open(BASELINE) as f:
        base = json.load(f)
    with Lock():
        exts = discover()
        hashes, files, hh = input_hashes(exts)
        changed = [n for n in exts if base["ext"].get(n) != hashes[n]]
        if warm:
            names = [n for n in exts if exts[n]["extra"]]
            build_many(exts, names, files, hh)
        overrides = {}
        rebuilt = []
        if changed:
            objs, _ = build_many(exts, changed, files, hh)
            for n in changed:
                dest = os.path.join(EXT, hashes[n][:20], n + ".so")
                if not os.path.exists(dest):
                    link_ext(n, objs[n], exts[n]["ldflags"], dest)
                    rebuilt.append(n)
                overrides[n] = dest
        lib = build_libbardell(hh) if want_lib else None
        drift = [p for p, h in pyx_hashes().items() if base["pyx"].get(p) != h]
        missing = [p for p in base["pyx"] if not os.path.exists(os.path.join(REPO, p))]
    res = dict(overrides=overrides, libbardell=lib, pyx_drift=sorted(drift + missing),
               rebuilt=rebuilt, changed=changed)
    with open(os.path.join(BUILD, "ext_overrides.json.tmp%d" % os.getpid()), "w") as f:
        json.dump(res, f)
    os.replace(f.name, os.path.join(BUILD, "ext_overrides.json"))
    return res


def main():
    if "--baseline" in sys.argv:
        exts = discover()
        hashes, files, hh = input_hashes(exts)
        json.dump(dict(ext=hashes, pyx=pyx_hashes(), headers=hh,
                       note="hashes of the C inputs of every extension module on the pinned tree"),
                  open(BASELINE, "w"), indent=0, sort_keys=True)
        print("baseline written:", len(hashes), "extensions")
        return
    t0 = time.time()
    res = ensure(warm="--warm" in sys.argv)
    res["wall_s"] = round(time.time() - t0, 2)
    print(json.dumps(res))
    if res["pyx_drift"]:
        print("NOTE pyx-drift", " ".join(res["pyx_drift"]))


if __name__ == "__main__":
    main()
