"""Import compmech from /repo's working tree, loading re-linked extension modules
(see build_repo.py) instead of stale ones.  Call activate() before importing compmech."""
import importlib.abc
import importlib.machinery
import importlib.util
import json
import os
import sys

REPO = os.environ.get("COMPMECH_REPO", "/repo")
VERIF = os.path.dirname(os.path.dirname(os.path.abspath(__file__)))


class _OverrideFinder(importlib.abc.MetaPathFinder):
    def __init__(self, table):
        self.table = table

    def find_spec(self, fullname, path=None, target=None):
        so = self.table.get(fullname)
        if so is None:
            return None
        loader = importlib.machinery.ExtensionFileLoader(fullname, so)
        return importlib.util.spec_from_file_location(fullname, so, loader=loader)


_state = {}


def activate(build_info=None):
    """build_info: result of build_repo.ensure(); read from build/ext_overrides.json if None"""
    if _state:
        return _state["info"]
    if build_info is None:
        p = os.path.join(VERIF, "build", "ext_overrides.json")
        build_info = json.load(open(p)) if os.path.exists(p) else dict(overrides={}, libbardell=None)
    if build_info.get("overrides"):
        sys.meta_path.insert(0, _OverrideFinder(build_info["overrides"]))
    if REPO not in sys.path:
        sys.path.insert(0, REPO)
    os.environ.setdefault("MPLBACKEND", "Agg")
    _state["info"] = build_info
    return build_info
