"""C06 - frequency solver wrapper (DESIGN.md section 5, C06): compmech.analysis.freq, Panel.freq
against spec/ctrl/EigWrap.tla (family "freq").  See eigwrap_common.py."""
import eigwrap_common as ew


def run(tier, seed, build):
    return ew.run_family("C06", "freq", tier, seed, build)


def replay(path, build):
    return ew.replay_file("C06", path, build)
