"""C10 - Bardell functions, integral tables, quadrature tables (DESIGN.md section 5, C10)."""
import ctypes
import random

import numpy as np

from common import (Fraction, Report, dyadic, rat, run_tlc, printed_values, validate_trace,
                    from_rat, TlaSet)

FULL = {(0, 0): "ff", (0, 1): "ffxi", (0, 2): "ffxixi", (1, 1): "fxifxi", (1, 2): "fxifxixi",
        (2, 2): "fxixifxixi"}
MAPPED = {(0, 0): "ff", (0, 1): "ffxi", (1, 0): "fxif", (1, 1): "fxifxi", (2, 2): "fxixifxixi"}
FUN = {0: "f", 1: "fxi", 2: "fxixi"}
NFUN = 30
D = ctypes.c_double
I = ctypes.c_int


class Lib:
    def __init__(self, path):
        self.l = ctypes.CDLL(path)
        for nm in FULL.values():
            f = getattr(self.l, "integral_" + nm)
            f.restype = D
            f.argtypes = [I, I] + [D] * 8
            f = getattr(self.l, "integral_%s_12" % nm)
            f.restype = D
            f.argtypes = [D, D, I, I] + [D] * 8
        for nm in MAPPED.values():
            f = getattr(self.l, "integral_%s_c0c1" % nm)
            f.restype = D
            f.argtypes = [D, D, I, I] + [D] * 8
        for nm in FUN.values():
            f = getattr(self.l, "calc_" + nm)
            f.restype = D
            f.argtypes = [I, D] + [D] * 4
            f = getattr(self.l, "calc_vec_" + nm)
            f.restype = None
            f.argtypes = [ctypes.POINTER(D), D] + [D] * 4
        self.l.leggauss_quad.restype = None
        self.l.leggauss_quad.argtypes = [I, ctypes.POINTER(D), ctypes.POINTER(D)]

    def fun_vec(self, d, xi, fl):
        buf = (D * NFUN)()
        getattr(self.l, "calc_vec_" + FUN[d])(buf, xi, *fl)
        return list(buf)

    def fun_scalar(self, d, xi, fl):
        return [getattr(self.l, "calc_" + FUN[d])(i, xi, *fl) for i in range(NFUN)]

    def full(self, fam, xf, yf):
        f = getattr(self.l, "integral_" + FULL[fam])
        return [[f(i, j, *xf, *yf) for j in range(NFUN)] for i in range(NFUN)]

    def sub(self, fam, x1, x2, xf, yf):
        f = getattr(self.l, "integral_%s_12" % FULL[fam])
        return [[f(x1, x2, i, j, *xf, *yf) for j in range(NFUN)] for i in range(NFUN)]

    def mapped(self, fam, c0, c1, xf, yf):
        f = getattr(self.l, "integral_%s_c0c1" % MAPPED[fam])
        return [[f(c0, c1, i, j, *xf, *yf) for j in range(NFUN)] for i in range(NFUN)]

    def gauss(self, n):
        p = (D * n)()
        w = (D * n)()
        self.l.leggauss_quad(n, p, w)
        return list(p), list(w)


def fl(x):
    return [float(v) for v in x]


def event_for(lib, r, eid):
    """r: request with Fractions; returns the trace event (request + observation)"""
    k = r["kind"]
    e = dict(id=eid, kind=k)
    if k == "fun":
        e.update(d=r["d"], xi=rat(r["xi"]), xf=[rat(v) for v in r["xf"]], api=r.get("api", "vec"))
        vals = (lib.fun_vec if e["api"] == "vec" else lib.fun_scalar)(r["d"], float(r["xi"]), fl(r["xf"]))
        e["obs"] = [dyadic(v) for v in vals]
        return e
    e.update(fam=list(r["fam"]), fl=[[rat(v) for v in r["fl"][0]], [rat(v) for v in r["fl"][1]]])
    xf, yf = fl(r["fl"][0]), fl(r["fl"][1])
    if k == "full":
        m = lib.full(tuple(r["fam"]), xf, yf)
    elif k == "sub":
        e["iv"] = [rat(r["iv"][0]), rat(r["iv"][1])]
        m = lib.sub(tuple(r["fam"]), float(r["iv"][0]), float(r["iv"][1]), xf, yf)
    else:
        e["cc"] = [rat(r["cc"][0]), rat(r["cc"][1])]
        m = lib.mapped(tuple(r["fam"]), float(r["cc"][0]), float(r["cc"][1]), xf, yf)
    e["obs"] = [[dyadic(v) for v in row] for row in m]
    return e


def req_from_tla(v):
    """request record printed by TLC -> python dict with Fractions"""
    r = dict(kind=v["kind"])
    if r["kind"] == "fun":
        r.update(d=v["d"], xi=from_rat(v["xi"]), xf=[from_rat(x) for x in v["xf"]])
        return r
    r["fam"] = tuple(v["fam"])
    r["fl"] = [[from_rat(x) for x in v["fl"][0]], [from_rat(x) for x in v["fl"][1]]]
    if r["kind"] == "sub":
        r["iv"] = [from_rat(x) for x in v["iv"]]
    if r["kind"] == "map":
        r["cc"] = [from_rat(x) for x in v["cc"]]
    return r


def dyadic_frac(rng, lo, hi, bits=10):
    """random dyadic rational in [lo,hi] (exactly representable as double and as Rat)"""
    den = 1 << bits
    return Fraction(rng.randint(int(lo * den), int(hi * den)), den)


def random_requests(rng, n):
    out = []
    for _ in range(n):
        k = rng.choice(["fun", "fun", "full", "sub", "sub", "map", "map"])
        flg = lambda: [Fraction(rng.choice([0, 1, 1, 2, 3, -1, 5])) for _ in range(4)]
        if k == "fun":
            out.append(dict(kind="fun", d=rng.randint(0, 2), xi=dyadic_frac(rng, -1, 1), xf=flg(),
                            api=rng.choice(["vec", "scalar"])))
            continue
        r = dict(kind=k, fl=[flg(), flg()])
        if k == "map":
            r["fam"] = rng.choice(sorted(MAPPED))
            c1 = dyadic_frac(rng, -1, 1, 6)
            lim = 1 - abs(c1)
            c0 = dyadic_frac(rng, -lim, lim, 6)
            r["cc"] = [c0, c1]
        else:
            r["fam"] = rng.choice(sorted(FULL))
            if k == "sub":
                a, b = sorted([dyadic_frac(rng, -1, 1, 8), dyadic_frac(rng, -1, 1, 8)])
                r["iv"] = [a, b]
        out.append(r)
    return out


def grid_events(rng, tier, eid0):
    from compmech.integrate.integrate import trapz2d_points, simps2d_points
    evs = []
    sizes = list(range(2, 13)) + [20, 37, 64, 101, 200] if tier == "quick" else list(range(2, 201, 1))
    eid = eid0
    for kind, fn in (("trapz", trapz2d_points), ("simps", simps2d_points)):
        for nx in sizes:
            ny = rng.choice([2, 3, 4, 5, 8]) if nx > 12 else rng.randint(2, 12)
            if rng.random() < 0.5:
                nx, ny = ny, nx
            xmin = dyadic_frac(rng, -2, 1, 3)
            xmax = xmin + dyadic_frac(rng, Fraction(1, 8), 3, 3)
            ymin = dyadic_frac(rng, -2, 1, 3)
            ymax = ymin + dyadic_frac(rng, Fraction(1, 8), 3, 3)
            xs, ys, al, be = fn(float(xmin), float(xmax), nx, float(ymin), float(ymax), ny)
            pts = sorted(zip(map(float, xs), map(float, ys), map(float, al), map(float, be)))
            if any(b != 1.0 for *_, b in pts):
                raise AssertionError("beta weights are documented to be 1")
            evs.append(dict(id=eid, kind=kind, nx=nx, ny=ny, xmin=rat(xmin), xmax=rat(xmax),
                            ymin=rat(ymin), ymax=rat(ymax),
                            pts=[[dyadic(x), dyadic(y), dyadic(w)] for x, y, w, _ in pts]))
            eid += 1
    return evs


def run(tier, seed, build):
    rep = Report("C10", tier, seed)
    rng = random.Random(seed)
    lib = Lib(build["libbardell"])
    tol = 40

    # 1. the specification: lattice of requests + consequences, by TLC
    nfun_mc = 10 if tier == "quick" else 16
    cfg = ("SPECIFICATION EmitSpec\nCONSTANTS NFun = %d\nTier = \"%s\"\n"
           "INVARIANT ScaleDominates\nINVARIANT SubOnWholeIsFull\nINVARIANT SubAdditive\n"
           "INVARIANT SubDegenerate\nINVARIANT ByParts\nINVARIANT MapIdentity\nINVARIANT Orthogonal\n"
           "INVARIANT EdgeValues\nINVARIANT HermiteEnds\nCHECK_DEADLOCK FALSE\n" % (nfun_mc, tier))
    mc = run_tlc("c10-mc", "MC_BardellTables", cfg, workers=16, timeout=3000)
    rep.add_tlc("MC_BardellTables(NFun=%d)" % nfun_mc, mc)
    if not mc.ok:
        rep.machinery("TLC on MC_BardellTables failed: " + mc.errors())
        return rep.finish()
    # the two definitions of the functions coincide for all 30 indices (startup assumption)
    fa = run_tlc("c10-forms", "MC_BardellForms", "CONSTANTS NFun = 30\n", workers=1, timeout=600)
    if not fa.ok:
        rep.machinery("BardellFormsAgree not established: " + fa.errors())
        return rep.finish()
    reqs = [req_from_tla(v[1]) for v in printed_values(mc.out, "REQ")]
    if len(reqs) != mc.distinct - 1:
        rep.machinery("parsed %d requests but TLC found %d states" % (len(reqs), mc.distinct))
        return rep.finish()

    # 2. replay every lattice request into the C library (direction A) + seeded random requests (B)
    events = []
    for r in reqs:
        if r["kind"] == "fun":
            for api in ("vec", "scalar"):
                events.append(event_for(lib, dict(r, api=api), len(events)))
        else:
            events.append(event_for(lib, r, len(events)))
    nrand = 60 if tier == "quick" else 600
    for r in random_requests(rng, nrand):
        events.append(event_for(lib, r, len(events)))
    tcfg = "CONSTANTS NFun = 30\nTier = \"%s\"\nTol = %d\nTolFull = 44\n" % (tier, tol)
    verdicts, results, problems = validate_trace("c10-tr", "Trace_BardellTables", tcfg, events, timeout=3000)
    for res in results:
        rep.add_tlc("Trace_BardellTables", res)
    for p in problems:
        rep.machinery(p)
    nontriv = 0
    for e in events:
        v = verdicts.get(e["id"])
        key = (e["kind"], tuple(e.get("fam", [e.get("d")])), str(e.get("iv", e.get("cc", e.get("xi")))))
        rep.nontrivial(key)
        if v and v[0] != "ok":
            small = {k: e[k] for k in e if k != "obs"}
            rep.violation("C library disagrees with exact value at index (pairs) %s for request %s"
                          % (str(v[1])[:200], small), dict(event=small, bad=str(v[1])))
    rep.cov["traces_validated_against_impl"] += len(events)
    rep.cov["evaluations"] += sum(30 if e["kind"] == "fun" else 900 for e in events)
    for e in events[:2] + events[-2:]:
        rep.sample({k: (v if k != "obs" else "<%d observed doubles>" % (len(v) if e["kind"] == "fun" else 900))
                    for k, v in e.items()})

    # 3. quadrature: spec-level exactness of the composite rules, then observed tables
    qcfg = ("SPECIFICATION EmitSpec\nCONSTANTS Grids = {}\nRules = {}\nINVARIANT WeightsSumToArea\n"
            "INVARIANT ExactForLowDegree\nINVARIANT PointCount\nCHECK_DEADLOCK FALSE\n")
    qmc = run_tlc("c10-qmc", "MC_Quadrature", qcfg, workers=8, timeout=1200)
    rep.add_tlc("MC_Quadrature", qmc)
    if not qmc.ok:
        rep.machinery("TLC on MC_Quadrature failed: " + qmc.errors())
    qev = []
    for n in range(2, 65):
        xs, ws = lib.gauss(n)
        qev.append(dict(id=len(qev), kind="gauss", n=n, xs=[dyadic(x) for x in xs], ws=[dyadic(w) for w in ws]))
    qev += grid_events(rng, tier, len(qev))
    qtcfg = "CONSTANTS Grids = {}\nRules = {}\nTol = %d\n" % tol
    verdicts, results, problems = validate_trace("c10-qtr", "Trace_Quadrature", qtcfg, qev, timeout=3000)
    for res in results:
        rep.add_tlc("Trace_Quadrature", res)
    for p in problems:
        rep.machinery(p)
    for e in qev:
        v = verdicts.get(e["id"])
        rep.nontrivial((e["kind"], e.get("n"), e.get("nx"), e.get("ny")))
        if v and v[0] != "ok":
            small = {k: e[k] for k in e if k not in ("xs", "ws", "pts")}
            rep.violation("quadrature table/point set rejected: %s failing %s" % (small, v[1]),
                          dict(event=small, bad=str(v[1])))
    rep.cov["traces_validated_against_impl"] += len(qev)
    rep.cov["evaluations"] += len(qev)
    rep.sample({k: v for k, v in qev[0].items()})
    rep.cov["rule"] = ("requests = TLC-enumerated lattice (kind x family x interval/map x flag pattern, "
                       "each covering all 30 or 30x30 indices) replayed through ctypes + seeded random dyadic "
                       "requests; quadrature: Gauss n=2..64, trapezoid/Simpson grids; distinct = distinct "
                       "(kind, family, argument) tuples")
    rep.cov["exhaustive"] = False
    rep.assumptions += ["libbardell built with gcc -O3 -fopenmp from compmech/lib/src of the working tree",
                        "integrate.pyx point sets come from the extension loaded (Cython not installed)",
                        "tolerance 2^-%d of the term-magnitude scale" % tol]
    return rep.finish()


def replay(path, build):
    """the stored replay file holds the failing definition/behaviour; the check is deterministic in VERIF_SEED, so the
    violation is re-decided by re-running the tier that found it with the same seed"""
    import json
    import os
    rp = json.load(open(path))
    print("replaying %s: %s" % (rp.get("property"), str(rp.get("what"))[:300]))
    return run(os.environ.get("VERIF_TIER", "quick"), int(os.environ.get("VERIF_SEED", "20261003")), build)
