"""compmech/sparse.py against SparseOps.tla (used as an additional phase by C02, C07, C19)."""
import itertools
import random

import numpy as np

from common import run_tlc, validate_trace

INVS = ["SymResultSymmetric", "SymIdempotent", "SkewResult", "SymmetricFixedPoint", "RemovedAreNull", "ScatterRoundTrip"]
ENTRIES = (-1, 0, 2)


SCALES = (1.0, 2.0 ** -40, 2.0 ** 40, 2.0 ** -80)     # the helpers must not depend on the magnitude of the entries


def observe(op, m, m2=None, scale=1.0):
    import compmech.sparse as sp
    from scipy.sparse import coo_matrix, csr_matrix
    M = np.array(m, dtype=float) * scale
    wrap = [coo_matrix, csr_matrix, np.asarray][(len(m) + int(M.sum())) % 3] if op != "remove_null_cols" else csr_matrix
    toint = lambda A: [[int(round(v / scale)) if abs(v / scale - round(v / scale)) < 1e-9 else 999 for v in row]
                       for row in np.asarray(A.toarray() if hasattr(A, "toarray") else A)]
    if op == "make_symmetric":
        return toint(sp.make_symmetric(wrap(M)))
    if op == "finalize_symmetric_matrix":
        return toint(sp.finalize_symmetric_matrix(coo_matrix(M)))
    if op == "make_skew_symmetric":
        return toint(sp.make_skew_symmetric(wrap(M)))
    if op == "is_symmetric":
        return bool(sp.is_symmetric(wrap(M)))
    if op == "remove_null_cols":
        a, b, used = sp.remove_null_cols(csr_matrix(M), coo_matrix(np.array(m2, dtype=float) * scale), silent=True)
        return dict(m1=toint(a), m2=toint(b), used=[int(u) for u in used])
    raise ValueError(op)


def events(tier, rng):
    evs = []
    n = 3
    cells = list(itertools.product(ENTRIES, repeat=n * n))
    if tier == "quick":
        cells = rng.sample(cells, 1500)
    for cell in cells:
        m = [list(cell[i * n:(i + 1) * n]) for i in range(n)]
        mt = [list(r) for r in zip(*m)]
        # is_symmetric is modelled (law SymmetricFixedPoint) but NOT bound: the real function compares the sorted
        # values of the two triangles without comparing their patterns and answers True for e.g.
        # [[2,-1,0],[-1,0,2],[2,0,-1]]; no listed property depends on it (see DESIGN.md 10.6)
        for op in ("make_symmetric", "make_skew_symmetric", "remove_null_cols"):
            e = dict(id=len(evs), op=op, m=m, m2=mt)
            e["obs"] = observe(op, m, mt, SCALES[len(evs) % len(SCALES)])
            evs.append(e)
    # larger random matrices with null rows/columns, incl. the finalize wrapper and the solve scatter pattern
    for _ in range(60 if tier == "quick" else 600):
        n2 = rng.randint(4, 9)
        m = [[rng.choice([0, 0, 1, -2, 3]) for _ in range(n2)] for _ in range(n2)]
        for j in rng.sample(range(n2), rng.randint(0, 3)):
            for i in range(n2):
                m[i][j] = 0
                m[j][i] = 0
        mt = [list(r) for r in zip(*m)]
        for op in ("make_symmetric", "finalize_symmetric_matrix", "make_skew_symmetric", "remove_null_cols"):
            e = dict(id=len(evs), op=op, m=m, m2=mt)
            e["obs"] = observe(op, m, mt, SCALES[len(evs) % len(SCALES)])
            evs.append(e)
        # solve(): diagonally dominant system on the used columns; zeros elsewhere must be exact
        import compmech.sparse as sp
        from scipy.sparse import csr_matrix
        A = np.array(m, dtype=float)
        A = A + A.T
        used = [j for j in range(n2) if np.any(A[:, j] != 0)]
        for j in used:
            A[j, j] = 50.0 + j
        if len(used) >= 2 and len(evs) % 3 == 0:
            # an amplitude with a zero diagonal term but a non-null row (augmented / indefinite systems): it is active
            j0, j1 = used[0], used[1]
            A[j0, j0] = 0.0
            A[j0, j1] = A[j1, j0] = 9.0
            if abs(np.linalg.det(A[np.ix_(used, used)])) < 1e-6:
                A[j0, j0] = 50.0
        b = np.array([float(rng.randint(-5, 5)) for _ in range(n2)])
        x = sp.solve(csr_matrix(A), b, silent=True)
        resid = np.abs(A.dot(x) - b)[used].max() if used else 0.0
        e = dict(id=len(evs), op="solve_pattern", m=[[int(v != 0) for v in row] for row in A], m2=mt,
                 obs=[int(v != 0.0) for v in x], zero_off_used=bool(resid < 1e-9 and np.all(x[[j for j in range(n2) if j not in used]] == 0.0)))
        evs.append(e)
    return evs


def phase(rep, tier, seed):
    """adds the SparseOps phase to a Report (TLC laws on the bounded model + replay of the real functions)"""
    rng = random.Random(seed + 77)
    cfg = ("SPECIFICATION SSpec\nCONSTANTS\nSize = 3\nEntries <- MCEntries\n%s\nCHECK_DEADLOCK FALSE\n"
           % "\n".join("INVARIANT " + i for i in INVS))
    mc = run_tlc("sparse-mc", "MC_SparseOps", cfg, workers=8, timeout=1200)
    rep.add_tlc("MC_SparseOps", mc)
    if not mc.ok:
        rep.machinery("TLC on MC_SparseOps failed: " + mc.errors())
        return
    evs = events(tier, rng)
    verdicts, results, problems = validate_trace("sparse-tr", "Trace_SparseOps", "CONSTANTS\nSize = 3\nEntries = {0}\n", evs,
                                                 timeout=1200)
    for res in results:
        rep.add_tlc("Trace_SparseOps", res)
    for p in problems:
        rep.machinery(p)
    for e in evs:
        v = verdicts.get(e["id"])
        if v and v[0] != "ok":
            rep.violation("compmech.sparse.%s returns something else than the specification for %s" % (e["op"], e["m"]),
                          dict(op=e["op"], m=e["m"], obs=e["obs"]))
    rep.cov["traces_validated_against_impl"] += len(evs)
    rep.cov["sparse_ops_events"] = len(evs)
