"""C07 (DESIGN.md section 5): load vector = virtual work of the point forces; K c = f solved."""
import panelmat


def run(tier, seed, build):
    return panelmat.run_prop("C07", ["fext", "static"], tier, seed, build,
                             what="the virtual-work load vector / the exact backward-error criterion of K c = f")


def replay(path, build):
    return panelmat.replay_file("C07", path, build)
