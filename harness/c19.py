"""C19 (DESIGN.md section 5): piston-theory matrices, decided through PanelModel.tla."""
import panelmat


def run(tier, seed, build):
    return panelmat.run_prop("C19", ["kA", "cA", "kAmach"], tier, seed, build, what="the piston-theory bilinear form")


def replay(path, build):
    return panelmat.replay_file("C19", path, build)
