"""C15 (DESIGN.md section 5): Ritz eigenvalues are monotone upper bounds converging to the closed forms."""
import json
import os
import random
import sys

import numpy as np

from common import (Fraction, Report, dyadic, rat, run_tlc, printed_values, validate_trace, from_rat, VERIF)
import panelmat
from panelmat import fr

CAL = os.path.join(VERIF, "harness", "c15_calibration.json")
ORTHO = [rat(10), rat(2), rat(Fraction(1, 4)), rat(1), rat(1), rat(Fraction(1, 2))]
SSW = [rat(0), rat(1), rat(0), rat(1)]
Z4 = [rat(0)] * 4


def pd_for(model, a, b, m, n, stack_dirs, t, mu=3):
    return dict(model=model, a=rat(a), b=rat(b), r=rat(0), sina=rat(0), cosa=rat(1), m=m, n=n,
                fl=[[Z4, Z4], [Z4, Z4], [SSW, SSW]],
                stack=[dict(dir=d, t=rat(t[k] if isinstance(t, (tuple, list)) else t), mat=ORTHO)
                       for k, d in enumerate(stack_dirs)], off=rat(0),
                y1=rat(0), y2=rat(b), mu=rat(mu), Ncte=[rat(0)] * 3)


def orders_for(a, b, tier):
    ar = Fraction(a) / Fraction(b)
    if ar >= 2:
        return [(6, 6), (10, 6), (12, 8), (16, 8)]
    if ar <= Fraction(1, 2):
        return [(6, 6), (6, 10), (8, 12), (8, 16)]
    return [(4, 4), (6, 6), (8, 8), (10, 10), (12, 12)]


def first_eigs(pd, N, kind, panel=None):
    """first eigenvalue for the definition; with `panel` the definition is put on that existing object
    (a convergence / parameter study on ONE Panel)"""
    from compmech.analysis import lb, freq
    if panel is None:
        p = panelmat.build_panel(pd)
    else:
        p = panel
        panelmat.redefine(p, pd)
    k0 = p.calc_k0(silent=True)
    if kind == "buckling":
        p.Nxx, p.Nyy, p.Nxy = N
        kG = p.calc_kG0(silent=True)
        vals, _ = lb(k0, kG, sparse_solver=False, silent=True, num_eigvalues=3)
    else:
        kM = p.calc_kM(silent=True)
        vals, _ = freq(k0, kM, sparse_solver=False, silent=True, num_eigvalues=3)
        vals = np.real(vals)
    return float(vals[0])


CASES = [(a, b, dirs, t) for (a, b) in [(1, 1), (2, 1), (1, 2), (5, 1), (1, 5), (Fraction(3, 2), 1)]
         for (dirs, t) in [([[0, 1], [1, 0], [0, 1]], Fraction(1, 8)), ([[0, 1]], Fraction(1, 4)), ([[1, 0]], Fraction(1, 4)),
                           # plies of different thickness (mid-plane symmetric, so still D16 = D26 = B = 0)
                           ([[0, 1], [1, 0], [0, 1]], (Fraction(1, 16), Fraction(1, 4), Fraction(1, 16)))]]
LOADS = [(-1.0, 0.0, 0.0), (0.0, -1.0, 0.0), (-1.0, -1.0, 0.0), (-1.0, -0.5, 0.0)]


def case_key(a, b, dirs, kind, N, t=None):
    return "%s|%s|%s|%s|%s" % (a, b, dirs, kind, N) + ("|t=%s" % (list(map(str, t)),) if isinstance(t, (tuple, list)) else "")


def sequences(tier, rng):
    cases = CASES          # every aspect ratio / laminate case in both tiers (the highest orders only occur in the elongated ones)
    out = []
    for (a, b, dirs, t) in cases:
        loads = LOADS
        for kind, N in [("buckling", N) for N in loads] + [("freq", (0.0, 0.0, 0.0))]:
            model = rng.choice(["plate_w", "plate_w", "plate"]) if tier == "thorough" else "plate_w"
            out.append((a, b, dirs, t, kind, N, model))
    return out


def calibrate():
    import math
    tab = {}
    for (a, b, dirs, t) in CASES:
        for kind, N in [("buckling", N) for N in LOADS] + [("freq", (0.0, 0.0, 0.0))]:
            orders = orders_for(a, b, "thorough")
            m, n = orders[-1]
            pd = pd_for("plate_w", a, b, m, n, dirs, t)
            v = first_eigs(pd, N, kind)
            p = panelmat.build_panel(pd)
            p.calc_k0(silent=True)
            D = p.lam.D
            h, mu = float(sum(t) if isinstance(t, (tuple, list)) else t * len(dirs)), 3.0
            best = 1e99
            for pp in range(1, 13):
                for qq in range(1, 13):
                    al, be = pp * math.pi / float(a), qq * math.pi / float(b)
                    num = D[0, 0] * al ** 4 + 2 * (D[0, 1] + 2 * D[2, 2]) * al ** 2 * be ** 2 + D[1, 1] * be ** 4
                    den = (-N[0] * al ** 2 - N[1] * be ** 2) if kind == "buckling" else (mu * h + mu * h ** 3 / 12 * (al ** 2 + be ** 2))
                    best = min(best, num / den)
            val = v if kind == "buckling" else v * v
            err = max(val / best - 1, 0.0)
            eps = max(10 * err, 1e-9)
            tab[case_key(a, b, dirs, kind, N, t)] = dict(measured=err, eps=float("%.3g" % eps))
    json.dump(dict(note="convergence allowance of C15's closed-form clause at the highest series order of each case: "
                        "10 x the relative excess over the closed form measured on the pinned tree (floor 1e-9)",
                   table=tab), open(CAL, "w"), indent=1, sort_keys=True)
    print("calibrated", len(tab), "cases")


def nested_event(eid, pd, q, m2, n2, N):
    def mat(pdx):
        p = panelmat.build_panel(pdx)
        k0 = p.calc_k0(silent=True)
        if q == "k0":
            return k0.toarray()
        if q == "kG0":
            p.Nxx, p.Nyy, p.Nxy = N
            return p.calc_kG0(silent=True).toarray()
        return p.calc_kM(silent=True).toarray()
    A = mat(pd)
    pd2 = dict(pd, m=m2, n=n2)
    B = mat(pd2)
    num = 1 if pd["model"] == "plate_w" else 3
    m, n = pd["m"], pd["n"]
    idx = []
    for r in range(A.shape[0]):
        dof = r % num
        k = r // num
        i, j = k % m, k // m
        idx.append(num * (j * m2 + i) + dof)
    sub = B[np.ix_(idx, idx)]
    return dict(ev="nested", id=eid, pd=pd, q=q, m2=m2, n2=n2, diff=dyadic(float(np.abs(A - sub).max())),
                scale=dyadic(float(np.abs(A).max())))


def run(tier, seed, build):
    rep = Report("C15", tier, seed)
    rng = random.Random(seed)
    cal = json.load(open(CAL))["table"]
    invs = ["NestedLaw", "RayleighAboveClosedForm"]
    cfg = ("SPECIFICATION EmitSpec\nCONSTANTS\nNFun = 8\nDeviations = {}\nTier = \"%s\"\n%s\nCHECK_DEADLOCK FALSE\n"
           % (tier, "\n".join("INVARIANT " + i for i in invs)))
    mc = run_tlc("c15-mc", "MC_Nested", cfg, workers=16, timeout=6000, heap="8g")
    rep.add_tlc("MC_Nested", mc)
    if not mc.ok:
        rep.machinery("TLC on MC_Nested failed: " + mc.errors())
        return rep.finish()
    events = []
    # (a) nestedness on the code's matrices: (m,n) -> (m+1,n), (m,n+1) for m,n in 4..hi, all restraint patterns "any"
    hi = 8 if tier == "quick" else 16
    pairs = [(m, n) for m in range(4, hi) for n in range(4, hi)]
    pairs = rng.sample(pairs, 8 if tier == "quick" else 40)
    for (m, n) in pairs:
        model = rng.choice(["plate", "cpanel", "plate_w"])
        pd = panelmat.random_pd(rng, [model])
        pd.update(m=m, n=n, y1=rat(0), y2=pd["b"], Ncte=[rat(0)] * 3)
        for q in ("k0", "kG0", "kM"):
            inc = rng.choice([(1, 0), (0, 1)])
            events.append(nested_event(len(events), pd, q, m + inc[0], n + inc[1], (-1.0, 0.5, 0.25)))
        rep.nontrivial(("nested", model, m, n))
    # (b) eigenvalue sequences against the closed forms
    for ks, (a, b, dirs, t, kind, N, model) in enumerate(sequences(tier, rng)):
        orders = orders_for(a, b, tier)
        vals = []
        # every second sequence with force_orthotropic_laminate on: these laminates are specially orthotropic already,
        # so the switch must change nothing
        flag = dict(ortho=True) if ks % 2 == 1 else {}
        # every third sequence is a study on one re-used Panel object, with a detour through another aspect ratio at
        # the last order before it is evaluated (nothing of an earlier definition may survive)
        one = panelmat.build_panel(dict(pd_for(model, a, b, orders[0][0], orders[0][1], dirs, t), **flag)) if ks % 3 == 0 else None
        for ko, (m, n) in enumerate(orders):
            if one is not None and ko == len(orders) - 1:
                first_eigs(dict(pd_for(model, Fraction(3, 2) * Fraction(a), b, m, n, dirs, t), **flag), N, kind, panel=one)
            vals.append(first_eigs(dict(pd_for(model, a, b, m, n, dirs, t), **flag), N, kind, panel=one))
        eps = cal[case_key(a, b, dirs, kind, N, t)]["eps"]
        events.append(dict(ev="seq", id=len(events), pd=dict(pd_for(model, a, b, orders[-1][0], orders[-1][1], dirs, t), **flag),
                           kind=kind, N=[rat(Fraction(x)) for x in N], orders=[list(o) for o in orders],
                           vals=[dyadic(v) for v in vals], eps=rat(Fraction(eps).limit_denominator(10 ** 12))))
        rep.nontrivial(("seq", str(a), str(b), repr(dirs), kind, N))
    tcfg = "CONSTANTS\nNFun = 8\nDeviations = {}\n"
    verdicts, results, problems = validate_trace("c15-tr", "Trace_Nested", tcfg, events, timeout=6000)
    for res in results:
        rep.add_tlc("Trace_Nested", res)
    for p in problems:
        rep.machinery(p)
    for e in events:
        v = verdicts.get(e["id"])
        if v and v[0] != "ok":
            small = {k: e[k] for k in e if k not in ("pd",)}
            rep.violation("%s event rejected: %s" % (e["ev"], str(v[1])[:300]), dict(event=small, pd=e["pd"]))
    rep.cov["traces_validated_against_impl"] = len(events)
    rep.cov["evaluations"] = len(events)
    rep.sample({k: v for k, v in events[0].items() if k != "pd"})
    rep.sample({k: v for k, v in events[-1].items() if k != "pd"})
    rep.cov["rule"] = ("nestedness: seeded (model, m, n) in 4..%d with random rational definitions, k0/kG0/kM sub-matrix of the "
                       "next order; sequences: aspect ratios {1/5..5} x {cross-ply, 0-deg, 90-deg single ply} x load patterns / "
                       "frequency, first eigenvalue for increasing orders; distinct = distinct case" % hi)
    rep.cov["calibration"] = {k: cal[k] for k in list(cal)[:4]}
    rep.assumptions += ["Courant-Fischer (nested trial spaces => eigenvalues cannot rise) is cited, not mechanised",
                        "eigenvalues come from the dense paths of lb/freq (C05/C06) and are observations",
                        "the convergence allowance eps is a calibrated constant (harness/c15_calibration.json, 10x margin); "
                        "monotonicity and the lower bound carry no calibrated constant"]
    return rep.finish()


if __name__ == "__main__":
    sys.path.insert(0, os.path.dirname(os.path.abspath(__file__)))
    import repo_env
    repo_env.activate()
    calibrate()


def replay(path, build):
    """the stored replay file holds the failing definition/behaviour; the check is deterministic in VERIF_SEED, so the
    violation is re-decided by re-running the tier that found it with the same seed"""
    import json
    import os
    rp = json.load(open(path))
    print("replaying %s: %s" % (rp.get("property"), str(rp.get("what"))[:300]))
    return run(os.environ.get("VERIF_TIER", "quick"), int(os.environ.get("VERIF_SEED", "20261003")), build)
