"""Shared machinery of C05 (buckling wrapper) and C06 (frequency wrapper), DESIGN.md section 5.

spec/ctrl/EigWrap.tla is the specification (one state machine for lb / Panel.lb / ConeCyl.lb / freq /
Panel.freq); spec/mc/MC_EigWrap.tla its bounded model; spec/trace/Trace_EigWrap.tla judges what the
real code did.  This file only (a) turns abstract problems into real matrices, (b) calls the real
wrappers and records what they returned exactly, (c) hands the records to TLC and reports verdicts.
The harness never decides a numeric comparison; the residuals it computes are logged as numbers
(observations) and judged by the trace specification."""
import collections
import concurrent.futures as cf
import contextlib
import gc
import io
import json
import math
import os
import random
import time
import warnings

import numpy as np
from scipy.sparse import csr_matrix

import common
from common import Fraction, Report, dyadic, rat, run_tlc, printed_values, validate_trace, from_rat

TOLBITS = 30
SELBITS = 20
LB_APIS = ("lb", "panel_lb", "conecyl_lb")
ARPACK_FAILURES = ("ArpackNoConvergence", "ArpackError")
ACTIONS = {"ChooseK", "TrySparse", "RemoveNull", "TakeVW", "SolveReduced", "Scatter", "NegateInvert",
           "Sqrt", "Sort", "ReExpand", "Return"}
FAMILY_ACTIONS = {"lb": ACTIONS - {"TakeVW", "Sqrt", "Sort", "ReExpand"},
                  "freq": ACTIONS - {"TrySparse", "NegateInvert"}}
INVARIANTS = ["InvWellFormed", "InvZeroOffActive", "InvPairing", "InvLbOrder", "InvFreqOrder", "InvNoRaise",
              "InvContractSane", "InvPathsAgree", "InvScaling"]
SOLVER_CONTRACT = (
    "solver contract (EigWrap!SolverOK, the one assumption): eigsh(A=B,M=K,sigma=1,mode='cayley',which='SM') returns "
    "the k pairs of smallest |(mu+1)/(mu-1)| sorted by algebraic mu (scipy docs: which='SM' with eigenvectors -> "
    "sorted by algebraic value); eigh returns all pairs ascending; eigs(A=K,M=B,sigma=-1,which='LM') returns the k "
    "pairs of largest mu in any order; eig returns all pairs in any order; ARPACK raises TypeError for k >= N "
    "(eigsh) / k >= N-1 (eigs); ties admitted up to 2^-%d relative" % SELBITS)


# ----------------------------------------------------------------------------------------
# observed doubles

def dy(x):
    x = float(x)
    if x != x:
        return [7, [], 0]
    if x == float("inf"):
        return [9, [], 0]
    if x == float("-inf"):
        return [-9, [], 0]
    return dyadic(x)


def cplx(z):
    z = complex(z)
    return [dy(z.real), dy(z.imag)]


# ----------------------------------------------------------------------------------------
# 1. the specification on its bounded model

def mc_cfg(family, mode, tier):
    return ("SPECIFICATION MCSpec\nCONSTANTS Family = \"%s\"\nDevMode = \"%s\"\nTier = \"%s\"\nTolBits = %d\n"
            "SelBits = 0\n%sCHECK_DEADLOCK FALSE\n"
            % (family, mode, tier, TOLBITS, "".join("INVARIANT %s\n" % i for i in INVARIANTS)))


def model_check(rep, family, tier):
    """TLC on MC_EigWrap with all deviations on (today's code) and off (the literal property).
    Returns the lattice cases [(p, o)] (abstract, as parsed TLA+ values) or None on machinery failure."""
    def one(mode):
        return run_tlc("ew-%s-%s" % (family, mode), "MC_EigWrap", mc_cfg(family, mode, tier),
                       workers=8, timeout=3400, heap="6g")
    with cf.ThreadPoolExecutor(max_workers=2) as ex:
        res = dict(zip(("code", "literal"), ex.map(one, ("code", "literal"))))
    cases, seen = [], set()
    taken = collections.Counter()
    flags = collections.Counter()
    for mode, r in res.items():
        rep.add_tlc("MC_EigWrap(%s,%s,%s)" % (family, mode, tier), r)
        if not r.ok:
            i = r.out.find("Error:")
            rep.machinery("TLC on MC_EigWrap (%s, %s) failed or an invariant is violated: %s"
                          % (family, mode, r.out[i:i + 1500] if i >= 0 else r.out[-1500:]))
            return None
        ends = printed_values(r.out, "END")
        if not ends:
            rep.machinery("no finished behaviour reported by MC_EigWrap (%s, %s)" % (family, mode))
            return None
        for e in ends:
            for a in e[1]:
                taken[a] += 1
            flags[(mode, "ended:" + e[2])] += 1
            for k, v in e[6].items():
                if v:
                    flags[(mode, k)] += 1
        if mode == "code":
            for v in printed_values(r.out, "REQ"):
                key = common._hashable(v[1:])
                if key not in seen:
                    seen.add(key)
                    cases.append((v[1], v[2]))
    # vacuity: every action of the module is taken, every antecedent holds somewhere
    missing = FAMILY_ACTIONS[family] - set(taken)
    if missing:
        rep.machinery("vacuity: actions never taken in the bounded model: %s" % sorted(missing))
    need = {"lb": [("code", "regime"), ("code", "tail"), ("code", "agree"), ("code", "ended:raised"),
                   ("code", "ended:done"), ("literal", "regime"), ("literal", "agree")],
            "freq": [("code", "collision"), ("code", "agree"), ("code", "unsorted"), ("code", "ended:raised"),
                     ("code", "ended:done"), ("literal", "agree")]}[family]
    for k in need:
        if not flags[k]:
            rep.machinery("vacuity: antecedent %s never holds in the bounded model" % (k,))
    if flags[("literal", "ended:raised")]:
        rep.machinery("the literal model raises (%d behaviours)" % flags[("literal", "ended:raised")])
    rep.cov["model_actions_taken"] = dict(taken)
    rep.cov["model_antecedents"] = {"%s:%s" % k: v for k, v in sorted(flags.items())}
    return cases


def problem_from_tla(p):
    return dict(n=p["n"], cls=list(p["cls"]), sp=[from_rat(x) for x in p["sp"]], s=from_rat(p["s"]))


def opts_from_tla(o):
    return dict(api=o["api"], sparse=bool(o["sparse"]), num=o["num"], sort=bool(o["sort"]),
                reduced=bool(o["reduced"]), pos=o["pos"])


# ----------------------------------------------------------------------------------------
# 2. abstract problem -> real matrices (direction A)

def _unimodular(rs, g):
    """integer matrix with determinant 1 and small entries: unit lower x unit upper triangular"""
    lo = np.tril(rs.randint(-1, 2, size=(g, g)), -1) + np.eye(g)
    up = np.triu(rs.randint(-1, 2, size=(g, g)), 1) + np.eye(g)
    return lo @ up


MAGS = (dict(t=0, soft=0), dict(t=60, soft=0), dict(t=-60, soft=0), dict(t=0, soft=-40))


def realise(prob, family, pseed, mag=None):
    """(K, B) with B v = mu K v having exactly the abstract spectrum on the active amplitudes.
    P = [[Q, 0], [C, I]] over (both, konly); K = P' Dk P, B = s P' diag(Db, 0) P: B's konly columns are
    null, K couples them.  "bonly" amplitudes (no stiffness) get a B column coupled to the loaded ones: they do
    not change the pencil reduced by the null pattern of K.  All entries are small integers (times powers of
    two): exact in binary64.
    MAGNITUDE (mag): t - the whole pair is multiplied by 2^t (eigenvalues invariant); soft - the loaded
    amplitudes are split into two uncoupled blocks and the second block of K and of B is multiplied by 2^soft
    (eigenvalues invariant as well); that soft block carries the smallest positive multiplier / the lowest
    frequency.  Null columns are exact structural zeros whatever the magnitude of the others."""
    mag = mag or MAGS[0]
    rs = np.random.RandomState(pseed % (2 ** 31))
    n, cls = prob["n"], prob["cls"]
    both = [i for i in range(n) if cls[i] == "both"]
    konly = [i for i in range(n) if cls[i] == "konly"]
    g, r = len(both), len(konly)
    mus = [x for x in prob["sp"] if x != 0]
    if len(mus) != g:
        raise AssertionError("lattice problem with a zero multiplier on a loaded amplitude")
    graded = bool(mag["soft"]) and g >= 2
    g1 = (g + 1) // 2 if graded else g              # stiff block first, soft block after it
    if graded:
        mus = sorted(mus)
        ext = mus[:g - g1] if family == "lb" else mus[g1:]      # most negative mu / largest mu go to the soft block
        rest = mus[g - g1:] if family == "lb" else mus[:g1]
        rest = [rest[i] for i in rs.permutation(len(rest))]
        mus = rest + ext
    else:
        mus = [mus[i] for i in rs.permutation(g)]    # which eigenvector carries which multiplier: irrelevant, seeded
    dk, db = [], []
    for mu in mus:
        j = 2 ** int(rs.randint(0, 3))
        dk.append(mu.denominator * j)                 # mu = db / dk  (lb: -1/lambda, freq: 1/omega^2)
        db.append(mu.numerator * j)
    P = np.zeros((g + r, g + r))
    P[:g1, :g1] = _unimodular(rs, g1)
    if graded:
        P[g1:g, g1:g] = _unimodular(rs, g - g1)
    if r:
        P[g:, :g1] = rs.randint(-1, 2, size=(r, g1))           # stiffness-only amplitudes couple to the stiff block
        P[g:, g:] = np.eye(r)
    Dk = np.diag([float(x) for x in dk] + [float(2 ** int(rs.randint(0, 3))) for _ in range(r)])
    Db = np.diag([float(x) for x in db] + [0.0] * r)
    Kr = P.T @ Dk @ P
    Br = float(prob["s"]) * (P.T @ Db @ P)
    if graded:
        Kr[g1:g, g1:g] *= 2.0 ** mag["soft"]
        Br[g1:g, g1:g] *= 2.0 ** mag["soft"]
        if np.any(Kr[g1:g, :g1] != 0) or np.any(Br[g1:g, :g1] != 0) or np.any(Kr[g1:g, g:] != 0):
            raise AssertionError("soft block is coupled")
    idx = both + konly
    K = np.zeros((n, n))
    B = np.zeros((n, n))
    K[np.ix_(idx, idx)] = Kr
    B[np.ix_(idx, idx)] = Br
    if r and np.any(B[:, konly] != 0):
        raise AssertionError("stiffness-only amplitude received a load column")
    bonly = [i for i in range(n) if cls[i] == "bonly"]
    stiff = both[:g1]
    for b in bonly:
        x = rs.randint(-1, 2, size=g1).astype(float)
        if not x.any():
            x[0] = 1.0
        B[b, stiff] = float(prob["s"]) * x
        B[stiff, b] = float(prob["s"]) * x
        B[b, b] = float(prob["s"]) * (64.0 if family == "freq" else float(rs.choice([-3, -2, 2, 3])))
    t = 2.0 ** mag["t"]
    return K * t, B * t


# ----------------------------------------------------------------------------------------
# 3. calling the real wrappers

class Impl:
    """the functions under test; `lb_fn` / `freq_fn` can be replaced (self-test with mutated copies)"""

    def __init__(self, lb_fn=None, freq_fn=None):
        from compmech.analysis import lb, freq
        self.lb_fn = lb_fn or lb
        self.freq_fn = freq_fn or freq
        self._cone = None
        self._panel = None
        self._cc = None

    def conecyl(self):
        if self._cone is None:
            from compmech.conecyl import ConeCyl

            class Driven(ConeCyl):
                def _calc_linear_matrices(self, **kw):
                    pass
            self._cone = Driven
        return self._cone

    def call(self, o, K, B, panel=None, form="csr"):
        """returns (vals, vecs); K, B dense arrays or sparse matrices of the size the wrapper sees; `form`: the
        sparse container the analysis functions are handed (csr / csc / coo); self.intact tells afterwards
        whether the handed objects still hold what was handed over"""
        api = o["api"]
        K = csr_matrix(K)
        B = csr_matrix(B)
        self.intact = True
        self.kept = True
        if api in ("lb", "freq"):
            Kh, Bh = K.asformat(form).copy(), B.asformat(form).copy()
            try:
                if api == "lb":
                    return self.lb_fn(Kh, Bh, tol=0, sparse_solver=o["sparse"], silent=True, num_eigvalues=o["num"])
                return self.freq_fn(Kh, Bh, tol=0, sparse_solver=o["sparse"], silent=True, sort=o["sort"],
                                    reduced_dof=o["reduced"], num_eigvalues=o["num"])
            finally:
                self.intact = bool(Kh.format == form and Bh.format == form and Kh.shape == K.shape
                                   and Bh.shape == B.shape and (csr_matrix(Kh) != K).nnz == 0
                                   and (csr_matrix(Bh) != B).nnz == 0)
        if api == "lb":
            return self.lb_fn(K, B, tol=0, sparse_solver=o["sparse"], silent=True, num_eigvalues=o["num"])
        if api == "freq":
            return self.freq_fn(K, B, tol=0, sparse_solver=o["sparse"], silent=True, sort=o["sort"],
                                reduced_dof=o["reduced"], num_eigvalues=o["num"])
        if api in ("panel_lb", "panel_freq"):
            from compmech.panel import Panel
            p = panel
            if p is None:                       # matrices given: the panel's own builders are stubbed on the instance
                if self._panel is None:         # (one instance re-used: Panel() runs gc.collect())
                    self._panel = Panel()
                p = self._panel
                p.eigvals = p.eigvecs = None
                p.k0 = K
                p.calc_k0 = lambda *a, **kw: K
                if api == "panel_lb":
                    p.kG0 = B
                    p.calc_kG0 = lambda *a, **kw: B
                else:
                    p.kM = B
                    p.calc_kM = lambda *a, **kw: B
            p.num_eigvalues = o["num"]
            try:
                if api == "panel_lb":
                    p.lb(tol=0, sparse_solver=o["sparse"], silent=True)
                else:
                    p.freq(atype=4, tol=0, sparse_solver=o["sparse"], silent=True, sort=o["sort"],
                           reduced_dof=o["reduced"])
            finally:
                # handed-kept: what earlier calls on this object handed out is still what it was
                self.kept = all(ref.shape == cp.shape and ref.dtype == cp.dtype and ref.tobytes() == cp.tobytes()
                                for ref, cp in getattr(p, "_ew_kept", []))
            return p.eigvals, p.eigvecs
        if api == "conecyl_lb":
            q = o["pos"]
            n = K.shape[0]
            k0 = np.zeros((n + q, n + q))
            kg = np.zeros((n + q, n + q))
            k0[:q, :q] = np.eye(q)
            k0[q:, q:] = K.toarray()
            kg[q:, q:] = B.toarray()
            if self._cc is None:
                self._cc = self.conecyl()()
            cc = self._cc
            cc.eigvals = cc.eigvecs = None
            cc.model = "clpt_donnell_bc1"
            cc.k0 = csr_matrix(k0)
            cc.kG0 = csr_matrix(kg)
            cc.num_eigvalues = o["num"]
            cc.Fc = 1.
            cc.lb(tol=0)
            return cc.eigvals, cc.eigvecs
        raise ValueError(api)


def observe(impl, o, K, B, panel=None, form="csr"):
    """one call of the real wrapper -> (obs record, vals, vecs)"""
    sink = io.StringIO()
    try:
        with warnings.catch_warnings(), contextlib.redirect_stdout(sink), np.errstate(all="ignore"):
            warnings.simplefilter("ignore")
            vals, vecs = impl.call(o, K, B, panel=panel, form=form)
    except Exception as e:                                         # an exception is an event too
        return dict(exc=type(e).__name__, msg=str(e)[:200], nvals=0, nr=0, nc=0, vals=[], nzrows=[], res=[],
                    peer=[], intact=getattr(impl, "intact", True), kept=getattr(impl, "kept", True)), None, None
    vals = np.asarray(vals)
    vecs = np.asarray(vecs)
    if vals.ndim != 1 or vecs.ndim != 2:
        return dict(exc="BadShape", msg="%s %s" % (vals.shape, vecs.shape), nvals=0, nr=0, nc=0, vals=[],
                    nzrows=[], res=[], peer=[], intact=getattr(impl, "intact", True), kept=getattr(impl, "kept", True)), None, None
    nz = np.nonzero(np.any(vecs != 0, axis=1))[0]
    obs = dict(exc="", nvals=int(vals.shape[0]), nr=int(vecs.shape[0]), nc=int(vecs.shape[1]),
               vals=[cplx(z) for z in vals], nzrows=[int(i) + 1 for i in nz], res=[], peer=[],
               intact=getattr(impl, "intact", True), kept=getattr(impl, "kept", True))
    return obs, vals, vecs


def residuals(o, K, B, vals, vecs, cls=None):
    """observed || (K + lambda B) v || resp. || K v - omega^2 B v || with its scale 2^-30 (||K|| + |.| ||B||) ||v||,
    taken on the rows of the amplitudes that carry stiffness (the pencil reduced by the null pattern of K: on a
    load-/mass-only amplitude the equation cannot hold for a mode that is zero there)"""
    K = csr_matrix(K)
    B = csr_matrix(B)
    q = o["pos"]
    rows = None
    if cls is not None and any(c == "bonly" for c in cls):
        rows = [i for i, c in enumerate(cls) if c in ("both", "konly")]
    nK = float(np.sqrt(K.multiply(K).sum()))
    nB = float(np.sqrt(B.multiply(B).sum()))
    out = []
    for c in range(min(vals.shape[0], vecs.shape[1])):
        z = complex(vals[c])
        if not (math.isfinite(z.real) and math.isfinite(z.imag)):
            out.append(dict(skip=True, r=dy(0), b=dy(0), v=dy(0), q=dy(0)))
            continue
        v = vecs[q:, c]
        qz = 0.0
        with np.errstate(all="ignore"):
            if o["api"] in LB_APIS:
                fac = z.real
                r = K @ v + fac * (B @ v)
            else:
                fac = z * z
                r = K @ v - fac * (B @ v)
            if rows is not None:
                r = r[rows]
            rn = float(np.linalg.norm(r))
            vn = float(np.linalg.norm(v))
            bound = 2.0 ** -30 * (nK + abs(fac) * nB) * vn
            if o["api"] not in LB_APIS and not o["sparse"] and nK > 0:
                # dense frequency path = QZ on (-M, K): backward stable normwise only, so an eigenvalue mu = 1/omega^2
                # carried by a block of tiny magnitude is returned with the forward error
                #   |d mu| <~ eps (||M|| + |mu| ||K||) ||v||^2 / (v'Kv);   logged with eps = 2^-42 and admitted by
                # the value clause next to its 2^-30 max mu (an observation like the residual)
                vKv = abs(complex(np.vdot(v, K @ v)))
                mu_o = abs(1.0 / fac) if fac != 0 else 0.0
                qz = 2.0 ** -42 * (nB + mu_o * nK) * vn * vn / vKv if vKv > 0 else float("inf")
        if not (math.isfinite(rn) and math.isfinite(bound)):
            out.append(dict(skip=False, r=dy(float("inf")), b=dy(0), v=dy(vn), q=dy(0)))
        else:
            out.append(dict(skip=False, r=dy(rn), b=dy(bound), v=dy(vn), q=dy(qz if math.isfinite(qz) else 0)))
    return out


def certificate(o, sp_scaled, vals):
    """ids of the spectrum matched to the returned values, in returned order (a hint; SolverOK and the
    value clause of the trace specification decide whether it is acceptable).  Monotone matching: the
    returned values, taken in ascending mu, are matched to ascending ids, each to the nearest id that is
    still free and leaves enough ids for the rest (for a complete list this is matching by rank; a greedy
    nearest-first matching in returned order mis-assigned dense clusters of tiny mu: a recorded false alarm)."""
    mu = np.array([float(x) for x in sp_scaled])
    scale = float(np.max(np.abs(mu))) if len(mu) else 1.0
    lbfam = o["api"] in LB_APIS
    ms = []
    for z in vals:
        z = complex(z)
        with np.errstate(all="ignore"):
            if lbfam:
                m = 0.0 if math.isinf(z.real) else (-1.0 / z.real if z.real != 0 else float("nan"))
            else:
                w2 = z * z
                m = (1.0 / w2).real if w2 != 0 else float("nan")
        if m != m:
            return []
        ms.append(m)
    if len(ms) > len(mu):
        return []
    ids = [0] * len(ms)
    j = 0
    order = sorted(range(len(ms)), key=lambda c: ms[c])
    for r, c in enumerate(order):
        hi = len(mu) - (len(ms) - r)            # last id that leaves room for the remaining values
        seg = np.abs(mu[j:hi + 1] - ms[c])
        # leftmost of the (nearly) nearest: members of a multiple eigenvalue are taken in order
        k = j + int(np.nonzero(seg <= seg.min() + 1e-10 * scale)[0][0])
        ids[c] = k + 1
        j = k + 1
    return ids


def zero_sum_columns(B, cls):
    """amplitudes whose B column is not null but sums to zero, evaluated exactly as the dense frequency path
    evaluates it (M.toarray().sum(axis=0)): an exact structural observation of the input"""
    Bd = csr_matrix(B).toarray()
    cs = Bd.sum(axis=0)
    return [i + 1 for i in range(Bd.shape[0]) if cls[i] == "both" and cs[i] == 0]


FORMS = ("csr", "csc", "coo")


def make_event(eid, impl, prob, o, K, B, gen, panel=None, want_raw=False, pre=None):
    """call + record.  prob: abstract problem (python, Fractions); returns the event dict.
    pre = (obs, vals, vecs): the call has been made already (objects that build their own matrices)"""
    obs, vals, vecs = pre if pre is not None else observe(impl, o, K, B, panel=panel, form=gen.get("form", "csr"))
    cert = []
    if obs["exc"] == "":
        obs["res"] = residuals(o, K, B, vals, vecs, prob["cls"])
        cert = certificate(o, [x * prob["s"] for x in prob["sp"]], vals)
    e = dict(id=eid, p=dict(n=prob["n"], cls=prob["cls"], sp=[rat(x) for x in prob["sp"]], s=rat(prob["s"]),
                            zs=zero_sum_columns(B, prob["cls"])),
             o=dict(o), cert=cert, obs=obs, gen=gen)
    if want_raw:
        return e, vals, vecs
    return e


_FORK = {}


def _lattice_chunk(rng):
    impl, family, tasks = _FORK["impl"], _FORK["family"], _FORK["tasks"]
    out = []
    for (eid, prob, opts, pseed, gid) in tasks[rng[0]:rng[1]]:
        mag = MAGS[(eid // 3) % 4]
        if mag["soft"] and family == "freq" and not opts["sparse"]:
            # dense frequency path = LAPACK QZ on (-M, K), accurate normwise only: a block 2^-40 below the rest is
            # at its deflation threshold (observed: the soft block's frequencies come back wrong or as inf).
            # Not judged: that path gets the whole pair scaled instead.
            mag = MAGS[2]
        K, B = realise(prob, family, pseed, mag)
        gen = dict(kind="lattice", family=family, pseed=pseed, group="L%d" % gid, form=FORMS[eid % 3], mag=mag,
                   p=dict(n=prob["n"], cls=prob["cls"], sp=[frac_pair(x) for x in prob["sp"]], s=frac_pair(prob["s"])))
        out.append(make_event(eid, impl, prob, opts, K, B, gen))
    return out


def lattice_events(impl, family, tasks, nproc=8):
    """replay the lattice cases through the real wrappers; forked workers for large lattices (the calls are
    independent: fresh matrices per case, one re-used Panel / ConeCyl instance per worker)"""
    _FORK.update(impl=impl, family=family, tasks=tasks)
    if len(tasks) < 6000:
        return _lattice_chunk((0, len(tasks)))
    import multiprocessing as mp
    step = 500
    ranges = [(a, min(a + step, len(tasks))) for a in range(0, len(tasks), step)]
    with mp.get_context("fork").Pool(nproc) as pool:
        parts = pool.map(_lattice_chunk, ranges)
    return [e for part in parts for e in part]


def _group_worker(i):
    """one direction-B group: matrices of a seeded Panel definition / random pair, its measured spectrum, and
    every requested call (all scales, histories, container forms)"""
    impl, family, spec = _FORK["impl"], _FORK["family"], _FORK["specs"][i]
    gen, excluded, events = spec["gen"], collections.Counter(), []
    gc.freeze()
    panel_def = gen.get("def")
    try:
        K, B = gen_matrices(dict(gen, scale=1.0))
    except Exception as ex:
        excluded["definition rejected by the package: %s" % type(ex).__name__] += 1
        return events, excluded
    if spec["maxdof"] is not None and K.shape[0] > spec["maxdof"]:
        return events, excluded
    cls = classify(K, B)
    try:
        sp = reference_spectrum(K, B, cls)
    except np.linalg.LinAlgError:
        excluded["K not positive definite on its active amplitudes"] += 1
        return events, excluded
    if not sp:
        excluded["no active amplitude"] += 1
        return events, excluded
    if family == "lb" and any(abs(float(x) - 1.0) < 1e-3 for x in sp):
        excluded["reversed reference load within 1e-3 of critical (KG - K singular)"] += 1
        return events, excluded
    if family == "lb" and any(abs(float(x) * sc + 1.0) < 1e-6 for x in sp for sc in (1, 2, 0.5)):
        excluded["reference load within 1e-6 of critical (Cayley Ritz value 0, ARPACK purification divides by it)"] += 1
        return events, excluded
    if family == "freq" and min(sp) < 0:
        excluded["mass matrix not positive semi-definite on the active amplitudes"] += 1
        return events, excluded
    for o in spec["opts"]:
        o = dict(o)
        hist, hseed = o.pop("hist", None), o.pop("hseed", 0)
        tpow = o.pop("tpow", 0)                      # the whole pair times 2^tpow: same abstract problem
        if family == "freq" and not o["sparse"] and gen.get("grade") in ("soft", "softB"):
            excluded["dense QZ path on a graded pair (normwise accuracy only): not judged"] += 1
            continue
        for s in o.pop("scales", [Fraction(1)]):
            prob = dict(n=K.shape[0], cls=cls, sp=sp, s=s)
            g = dict(gen, scale=float(s), group="%s-s%s" % (gen["group"], s), form=FORMS[(i + len(events)) % 3],
                     tpow=tpow)
            panel = None
            if o["api"].startswith("panel_") and panel_def is not None:
                # the real Panel builds its own matrices - on an object with a past (history before the call)
                g["hist"], g["hseed"] = hist or "fresh", hseed
                try:
                    panel = panel_with_history(panel_def, g["hist"], o["api"], o, hseed)
                except Exception as ex:
                    excluded["history %s not executable: %s" % (g["hist"], type(ex).__name__)] += 1
                    continue
            t = 2.0 ** tpow
            e = make_event(0, impl, prob, dict(o), K * t, B * (float(s) * t), g, panel=panel)
            if e["obs"]["exc"] in ARPACK_FAILURES:
                excluded["ARPACK broke down / did not converge (solver contract not met): %s" % e["obs"]["exc"]] += 1
                continue
            events.append(e)
    return events, excluded


CONE_MODELS = ("clpt_donnell_bc1", "clpt_donnell_bc3", "clpt_sanders_bc2", "clpt_donnell_bc2")


def conecyl_definition(rs):
    """a small ConeCyl (cylinder or cone, clpt models) under axial force, pressure and torque that are all
    non-zero and distinct, so that any mix-up of the three geometric stiffness parts shows"""
    return dict(model=CONE_MODELS[int(rs.randint(0, len(CONE_MODELS)))], alphadeg=[0., 20., 35.][int(rs.randint(0, 3))],
                m1=int(rs.randint(5, 8)), m2=int(rs.randint(3, 5)), n2=int(rs.randint(4, 6)),
                r2=250., H=[510., 300.][int(rs.randint(0, 2))], plyt=0.125,
                stack=[[0, 0, 19, -19, 37, -37, 45, -45, 51, -51], [0, 90, 90, 0], [45, -45, -45, 45]][int(rs.randint(0, 3))],
                laminaprop=(123.55e3, 8.708e3, 0.319, 5.695e3, 5.695e3, 5.695e3),
                Fc=[1000., 1500., 700.][int(rs.randint(0, 3))], P=[0.004, 0.002][int(rs.randint(0, 2))],
                T=[3.e5, 1.e5][int(rs.randint(0, 2))])


def build_conecyl(d):
    from compmech.conecyl import ConeCyl
    cc = ConeCyl()
    for k in ("model", "m1", "m2", "n2", "laminaprop", "stack", "plyt", "r2", "H", "alphadeg", "Fc", "P", "T"):
        setattr(cc, k, d[k])
    return cc


def conecyl_pencil(cc, clc, pos):
    """the pencil the docstring of ConeCyl.lb states for each combined_load_case, from the parts the object holds
    after the call: None: (k0, kG0);  1: critical axial load for a fixed torsion (k0 + kG0_T, kG0_Fc);
    2: critical axial load for a fixed pressure (k0 + kG0_P, kG0_Fc);  3: critical torsion for a fixed axial
    load (k0 + kG0_Fc, kG0_T)"""
    k0 = csr_matrix(cc.k0)
    if clc is None:
        M, A = k0, csr_matrix(cc.kG0)
    elif clc == 1:
        M, A = k0 + csr_matrix(cc.kG0_T), csr_matrix(cc.kG0_Fc)
    elif clc == 2:
        M, A = k0 + csr_matrix(cc.kG0_P), csr_matrix(cc.kG0_Fc)
    else:
        M, A = k0 + csr_matrix(cc.kG0_Fc), csr_matrix(cc.kG0_T)
    return csr_matrix(M[pos:, pos:]), csr_matrix(A[pos:, pos:])


def _conecyl_worker(spec):
    """ConeCyl.lb / ConeCyl.eigen on real small shells for combined_load_case None / 1 / 2 / 3: the returned pairs
    are judged as eigenpairs of the documented pencil (same trace event as the driven ConeCyl.lb)"""
    gen, excluded, events = spec["gen"], collections.Counter(), []
    gc.freeze()
    d = gen["def"]
    for (clc, method, num) in spec["calls"]:
        o = dict(api="conecyl_lb", sparse=True, num=num, sort=False, reduced=False, pos=3)
        g = dict(gen, clc=clc, method=method, scale=1.0, group="%s-c%s" % (gen["group"], clc), form="csr")
        sink = io.StringIO()
        cc = None
        try:
            with warnings.catch_warnings(), contextlib.redirect_stdout(sink), np.errstate(all="ignore"):
                warnings.simplefilter("ignore")
                cc = build_conecyl(d)
                cc.num_eigvalues = num
                exc = ""
                try:
                    getattr(cc, method)(combined_load_case=clc)
                    vals, vecs = np.asarray(cc.eigvals), np.asarray(cc.eigvecs)
                except Exception as ex:
                    exc, msg_, vals, vecs = type(ex).__name__, str(ex)[:200], None, None
                from compmech.conecyl.modelDB import get_model
                if get_model(d["model"])["num0"] != o["pos"]:
                    raise AssertionError("num0")
                K, B = conecyl_pencil(cc, clc, o["pos"])
        except Exception as ex:
            excluded["ConeCyl definition / matrices not available: %s" % type(ex).__name__] += 1
            continue
        if exc in ARPACK_FAILURES:
            excluded["ARPACK broke down / did not converge (solver contract not met): %s" % exc] += 1
            continue
        cls = classify(K, B)
        act = [i for i, c in enumerate(cls) if c in ("both", "konly")]
        wK = np.linalg.eigvalsh(K[act, :][:, act].toarray()) if act else np.array([0.0])
        if wK[0] <= 1e-12 * wK[-1]:
            # e.g. clpt_donnell_bc2 cones: k0 is singular on its own amplitudes (outside the property's premise)
            excluded["k0 + fixed load part not positive definite on its active amplitudes"] += 1
            continue
        try:
            sp = reference_spectrum(K, B, cls)
        except np.linalg.LinAlgError:
            excluded["k0 + fixed load part not positive definite on its active amplitudes"] += 1
            continue
        if any(abs(float(x) - 1.0) < 1e-3 or abs(float(x) + 1.0) < 1e-6 for x in sp):
            excluded["reference load within tolerance of critical"] += 1
            continue
        # The solver contract is probed on this pencil: when ARPACK's Cayley run does not converge here, ConeCyl.lb
        # swallows that and answers with mode='buckling' garbage (KF_C05_ConeCylBucklingMode, listed; outside the
        # regime the model admits it, inside the regime it would look like any other wrong answer) - not judged.
        if K.shape[0] > 20 and not exc:
            from scipy.sparse.linalg import eigsh
            Kr, Br = K[act, :][:, act], B[act, :][:, act]
            probe_ok = True
            for _ in range(2):
                try:
                    with warnings.catch_warnings(), np.errstate(all="ignore"):
                        warnings.simplefilter("ignore")
                        eigsh(A=Br, k=min(num, len(act) - 1), which="SM", M=Kr, tol=0, sigma=1., mode="cayley")
                except Exception:
                    probe_ok = False
                    break
            if not probe_ok:
                excluded["ARPACK broke down / did not converge (solver contract not met): probe on the ConeCyl pencil"] += 1
                continue
        if exc:
            obs = dict(exc=exc, msg=msg_, nvals=0, nr=0, nc=0, vals=[], nzrows=[], res=[], peer=[], intact=True, kept=True)
        else:
            nz = np.nonzero(np.any(vecs != 0, axis=1))[0]
            obs = dict(exc="", nvals=int(vals.shape[0]), nr=int(vecs.shape[0]), nc=int(vecs.shape[1]),
                       vals=[cplx(z) for z in vals], nzrows=[int(i) + 1 for i in nz], res=[], peer=[], intact=True, kept=True)
        prob = dict(n=K.shape[0], cls=cls, sp=sp, s=Fraction(1))
        events.append(make_event(0, None, prob, o, K, B, g, pre=(obs, vals, vecs)))
    return events, excluded


def attach_peers(events):
    """sparse <-> dense on the same matrices: every sparse event gets the dense path's values (path-agreement
    clause), provided the dense path is specified for this input (frequency family: same null pattern of K
    and M, no zero-sum mass column - otherwise KF_C06_DenseColumnSum makes the dense result unspecified)"""
    groups = collections.defaultdict(list)
    for e in events:
        o = e["o"]
        if o["api"] in ("lb", "panel_lb", "freq", "panel_freq") and not o["reduced"] and e["obs"]["exc"] == "":
            if e["gen"].get("group") is None or e["gen"].get("hist", "fresh") != "fresh":
                continue
            if o["api"] in ("freq", "panel_freq") and (e["p"]["zs"] or any(c in ("konly", "bonly") for c in e["p"]["cls"])):
                continue
            if o["api"] in ("freq", "panel_freq") and (e["gen"].get("grade") in ("soft", "softB")
                                                       or (e["gen"].get("mag") or {}).get("soft")):
                continue                 # dense QZ on a graded pair: accurate normwise only (see residuals)
            groups[(e["gen"]["group"], o["api"], o["sort"], json.dumps(e["p"]["s"]))].append(e)
    for key, es in groups.items():
        de = [e for e in es if not e["o"]["sparse"]]
        if de:
            for x in es:
                if x["o"]["sparse"]:
                    x["obs"]["peer"] = de[0]["obs"]["vals"][:25]


# ----------------------------------------------------------------------------------------
# 4. direction B: matrices produced by the package and seeded random pairs

def classify(K, B):
    """abstract classes from the stored structure (exact): null / both / konly (stiffness, B column null) /
    bonly (B column on an amplitude without stiffness)"""
    K = csr_matrix(K)
    B = csr_matrix(B)
    kn = np.zeros(K.shape[0], dtype=bool)
    bn = np.zeros(K.shape[0], dtype=bool)
    kn[np.unique(K.nonzero()[1])] = True
    bn[np.unique(B.nonzero()[1])] = True
    return ["both" if (kn[i] and bn[i]) else ("konly" if kn[i] else ("bonly" if bn[i] else "null"))
            for i in range(K.shape[0])]


def reference_spectrum(K, B, cls):
    """mu of B v = mu K v on the active amplitudes by an independent dense route (Cholesky of K, LAPACK
    syevd through numpy.linalg.eigvalsh); values below 2^-36 of the largest are structural zeros.
    Returned ascending, as exact Fractions of the doubles: the abstraction of the input, judged with
    tolerance 2^-30 max|mu| by the trace specification."""
    act = [i for i, c in enumerate(cls) if c in ("both", "konly")]
    Ka = csr_matrix(K)[act, :][:, act].toarray()
    Ba = csr_matrix(B)[act, :][:, act].toarray()
    Ka = 0.5 * (Ka + Ka.T)
    Ba = 0.5 * (Ba + Ba.T)
    L = np.linalg.cholesky(Ka)
    X = np.linalg.solve(L, Ba)
    A = np.linalg.solve(L, X.T).T
    mu = np.linalg.eigvalsh(0.5 * (A + A.T))
    top = float(np.max(np.abs(mu))) if len(mu) else 0.0
    mu = np.where(np.abs(mu) <= top * 2.0 ** -36, 0.0, mu)
    return [Fraction(float(x)) for x in np.sort(mu)]


def panel_definition(rs, tier, family):
    """a small Panel definition in the style of compmech/panel/tests (plate / cpanel), seeded"""
    model = ["plate_clt_donnell_bardell", "cpanel_clt_donnell_bardell", "plate_clt_donnell_bardell_w"][int(rs.randint(0, 3))]
    hi = 11 if tier == "thorough" else 7
    m = int(rs.randint(3, hi + 1))
    n = int(rs.randint(3, hi + 1))
    if model.endswith("_w"):
        m, n = min(m + 4, 14), min(n + 4, 14)
    stack = [[0, 90, -45, 45], [0, 90, 90, 0], [45, -45, 0, 90, 30], [0], [30, -30, -30, 30]][int(rs.randint(0, 5))]
    loads = [(-1., 0., 0.), (0., -1., 0.), (-1., -0.5, 0.), (-1., 0.5, 0.), (0., 0., 1.), (-3., 0., 2.),
             (-200., 0., 0.), (1., -2., 0.)][int(rs.randint(0, 8))]
    if loads[0] == -200. and m * n > 30:          # super-critical reference load: small panels only (see run_family)
        loads = (-1., 0., 0.)
    d = dict(model=model, m=m, n=n, a=[1., 2., 0.75][int(rs.randint(0, 3))], b=[0.5, 1., 1.5][int(rs.randint(0, 3))],
             r=[2., 10.][int(rs.randint(0, 2))], stack=stack, plyt=0.125e-3,
             laminaprop=(142.5e9, 8.7e9, 0.28, 5.1e9, 5.1e9, 5.1e9), mu=1.3e3,
             Nxx=loads[0], Nyy=loads[1], Nxy=loads[2], flags={})
    edge = int(rs.randint(0, 4))
    if edge == 1:       # one free edge
        d["flags"] = dict(u2ty=1, v2ty=1, w2ty=1, u2ry=1, v2ry=1, w2ry=1)
    elif edge == 2:     # clamped
        d["flags"] = dict(w1rx=0, w2rx=0, w1ry=0, w2ry=0)
    elif edge == 3:     # in-plane free on x edges
        d["flags"] = dict(u1tx=1, u2tx=1, v1tx=1, v2tx=1)
    return d


def build_panel(d, uniform=True):
    from compmech.panel import Panel
    p = Panel()
    set_definition(p, d, uniform)
    p.alphadeg = 0.
    for k, v in d["flags"].items():
        setattr(p, k, v)
    return p


PANEL_ATTRS = ("model", "m", "n", "a", "b", "r", "stack", "mu", "Nxx", "Nyy", "Nxy")


def set_definition(p, d, uniform):
    """uniform=True: the scalar plyt / laminaprop form of the package's tests (fresh objects only: Panel copies it
    into plyts / laminaprops on first use and never looks at it again - reported separately, not a C05/C06
    matter); uniform=False: the per-ply lists, which is what a redefinition on a used object has to set"""
    for k in PANEL_ATTRS:
        setattr(p, k, d[k])
    if uniform:
        p.plyt, p.laminaprop = d["plyt"], d["laminaprop"]
    else:
        p.plyts = [d["plyt"] for _ in d["stack"]]
        p.laminaprops = [tuple(d["laminaprop"]) for _ in d["stack"]]
HISTORIES = ("fresh", "redef:stack", "redef:plyt", "redef:geometry", "redef:loads", "redef:orders", "redef:material",
             "kT", "wrapper:loads", "redef:flags", "redef:flags")
# boundary-condition study: edge flag sets (on top of the Panel defaults = ssss); a change moves the null pattern
FLAG_SETS = (dict(),                                                       # ssss
             dict(w1rx=0, w2rx=0, w1ry=0, w2ry=0),                         # cccc
             dict(w1rx=0, w2rx=0),                                         # ccss
             dict(u2ty=1, v2ty=1, w2ty=1, u2ry=1, v2ry=1, w2ry=1),          # one free edge
             dict(u1tx=1, u2tx=1, v1tx=1, v2tx=1),                         # in-plane free on the x edges
             dict(w1ry=0, w2ry=0, u1tx=1, u2tx=1))
_FLAG_DEFAULTS = {}


def set_flags(p, flags):
    """all edge flags any flag set touches: the given value, else the Panel default"""
    if not _FLAG_DEFAULTS:
        from compmech.panel import Panel
        q = Panel()
        for fs in FLAG_SETS:
            for k in fs:
                _FLAG_DEFAULTS[k] = getattr(q, k)
    for k, dv in _FLAG_DEFAULTS.items():
        setattr(p, k, flags.get(k, dv))


def keep_result(p):
    """remember the arrays an earlier wrapper call handed out (reference + copy): they must be bitwise unchanged
    after any later call on the same object"""
    kept = getattr(p, "_ew_kept", [])
    for a in (p.eigvals, p.eigvecs):
        if isinstance(a, np.ndarray):
            kept.append((a, a.copy()))
    p._ew_kept = kept


def perturbed_definition(d, kind):
    """another legitimate definition of the same model differing in ONE aspect (a parameter study on one object)"""
    q = dict(d, flags=dict(d["flags"]))
    if kind == "stack":
        q["stack"] = [a + 15 for a in reversed(d["stack"])] + [60]
    elif kind == "plyt":
        q["plyt"] = d["plyt"] * 2
    elif kind == "geometry":
        q["a"], q["b"], q["r"] = d["a"] * 1.5, d["b"] * 0.75, d["r"] + 3.0
    elif kind == "loads":
        q["Nxx"], q["Nyy"], q["Nxy"] = d["Nxx"] * 3 - 1.0, d["Nyy"] + 2.0, d["Nxy"] - 1.0
    elif kind == "orders":
        q["m"], q["n"] = d["m"] + 1, max(3, d["n"] - 1)
    elif kind == "flags":
        others = [f for f in FLAG_SETS if f != d["flags"]]
        q["flags"] = dict(others[(len(d["stack"]) + d["m"] + d["n"]) % len(others)])
    elif kind == "material":
        lp = d["laminaprop"]
        q["laminaprop"] = (lp[0] * 0.5, lp[1] * 2, lp[2], lp[3] * 3, lp[4], lp[5])
        q["mu"] = d["mu"] * 3
    else:
        raise ValueError(kind)
    return q


def panel_with_history(d, hist, api, o, hseed):
    """a Panel object that currently holds definition d but has a past: the wrapper's result must be a
    function of the current definition only (the judged answer is that of a fresh identical panel)"""
    with contextlib.redirect_stdout(io.StringIO()), warnings.catch_warnings(), np.errstate(all="ignore"):
        warnings.simplefilter("ignore")
        if hist == "fresh":
            return build_panel(d)
        if hist.startswith("redef:"):
            q = perturbed_definition(d, hist[6:])
            p = build_panel(q, uniform=False)
            try:            # the same request (same switch, same number of pairs) under the other definition first
                p.num_eigvalues = int(o["num"])
                if api == "panel_lb":
                    p.lb(tol=0, sparse_solver=bool(o["sparse"]), silent=True)
                else:
                    p.freq(atype=4, tol=0, sparse_solver=bool(o["sparse"]), silent=True, sort=bool(o["sort"]))
                    p.calc_kG0(silent=True)
                keep_result(p)
            except Exception:
                p.calc_k0(silent=True)
                p.calc_kG0(silent=True)
                p.calc_kM(silent=True)
            set_definition(p, d, uniform=False)
            set_flags(p, d["flags"])
            return p
        p = build_panel(d)
        if hist == "kT":           # tangent matrices at a non-zero state (as a non-linear static run leaves them)
            size = p.get_size()
            c = 1e-3 * np.random.RandomState(hseed).randn(size)
            p.calc_kT(c=c, silent=True)
            return p
        if hist == "wrapper:loads":  # a previous lb()/freq() with other loads on the same object
            q = perturbed_definition(d, "loads")
            for k in ("Nxx", "Nyy", "Nxy"):
                setattr(p, k, q[k])
            p.num_eigvalues = int(o["num"])
            try:
                p.lb(tol=0, sparse_solver=bool(o["sparse"]), silent=True)
                keep_result(p)
                p.freq(atype=3, tol=0, sparse_solver=True, silent=True)
                keep_result(p)
            except Exception:
                pass
            for k in ("Nxx", "Nyy", "Nxy"):
                setattr(p, k, d[k])
            return p
    raise ValueError(hist)


def panel_matrices(d, family):
    p = build_panel(d)
    with contextlib.redirect_stdout(io.StringIO()):
        K = csr_matrix(p.calc_k0(silent=True)).copy()
        B = csr_matrix(p.calc_kG0(silent=True) if family == "lb" else p.calc_kM(silent=True)).copy()
    return K, B


GRADES = (None, "t+60", "t-60", "soft", "softB")


def apply_grade(K, B, family, grade, rs):
    """MAGNITUDE classes for the random pairs: "t+60"/"t-60": the whole pair times 2^+-60; "soft": half of the
    loaded amplitudes are uncoupled from the rest and that block of K and of B is multiplied by 2^-40, after
    B's soft block has been scaled (power of two) so that it holds the smallest positive multiplier / lowest
    frequency; "softB": the same block of B alone times 2^-30 (tiny load / mass block: its multipliers /
    frequencies move up by 2^30 / 2^15)"""
    if grade in ("t+60", "t-60"):
        t = 2.0 ** (60 if grade == "t+60" else -60)
        return K * t, B * t
    if grade not in ("soft", "softB"):
        return K, B
    loaded = [i for i in range(K.shape[0]) if K[i, i] != 0 and B[i, i] != 0]
    if len(loaded) < 6:
        return K, B
    J = sorted(int(i) for i in rs.permutation(loaded)[:len(loaded) // 2])
    other = [i for i in range(K.shape[0]) if i not in set(J)]
    for M in (K, B):
        M[np.ix_(J, other)] = 0.0
        M[np.ix_(other, J)] = 0.0
    if grade == "softB":
        B[np.ix_(J, J)] *= 2.0 ** -30
        return K, B

    def extreme(rows):
        Kb, Bb = K[np.ix_(rows, rows)], B[np.ix_(rows, rows)]
        L = np.linalg.cholesky(Kb)
        A = np.linalg.solve(L, np.linalg.solve(L, Bb).T).T
        w = np.linalg.eigvalsh(0.5 * (A + A.T))
        return float(-w.min()) if family == "lb" else float(w.max())
    rest = [i for i in other if K[i, i] != 0]
    e_soft, e_rest = extreme(J), extreme(rest)
    if e_soft > 0 and e_rest > 0 and e_soft < 1.5 * e_rest:
        B[np.ix_(J, J)] *= 2.0 ** math.ceil(math.log2(1.5 * e_rest / e_soft))
    K[np.ix_(J, J)] *= 2.0 ** -40
    B[np.ix_(J, J)] *= 2.0 ** -40
    return K, B


def random_pair(rs, family, n, nnull, nkonly, regime, nbonly=0, grade=None):
    """seeded random symmetric pair: K positive definite on a random subset, others null; B symmetric
    (lb: indefinite, freq: positive definite on its own support) with `nkonly` null columns inside the subset
    and `nbonly` (<= nnull) columns on amplitudes without stiffness: the null pattern of B is equal to / a
    subset of / a superset of / neither of K's"""
    idx = rs.permutation(n)
    act = np.sort(idx[:n - nnull])
    m = len(act)
    A = rs.randn(m, m)
    Ka = A.T @ A / m + np.diag(0.5 + rs.rand(m))
    g = m - nkonly
    if family == "lb":
        S = rs.randn(g, g)
        w = np.concatenate([-np.abs(rs.randn(g - g // 3)), np.abs(rs.randn(g // 3))]) if g >= 3 else -np.abs(rs.randn(g)) - 0.1
        Qm, _ = np.linalg.qr(S)
        Bg = (Qm * w) @ Qm.T
        Ba = np.zeros((m, m))
        sel = np.sort(rs.permutation(m)[:g])
        Ba[np.ix_(sel, sel)] = 0.5 * (Bg + Bg.T)
    elif nkonly == 0:
        S = rs.randn(m, m)
        Ba = S.T @ S / m + np.diag(0.2 + rs.rand(m))
    else:
        S = rs.randn(g, g)
        Ba = np.zeros((m, m))
        sel = np.sort(rs.permutation(m)[:g])
        Ba[np.ix_(sel, sel)] = S.T @ S / g + np.diag(0.2 + rs.rand(g))
    K = np.zeros((n, n))
    B = np.zeros((n, n))
    K[np.ix_(act, act)] = 0.5 * (Ka + Ka.T)
    B[np.ix_(act, act)] = Ba
    if nbonly:
        loaded = [int(i) for i in act if B[i, i] != 0]
        for b in np.sort(idx[n - nnull:])[:nbonly]:
            x = 0.1 * rs.randn(len(loaded))
            B[b, loaded] = x
            B[loaded, b] = x
            B[b, b] = 3.0 if family == "freq" else -0.3
    K, B = apply_grade(K, B, family, grade, rs)
    if family == "lb":
        # place the reference load: most negative mu at -1/lam_min, lam_min in the regime (> 1) or not
        cls = classify(K, B)
        mu = [float(x) for x in reference_spectrum(K, B, cls)]
        lo = min(mu)
        if lo < 0:
            lam_min = [1.5, 4.0, 37.0][int(rs.randint(0, 3))] if regime else 0.4
            t = 2.0 ** round(math.log2((1.0 / lam_min) / -lo))
            B *= t
    return K, B


# ----------------------------------------------------------------------------------------
# 5. TLC decides

def trace_cfg():
    return "CONSTANTS TolBits = %d\nSelBits = %d\n" % (TOLBITS, SELBITS)


def strip(e):
    """what TLC needs"""
    return dict(id=e["id"], p=e["p"], o=e["o"], cert=e["cert"],
                obs={k: v for k, v in e["obs"].items() if k != "msg"})


def describe(e):
    o = e["o"]
    cls = e["p"]["cls"]
    return ("%s(sparse_solver=%s, num_eigvalues=%d%s) n=%d active=%d stiffness-only=%d load/mass-only=%d -> %s [%s]"
            % (("ConeCyl.%s[combined_load_case=%s]" % (e["gen"]["method"], e["gen"]["clc"])) if e["gen"].get("kind") == "conecyl"
               else o["api"], o["sparse"], o["num"],
               ", sort=%s, reduced_dof=%s" % (o["sort"], o["reduced"]) if o["api"] not in LB_APIS else "",
               e["p"]["n"], sum(c in ("both", "konly") for c in cls), sum(c == "konly" for c in cls),
               sum(c == "bonly" for c in cls),
               (e["obs"]["exc"] + ": " + e["obs"].get("msg", "")) if e["obs"]["exc"] else
               "%d values, modes %dx%d" % (e["obs"]["nvals"], e["obs"]["nr"], e["obs"]["nc"]),
               json.dumps(e["gen"], default=str)[:300]))


def judge(rep, tag, events, timeout=3000):
    """validate events with Trace_EigWrap; record violations / known findings; returns verdict dict"""
    verdicts, results, problems = validate_trace(tag, "Trace_EigWrap", trace_cfg(), [strip(e) for e in events],
                                                 timeout=timeout)
    for r in results:
        rep.add_tlc("Trace_EigWrap", r)
    for p in problems:
        rep.machinery(p)
    for e in events:
        v = verdicts.get(e["id"])
        if v is None:
            continue
        if v[0] == "ok":
            continue
        if v[0].startswith("kf:"):
            for dev in v[0][3:].split("+"):
                rep.known(dev, describe(e) + " (literal clause failing: %s)" % v[1])
        else:
            rep.violation("%s: the model's outcome and the observation differ in clause '%s': %s"
                          % (rep.prop, v[1], describe(e)),
                          dict(event=strip(e), gen=e["gen"], clause=v[1], family=e["gen"].get("family")))
    rep.cov["traces_validated_against_impl"] += len(events)
    return verdicts


def gen_matrices(gen):
    """re-create the matrices of an event from its generator descriptor (replay)"""
    fam = gen["family"]
    if gen["kind"] == "lattice":
        prob = dict(n=gen["p"]["n"], cls=gen["p"]["cls"], sp=[Fraction(*x) for x in gen["p"]["sp"]],
                    s=Fraction(*gen["p"]["s"]))
        return realise(prob, fam, gen["pseed"], gen.get("mag"))
    if gen["kind"] == "panel":
        K, B = panel_matrices(gen["def"], fam)
        t = 2.0 ** gen.get("tpow", 0)
        return K * t, B * (gen["scale"] * t)
    if gen["kind"] == "random":
        rs = np.random.RandomState(gen["rseed"])
        K, B = random_pair(rs, fam, gen["n"], gen["nnull"], gen["nkonly"], gen["regime"], gen.get("nbonly", 0),
                           gen.get("grade"))
        t = 2.0 ** gen.get("tpow", 0)
        return K * t, B * (gen["scale"] * t)
    raise ValueError(gen["kind"])


def replay_file(prop, path, build):
    d = json.load(open(path))
    rp = d["replay"]
    if "event" not in rp:
        print("replay file carries no event (deviation summary): %s" % d.get("what"))
        return 0
    gen = rp["gen"]
    if gen.get("kind") == "conecyl":
        evs, exc = _conecyl_worker(dict(gen=dict(gen, group=gen["group"].rsplit("-c", 1)[0]),
                                        calls=[(gen["clc"], gen["method"], rp["event"]["o"]["num"])]))
        if not evs:
            print("MACHINERY-ERROR", prop, "conecyl replay not executable: %s" % dict(exc))
            return 2
        e = evs[0]
        return _judge_replay(prop, path, e)
    impl = Impl()
    K, B = gen_matrices(gen)
    ev = rp["event"]
    prob = dict(n=ev["p"]["n"], cls=ev["p"]["cls"], sp=[from_rat(x) for x in ev["p"]["sp"]], s=from_rat(ev["p"]["s"]))
    panel = None
    if gen.get("hist") and gen["kind"] == "panel" and ev["o"]["api"].startswith("panel_"):
        panel = panel_with_history(gen["def"], gen["hist"], ev["o"]["api"], ev["o"], gen.get("hseed", 0))
    e = make_event(0, impl, prob, ev["o"], K, B, gen, panel=panel)
    if ev["obs"].get("peer"):
        e["obs"]["peer"] = ev["obs"]["peer"]
    return _judge_replay(prop, path, e)


def _judge_replay(prop, path, e):
    e["id"] = 0
    verdicts, results, problems = validate_trace("ew-replay", "Trace_EigWrap", trace_cfg(), [strip(e)], nproc=1)
    if problems:
        print("MACHINERY-ERROR", prop, problems[0][:1500])
        return 2
    v = verdicts[0]
    print("replay %s: verdict %s (%s): %s" % (path, v[0], v[1], describe(e)))
    if v[0] == "ok":
        return 0
    if v[0].startswith("kf:") and all(dv in common.open_deviations(prop) for dv in v[0][3:].split("+")):
        print("KNOWN-FINDING: property=%s [%s]" % (prop, v[0][3:]))
        return 0
    print("VIOLATION property=%s replay=%s" % (prop, path))
    return 1


# ----------------------------------------------------------------------------------------
# 6. the decision procedure shared by C05 / C06

def frac_pair(x):
    return [x.numerator, x.denominator]


def run_family(prop, family, tier, seed, build, impl=None, skip_mc=False, max_lattice=None):
    rep = Report(prop, tier, seed)
    rng = random.Random(seed)
    impl = impl or Impl()
    t0 = time.time()

    # ---- the specification on the bounded model; lattice cases for direction A
    cases = None
    if not skip_mc:
        cases = model_check(rep, family, tier)
        if cases is None:
            return rep.finish()
    else:
        r = run_tlc("ew-req", "MC_EigWrap", mc_cfg(family, "code", tier).replace(
            "".join("INVARIANT %s\n" % i for i in INVARIANTS), ""), workers=8, timeout=3000, heap="6g")
        seen = set()
        cases = []
        for v in printed_values(r.out, "REQ"):
            key = common._hashable(v[1:])
            if key not in seen:
                seen.add(key)
                cases.append((v[1], v[2]))
    t_mc = time.time() - t0

    # ---- direction A: every lattice case through the real wrapper
    events = []
    if max_lattice is not None and len(cases) > max_lattice:
        cases = random.Random(seed).sample(cases, max_lattice)
    pcache = {}
    spec_only = 0
    tasks = []
    for (p, o) in cases:
        if len(p["zs"]):
            spec_only += 1              # a prescribed zero column sum is exercised at model level only
            continue
        prob = problem_from_tla(p)
        opts = opts_from_tla(o)
        key = json.dumps([prob["n"], prob["cls"], [frac_pair(x) for x in prob["sp"]], frac_pair(prob["s"])])
        if key not in pcache:
            pcache[key] = (len(pcache), (seed * 7919 + len(pcache) * 104729) % (2 ** 31))
        gid, pseed = pcache[key]
        if family == "freq" and not opts["sparse"] and not opts["reduced"] and len(tasks) % 2 == 0:
            # the mass ALONE times 2^30: frequencies / 2^15, i.e. inside (1e-6, 0.05) rad/s, where the 0.1 rad/s
            # rounding of the sort must not be mistaken for the <= 1e-6 filter (number of pairs, mass scaling law).
            # Dense path only: the sparse path's fixed shift sigma = -1 leaves omega^2 << 1 unresolved (its modes
            # then miss the residual bound by 10..1e4 on the unchanged tree) - reported, not judged.
            prob = dict(prob, s=prob["s"] * 2 ** 30)
        tasks.append((len(tasks), prob, opts, pseed, gid))
        rep.nontrivial(("A", key, opts["api"], opts["sparse"], opts["num"], opts["sort"], opts["reduced"]))
    excluded = collections.Counter()
    events = []
    for e in lattice_events(impl, family, tasks):
        if e["obs"]["exc"] in ARPACK_FAILURES:
            # e.g. eigs on a pencil whose mass matrix is singular (massless stiff amplitude) with ncv = N:
            # "Could not build an Arnoldi factorization" - the solver contract is not met, nothing to judge
            excluded["ARPACK broke down / did not converge (solver contract not met): %s" % e["obs"]["exc"]] += 1
        else:
            events.append(e)
    next_id = [len(tasks)]
    gc.freeze()       # the package calls gc.collect() in every matrix routine: keep the recorded events out of its reach
    n_lattice = len(events)
    t_a = time.time() - t0 - t_mc

    # ---- direction B: package models and seeded random pairs (group specifications are drawn here, seeded;
    #      the groups are executed by forked workers: matrix builders, histories and calls are independent)
    rs = np.random.RandomState(seed % (2 ** 31))
    nums = lambda: int(rs.randint(1, 26))
    npanel = 6 if tier == "quick" else 40
    nrandom = 14 if tier == "quick" else 120
    maxsize = 60 if tier == "quick" else 400

    def opts_for(with_panel):
        out = []
        two = [Fraction(1), Fraction(2), Fraction(1, 2)]
        hseed = lambda: int(rs.randint(0, 2 ** 31 - 1))
        hist = lambda: HISTORIES[int(rs.randint(1, len(HISTORIES)))]
        if family == "lb":
            k1 = nums()
            out.append(dict(api="lb", sparse=True, num=k1, sort=False, reduced=False, pos=0, scales=two))
            out.append(dict(api="lb", sparse=False, num=min(k1, 3), sort=False, reduced=False, pos=0, scales=[Fraction(1)]))
            out.append(dict(api="lb", sparse=True, num=nums(), sort=False, reduced=False, pos=0, scales=[Fraction(1)]))
            out.append(dict(api="lb", sparse=True, num=k1, sort=False, reduced=False, pos=0, tpow=-60))
            out.append(dict(api="lb", sparse=False, num=min(k1, 3), sort=False, reduced=False, pos=0, tpow=[60, -60][int(rs.randint(0, 2))]))
            if with_panel:
                for sparse, h in ((True, "fresh"), (True, "redef:flags"), (True, hist()),
                                  (False, "redef:flags" if rs.rand() < 0.5 else hist())):
                    out.append(dict(api="panel_lb", sparse=sparse, num=nums(), sort=False, reduced=False, pos=0,
                                    hist=h, hseed=hseed()))
            else:
                out.append(dict(api="conecyl_lb", sparse=True, num=nums(), sort=False, reduced=False, pos=3))
        else:
            k1 = nums()
            out.append(dict(api="freq", sparse=True, num=k1, sort=True, reduced=False, pos=0, scales=two))
            out.append(dict(api="freq", sparse=False, num=k1, sort=True, reduced=False, pos=0, scales=[Fraction(1), Fraction(2)]))
            out.append(dict(api="freq", sparse=True, num=nums(), sort=False, reduced=False, pos=0))
            out.append(dict(api="freq", sparse=False, num=nums(), sort=False, reduced=False, pos=0))
            out.append(dict(api="freq", sparse=False, num=nums(), sort=True, reduced=True, pos=0))
            # mass alone scaled far up: the lowest frequencies land in (1e-6, 0.05) rad/s (dense path, see lattice note)
            out.append(dict(api="freq", sparse=False, num=k1, sort=True, reduced=False, pos=0,
                            scales=[Fraction(2 ** 24), Fraction(2 ** 34)]))
            out.append(dict(api="freq", sparse=False, num=k1, sort=False, reduced=False, pos=0, scales=[Fraction(2 ** 30)]))
            out.append(dict(api="freq", sparse=True, num=k1, sort=True, reduced=False, pos=0, tpow=-60))
            out.append(dict(api="freq", sparse=False, num=k1, sort=False, reduced=False, pos=0, tpow=[60, -60][int(rs.randint(0, 2))]))
            if with_panel:
                for sparse, h in ((True, "fresh"), (True, "redef:flags" if rs.rand() < 0.5 else hist()),
                                  (False, "redef:flags" if rs.rand() < 0.5 else hist())):
                    out.append(dict(api="panel_freq", sparse=sparse, num=nums(), sort=True, reduced=False, pos=0,
                                    hist=h, hseed=hseed()))
        return out

    specs = []
    for j in range(npanel):
        d = panel_definition(rs, tier, family)
        specs.append(dict(gen=dict(kind="panel", family=family, group="P%d" % j, **{"def": d}), opts=opts_for(True),
                          maxdof=(maxsize + 150) if tier == "quick" else None))
    sizes = [5, 6, 7, 9, 12] + [int(rs.randint(13, maxsize + 1)) for _ in range(nrandom - 5)]
    if tier == "thorough":
        sizes += [400, 399, 250]
    for j, n in enumerate(sizes):
        # null pattern of B relative to K's: equal / subset (B null on stiff amplitudes) / superset (B on
        # stiffness-less amplitudes) / neither
        pattern = ("equal", "subset", "superset", "neither")[j % 4]
        nnull = int(rs.randint(1 if pattern in ("superset", "neither") else 0, max(2, n // 3))) if (
            rs.rand() < 0.7 or pattern in ("superset", "neither")) else 0
        m = n - nnull
        nkonly = int(rs.randint(1, max(2, m // 2))) if (pattern in ("subset", "neither") and m > 4) else 0
        nbonly = int(rs.randint(1, nnull + 1)) if pattern in ("superset", "neither") else 0
        # outside the regime ARPACK's Cayley/'SM' run on n > 20 mostly ends in ArpackNoConvergence after 10 n
        # restarts (45 s at n = 300, nothing to judge): keep those inputs small, with a few large ones
        regime = bool(rs.rand() < 0.7) if (n <= 40 or j % 12 == 5) else True
        rseed = int(rs.randint(0, 2 ** 31 - 1))
        grade = GRADES[(j // 4) % len(GRADES)] if n >= 12 else GRADES[j % 3]
        specs.append(dict(gen=dict(kind="random", family=family, group="R%d" % j, rseed=rseed, n=n, nnull=nnull,
                                   nkonly=nkonly, nbonly=nbonly, regime=regime, grade=grade),
                          opts=opts_for(False), maxdof=None))
    cone_specs = []
    if family == "lb":      # real ConeCyl objects, every combined load case, lb and its duplicate eigen
        for j in range(3 if tier == "quick" else 12):
            dcc = conecyl_definition(rs)
            calls = [(clc, "lb", int(rs.randint(2, 7))) for clc in (None, 1, 2, 3)]
            calls += [(clc, "eigen", int(rs.randint(2, 7))) for clc in ((2, 3) if j % 2 else (None, 1, 2))]
            cone_specs.append(dict(gen=dict(kind="conecyl", family=family, group="C%d" % j, **{"def": dcc}), calls=calls))
    _FORK.update(impl=impl, family=family, specs=specs)
    if tier == "quick":
        parts = [_group_worker(i) for i in range(len(specs))] + [_conecyl_worker(c) for c in cone_specs]
    else:
        import multiprocessing as mp
        with mp.get_context("fork").Pool(8) as pool:
            parts = pool.map(_group_worker, range(len(specs)), chunksize=1) + pool.map(_conecyl_worker, cone_specs, chunksize=1)
    for evs, exc in parts:
        excluded.update(exc)
        for e in evs:
            next_id[0] += 1
            e["id"] = next_id[0]
            events.append(e)
            o = e["o"]
            rep.nontrivial(("B", e["gen"]["group"], o["api"], o["sparse"], o["num"], o["sort"], o["reduced"],
                            e["gen"].get("hist")))
    attach_peers(events)
    t_b = time.time() - t0 - t_mc - t_a

    # ---- TLC judges every event
    verdicts = judge(rep, "ew-%s" % family, events)
    tally = collections.Counter(v[0] for v in verdicts.values())
    rep.cov["evaluations"] = len(events)
    rep.cov["lattice_cases_replayed"] = n_lattice
    rep.cov["lattice_cases_model_level_only"] = spec_only
    rep.cov["package_and_random_events"] = len(events) - n_lattice
    rep.cov["verdicts"] = dict(tally)
    rep.cov["excluded_inputs"] = dict(excluded)
    rep.cov["phase_wall_s"] = dict(model_check=round(t_mc, 1), lattice_calls=round(t_a, 1), package_random_calls=round(t_b, 1),
                                   trace_validation=round(time.time() - t0 - t_mc - t_a - t_b, 1))
    rep.cov["rule"] = ("distinct (problem, api, solver switch, num_eigvalues, sort, reduced_dof) tuples whose call "
                       "reached the wrapper; lattice problems = TLC-enumerated (n, null/stiffness-only placement, "
                       "spectrum, scale); package = seeded small Panel definitions; random = seeded symmetric pairs")
    rep.cov["exhaustive"] = False
    for e in (events[:1] + events[n_lattice:n_lattice + 1] + events[-1:]):
        rep.sample(dict(o=e["o"], n=e["p"]["n"], cls="".join(c[0] for c in e["p"]["cls"]), gen=e["gen"]["kind"],
                        outcome=e["obs"]["exc"] or [e["obs"]["nvals"], e["obs"]["nr"], e["obs"]["nc"]],
                        verdict=verdicts.get(e["id"], ("?",))[0]))
    rep.assumptions += [
        SOLVER_CONTRACT,
        "eigen-residuals are observations: computed by the harness in binary64, logged exactly, judged (r <= 2^-30 "
        "(||K|| + |lambda| ||B||) ||v||, v != 0) by Trace_EigWrap",
        "direction B: the abstract spectrum of package / random matrices is measured by numpy.linalg (Cholesky + "
        "eigvalsh), values below 2^-36 of the largest are structural zeros; compared in mu-space with 2^-%d max|mu|" % TOLBITS,
        "Panel.lb / Panel.freq / ConeCyl.lb are driven with given matrices by stubbing the instance's matrix "
        "builders (calc_k0, calc_kG0, calc_kM, _calc_linear_matrices); Panel.* additionally from real panel definitions",
        "ARPACK non-convergence is outside the contract: such calls are counted under excluded_inputs, not judged",
    ]
    gc.unfreeze()
    return rep.finish()
