"""Panel matrices against PanelModel.tla (shared by C02 k0, C03 kG0, C04 kM, C19 kA/cA)."""
import gc
import math
import random

import numpy as np

from common import (Fraction, Report, dyadic, rat, run_tlc, printed_values, validate_trace, from_rat,
                    open_deviations)
import c01

MODELS = {"plate": "plate_clt_donnell_bardell", "plate_w": "plate_clt_donnell_bardell_w",
          "cpanel": "cpanel_clt_donnell_bardell", "kpanel": "kpanel_clt_donnell_bardell"}
DOFS = "uvw"
TOL = 38


def fr(x):
    return from_rat(x)


def panel_kwargs(pd, explicit_model=True, ctor=False):
    kw = {}
    if explicit_model or pd["model"] == "plate_w":
        kw["model"] = MODELS[pd["model"]]
    kw["a"], kw["b"] = float(fr(pd["a"])), float(fr(pd["b"]))
    if pd["model"] in ("cpanel", "kpanel"):
        kw["r"] = float(fr(pd["r"]))
    if pd["model"] == "kpanel":
        kw["alphadeg"] = math.degrees(math.atan2(fr(pd["sina"]), fr(pd["cosa"])))
    kw["m"], kw["n"] = pd["m"], pd["n"]
    for d in range(3):
        for ax, axn in ((0, "x"), (1, "y")):
            f = pd["fl"][d][ax]
            for k, nm in enumerate(("1t", "1r", "2t", "2r")):
                kw["%s%s%s" % (DOFS[d], nm, axn)] = float(fr(f[k]))
    kw["stack"] = [c01.angle(pl["dir"]) for pl in pd["stack"]]
    plyts = [float(fr(pl["t"])) for pl in pd["stack"]]
    props = [tuple(float(fr(x)) for x in pl["mat"]) for pl in pd["stack"]]
    if ctor and all(t == plyts[0] for t in plyts) and all(q == props[0] for q in props):
        kw["plyt"], kw["laminaprop"] = plyts[0], props[0]           # the uniform argument form
    else:
        kw["plyts"], kw["laminaprops"] = plyts, props
    kw["offset"] = float(fr(pd["off"]))
    if pd.get("ortho"):
        kw["force_orthotropic_laminate"] = True
    y1, y2, b = fr(pd["y1"]), fr(pd["y2"]), fr(pd["b"])
    if not (y1 == 0 and y2 == b):
        kw["y1"], kw["y2"] = float(y1), float(y2)
    kw["mu"] = float(fr(pd["mu"]))
    N = [fr(x) for x in pd["Ncte"]]
    if any(N):
        kw["Nxx_cte"], kw["Nyy_cte"], kw["Nxy_cte"] = (float(x) for x in N)
    return kw


def build_panel(pd, explicit_model=True, ctor=False, both=False):
    """pd in JSON shape (rationals as limb pairs) -> compmech Panel; ctor=True passes everything through the
    constructor (keyword arguments) instead of setting attributes afterwards; both=True also supplies a scalar ply
    thickness / material that differs from the per-ply lists (the lists are what the panel is made of)"""
    from compmech.panel import Panel
    kw = panel_kwargs(pd, explicit_model, ctor)
    if both and "plyts" in kw:
        kw["plyt"] = 3. * kw["plyts"][0] + 0.5
        kw["laminaprop"] = (7., 7., 0.25)
    if ctor:
        return Panel(**kw)
    p = Panel()
    for k, v in kw.items():
        setattr(p, k, v)
    return p


def redefine(p, pd):
    """set every definition attribute of an existing Panel to the description (a parameter study on one object)"""
    kw = panel_kwargs(pd, True, False)
    for k in ("r", "alphadeg", "y1", "y2", "Nxx_cte", "Nyy_cte", "Nxy_cte", "plyt", "laminaprop"):
        setattr(p, k, None)
    p.force_orthotropic_laminate = False
    for k, v in kw.items():
        setattr(p, k, v)


SWEEP_KINDS = ["all", "offset", "geometry", "flags", "stack", "plyts", "material", "radius", "ortho", "orders", "interval", "preload", "mu"]


def perturbed(pd, kind="all"):
    """another legitimate definition of the same model kind differing in ONE aspect (or in all of them): a
    parameter study on one object changes exactly that aspect back afterwards"""
    import copy
    q = copy.deepcopy(pd)
    every = kind in ("all", True)
    if every or kind == "geometry":
        q["a"] = rat(fr(pd["a"]) * 2)
        q["b"] = rat(fr(pd["b"]) * Fraction(3, 2))
        q["y1"], q["y2"] = rat(fr(pd["y1"]) * Fraction(3, 2)), rat(fr(pd["y2"]) * Fraction(3, 2))
    if every or kind == "stack":
        q["stack"] = [dict(p, dir=[p["dir"][0] + 1, p["dir"][1] + 2]) for p in reversed(q["stack"])]
    if every or kind == "plyts":
        q["stack"] = [dict(p, t=rat(fr(p["t"]) * 2)) for p in q["stack"]]
    if every or kind == "material":
        q["stack"] = [dict(p, mat=[rat(fr(v) * (3 if k in (0, 3) else 1)) for k, v in enumerate(p["mat"])]) for p in q["stack"]]
    if every or kind == "offset":
        q["off"] = rat(fr(pd["off"]) + Fraction(1, 16))
    if every or kind == "mu":
        q["mu"] = rat(fr(pd["mu"]) * 3)
    if every or kind == "flags":
        q["fl"] = [[[rat(fr(v) + 1) for v in ax] for ax in row] for row in pd["fl"]]
    if every or kind == "preload":
        q["Ncte"] = [rat(2), rat(-1), rat(1)]
    if (every or kind == "radius") and pd["model"] in ("cpanel", "kpanel"):
        q["r"] = rat(fr(pd["r"]) + 3)
    if kind == "orders":
        q["m"], q["n"] = pd["m"] + 1, max(1, pd["n"] - 1)
    if kind == "ortho":
        q["ortho"] = not pd.get("ortho", False)
    if kind == "interval":
        b = fr(q["b"])
        q["y1"], q["y2"] = (rat(b / 8), rat(b * Fraction(5, 8))) if fr(pd["y1"]) == 0 else (rat(0), rat(b))
    return q


def build_bay(pd, tiles=1):
    """a stiffener-less StiffPanelBay whose skin (one panel, or `tiles` panels side by side) is the panel description"""
    from compmech.stiffpanelbay import StiffPanelBay
    b = StiffPanelBay()
    b.model = MODELS[pd["model"]]
    b.a, b.b = float(fr(pd["a"])), float(fr(pd["b"]))
    if pd["model"] in ("cpanel", "kpanel"):
        b.r = float(fr(pd["r"]))
    b.m, b.n = pd["m"], pd["n"]
    for d in range(3):
        for ax, axn in ((0, "x"), (1, "y")):
            f = pd["fl"][d][ax]
            for k, nm in enumerate(("1t", "1r", "2t", "2r")):
                setattr(b, "%s%s%s" % (DOFS[d], nm, axn), float(fr(f[k])))
    b.stack = [c01.angle(pl["dir"]) for pl in pd["stack"]]
    b.plyts = [float(fr(pl["t"])) for pl in pd["stack"]]
    b.laminaprops = [tuple(float(fr(x)) for x in pl["mat"]) for pl in pd["stack"]]
    b.mu = float(fr(pd["mu"]))
    cuts = [b.b * k / tiles for k in range(tiles)] + [b.b]
    for y1, y2 in zip(cuts[:-1], cuts[1:]):
        b.add_panel(y1=y1, y2=y2, offset=float(fr(pd["off"])))
    return b


def observe_bay_aero(pd, req):
    b = build_bay(pd, tiles=req.get("tiles", 1))
    q = req["q"]
    b.flow = req.get("flow", "x").upper() if req.get("upper") else req.get("flow", "x")
    if q == "kAmach":
        b.Mach, b.rho_air, b.V, b.speed_sound = (float(fr(req[k])) for k in ("mach", "rho", "V", "ainf"))
    elif q == "kA":
        b.beta, b.gamma = float(fr(req["beta"])), float(fr(req["gamma"]))
    else:
        b.beta, b.aeromu = 1.0, float(fr(req["aeromu"]))
    if req.get("k0first", True):
        b.calc_k0(silent=True)
    if req.get("sweep") and q != "cA":
        keep = (b.Mach, b.rho_air, b.V, b.speed_sound, b.beta, b.gamma)
        if q == "kAmach":
            b.Mach, b.rho_air, b.V, b.speed_sound = 2.0, 0.75, 5.0, 1.5
        else:
            b.beta, b.gamma = 1.75, 0.
        b.calc_kA(silent=True)
        b.Mach, b.rho_air, b.V, b.speed_sound, b.beta, b.gamma = keep
    M = b.calc_cA(silent=True) if q == "cA" else b.calc_kA(silent=True)
    A = M.toarray()
    ok = True
    if q == "cA":
        ok = bool(np.all(A.real == 0.0))
        A = A.imag
    return [[dyadic(v) for v in row] for row in A], ok


def exact(x):
    """the exact rational value of a double"""
    n, d = float(x).as_integer_ratio()
    return rat(Fraction(n, d))


ANGLES = {0.0: [0, 1], 90.0: [1, 0], 45.0: [1, 1], -45.0: [-1, 1]}


def pd_from_panel(p, model=None):
    """panel description (exact rationals) of a real Panel object whose inputs are exactly representable"""
    ex = lambda x: exact(0.0 if x is None else x)
    inv = {v: k for k, v in MODELS.items()}
    mo = model or inv[p.model]
    plyts = p.plyts if p.plyts else [p.plyt] * len(p.stack)
    props = p.laminaprops if p.laminaprops else [p.laminaprop] * len(p.stack)
    fl = [[[ex(getattr(p, "%s%s%s" % (d, nm, ax))) for nm in ("1t", "1r", "2t", "2r")] for ax in ("x", "y")]
          for d in "uvw"]
    return dict(model=mo, a=ex(p.a), b=ex(p.b), r=ex(p.r if mo == "cpanel" else 0.0), sina=rat(0), cosa=rat(1),
                m=int(p.m), n=int(p.n), fl=fl,
                stack=[dict(dir=ANGLES[float(t)], t=ex(th), mat=[ex(v) for v in pr])
                       for t, th, pr in zip(p.stack, plyts, props)],
                off=ex(p.offset), y1=rat(0), y2=ex(p.b), mu=ex(p.mu if p.mu is not None else 1.0), Ncte=[rat(0)] * 3)



def bay_sum_cases(rng, q, n_cases):
    """stiffener-less StiffPanelBay whose skin tiles carry their OWN stack, thickness, material, density and offset
    (add_panel arguments): the bay matrix must be the sum of the tiles' matrices.  Returns trace 'sum' events data"""
    from compmech.stiffpanelbay import StiffPanelBay
    lp1 = (10., 2., 0.25, 1., 1., 0.5)
    lp2 = (20., 1., 0.3, 2., 2., 1., 1., 0.2, 0.2)
    out = []
    for case in range(n_cases):
        curved = rng.random() < 0.4
        b = StiffPanelBay()
        b.model = MODELS["cpanel" if curved else "plate"]
        b.a, b.b = rng.choice([(2., 1.5), (1., 2.), (1.5, 1.5)])
        if curved:
            b.r = rng.choice([4., 10.])
        b.m, b.n = rng.randint(1, 3), rng.randint(2, 3)
        b.stack, b.plyt, b.laminaprop, b.mu = [0, 90], 0.125, lp1, float(rng.choice([1., 3.]))
        for d in "uvw":
            for e in ("1tx", "1rx", "2tx", "2rx", "1ty", "1ry", "2ty", "2ry"):
                setattr(b, d + e, float(rng.choice([0, 1, 1, 2])))
        cuts = sorted(set([0.] + [rng.choice([0.25, 0.5, 0.75, 1.0, 1.25]) for _ in range(rng.randint(1, 2))] + [b.b]))
        cuts = [c for c in cuts if c <= b.b]
        N = [float(rng.randint(-8, 8)) / 2 for _ in range(3)]
        for y1, y2 in zip(cuts[:-1], cuts[1:]):
            kw = {}
            style = rng.choice(["inherit", "own", "own"])
            if style == "own":
                kw = dict(stack=rng.choice([[45, -45, 0], [90], [0, 45]]), plyt=rng.choice([0.125, 0.25]),
                          laminaprop=rng.choice([lp1, lp2]), mu=float(rng.choice([2., 5., 0.5])),
                          offset=rng.choice([0., 0.125, -0.25]))
            p = b.add_panel(y1=y1, y2=y2, **kw)
            p.Nxx, p.Nyy, p.Nxy = N
        # the descriptions are taken from what was ASKED for (right after add_panel), not from the objects after use
        parts = []
        for p in b.panels:
            pd = pd_from_panel(p, model="cpanel" if curved else "plate")
            pd["y1"], pd["y2"] = exact(p.y1), exact(p.y2)
            parts.append(pd)
        b.calc_k0(silent=True)
        if q == "k0":
            M = b.k0
        elif q == "kG0":
            M = b.calc_kG0(silent=True)
        else:
            M = b.calc_kM(silent=True)
        req = dict(q=q, size=0, row0=0, col0=0)
        if q == "kG0":
            req["N"] = [exact(v) for v in N]
        A = M.toarray()
        out.append((parts, req, [[dyadic(v) for v in row] for row in A], bool(np.all(np.isfinite(A)))))
    return out


def repo_scenarios():
    """panel definitions of the repository's own tests (test_panel_lb / test_panel_freq / test_panel_field_outputs):
    decimal inputs such as 0.125e-3 or 0.28 are validated as the exact rationals their doubles are"""
    from compmech.panel import Panel
    out = []
    for model in ("plate", "plate_w", "cpanel", "kpanel"):
        for edge in ("ssss", "ssfs"):
            p = Panel()
            if edge == "ssfs":
                p.u2ty = p.v2ty = p.w2ty = p.u2ry = p.v2ry = 1
            p.m, p.n = 5, 4
            p.stack = [0, 90, -45, +45]
            p.plyt = 0.125e-3
            p.laminaprop = (142.5e9, 8.7e9, 0.28, 5.1e9, 5.1e9, 5.1e9)
            p.model = MODELS[model]
            p.a, p.b, p.r, p.alphadeg, p.mu = 1., 0.5, 1.e8, 0., 1.3e3
            pd = pd_from_panel(p, model=model)
            if model in ("cpanel", "kpanel"):
                pd["r"] = exact(1.e8)
            out.append(pd)
    return out


def _fin(M):
    """the assembling route: kernels' upper triangle symmetrised by the package's own finalize_symmetric_matrix"""
    from compmech.sparse import finalize_symmetric_matrix
    return finalize_symmetric_matrix(M)


_GEO = ("mu", "geometry", "radius", "flags")
NO_REFRESH = {"kM": ("offset",) + _GEO, "kA": ("offset", "stack", "plyts", "material", "ortho") + _GEO,
              "kAmach": ("offset", "stack", "plyts", "material", "ortho") + _GEO,
              "cA": ("offset", "stack", "plyts", "material", "ortho") + _GEO,
              "uvw": ("offset", "stack", "plyts", "material", "ortho") + _GEO,
              "strain": ("offset", "stack", "plyts", "material", "ortho") + _GEO, "stress": _GEO}
STUDY_QS = ("k0", "kG0", "kM", "uvw", "strain", "stress", "fext", "static", "fint", "kT", "kGc")


def observe(pd, req, fresh_model=True):
    """run the request on a real Panel; returns (observation as dyadics, flags_ok).  With req["sweep"] = <aspect> the
    object is first defined differently in that aspect and asked the same question (a parameter study on ONE object),
    then re-defined as pd and asked again: only the second answer is judged"""
    if req.get("via") == "bay":
        return observe_bay_aero(pd, req)
    kind = req.get("sweep")
    if kind and kind is not True and req["q"] in STUDY_QS:
        pd2 = perturbed(pd, kind)
        p = build_panel(pd2, explicit_model=True)
        r2 = {k: v for k, v in req.items() if k not in ("sweep", "size", "row0", "col0", "coff")}
        if "c" in r2 and (pd2["m"], pd2["n"]) != (pd["m"], pd["n"]):
            n2 = (1 if pd2["model"] == "plate_w" else 3) * pd2["m"] * pd2["n"]
            r2["c"] = (list(r2["c"]) * 3)[:n2]
        try:
            execute(p, pd2, r2)
        except Exception:
            pass                      # the first leg only creates history
        redefine(p, pd)
        p.forces, p.forces_inc = [], []
        if kind in NO_REFRESH.get(req["q"], ()):
            # the changed aspect does not enter what this quantity reads from the laminate object: it is asked for
            # directly after the change, without the stiffness call that would refresh every derived attribute
            req = dict(req, nok0=True)
    else:
        p = build_panel(pd, explicit_model=fresh_model, ctor=bool(req.get("ctor")), both=bool(req.get("both")))
    if req.get("nok0"):
        try:
            return execute(p, pd, req)
        except Exception:
            # a direct query that is refused (attributes not derived yet) is C20's subject: ask in the documented order
            return execute(p, pd, {k: v for k, v in req.items() if k != "nok0"})
    return execute(p, pd, req)


def execute(p, pd, req):
    kw = {}
    if req.get("size", 0):
        kw = dict(size=req["size"], row0=req["row0"], col0=req["col0"])
    q = req["q"]
    ok = True
    if q == "k0" and req.get("num"):
        n = (1 if pd["model"] == "plate_w" else 3) * pd["m"] * pd["n"]
        M = p.calc_k0(silent=True, c=np.zeros(n), nx=req["num"][0], ny=req["num"][1], NLgeom=False, **kw)
    elif q == "k0":
        M = p.calc_k0(silent=True, **kw) if not req.get("nofin") else _fin(p.calc_k0(silent=True, finalize=False, **kw))
    elif q == "kG0" and req.get("vialb") and not kw:
        p.Nxx, p.Nyy, p.Nxy = (float(fr(x)) for x in req["N"])
        try:
            p.lb(sparse_solver=False, silent=True)       # constant-load route through the buckling analysis
        except Exception:
            pass
        M = p.kG0
    elif q == "kG0":
        p.Nxx, p.Nyy, p.Nxy = (float(fr(x)) for x in req["N"])
        M = p.calc_kG0(silent=True, **kw) if not req.get("nofin") else _fin(p.calc_kG0(silent=True, finalize=False, **kw))
    elif q in ("fint", "kT", "kGc"):
        return observe_nl(p, pd, req, kw)
    elif q in ("uvw", "strain", "stress"):
        return observe_field(p, pd, req)
    elif q in ("fext", "static"):
        return observe_load(p, pd, req, kw)
    else:
        if not req.get("nok0"):
            p.calc_k0(silent=True)          # the documented order: the laminate is derived by calc_k0
        if q == "kM":
            M = p.calc_kM(silent=True, **kw) if not req.get("nofin") else _fin(p.calc_kM(silent=True, finalize=False, **kw))
        elif q == "kA":
            p.flow = req["flow"].upper() if req.get("upper") else req["flow"]      # the flag is accepted in any case
            if req.get("sweep"):           # a parameter sweep on one object: another flow condition first
                p.beta, p.gamma = 1.75, (0.5 if float(fr(req["gamma"])) else 0.)
                p.calc_kA(silent=True, **kw)
            p.beta, p.gamma = float(fr(req["beta"])), float(fr(req["gamma"]))
            M = p.calc_kA(silent=True, **kw)
        elif q == "kAmach":
            p.flow = req["flow"].upper() if req.get("upper") else req["flow"]      # the flag is accepted in any case
            if req.get("sweep"):
                p.Mach, p.rho_air, p.V, p.speed_sound = 2.0, 0.75, 5.0, 1.5
                p.calc_kA(silent=True, **kw)
            p.Mach, p.rho_air, p.V, p.speed_sound = (float(fr(req[k])) for k in ("mach", "rho", "V", "ainf"))
            M = p.calc_kA(silent=True, **kw)
        elif q == "cA":
            p.calc_cA(float(fr(req["aeromu"])), silent=True)
            M = p.cA
        else:
            raise ValueError(q)
    A = M.toarray()
    if q == "cA":
        ok = bool(np.all(A.real == 0.0))     # documented as a pure imaginary matrix
        A = A.imag
    if not np.all(np.isfinite(A)):
        raise ValueError("non-finite entry")
    if M.shape[0] != M.shape[1]:
        ok = False
    return [[dyadic(v) for v in row] for row in A], ok


FIELD_KEYS = {"uvw": ["u", "v", "w", "phix", "phiy"],
              "strain": ["exx", "eyy", "gxy", "kxx", "kyy", "kxy"],
              "stress": ["Nxx", "Nyy", "Nxy", "Mxx", "Myy", "Mxy"]}


def field_call(p, q, c, xs, ys, NL):
    if q == "uvw":
        return [np.asarray(a, dtype=float).ravel() for a in p.uvw(c, xs=xs, ys=ys)]
    if q == "strain":
        res = p.strain(c, xs=xs, ys=ys, NLterms=NL)
    else:
        res = p.stress(c, xs=xs, ys=ys, NLterms=NL)
    return [np.asarray(res[k], dtype=float).ravel() for k in FIELD_KEYS[q]]


def observe_field(p, pd, req):
    """fields at the requested points; also re-evaluated with other thread counts, another point order
    and as a sub-list: all must be bit-identical (each point is computed independently)"""
    q = req["q"]
    if not req.get("nok0"):
        p.calc_k0(silent=True)            # documented order (derives model, laminate, F, r, alpharad)
    c = np.array([float(fr(v)) for v in req["c"]])
    c0 = c.copy()
    cform = req.get("cform", 0) % 3
    if cform == 1:                      # strided view into a larger buffer
        big = np.full(2 * len(c) + 1, 7.5)
        big[::2][:len(c)] = c
        c = big[::2][:len(c)]
    elif cform == 2:                    # a column of a C-ordered matrix (how eigenvector sets are stored)
        mat = np.full((len(c), 3), -2.25)
        mat[:, 1] = c
        c = mat[:, 1]
    xs = np.array([float(fr(pt[0])) for pt in req["pts"]])
    ys = np.array([float(fr(pt[1])) for pt in req["pts"]])
    NL = bool(req.get("NL", False))
    p.out_num_cores = req.get("cores", 3)
    base = field_call(p, q, c, xs, ys, NL)
    ok = True
    npts = len(xs)
    for cores in (1, 2, 5, 16):
        p.out_num_cores = cores
        other = field_call(p, q, c, xs, ys, NL)
        ok = ok and all(np.array_equal(a, b) for a, b in zip(base, other))
    perm = list(range(npts))[::-1]
    p.out_num_cores = 4
    other = field_call(p, q, c, xs[perm], ys[perm], NL)
    ok = ok and all(np.array_equal(a[perm], b) for a, b in zip(base, other))
    if npts > 2:
        other = field_call(p, q, c, xs[:npts - 2], ys[:npts - 2], NL)
        ok = ok and all(np.array_equal(a[:npts - 2], b) for a, b in zip(base, other))
    # 2-D point arrays of every memory layout: out[i, j] belongs to (xs[i, j], ys[i, j])
    if npts >= 4:
        rows = 2
        cols = npts // rows
        k = rows * cols
        X, Y = xs[:k].reshape(rows, cols), ys[:k].reshape(rows, cols)
        for lx, ly in ((np.ascontiguousarray, np.ascontiguousarray), (np.asfortranarray, np.asfortranarray),
                       (np.asfortranarray, np.ascontiguousarray)):
            raw = (p.uvw(c, xs=lx(X), ys=ly(Y)) if q == "uvw" else
                   (lambda res: [res[kk] for kk in FIELD_KEYS[q]])(
                       p.strain(c, xs=lx(X), ys=ly(Y), NLterms=NL) if q == "strain" else
                       p.stress(c, xs=lx(X), ys=ly(Y), NLterms=NL)))
            for a, full in zip(raw, base):
                a = np.asarray(a, dtype=float)
                ok = ok and a.shape == (rows, cols) and np.array_equal(a, full[:k].reshape(rows, cols))
    ok = ok and np.array_equal(c, c0)          # the caller's amplitude vector is not modified
    obs = [[dyadic(comp[k]) for comp in base] for k in range(npts)]
    return obs, bool(ok)


def gauss_orders(pd, req):
    """numbers of Gauss points that integrate the quartic integrand exactly: an n-point rule is exact to degree
    2n-1 and the integrand has degree <= 4*max(3, m-1) in xi"""
    nx = 2 * max(3, pd["m"] - 1) + 1 + req.get("extra", [0, 0])[0]
    ny = 2 * max(3, pd["n"] - 1) + 1 + req.get("extra", [0, 0])[1]
    return nx, ny


_GAUSS = {}


def gauss_points(n):
    """the Gauss-Legendre points the package itself uses (compmech/lib/src via ctypes)"""
    if n not in _GAUSS:
        import ctypes
        import repo_env
        lib = ctypes.CDLL(repo_env.activate()["libbardell"])
        pts = (ctypes.c_double * n)()
        wts = (ctypes.c_double * n)()
        lib.leggauss_quad.restype = None
        lib.leggauss_quad(ctypes.c_int(n), pts, wts)
        _GAUSS[n] = list(pts)
    return _GAUSS[n]


def observe_nl(p, pd, req, kw):
    q = req["q"]
    # the panel also carries buckling-load attributes (as when it is re-used from / for an lb() study): the
    # non-linear quantities at a state, the undeformed state included, must not depend on them
    p.Nxx, p.Nyy, p.Nxy = -3., 2., 1.
    c = np.array([float(fr(v)) for v in req["c"]])
    c0 = c.copy()
    nx, ny = gauss_orders(pd, req)
    # the buckling analysis derives everything itself: asked directly (no stiffness call before it) when no table is passed
    direct = bool(q == "kGc" and req.get("vialb") and not req["NL"] and not kw and not req.get("table")
                  and not req.get("taper"))
    F0 = None
    if not direct:
        p.calc_k0(silent=True)                # documented order: derives the laminate matrix F
        F = np.array(p.F, dtype=float)
        F0 = F.copy()
    Fn = None
    if req.get("table") or req.get("taper"):
        # per-point laminate table F(xi_i, eta_j) = (t0 + tx xi_i + ty eta_j) F at the rule's own Gauss points
        t0, tx, ty = (float(fr(v)) for v in req["taper"]) if req.get("taper") else (1., 0., 0.)
        xg, yg = gauss_points(nx), gauss_points(ny)
        Fn = np.ascontiguousarray(np.array([[(t0 + tx * xg[i] + ty * yg[j]) * F for j in range(ny)] for i in range(nx)]))
    Fn0 = None if Fn is None else Fn.copy()
    k2 = dict(kw)
    if req.get("dflt"):
        # the orders come from the panel's own nx / ny attributes (what the drivers and assemblies rely on)
        p.nx, p.ny = nx, ny
        nx = ny = None
    if q == "fint":
        if k2:
            k2 = dict(size=kw["size"], col0=kw["col0"])
        f = p.calc_fint(c, nx=nx, ny=ny, Fnxny=Fn, silent=True, **k2)
        out = [[dyadic(v)] for v in np.asarray(f, dtype=float).ravel()]
    elif q == "kT":
        M = p.calc_kT(c=c, nx=nx, ny=ny, Fnxny=Fn, silent=True, **k2)
        out = [[dyadic(v) for v in row] for row in M.toarray()]
    elif req.get("vialb") and not req["NL"] and not k2:
        # the documented route of the state-based matrix: Panel.lb(c=..., nx, ny, Fnxny) feeds them into calc_kG0
        try:
            p.lb(c=c, nx=nx, ny=ny, Fnxny=Fn, sparse_solver=False, silent=True)
        except Exception:
            pass                       # the eigen-solution of an arbitrary state is not the subject here (C05)
        M = p.kG0
        out = [[dyadic(v) for v in row] for row in M.toarray()]
    else:
        M = p.calc_kG0(c=c, nx=nx, ny=ny, Fnxny=Fn, NLgeom=bool(req["NL"]), silent=True, **k2)
        out = [[dyadic(v) for v in row] for row in M.toarray()]
    ok = np.array_equal(c, c0) and (F0 is None or np.array_equal(np.array(p.F, dtype=float), F0))     # caller inputs untouched
    if Fn is not None:
        ok = ok and np.array_equal(Fn, Fn0)
    return out, bool(ok)


def observe_load(p, pd, req, kw):
    q = req["q"]
    flt = lambda fs: [[float(fr(v)) for v in f] for f in fs]
    route = req.get("route", 0)
    rows = req.get("rows", "list")
    tables = None
    if route % 2 == 0:
        if rows == "ndarray":              # rows of a float table (views), as list(table) gives
            tables = (np.array(flt(req["forces"]), dtype=float).reshape(-1, 5), np.array(flt(req["forcesInc"]), dtype=float).reshape(-1, 5))
            p.forces, p.forces_inc = list(tables[0]), list(tables[1])
        elif rows == "tuple":
            p.forces = [tuple(f) for f in flt(req["forces"])]
            p.forces_inc = [tuple(f) for f in flt(req["forcesInc"])]
        else:
            p.forces = flt(req["forces"])
            p.forces_inc = flt(req["forcesInc"])
    else:                                  # through the public add_force API
        for f in flt(req["forces"]):
            p.add_force(*f, cte=True)
        for f in flt(req["forcesInc"]):
            p.add_force(*f, cte=False)
    inc = float(fr(req["inc"]))
    asked = ([list(map(float, f)) for f in p.forces], [list(map(float, f)) for f in p.forces_inc])
    untouched = lambda: (asked == ([list(map(float, f)) for f in p.forces], [list(map(float, f)) for f in p.forces_inc])
                         and (tables is None or (np.array_equal(tables[0], np.array(asked[0]).reshape(-1, 5)) and
                                                 np.array_equal(tables[1], np.array(asked[1]).reshape(-1, 5)))))
    if req.get("pre"):                     # an earlier evaluation at another load factor must leave no trace
        p.calc_fext(inc=float(fr(req["pre"])), silent=True)
    if q == "fext":
        k2 = {}
        if kw:
            k2 = dict(size=kw["size"], col0=kw["col0"])
        f = p.calc_fext(inc=inc, silent=True, **k2)
        f2 = p.calc_fext(inc=inc, silent=True, **k2)          # asking twice gives the same vector
        return [[dyadic(v)] for v in np.asarray(f, dtype=float).ravel()], bool(np.array_equal(f, f2) and untouched())
    # linear static analysis (all forces at full load: the linear analysis uses inc = 1), three public routes
    if route in (0, 1):
        cs = p.static(silent=True)
        incs = p.increments
    elif route in (2, 3):
        from compmech.analysis import static
        K = p.calc_k0(silent=True)
        f = p.calc_fext(silent=True)
        K0 = K.copy()
        f0 = np.array(f, copy=True)
        incs, cs = static(K, f, silent=True)
        if not (np.array_equal(f, f0) and (K != K0).nnz == 0):      # matrices handed to the solver are not modified
            return [[dyadic(v)] for v in np.asarray(cs[0], dtype=float).ravel()], False
    else:
        from compmech.analysis import Analysis
        an = Analysis(calc_fext=p.calc_fext, calc_k0=p.calc_k0, calc_fint=p.calc_fint, calc_kT=p.calc_kT)
        incs, cs = an.static(NLgeom=False, silent=True)
    c = np.asarray(cs[0], dtype=float).ravel()
    ok = (len(cs) == 1 and list(incs) == [1.0]) and untouched()
    return [[dyadic(v)] for v in c], bool(ok)


def well_posed(pd):
    """the static clause of C07 quantifies over supported panels: the stiffness restricted to the amplitudes that carry
    any stiffness must be safely positive definite (no free rigid-body motion), else K c = f has no unique solution"""
    K = build_panel(pd).calc_k0(silent=True).toarray()
    nz = [i for i in range(len(K)) if np.abs(K[i]).sum() > 0]
    if not nz:
        return False
    w = np.linalg.eigvalsh(K[np.ix_(nz, nz)])
    return bool(w[0] > 1e-7 * w[-1])


def jreq(r):
    out = dict(q=r["q"], size=r.get("size", 0), row0=r.get("row0", 0), col0=r.get("col0", 0))
    for k in ("N", "flow", "beta", "gamma", "aeromu", "c", "pts", "NL", "forces", "forcesInc", "inc", "cores", "num", "extra", "table",
              "mach", "root", "rho", "V", "ainf", "via", "k0first", "taper", "route", "ctor", "nofin", "sweep", "dflt", "vialb", "rows", "pre", "nok0", "lbstudy", "tiles", "both", "cform", "upper"):
        if k in r:
            out[k] = r[k]
    return out


PYTH = [(0, 1), (3, 5), (5, 13), (8, 17), (7, 25)]     # (sin*den, den) -> cos from the triple


def random_pd(rng, models):
    model = rng.choice(models)
    dy = lambda lo, hi, bits=3: c01_dy(rng, lo, hi, bits)
    a, b = dy(Fraction(1, 2), 3), dy(Fraction(1, 2), 3)
    r = dy(2, 12) if model in ("cpanel", "kpanel") else Fraction(0)
    sina, cosa = Fraction(0), Fraction(1)
    if model == "kpanel":
        s, h = rng.choice(PYTH[:4])
        sina = Fraction(s, h)
        cosa = Fraction(int(round(math.sqrt(h * h - s * s))), h)
        # keep the radius positive along the whole meridian
        if r - sina * a <= Fraction(1, 2):
            r = sina * a + 2
    m, n = rng.randint(1, 5), rng.randint(1, 5)
    if model == "kpanel":
        m, n = rng.randint(1, 3), rng.randint(1, 3)
    pat = rng.choice(["01", "01", "small", "default"])
    fl = []
    for d in range(3):
        row = []
        for ax in range(2):
            if pat == "default":
                row.append([Fraction(0), Fraction(int(d == 2)), Fraction(0), Fraction(int(d == 2))])
            elif pat == "01":
                row.append([Fraction(rng.randint(0, 1)) for _ in range(4)])
            else:
                row.append([Fraction(rng.choice([0, 1, 2, -1, 3])) for _ in range(4)])
        fl.append(row)
    stack, off = c01.random_def(rng)
    stack = stack[:4]
    u = rng.random()
    if u < 0.5:
        y1, y2 = Fraction(0), b
    elif u < 0.62 and a < b:
        y1, y2 = Fraction(0), a           # coincidence of unrelated lengths: the strip ends at y = a
    elif u < 0.68 and model in ("cpanel", "kpanel") and r < b:
        y1, y2 = Fraction(0), r
    else:
        f1 = Fraction(rng.randint(0, 6), 8)
        f2 = Fraction(rng.randint(int(f1 * 8) + 1, 8), 8)
        y1, y2 = f1 * b, f2 * b
    Ncte = [Fraction(0)] * 3
    if rng.random() < 0.25:
        Ncte = [Fraction(rng.randint(-8, 8), 2) for _ in range(3)]
        if rng.random() < 0.5:                  # a single non-zero component
            keep = rng.randrange(3)
            Ncte = [v if k == keep else Fraction(0) for k, v in enumerate(Ncte)]
            if not Ncte[keep]:
                Ncte[keep] = Fraction(3, 2)
    pd = dict(model=model, a=rat(a), b=rat(b), r=rat(r), sina=rat(sina), cosa=rat(cosa), m=m, n=n,
              fl=[[[rat(v) for v in ax] for ax in row] for row in fl],
              stack=c01.enc_stack(stack), off=rat(off), y1=rat(y1), y2=rat(y2),
              mu=rat(Fraction(rng.randint(1, 40), 8)), Ncte=[rat(v) for v in Ncte])
    if rng.random() < 0.15:
        pd["ortho"] = True            # force_orthotropic_laminate
    return pd


def c01_dy(rng, lo, hi, bits):
    den = 1 << bits
    return Fraction(rng.randint(int(Fraction(lo) * den), int(Fraction(hi) * den)), den)


def random_req(rng, pd, q):
    size = 3 * pd["m"] * pd["n"] if pd["model"] != "plate_w" else pd["m"] * pd["n"]
    r = dict(q=q, size=0, row0=0, col0=0)
    if rng.random() < 0.4:
        r["ctor"] = True
    if q in ("k0", "kG0", "kM") and rng.random() < 0.25:
        r["nofin"] = True
    if q in STUDY_QS and rng.random() < 0.4:
        r["sweep"] = rng.choice(SWEEP_KINDS if q in ("k0", "kG0", "kM") else SWEEP_KINDS[:9])
    if q in ("k0", "kG0", "kM") and rng.random() < 0.3:
        off = rng.randint(1, 9)
        r.update(size=size + off + rng.randint(0, 7), row0=off, col0=off)
    if q == "kG0":
        r["N"] = [rat(Fraction(rng.randint(-12, 12), 4)) for _ in range(3)]
        r["vialb"] = rng.random() < 0.25 and not r.get("size")
    if q == "kA":
        r["flow"] = rng.choice("xy")
        r["beta"] = rat(Fraction(rng.randint(1, 40), 8))
        r["gamma"] = rat(Fraction(rng.randint(1, 16), 8) if pd["model"] == "cpanel" and r["flow"] == "x" else 0)
    if q == "cA":
        r["aeromu"] = rat(Fraction(rng.randint(1, 40), 8))
    if q == "kAmach":
        mach, root = rng.choice([(Fraction(5, 3), Fraction(4, 3)), (Fraction(5, 4), Fraction(3, 4)),
                                 (Fraction(13, 5), Fraction(12, 5)), (Fraction(17, 8), Fraction(15, 8))])
        r.update(flow=rng.choice("xy"), mach=rat(mach), root=rat(root), rho=rat(Fraction(rng.randint(1, 16), 8)),
                 V=rat(Fraction(rng.randint(4, 40), 4)), ainf=rat(Fraction(rng.randint(4, 16), 4)))
    if q in ("kA", "kAmach") and rng.random() < 0.5:
        r["sweep"] = True
    if q in ("kA", "cA", "kAmach") and rng.random() < 0.35:
        r["via"] = "bay"
        r["k0first"] = rng.random() < 0.6
    a, b = fr(pd["a"]), fr(pd["b"])
    if q in ("uvw", "strain", "stress"):
        amp = rng.choice([1, 1, 8, 64])
        r["c"] = [rat(Fraction(rng.randint(-16, 16), 16 * amp)) for _ in range(size)]
        npts = rng.choice([1, 2, 3, 5, 7, 11, 17])
        pts = []
        for _ in range(npts):
            fx = Fraction(rng.choice([0, 8] + list(range(0, 9))), 8)
            fy = Fraction(rng.choice([0, 8] + list(range(0, 9))), 8)
            pts.append([rat(fx * a), rat(fy * b)])
        r["pts"] = pts
        r["cores"] = rng.choice([1, 2, 3, 4, 6, 7, 16])
        if q != "uvw":
            r["NL"] = rng.random() < 0.5
    if q in ("fint", "kT", "kGc"):
        amp = rng.choice([1, 1, 4, 32])
        r["c"] = [rat(Fraction(rng.randint(-8, 8), 16 * amp)) for _ in range(size)]
        if rng.random() < 0.15:
            r["c"] = [rat(0)] * size            # the undeformed state
        r["extra"] = [rng.choice([0, 1, 3, 9]), rng.choice([0, 2, 4, 5])]
        r["dflt"] = rng.random() < 0.5
        r["table"] = rng.random() < 0.4
        if rng.random() < 0.5:
            r["taper"] = [rat(1), rat(Fraction(rng.randint(-3, 3), 8)), rat(Fraction(rng.randint(-3, 3), 8))]
        if q == "kGc":
            r["NL"] = rng.random() < 0.5
            r["vialb"] = rng.random() < 0.4
    if q in ("fext", "static"):
        def forces(n):
            return [[rat(Fraction(rng.randint(0, 8), 8) * a), rat(Fraction(rng.randint(0, 8), 8) * b)] +
                    [rat(Fraction(rng.randint(-24, 24), 8)) for _ in range(3)] for _ in range(n)]
        r["forces"] = forces(rng.randint(0, 3))
        r["forcesInc"] = forces(rng.randint(0 if r["forces"] else 1, 3))
        if rng.random() < 0.5:            # revisit an earlier load point after another one
            allf = r["forces"] + r["forcesInc"]
            src = rng.choice(allf)
            again = [src[0], src[1]] + [rat(Fraction(rng.randint(-24, 24), 8)) for _ in range(3)]
            (r["forcesInc"] if rng.random() < 0.5 else r["forces"]).append(again)
        r["inc"] = rat(Fraction(rng.choice([0, 0] + list(range(1, 17))), 8)) if q == "fext" else rat(1)
        r["route"] = rng.randint(0, 5)
        r["rows"] = rng.choice(["list", "ndarray", "tuple"])
        if rng.random() < 0.5:
            r["pre"] = rat(Fraction(rng.randint(1, 24), 8))
        if q == "fext" and rng.random() < 0.3:
            off = rng.randint(1, 9)
            r.update(size=size + off + rng.randint(0, 5), row0=off, col0=off)
    return r


def restrain_flow_edges(pd, flow):
    ax = 0 if flow == "x" else 1
    z = rat(0)
    pd["fl"][2][ax][0] = z
    pd["fl"][2][ax][2] = z
    return pd


def key_of(pd, req):
    return (pd["model"], pd["m"], pd["n"], repr(pd["fl"]), repr(pd["stack"]), repr(pd["y1"]), repr(pd["y2"]),
            repr(req))


INVS = {
    "k0": ["SymmetricOut", "ScaleDominatesOut", "OnlyBlock", "PreloadAdds", "TilesAddUp", "ProbesNonNegative", "RigidBody",
           "ReferenceSurfaceInvariance"],
    "kG0": ["SymmetricOut", "ScaleDominatesOut", "OnlyW", "GeoLinear", "TilesAddUp"],
    "kM": ["SymmetricOut", "ScaleDominatesOut", "TilesAddUp", "ProbesNonNegative", "MassPosDef", "RigidBody",
           "ReferenceSurfaceInvariance"],
    "kA": ["ScaleDominatesOut", "OnlyW", "AeroStructure"],
    "cA": ["SymmetricOut", "OnlyW"],
    "kAmach": ["MachRootOk", "OnlyW", "ScaleDominatesOut"],
    "uvw": [], "strain": [], "stress": ["StrainEnergyNonNegative"], "fext": ["VirtualWork"], "static": [],
    "fint": ["AtRest", "ForceIsEnergyGradient"],
    "kT": ["AtRest", "TangentSymmetric", "TangentIsJacobian", "TaperedTangentIsJacobian", "SymmetricOut"],
    "kGc": ["SymmetricOut", "OnlyW", "UniformStressReproducesConstant"],
}


def run_prop(prop, qs, tier, seed, build, nrand_quick=40, nrand_thorough=600, what="", extra_observed=(), extra_violations=()):
    rep = Report(prop, tier, seed)
    rng = random.Random(seed)
    kfs = open_deviations(prop)
    # 1. bounded model: lattice of <<definition, request>>, consequences as invariants, by TLC
    invs = sorted(set(i for q in qs for i in INVS[q]))
    cfg = ("SPECIFICATION EmitSpec\nCONSTANTS\nNFun = 8\nDeviations = {}\nTier = \"%s\"\nQs = {%s}\n%s\nCHECK_DEADLOCK FALSE\n"
           % (tier, ", ".join('"%s"' % q for q in qs), "\n".join("INVARIANT " + i for i in invs)))
    mc = run_tlc(prop.lower() + "-mc", "MC_PanelModel", cfg, workers=16, timeout=6000, heap="8g")
    rep.add_tlc("MC_PanelModel", mc)
    if not mc.ok:
        rep.machinery("TLC on MC_PanelModel failed: " + mc.errors())
        return rep.finish()
    pairs = [(v[1], v[2]) for v in printed_values(mc.out, "REQ")]
    pairs = [(pd, r) for pd, r in pairs if r["q"] in qs]
    if set(qs) & {"kA", "cA", "kAmach"}:   # the lattice aerodynamic cases also through a stiffener-less bay
        # a bay's skin is usually split at the stiffeners: 1, 2 or 3 skin panels side by side must give the same matrix
        pairs += [(pd, dict(r, via="bay", k0first=(k % 2 == 0), tiles=1 + k % 3)) for k, (pd, r) in enumerate(pairs) if pd["model"] != "plate_w"]
        pairs += [(pd, dict(r, sweep=True)) for (pd, r) in pairs if r["q"] in ("kA", "kAmach") and not r.get("via")]
    if set(qs) & {"kT", "kGc", "fint"}:      # the undeformed state itself (exactly zero amplitudes) is a state like any other
        nz = 0
        for (pd, r) in list(pairs):
            if r["q"] in ("kT", "kGc", "fint") and any(fr(v) != 0 for v in r["c"]) and nz < (6 if tier == "quick" else 40):
                pairs.append((pd, dict(r, c=[rat(0)] * len(r["c"]))))
                nz += 1
    if "kGc" in qs:      # the state-based matrix asked through Panel.lb right after a change of the laminate on ONE object
        for k, (pd, r) in enumerate(list(pairs)):
            if r["q"] == "kGc" and not r["NL"]:
                base = {kk: vv for kk, vv in r.items() if kk not in ("taper", "table", "size", "row0", "col0")}
                for kind in (("stack", "offset", "ortho") if tier == "quick" and k % 2 else ("plyts", "material", "stack", "offset", "ortho")):
                    pairs.append((pd, dict(base, vialb=True, lbstudy=kind)))
    if "static" in qs:   # the lattice load cases are also solved
        pairs += [(pd, dict(r, q="static", inc=rat(1), route=k % 6)) for k, (pd, r) in enumerate(pairs)
                  if r["q"] == "fext" and fr(r["inc"]) == 1]
    if not pairs:
        rep.machinery("no lattice requests for " + str(qs))
        return rep.finish()
    # 2. replay into the real code (A) + seeded random rational definitions (B)
    groups = []
    eid = 0
    meta = {}
    models = ["plate", "plate", "cpanel", "cpanel", "plate_w", "kpanel"]
    if set(qs) & {"kA", "cA", "kAmach"}:
        models = ["plate", "cpanel", "plate_w"]
    if set(qs) & {"uvw", "strain", "stress", "fext", "static", "fint", "kT", "kGc"}:
        models = ["plate", "cpanel"]
    nrand = nrand_quick if tier == "quick" else nrand_thorough
    rnd = []
    for _ in range(nrand):
        pd = random_pd(rng, models)
        q = rng.choice(qs)
        if q == "uvw" and rng.random() < 0.25:
            pd = random_pd(rng, ["plate_w"])          # the w-only model offers displacements only
        r = random_req(rng, pd, q)
        if q in ("kA", "kAmach"):
            restrain_flow_edges(pd, r["flow"])
        if q in ("kA", "cA", "kAmach") and pd["model"] != "plate_w" and rng.random() < 0.4:
            r["via"], r["tiles"], r["k0first"] = "bay", rng.randint(1, 3), rng.random() < 0.5
        if q in ("kA", "kAmach") and rng.random() < 0.4:
            r["upper"] = True
        if q in ("fint", "kT", "kGc"):
            pd["m"], pd["n"] = min(pd["m"], 3), min(pd["n"], 3)
            if q == "fint" and rng.random() < 0.3:
                pd["m"], pd["n"] = rng.choice([(1, 5), (2, 5), (5, 2), (5, 1)])
            r = random_req(rng, pd, q)
            pd["Ncte"] = [rat(0)] * 3
        if q in ("kA", "cA", "kAmach", "uvw", "strain", "stress", "fext", "static", "fint", "kT", "kGc"):
            # these quantify over whole panels (no sub-interval variant of the kernels)
            pd["y1"], pd["y2"] = rat(0), pd["b"]
        rnd.append((pd, r))
    scen = []
    if set(qs) & {"k0", "kG0", "kM"}:          # the repository's own test scenarios (exact values of their decimal inputs)
        for pd in repo_scenarios():
            for q in qs:
                if q == "k0":
                    scen.append((pd, dict(q="k0")))
                elif q == "kG0":
                    scen.append((pd, dict(q="kG0", N=[rat(-60), rat(-5), rat(0)])))
                elif q == "kM":
                    scen.append((pd, dict(q="kM")))
        if tier == "quick":
            scen = scen[::2]
    for k, (pd, r) in enumerate(pairs + rnd + scen):
        r = jreq(r)
        if k < len(pairs):
            if k % 3 == 1:
                r["ctor"] = True
            if k % 5 == 2 and not r.get("sweep"):
                r["both"] = True            # scalar plyt / laminaprop given next to the per-ply lists
            if r["q"] in ("kA", "kAmach") and k % 2 == 1:
                r["upper"] = True           # flow = 'X' / 'Y' 
            if r["q"] in ("uvw", "strain", "stress"):
                r["cform"] = k % 3
            if r["q"] in ("fext", "static"):
                r["rows"] = ("list", "ndarray", "tuple")[k % 3]
                if k % 2 == 0:
                    r["pre"] = rat(Fraction(3 + k % 5, 4))
            if k % 4 == 2 and r["q"] in ("k0", "kG0", "kM"):
                r["nofin"] = True
            if r.get("lbstudy"):
                r["sweep"] = r.pop("lbstudy")
                r["extra"], r["dflt"], r["vialb"], r["study"] = [k % 2, 1], (k % 4 < 2), True, True
            elif r["q"] in ("fint", "kT", "kGc"):
                r["extra"] = [k % 3, 3 + (k % 2)]          # different orders along x and y
                r["dflt"] = (k % 2 == 0)
                if r["q"] == "kGc" and k % 3 == 0:
                    r["vialb"], r["dflt"] = True, False
                if pd["n"] == 5:                            # exactly the exactness bound of each direction, by default
                    r["extra"], r["dflt"] = [0, 0], True
            if k % 2 == 1 and r["q"] in STUDY_QS and not r.get("coff") and not r.get("study"):
                kinds = SWEEP_KINDS if r["q"] in ("k0", "kG0", "kM") else SWEEP_KINDS[:9]
                r["sweep"] = kinds[(k // 2) % len(kinds)]
        if r["q"] == "static" and not well_posed(pd):
            r["q"] = "fext"            # unsupported panel: only the load vector is defined
        try:
            obs, ok = observe(pd, r, fresh_model=(k % 3 != 0))
        except Exception as ex:
            rep.violation("%s raised %s: %s" % (r["q"], type(ex).__name__, str(ex)[:200]), dict(pd=pd, req=r))
            continue
        g = [dict(ev="define", id=eid, pd=pd), dict(ev="eval", id=eid + 1, req=r, obs=obs, flags_ok=ok)]
        if r["q"] in ("fint", "kT", "kGc"):
            g[1]["tol"] = 34          # Gauss-quadrature sums of the quartic integrand
        meta[eid + 1] = (pd, r)
        eid += 2
        groups.append(g)
        if k % 50 == 49:
            gc.freeze()       # the package calls gc.collect() in every matrix routine: keep the recorded trace out of its reach
        rep.nontrivial(key_of(pd, r))
    for what_, rp in extra_violations:
        rep.violation(what_, rp)
    for q in qs:
        if q in ("k0", "kG0", "kM"):           # bays whose skin tiles differ (own laminate / density / offset per add_panel)
            try:
                for (parts, r, obs, ok) in bay_sum_cases(rng, q, 4 if tier == "quick" else 40):
                    g = [dict(ev="sum", id=eid, parts=parts, req=r, obs=obs, flags_ok=ok)]
                    meta[eid] = (parts[0], dict(r, bay_tiles=len(parts)))
                    eid += 1
                    groups.append(g)
                    rep.nontrivial(("baysum", q, repr(parts)))
            except Exception as ex:
                rep.violation("StiffPanelBay %s with individually defined skin panels raised %s: %s"
                              % (q, type(ex).__name__, str(ex)[:200]), dict(q=q))
    for (pd, r, obs, ok) in extra_observed:      # already observed by the caller (e.g. through an assembly)
        g = [dict(ev="define", id=eid, pd=pd), dict(ev="eval", id=eid + 1, req=r, obs=obs, flags_ok=ok)]
        if r.get("num") or r["q"] in ("fint", "kT", "kGc"):
            g[1]["tol"] = 34          # Gauss-quadrature sums
        meta[eid + 1] = (pd, r)
        eid += 2
        groups.append(g)
        rep.nontrivial(key_of(pd, {k: v for k, v in r.items() if k != "c"}) + ("assembly", r.get("coff")))
    tcfg = ("CONSTANTS\nNFun = 8\nDeviations = {}\nTol = %d\nTolSolve = 30\nOpenKF = {%s}\n"
            % (TOL, ", ".join('"%s"' % k for k in kfs)))
    verdicts, results, problems = validate_trace(prop.lower() + "-tr", "Trace_PanelModel", tcfg, groups,
                                                 timeout=6000, judged=lambda e: e["ev"] in ("eval", "sum"))
    for res in results:
        rep.add_tlc("Trace_PanelModel", res)
    for p in problems:
        rep.machinery(p)
    for i, (pd, r) in meta.items():
        v = verdicts.get(i)
        if not v:
            continue
        if v[0].startswith("kf:"):
            for name in v[0][3:].split("+"):
                rep.known(name, "model=%s m=%d n=%d req=%s%s off=%s" % (pd["model"], pd["m"], pd["n"], r["q"],
                                                                       "(NL=%s)" % r["NL"] if "NL" in r else "", fr(pd["off"])))
        elif v[0] != "ok":
            rep.violation("%s of a %s panel (m=%d,n=%d) differs from %s at entries %s"
                          % (r["q"], pd["model"], pd["m"], pd["n"], what, str(v[1])[:300]),
                          dict(pd=pd, req=r, bad=str(v[1])))
    rep.cov["traces_validated_against_impl"] = len(groups)
    rep.cov["evaluations"] = len(groups)
    if prop == "C07":
        # the same clause for assemblies (2..6 panels) and stiffened bays (skin, base, flange forces): Assembly.tla
        import c13
        c13.phase(rep, tier, seed, only={"fext"}, tag="c07asm")
    if prop == "C03":
        # geometric stiffness of assemblies (constant loads and from a state) and of stiffened bays: Assembly.tla
        import c13
        c13.phase(rep, tier, seed, only={"kG0", "kGc", "place:kG0", "stiff:kG0", "parts:kG0"}, tag="c03asm")
    if prop == "C04":
        # mass matrices of assemblies and stiffened bays (placement, derived stiffener internals, parts law): Assembly.tla
        import c13
        c13.phase(rep, tier, seed, only={"kM", "place:kM", "stiff:kM", "parts:kM", "b1dmass"}, tag="c04asm")
    if prop == "C08":
        # assembly level: fint and kT add the connection force / stiffness and slice the global state per panel
        import c13
        c13.phase(rep, tier, seed, only={"fint", "kT"}, tag="c08asm")
    if prop in ("C02", "C07", "C19"):
        # the symmetrisation / null-column / scatter helpers these properties rest on (compmech/sparse.py)
        import sparseops
        sparseops.phase(rep, tier, seed)
    rep.sample(dict(pd=pairs[0][0], req=jreq(pairs[0][1])))
    if rnd:
        rep.sample(dict(pd=rnd[0][0], req=rnd[0][1]))
    rep.cov["rule"] = ("<<definition, request>> pairs: TLC-enumerated covering lattice (models x geometry x laminate class x "
                       "edge-flag pattern incl. distinct primes x y-interval x series orders x placement) replayed on fresh "
                       "Panel objects + %d seeded random rational definitions; distinct = distinct (model, m, n, flags, "
                       "laminate, interval, request)" % nrand)
    rep.assumptions += ["tolerance 2^-%d of the term-magnitude scale the specification computes" % TOL,
                        "generated kernels (.pyx) are those loaded; lib/src and .py are rebuilt from the working tree"]
    return rep.finish()


def replay_file(prop, path, build):
    """re-execute a stored violation: observe the <<definition, request>> again on the real code and let TLC judge it"""
    import json
    rp = json.load(open(path))["replay"]
    if "pd" not in rp or "req" not in rp:
        print("replay file has no <<definition, request>> pair; re-run the check with the same VERIF_SEED instead")
        return 2
    pd, r = rp["pd"], rp["req"]
    kfs = open_deviations(prop)
    if r["q"] == "static" and not well_posed(pd):
        r = dict(r, q="fext")
    try:
        obs, ok = observe(pd, r)
    except Exception as ex:
        print("VIOLATION property=%s replay=%s" % (prop, path))
        print("  still raises %s: %s" % (type(ex).__name__, str(ex)[:200]))
        return 1
    ev = dict(ev="eval", id=1, req=r, obs=obs, flags_ok=ok)
    if r["q"] in ("fint", "kT", "kGc"):
        ev["tol"] = 34
    tcfg = ("CONSTANTS\nNFun = 8\nDeviations = {}\nTol = %d\nTolSolve = 30\nOpenKF = {%s}\n"
            % (TOL, ", ".join('"%s"' % k for k in kfs)))
    verdicts, results, problems = validate_trace(prop.lower() + "-rp", "Trace_PanelModel", tcfg,
                                                 [[dict(ev="define", id=0, pd=pd), ev]], judged=lambda e: e["ev"] == "eval")
    v = verdicts.get(1)
    if problems or not v:
        print("MACHINERY-ERROR", prop, problems)
        return 2
    print("replayed verdict:", v[0], str(v[1])[:300])
    if v[0] == "fail":
        print("VIOLATION property=%s replay=%s" % (prop, path))
        return 1
    return 0
