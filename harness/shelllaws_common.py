"""Shared machinery of the partial checks C16 / C17 (spec/ctrl/ShellLaws.tla).

The harness only EXECUTES: it builds real ConeCyl objects from a definition, performs the public steps of a study
(a JSON-able recipe), executes the kernel-call plans printed by TLC (MC_ShellLaws EmitSpec) literally, and records
everything as exact doubles.  Every comparison is made by TLC on Trace_ShellLaws; no float is compared here."""
import contextlib
import copy
import gc
import io
import json
import math
import os
import random
import re
import time

import numpy as np

import common
from common import Report, dyadic, run_tlc, printed_values, validate_trace

LAMINA = (123.55e3, 8.708e3, 0.319, 5.695e3, 5.695e3, 5.695e3)
LAMINA2 = (142.5e3, 8.7e3, 0.28, 5.1e3, 5.1e3, 5.1e3)
RESTRAINTS = ["kuBot", "kuTop", "kvBot", "kvTop", "kwBot", "kwTop", "kphixBot", "kphixTop", "kphitBot", "kphitTop"]
ALG_INVS = ["AlgRichardson", "AlgLinearLimit", "AlgGradientHasSymmetricJacobian", "AlgSymmetricJacobianIffGradient",
            "AlgClosedPathWork", "AlgWorkDetectsNonGradient", "AlgZeroAtOrigin"]
TOY_INVS = ["InvSameAnswer", "InvLinear", "InvNL", "InvFint", "InvJacobian", "InvFintDelete", "InvLoadsLinear", "InvSplit",
            "InvEdgeAffine", "InvCylCone", "StencilSeen"]
TOY_MUTANTS = ["noEdges", "swapPT", "kGPwithFc", "dropK0LT", "fintNoK0c"]
C16_LAWS = ["K0Symmetric", "KG0Symmetric", "PartitionOfK0", "ProbePositive", "K0IsKernelPlusEdges", "KG0IsKernel", "PlanFollowed",
            "FIsPlanned", "CylinderIsConeAtZero", "IsoIsGeneral", "KG0LinearInLoads", "LoadSplitAddsUp", "EdgeRestraintsAffine",
            "SameK0", "SameKG0", "InputsUntouched"]
C17_LAWS = ["TangentSymmetric", "TangentIsKLPlusKG", "KGIsKernel", "KLIsSumOfKernels", "UndeformedIsForceFree",
            "FintIsKernelPlusK0c", "TangentIsJacobian", "LinearLimitIsK0c", "FintOfFreeIsDeletion", "ThreadsAgree", "FintIsGradient",
            "SameAnswer", "InputsUntouched", "FullCIsInsertion"]
PROPOSED = os.path.join(os.path.dirname(os.path.abspath(__file__)), "..", "build", "proposed_kf_c16_c17.json")


# ----------------------------------------------------------------------------------------------------
# package access

_TICK = [0]


def tick():
    """the package calls gc.collect() in its methods: keep the harness's growing event lists out of its way"""
    _TICK[0] += 1
    if _TICK[0] % 10 == 0:
        gc.freeze()


@contextlib.contextmanager
def quiet():
    with contextlib.redirect_stdout(io.StringIO()):
        yield


def package():
    with quiet():
        import compmech.conecyl as cm
        from compmech.conecyl import modelDB
        import compmech.composite.laminate as laminate
    return cm.ConeCyl, modelDB, laminate


# ----------------------------------------------------------------------------------------------------
# exact encodings

def enc_num(x):
    x = float(x)
    return [] if x == 0.0 else dyadic(x)


def enc_vec(v):
    return [enc_num(x) for x in np.asarray(v, dtype=float).ravel()]


def enc_mat(m):
    if hasattr(m, "toarray"):
        m = m.toarray()
    m = np.asarray(m, dtype=float)
    if m.ndim != 2:
        raise ValueError("matrix expected")
    if not np.all(np.isfinite(m)):
        raise ValueError("non-finite entry in an observed matrix")
    return [[enc_num(x) for x in row] for row in m]


def enc_any(v):
    """definition values -> JSON value with exact numbers (for stamps)"""
    if v is None:
        return []          # (TLC compares tuples of different lengths without looking inside: never a string where a list may stand)
    if isinstance(v, bool):
        return v
    if isinstance(v, (int, np.integer)):
        return int(v)
    if isinstance(v, (float, np.floating)):
        return ["f"] + [enc_num(v)]
    if isinstance(v, str):
        return v
    if isinstance(v, dict):
        return [[k, enc_any(v[k])] for k in sorted(v)]
    if isinstance(v, (list, tuple, np.ndarray)):
        return [enc_any(x) for x in (v.tolist() if isinstance(v, np.ndarray) else v)]
    raise TypeError(type(v))


# ----------------------------------------------------------------------------------------------------
# definitions

def base_def(model, **kw):
    d = dict(model=model, m1=2, m2=2, n2=2, alphadeg=0., r2=256., L=384.,
             lam=dict(stack=[0., 45., -45., 30.], plyt=0.125, laminaprop=list(LAMINA)),
             restr={}, Fc=None, P=0., T=0., pdC=False, pdT=True, uTM=0., thetaTdeg=0., betadeg=0.,
             nx=20, nt=28, ni_num_cores=1, ni_method="trapz2d", c0=None, m0=0, n0=0, funcnum=2,
             with_k0L=True, with_kLL=True, ortho=False, F_reuse=None, K=5 / 6., s=79, geo_via="r2,L")
    if model.startswith("iso_"):
        d["lam"] = dict(E11=71.5e3, nu=0.25, h=0.5)
    d.update(kw)
    return d


def build_cc(d, F_reuse_obj=None):
    ConeCyl, _, _ = package()
    tick()
    with quiet():
        cc = ConeCyl()
    cc.out_num_cores = 1
    cc.model = d["model"]
    cc.m1, cc.m2, cc.n2 = d["m1"], d["m2"], d["n2"]
    cc.alphadeg = d["alphadeg"]
    set_geometry(cc, d)
    set_lam(cc, d["lam"])
    for k, v in d["restr"].items():
        setattr(cc, k, v)
    if d["Fc"] is not None:
        cc.Fc = d["Fc"]
    cc.P, cc.T = d["P"], d["T"]
    cc.pdC, cc.pdT, cc.uTM, cc.thetaTdeg, cc.betadeg = d["pdC"], d["pdT"], d["uTM"], d["thetaTdeg"], d["betadeg"]
    cc.nx, cc.nt, cc.ni_num_cores, cc.ni_method = d["nx"], d["nt"], d["ni_num_cores"], d["ni_method"]
    if d["c0"] is not None:
        cc.c0 = np.array(d["c0"], dtype=float)
    cc.m0, cc.n0, cc.funcnum = d["m0"], d["n0"], d["funcnum"]
    cc.with_k0L, cc.with_kLL = d["with_k0L"], d["with_kLL"]
    cc.force_orthotropic_laminate = d["ortho"]
    cc.K, cc.s = d["K"], d["s"]
    if d["F_reuse"] is not None:
        cc.F_reuse = F_reuse_obj if F_reuse_obj is not None else np.array(d["F_reuse"], dtype=float)
    return cc


def set_geometry(cc, d):
    """the same shell through the alternative inputs _rebuild accepts: (r2, L), (r2, H), (r1, L)"""
    a = math.radians(d["alphadeg"])
    via = d.get("geo_via", "r2,L")
    if via == "r2,H":
        cc.r2, cc.H = d["r2"], d["L"] * math.cos(a)
    elif via == "r1,L":
        cc.r1, cc.L = d["r2"] + d["L"] * math.sin(a), d["L"]
    else:
        cc.r2, cc.L = d["r2"], d["L"]


def set_lam(cc, lam):
    if "E11" in lam:
        cc.E11, cc.nu, cc.h = lam["E11"], lam["nu"], lam["h"]
    else:
        cc.stack = list(lam["stack"])
        cc.plyt = lam["plyt"]
        cc.laminaprop = tuple(lam["laminaprop"])


def set_aspect(cc, aspect, d):
    """re-definition of ONE aspect of an existing object to the value definition d gives it"""
    if aspect in ("stack", "stacklen"):
        cc.stack = list(d["lam"]["stack"])
    elif aspect == "plyt":
        cc.plyt = d["lam"]["plyt"]
    elif aspect == "laminaprop":
        cc.laminaprop = tuple(d["lam"]["laminaprop"])
    elif aspect in RESTRAINTS:
        setattr(cc, aspect, d["restr"][aspect])
    elif aspect == "orders":
        cc.m1, cc.m2, cc.n2 = d["m1"], d["m2"], d["n2"]
    elif aspect == "lam":
        set_lam(cc, d["lam"])
    else:
        setattr(cc, aspect, d[aspect])


def stamp_of(d, drop=()):
    return enc_any({k: v for k, v in d.items() if k not in drop})


def is_cyl(d):
    return d["alphadeg"] == 0


# ----------------------------------------------------------------------------------------------------
# plans (printed by TLC, executed literally here)

_PLANS = {}


def load_plans(tier):
    """REQ / PLAN / NLPLAN records of MC_ShellLaws EmitSpec"""
    if tier in _PLANS:
        return _PLANS[tier]
    cfg = ("SPECIFICATION EmitSpec\nCONSTANTS\nDeviations = {}\nTier = \"%s\"\nToyMutant = \"none\"\nCHECK_DEADLOCK FALSE\n" % tier)
    r = run_tlc("sl-emit", "MC_ShellLaws", cfg, workers=1, timeout=900)
    if not r.ok:
        raise RuntimeError("TLC on MC_ShellLaws/EmitSpec failed: " + r.errors() + r.out[-1500:])
    reqs = [v[1] for v in printed_values(r.out, "REQ")]
    plans = {}
    for v in printed_values(r.out, "PLAN"):
        k = v[1]
        plans[(k["model"], k["cyl"], k["clc"], k["freuse"], k["hasstack"])] = v[2]
    nlplans = {v[1]: v[2] for v in printed_values(r.out, "NLPLAN")}
    _PLANS[tier] = (reqs, plans, nlplans, r)
    return _PLANS[tier]


def planned_F(cc, d, rule, ortho_zero):
    """the constitutive matrix the plan prescribes, built independently of cc.F"""
    _, _, laminate = package()
    if rule == "F_reuse":
        F = np.array(d["F_reuse"], dtype=float)
    elif rule in ("ABD", "ABDE_shear_times_K"):
        with quiet():
            lam = laminate.read_stack(list(cc.stack), plyts=list(cc.plyts), laminaprops=list(cc.laminaprops))
        if rule == "ABD":
            F = np.array(lam.ABD, dtype=float)
        else:
            F = np.array(lam.ABDE, dtype=float)
            F[6:, 6:] *= cc.K
    elif rule == "F_isotropic_from_E11_nu_h":
        E11, nu, h = cc.E11, cc.nu, cc.h
        G12 = E11 / (2 * (1 + nu))
        A11 = E11 * h / (1 - nu**2)
        A12 = nu * E11 * h / (1 - nu**2)
        A66 = G12 * h
        D11 = E11 * h**3 / (12 * (1 - nu**2))
        D12 = nu * E11 * h**3 / (12 * (1 - nu**2))
        D66 = G12 * h**3 / 12
        F = np.array([[A11, A12, 0, 0, 0, 0], [A12, A11, 0, 0, 0, 0], [0, 0, A66, 0, 0, 0],
                      [0, 0, 0, D11, D12, 0], [0, 0, 0, D12, D11, 0], [0, 0, 0, 0, 0, D66]], dtype=float)
    else:
        raise ValueError(rule)
    if d["ortho"]:
        for i, j in ortho_zero:
            if j < F.shape[0]:
                F[i, j] = 0.
                F[j, i] = 0.
    return np.ascontiguousarray(F)


def resolve(name, cc, ctx):
    if name in ctx:
        return ctx[name]
    if name == "0":
        return 0
    return getattr(cc, name)


def call_kernel(call, cc, ctx, kw=False):
    _, modelDB, _ = package()
    fn = getattr(modelDB.db[call["mod"]]["linear" if call["fn"].startswith("fk") else "non-linear"], call["fn"])
    args = [resolve(a, cc, ctx) for a in call["args"]]
    kwargs = {}
    if kw:
        names = dict(nx="nx", nt="nt", num_cores="ni_num_cores", method="ni_method", c0="c0", m0="m0", n0="n0")
        kwargs = {k: getattr(cc, names[k]) for k in call["kw"]}
    with quiet():
        return fn(*args, **kwargs)


def hasstack(d):
    return "stack" in d["lam"]


def plan_key(d, clc):
    return (d["model"], is_cyl(d), 1 if clc else 0, d["F_reuse"] is not None, hasstack(d))


def run_linear_plan(cc, d, clc, plans):
    plan = plans[plan_key(d, clc)]
    Fp = planned_F(cc, d, plan["F"], plan["orthoZero"])
    assert plan["Fc"] == "Nxxtop0*(2*pi*r2*cosa)"
    ctx = dict(F=Fp, Fc=cc.Nxxtop[0] * (2 * np.pi * cc.r2 * cc.cosa))
    k0 = call_kernel(plan["k0"], cc, ctx)
    edges = call_kernel(plan["edges"], cc, ctx)
    kGs = [call_kernel(c, cc, ctx) for c in plan["kG"]]
    return plan, Fp, dict(k0=enc_mat(k0), edges=enc_mat(edges), kG=[enc_mat(g) for g in kGs])


# ----------------------------------------------------------------------------------------------------
# events

class Study:
    """one study = one group of events judged together (the `hist` of ShellLaws)"""
    _next = [0]

    def __init__(self, recipe):
        self.recipe = recipe
        self.events = []

    def add(self, e, rel=()):
        e["id"] = Study._next[0]
        Study._next[0] += 1
        e["first"] = not self.events
        e["rel"] = [dict(r) for r in rel]
        self.events.append(e)
        return e["id"]


# aspects of a definition that cannot influence the linear matrices
LIN_IRRELEVANT = ("ni_num_cores", "nx", "nt", "ni_method", "with_k0L", "with_kLL", "c0", "m0", "n0", "funcnum", "uTM", "thetaTdeg",
                  "betadeg")


def probes_for(k0, rng, nrand=3):
    """probe vectors: seeded integers, and dyadic roundings of the extreme eigenvectors (a SUGGESTION of where to look: the verdict
    x^T K x >= -tol is taken by TLC in exact arithmetic on the recorded matrix)"""
    n = k0.shape[0]
    out = [[float(rng.randint(-3, 3)) for _ in range(n)] for _ in range(nrand)]
    try:
        w, v = np.linalg.eigh(k0)
        for col in (0, 1):
            x = v[:, col]
            x = np.round(x / (np.abs(x).max() or 1.) * 1024) / 1024
            out.append(x.tolist())
    except Exception:
        pass
    return [enc_vec(x) for x in out]


def linear_event(cc, d, clc, route, plans, rng, via="_calc_linear_matrices", with_kern=True, F_reuse_obj=None):
    """one CalcLinear step on cc (definition d in force) and everything it left behind"""
    before = [] if F_reuse_obj is None else enc_mat(F_reuse_obj)
    with quiet():
        if via == "calc_k0":
            cc.calc_k0(silent=True)
        else:
            cc._calc_linear_matrices(combined_load_case=(clc or None))
    after = [] if F_reuse_obj is None else enc_mat(F_reuse_obj)
    k0 = cc.k0.toarray()
    kG = [cc.kG0] if not clc else [cc.kG0_Fc, cc.kG0_P, cc.kG0_T]
    key = plan_key(d, clc)
    e = dict(op="linear", model=d["model"], cyl=is_cyl(d), route=route, clc=1 if clc else 0,
             stamp=[stamp_of(d, drop=LIN_IRRELEVANT), 1 if clc else 0],
             base0=stamp_of(d, drop=LIN_IRRELEVANT + ("alphadeg",)), alphadeg=enc_num(d["alphadeg"]),
             base=stamp_of(d, drop=LIN_IRRELEVANT + ("Fc", "P", "T", "restr")), loads=enc_vec([d["Fc"] or 0., d["P"], d["T"]]),
             ek=enc_num(max(d["restr"].values()) if d["restr"] else 0.),
             k0=enc_mat(k0), kG=[enc_mat(g) for g in kG], k0uu=enc_mat(cc.k0uu), k0uk=enc_mat(cc.k0uk),
             xs=[int(x) for x in cc.excluded_dofs], F=enc_mat(cc.F),
             plankey=dict(model=key[0], cyl=key[1], clc=key[2], freuse=key[3], hasstack=key[4]),
             inputs_before=before, inputs_after=after)
    if with_kern:
        plan, Fp, kern = run_linear_plan(cc, d, clc, plans)
        e.update(plan=plan, Fplan=enc_mat(Fp), kern=kern, probes=probes_for(k0, rng))
    else:
        e.update(plan=plans[key], Fplan=[], kern=dict(k0=[], edges=[], kG=[]), probes=[])
    return e


def kernel_event(d, fn, K, args):
    """a direct kernel call; `args`: everything the two kernels of a pair are handed in common"""
    return dict(op="kernel", model=d["model"], cyl=is_cyl(d), route="kernel", fn=fn, K=enc_mat(K), stamp=[fn] + args, args=args)


FORMS = ["plain", "view", "readonly"]



def in_form(c, form):
    c = np.array(c, dtype=float)
    if form == "view":
        big = np.zeros(2 * len(c))
        big[::2] = c
        return big[::2]
    if form == "readonly":
        c.flags.writeable = False
    return c


def nl_defn(d):
    return stamp_of(d)


def nl_event(cc, d, cu, inc, route, nlplans, form="plain", with_kern=True):
    arg = in_form(cu, form)
    before = enc_vec(arg)
    with quiet():
        cc.calc_kT(arg, inc=inc, silent=True)
        cfull = cc.calc_full_c(np.array(cu, dtype=float), inc=inc)
    after = enc_vec(arg)
    e = dict(op="nl", model=d["model"], cyl=is_cyl(d), route=route, defn=nl_defn(d), nocores=stamp_of(d, drop=("ni_num_cores",)) + [enc_vec(cu), enc_num(inc)],
             stamp=[nl_defn(d), enc_vec(cu), enc_num(inc)], c=enc_vec(cu), inc=enc_num(inc), cfull=enc_vec(cfull), size=int(cc.get_size()),
             kL=enc_mat(cc.kL), kG=enc_mat(cc.kG), kTuu=enc_mat(cc.kTuu), kTuk=enc_mat(cc.kTuk), k0=enc_mat(cc.k0),
             xs=[int(x) for x in cc.excluded_dofs], cks=enc_vec(cc.excluded_dofs_ck), flags=dict(k0L=bool(cc.with_k0L), kLL=bool(cc.with_kLL)),
             inputs_before=before, inputs_after=after)
    if with_kern:
        plan = nlplans[d["model"]]
        ctx = dict(c=cfull, F=cc.F, num_cores=cc.ni_num_cores, method=cc.ni_method)
        kG = call_kernel(plan["kG"], cc, ctx, kw=True)
        k0L = call_kernel(plan["k0L"], cc, ctx, kw=True) if cc.with_k0L else None
        kLL = call_kernel(plan["kLL"], cc, ctx, kw=True) if cc.with_kLL else None
        e["kern"] = dict(kG=enc_mat(kG), k0L=[] if k0L is None else enc_mat(k0L), kLL=[] if kLL is None else enc_mat(kLL))
    else:
        e["kern"] = dict(kG=[], k0L=[], kLL=[])
    return e


def fint_event(cc, d, cu, inc, ru, route, nlplans, form="plain", with_kern=False, m=1):
    arg = in_form(cu, form)
    before = enc_vec(arg)
    with quiet():
        f = cc.calc_fint(arg, inc=inc, return_u=ru, silent=True) if m == 1 else cc.calc_fint(arg, inc=inc, m=m, return_u=ru, silent=True)
        cfull = cc.calc_full_c(np.array(cu, dtype=float), inc=inc)
    after = enc_vec(arg)
    e = dict(op="fint", model=d["model"], cyl=is_cyl(d), route=route, defn=nl_defn(d),
             nocores=stamp_of(d, drop=("ni_num_cores",)) + [enc_vec(cu), enc_num(inc), bool(ru), m],
             stamp=[nl_defn(d), enc_vec(cu), enc_num(inc), bool(ru), m], c=enc_vec(cu), inc=enc_num(inc), cfull=enc_vec(cfull), ru=bool(ru),
             f=enc_vec(f), xs=[int(x) for x in cc.excluded_dofs], cks=enc_vec(cc.excluded_dofs_ck), size=int(cc.get_size()),
             perfect=d["c0"] is None, inputs_before=before, inputs_after=after, k0=[], kern=[])
    if with_kern:
        plan = nlplans[d["model"]]
        ctx = dict(c=cfull, F=cc.F, num_cores=cc.ni_num_cores, method=cc.ni_method)
        ctx["nx*m"], ctx["nt*m"] = cc.nx * m, cc.nt * m
        for k, a in (("c0", "c0"), ("m0", "m0"), ("n0", "n0")):
            ctx[k] = getattr(cc, a)
        fk = call_kernel(plan["fint"], cc, ctx)
        e.update(k0=enc_mat(cc.k0), kern=enc_vec(fk))
    return e


# ----------------------------------------------------------------------------------------------------
# judging

def devs_cfg(names):
    return "Deviations = {%s}\n" % ", ".join('"%s"' % k for k in names)


def proposed_entries():
    """test aid: entries the builder proposes for known_findings.json; honoured only if VERIF_ASSUME_PROPOSED_KF=1"""
    if os.environ.get("VERIF_ASSUME_PROPOSED_KF") != "1":
        return []
    p = os.path.abspath(PROPOSED)
    return json.load(open(p))["findings"] if os.path.exists(p) else []


def open_devs(prop):
    names = list(common.open_deviations(prop))
    extra = [f for f in proposed_entries() if f["property"] == prop and f["status"] == "open"]
    if extra:
        orig = common.known_findings

        def patched():
            have = orig()
            return have + [f for f in proposed_entries() if f["deviation"] not in [h.get("deviation") for h in have]]
        if not getattr(common.known_findings, "_patched", False):
            patched._patched = True
            common.known_findings = patched
        names += [f["deviation"] for f in extra if f["deviation"] not in names]
    return names


def judge(rep, prop, studies, tag, tier, describe):
    """validate every study with Trace_ShellLaws; returns (verdicts by id, min Jacobian bits)"""
    groups = [s.events for s in studies if s.events]
    if not groups:
        rep.machinery("no study produced events")
        return {}, None
    devs = open_devs(prop)
    verdicts, results, problems = validate_trace(tag, "Trace_ShellLaws", "CONSTANTS\n" + devs_cfg(devs), groups,
                                                 timeout=3000 if tier == "quick" else 7000, nproc=16)
    for res in results:
        rep.add_tlc("Trace_ShellLaws", res)
    for p in problems:
        rep.machinery(p)
    bits = []
    census = rep.cov.setdefault("verdict_census", {})
    for s in studies:
        for k, e in enumerate(s.events):
            v = verdicts.get(e["id"])
            if v is None:
                continue
            key = e["op"] + "/" + v[0].split(":")[0]
            census[key] = census.get(key, 0) + 1
            if v[0] == "ok":
                bits += [b for b in v[1] if isinstance(b, int)]
                continue
            laws = sorted({f[0] for f in v[1]}) if isinstance(v[1], list) else [str(v[1])]
            what = describe(s, k, e, laws, v)
            if v[0].startswith("kf:"):
                for name in v[0][3:].split("+"):
                    rep.known(name, what)
            else:
                rep.violation(what, dict(recipe=s.recipe, event_index=k, laws=laws, detail=str(v[1])[:1500]))
    rep.cov["traces_validated_against_impl"] += len(groups)
    rep.cov["evaluations"] += sum(len(g) for g in groups)
    return verdicts, (min(bits) if bits else None)


def replay_and_judge(rep, prop, rcs, build_batch, tag, tier, describe, batch):
    """build the studies of `rcs` in batches (bounded memory: a study carries its matrices as exact numbers) and judge each
    batch; the next batch is replayed on the package while TLC judges the previous one"""
    import concurrent.futures as cf
    bits, nstudies, kinds, pending = [], 0, {}, None
    with cf.ThreadPoolExecutor(max_workers=1) as ex:
        for b0 in range(0, len(rcs), batch):
            studies = build_batch(rcs[b0:b0 + batch], b0)
            nstudies += len(studies)
            for s in studies:
                kinds[s.recipe["kind"]] = kinds.get(s.recipe["kind"], 0) + 1
            if pending is not None:
                v, b = pending.result()
                bits += [] if b is None else [b]
            pending = ex.submit(judge, rep, prop, studies, "%s-%d" % (tag, b0), tier, describe)
            del studies
            gc.collect()
            gc.freeze()
        if pending is not None:
            v, b = pending.result()
            bits += [] if b is None else [b]
    return nstudies, kinds, (min(bits) if bits else None)


def short_def(d):
    lam = d["lam"]
    return ("%s m1=%d m2=%d n2=%d alphadeg=%g r2=%g L=%g %s" %
            (d["model"], d["m1"], d["m2"], d["n2"], d["alphadeg"], d["r2"], d["L"],
             ("E11=%g nu=%g h=%g" % (lam["E11"], lam["nu"], lam["h"])) if "E11" in lam else
             ("stack=%s plyt=%g" % (lam["stack"], lam["plyt"]))))


def model_check(rep, tier, which):
    """TLC on the bounded models of ShellLaws: 'alg' (Part A) and/or 'toy' (Part B), side by side"""
    import concurrent.futures as cf

    def one(name):
        spec, invs = dict(alg=("AlgSpec", ALG_INVS), toy=("ToySpec", TOY_INVS))[name]
        cfg = ("SPECIFICATION %s\nCONSTANTS\nDeviations = {}\nTier = \"%s\"\nToyMutant = \"none\"\n%sCHECK_DEADLOCK FALSE\n"
               % (spec, tier, "".join("INVARIANT %s\n" % i for i in invs)))
        r = run_tlc("sl-" + name, "MC_ShellLaws", cfg, workers=(6 if name == "alg" else 4) if tier == "quick" else 12,
                    timeout=900 if tier == "quick" else 5000, heap="4g")
        return spec, r
    with cf.ThreadPoolExecutor(max_workers=len(which)) as ex:
        for spec, r in ex.map(one, which):
            rep.add_tlc("MC_ShellLaws/" + spec, r)
            if not r.ok:
                rep.machinery("TLC on MC_ShellLaws/%s failed: %s %s" % (spec, r.errors(), r.out[-1200:]))
            elif r.distinct < 1000:
                rep.machinery("vacuity: MC_ShellLaws/%s explored only %d states" % (spec, r.distinct))


def toy_mutants(rep, tier, mutants):
    """negative runs: the toy package side deviates like a realistic regression; TLC must report an invariant violation"""
    import concurrent.futures as cf
    out = {}

    def one(m):
        cfg = ("SPECIFICATION ToySpec\nCONSTANTS\nDeviations = {}\nTier = \"quick\"\nToyMutant = \"%s\"\n%sCHECK_DEADLOCK FALSE\n"
               % (m, "".join("INVARIANT %s\n" % i for i in TOY_INVS)))
        r = run_tlc("sl-mut-" + m, "MC_ShellLaws", cfg, workers=2, timeout=900)
        hit = re.findall(r"Invariant (\w+) is violated", r.out)
        return m, hit
    with cf.ThreadPoolExecutor(max_workers=len(mutants)) as ex:
        for m, hit in ex.map(one, mutants):
            out[m] = hit[0] if hit else None
            if not hit:
                rep.machinery("toy mutant %s was NOT rejected by the invariants of ShellLaws" % m)
    rep.cov["toy_mutants_rejected_by"] = out
    return out


def dy(rng, lo, hi, bits=7):
    den = 1 << bits
    return rng.randint(int(lo * den), int(hi * den)) / den


def rand_vec(rng, n, amp=0.5, bits=7):
    return [dy(rng, -amp, amp, bits) for _ in range(n)]


LAMS = {"unsym": [0., 45., -45., 30.], "sym": [45., -45., -45., 45.], "cross": [0., 90., 90., 0.], "single": [20.]}


# ----------------------------------------------------------------------------------------------------
# binding self-test: realistic regressions monkeypatched into the package IN THIS PROCESS (nothing is written to /repo)

@contextlib.contextmanager
def mutated(owner, name, replacements):
    """owner: a class or module of the package; the source of owner.name is re-compiled with the textual replacements"""
    import inspect
    import textwrap
    orig = getattr(owner, name)
    src = textwrap.dedent(inspect.getsource(orig))
    for old, new in replacements:
        if old not in src:
            raise RuntimeError("self-test: text %r not found in %s (the package changed: adapt the mutant)" % (old, name))
        src = src.replace(old, new)
    mod = inspect.getmodule(orig)
    ns = {}
    exec(compile(src, "<mutant of %s>" % name, "exec"), mod.__dict__, ns)
    setattr(owner, name, ns[name])
    try:
        yield
    finally:
        setattr(owner, name, orig)


def selftest_report(prop, results):
    """results: list of (mutant, rejected?, laws) -> exit code 0 iff every mutant was rejected"""
    ok = True
    for name, rejected, laws, n in results:
        if name.startswith("none"):
            print("SELFTEST %s %-35s %s" % (prop, "unmodified package (control)", "CLEAN" if rejected else "*** NOT CLEAN: " + ", ".join(laws)))
        else:
            print("SELFTEST %s mutant %-28s %s  (%d failing steps; laws: %s)" % (prop, name, "REJECTED" if rejected else "*** ACCEPTED ***", n, ", ".join(laws)))
        ok = ok and rejected
    return 0 if ok else 1


def bootstrap():
    """what bin/check does before importing a harness module (for `python harness/cNN.py --selftest`)"""
    import sys
    import warnings
    warnings.filterwarnings("ignore")
    os.environ.setdefault("PYTHONWARNINGS", "ignore")
    os.environ.setdefault("OMP_NUM_THREADS", "1")
    import build_repo
    import repo_env
    build = build_repo.ensure()
    repo_env.activate(build)
    return build
