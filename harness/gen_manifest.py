"""Writes /verif/MANIFEST.json from the table below (kept in one place so it stays valid)."""
import json
import os

VERIF = os.path.dirname(os.path.dirname(os.path.abspath(__file__)))

CHECKS = {
    "C10": dict(
        level="model_checking", design="5 C10",
        technique="TLA+ exact-arithmetic specification (Bardell/BardellTables/Quadrature) checked by TLC; "
                  "spec->code replay of the TLC-enumerated request lattice through ctypes and trace validation "
                  "of seeded requests, verdict by TLC",
        text="TLC evaluates Bardell's polynomials and every integral family exactly (BigInt rationals) from their "
             "definitions, checks the identities tying the families together (additivity, integration by parts, "
             "orthogonality, formula = Legendre construction) on the bounded model, enumerates the request lattice, "
             "and decides for every index pair 0..29 x 0..29 whether the value returned by the C library built from "
             "the working tree is the exact value (literal tables: 2^-44 relative; run-time polynomials: 2^-40 of the "
             "term magnitude). Gauss tables are accepted iff they satisfy the exactness statement for all p<=2n-1; "
             "trapezoid/Simpson point sets must equal the spec's generated sets.",
        note="Trusted: TLC/SANY, the BigInt/Rat TLA+ definitions (Java accelerator only via differential self-test), "
             "ctypes, gcc. Sub-interval and mapped families are checked on a rational grid plus seeded dyadic "
             "arguments, not for all reals; integrate.pyx cannot be rebuilt here (no Cython)."),
}

CHECKS["C01"] = dict(
    level="model_checking", design="5 C01",
    technique="TLA+ state machine of a ply stack (Laminate.tla) with exact rational ABDE = through-thickness integral; "
              "TLC checks symmetry, exact LDL^T positive definiteness, offset law, mirror/rot90/order/symmetric-stack "
              "action properties; TLC-generated definitions and behaviours replayed into read_stack / Panel.lam, "
              "verdict by TLC trace validation",
    text="For rational-tangent ply angles every ABDE entry is a rational number; TLC computes it from the definition "
         "(rotation as the matrix product Te^T Q Te, Q = inverse compliance, z from -t/2+d), checks the listed "
         "consequences on every reachable stack of the bounded model as invariants and action properties, and decides "
         "entry by entry whether the code's A, B, D, E (all call forms) equal it within 2^-38 of the term magnitude, on "
         "the TLC-enumerated lattice, on TLC-generated transformation behaviours and on seeded random stacks of 1..8 plies.",
    note="Trusted: TLC/SANY, BigInt/Rat definitions (accelerator via differential self-test). Angles restricted to rational "
         "tangents (dense in the reals); real-valued angles are covered only through that lattice.")

_PANEL_NOTE = ("Trusted: TLC/SANY, BigInt/Rat definitions (accelerator via differential self-test), Bardell.tla integrals "
               "(themselves bound to the C tables by C10). Inputs are rational (rational-tangent ply angles, Pythagorean cone "
               "angles, dyadic lengths); series orders up to 8 in the exhaustive tiers (higher indices are covered by C10 and "
               "the index-generic loops). Generated .pyx kernels cannot be rebuilt here (no Cython): the verdict is about the "
               "extensions loaded, re-linked against lib/src of the working tree.")
_PANEL_TECH = ("TLA+ specification PanelOps/PanelModel: every matrix is the Hessian of its energy functional written as "
               "separable bilinear terms over a kinematic table and evaluated exactly by TLC from Bardell.tla; consequences "
               "as TLC invariants on the bounded model; TLC-enumerated <<definition, request>> lattice replayed on fresh "
               "Panel objects and seeded random rational definitions, every matrix entry judged by TLC trace validation")
CHECKS["C02"] = dict(level="model_checking", design="5 C02", technique=_PANEL_TECH, note=_PANEL_NOTE,
    text="TLC computes k0 for plate, w-only plate, cylindrical and conical (41 constant-radius sections) panels from the Donnell "
         "strain table and the exact laminate matrix, checks symmetry, tiling of y sub-intervals, pre-load addition, "
         "non-negative probe forms and rigid-body null vectors as invariants, and decides entry by entry (2^-38 of the term "
         "magnitude, structural zeros exact) whether Panel.calc_k0 agrees, for prime-valued edge flags (every mis-wired flag "
         "shows), unsymmetric offset laminates, sub-intervals, placements and random rational definitions.")
CHECKS["C03"] = dict(level="model_checking", design="5 C03", technique=_PANEL_TECH, note=_PANEL_NOTE,
    text="kG0 as the Hessian of the pre-stress work for all models and sub-intervals; TLC checks symmetry, that only w amplitudes "
         "are touched, linearity in (Nxx,Nyy,Nxy) and tiling, and decides every entry of Panel.calc_kG0 for mixed-sign and shear "
         "load triples. The state-based variant (calc_kG0(c=...)) is decided against PanelNL!KGState: resultants N = A eps + B kappa of "
         "the state as polynomials, exact integration; TLC invariant: a uniform-strain state reproduces the constant-load matrix; "
         "per-point laminate tables equal to the uniform laminate are replayed and must change nothing.")
CHECKS["C04"] = dict(level="model_checking", design="5 C04", technique=_PANEL_TECH, note=_PANEL_NOTE,
    text="kM as the kinetic-energy Hessian with z measured from the reference surface the laminate uses (coupling -mu*h*d, rotary "
         "mu*h*(d^2+h^2/12)); TLC checks symmetry, exact positive definiteness on active amplitudes, total mass of a rigid "
         "translation, tiling, and decides every entry of Panel.calc_kM. The code's +mu*h*d coupling is reproduced exactly by the "
         "named deviation KF_C04_OffsetCouplingSign (known finding); any other discrepancy is a violation.")
CHECKS["C19"] = dict(level="model_checking", design="5 C19", technique=_PANEL_TECH, note=_PANEL_NOTE,
    text="kA / cA as the bilinear forms of the piston-theory pressure law; TLC checks w-only support, linearity in beta/gamma, "
         "skewness of the flow part and symmetry of the curvature and damping parts under flow-edge restraint, and decides every "
         "entry of Panel.calc_kA / calc_cA (both flows, flat, w-only and cylindrical models). The curvature part mirrored with the "
         "wrong sign is the named deviation KF_C19_GammaPartSkewed (known finding).")

CHECKS["C11"] = dict(level="model_checking", design="5 C11", technique=_PANEL_TECH, note=_PANEL_NOTE,
    text="Displacements, rotations, strains (with/without von Karman terms) and stress resultants at rational points are "
         "evaluated exactly by TLC from the same series and kinematic table the stiffness is derived from and compared value "
         "by value with Panel.uvw/strain/stress; the harness additionally records that results are bit-identical for thread "
         "counts 1,2,5,16, for a permuted and for a truncated point list and that the amplitude vector is not modified (flags "
         "judged by the trace spec). The term-wise squaring of the non-linear terms is the named deviation "
         "KF_C11_NLTermwiseSquares (known finding, .pyx); the ignored NLterms flag of Panel.stress was repaired (fix: commit).")
CHECKS["C07"] = dict(level="model_checking", design="5 C07", technique=_PANEL_TECH, note=_PANEL_NOTE,
    text="The load vector is defined in the specification as the virtual work of the point forces against the unit-amplitude "
         "displacement fields (TLC invariant VirtualWork ties it to the field module), with incrementable forces scaled by "
         "the load factor; Panel.calc_fext (placements, load factors) is judged entry by entry. For the linear static "
         "solution TLC evaluates the exact backward-error criterion |K c - f| <= 2^-30 (|K||c| + |f|) row by row with its own "
         "exact K and f, and requires exact zeros on amplitudes without stiffness. Assemblies and bays: see C13.")

CHECKS["C12"] = dict(level="model_checking", design="5 C12", note=_PANEL_NOTE,
    technique="TLA+ specification ConnectionOps/ConnModel: each connection kind is a list of interface jump functionals; the "
              "matrix is the Hessian of kt/2 INT|jump|^2 + kr/2 INT(rotation jump)^2 evaluated exactly by TLC; invariants: "
              "symmetric, non-negative probe forms, linear in kt/kr, zero on rigid (continuous) field pairs, constants "
              "symmetric and homogeneous; lattice replayed through the fkC* kernels and PanelAssembly.get_k0_conn, verdict by "
              "TLC trace validation",
    text="All five kinds (edge-edge along x/y, base-flange along x/y, face-to-face with thickness offset), unequal panels, "
         "interior interface positions, both orders of the panels in the global vector, explicit and laminate-derived penalty "
         "constants: every entry of the assembled connection matrix and calc_kt_kr are decided against the exact Hessian. The "
         "coupling block dropped when p1 follows p2 was found by this check and repaired (fix: commit).")

CHECKS["C14"] = dict(level="model_checking", design="5 C14", note=_PANEL_NOTE + " Eigenvalue clauses rest on congruence/scaling "
    "invariance of generalised eigenvalues (cited theorem) and are additionally observed through lb/freq (dense paths). Similar partners at factors (2, 3, 5) and in a far unit system (1e3, 1e-9, 1e-29), the latter for k0, kM and the requested kind.",
    technique="TLA+ module PanelEquiv: the equivalence laws (cone at 0 deg = cylinder, cpanel(r) - plate = K1/r + K2/r^2, "
              "w-only = w block, axis exchange as a permutation congruence, similarity scaling exponents) are TLC invariants "
              "relating two exact evaluations; both members of every pair are replayed on the real code and judged by TLC "
              "trace validation; eigenvalues of exchanged/similar partners observed and judged by the trace spec",
    text="The laws are decided on the specification exactly (rational matrices) and transferred to the code by validating "
         "both members of each pair against their exact values (so 'identical' means entrywise within 2^-38 of the term "
         "magnitude, 2^-34 for the numerically integrated kernels), including the numeric-vs-analytic kernel pair at the "
         "undeformed state; buckling and frequency lists of axis-exchanged and (s,e,q)-similar plates are required to be "
         "equal / scaled by e*s and sqrt(e/q)/s at 2^-30.")

CHECKS["C15"] = dict(level="model_checking", design="5 C15", note=_PANEL_NOTE + " The step from nested matrices to monotone "
    "eigenvalues is Courant-Fischer (cited); eigenvalues themselves are observations through the dense solver paths; the "
    "convergence clause uses a calibrated allowance (10x margin, harness/c15_calibration.json).",
    technique="TLA+ module Nested: principal-sub-matrix law K(m,n) = embedded block of K(m+1,n), K(m,n+1) and Rayleigh quotients of "
              "probe vectors >= closed-form lower bracket as exact TLC invariants (pi carried as a rational interval); code side: "
              "sub-matrix comparison of real matrices and first-eigenvalue sequences for increasing orders judged by the trace "
              "spec against the brackets TLC computes",
    text="Nestedness is decided exactly on the specification and observed on the code's matrices for m,n in 4..16; the eigenvalue "
         "clauses (non-increasing under refinement, never below the double-sine closed form, converging to it) are decided by TLC "
         "on observed lb/freq values using rational brackets of the closed forms for aspect ratios 1/5..5, cross-ply and single-ply "
         "laminates and uniaxial/biaxial load ratios.")

CHECKS["C08"] = dict(level="model_checking", design="5 C08", note=_PANEL_NOTE + " Series orders up to 3 (bivariate polynomial "
    "arithmetic in TLC); Gauss orders chosen from the exactness bound (and above it).",
    technique="TLA+ module PanelNL: fields of a rational state as bivariate polynomials, quartic strain energy, Fint = first "
              "variation, KT = second variation, all integrals exact; TLC invariants: Fint(0)=0, KT(0)=K0, KT symmetric (each entry "
              "from its own formula), KT = Jacobian of Fint and Fint = gradient of U by the 4-point stencil that is exact for "
              "cubic/quartic maps; Panel.calc_fint / calc_kT at lattice and random rational states judged by TLC trace validation",
    text="Consistency of the tangent with the internal force at deformed states is decided exactly on the specification (stencil "
         "identities hold as equalities of rationals) and transferred to the code by deciding every entry of calc_fint and calc_kT "
         "(uniform and per-point laminate tables, Gauss orders at and above the exactness bound, flat and cylindrical models, "
         "B-coupled laminate, prime-valued edge flags) against the exact gradient/Hessian within 2^-34 of the term-magnitude bound; "
         "caller arrays are recorded unmodified. Assembly-level addition of connection forces: see C13.")

CHECKS["C13"] = dict(level="model_checking", design="5 C13", note=_PANEL_NOTE + " Stiffener internals other than the 1-D blade "
    "flange mass are not re-derived: for stiffened bays the component stand-alone matrix is the component's own output and the "
    "specification decides where it must land; the PSD clause of stiffener contributions is an observed smallest eigenvalue.",
    technique="TLA+ module Assembly (placement algebra: segments, running offsets of PanelAssembly and StiffPanelBay, global "
              "matrix/vector = sum of placed components + connection matrices) on top of PanelOps/PanelNL/ConnectionOps; TLC "
              "invariants: ranges partition 1..Size, size = sum, symmetric, non-negative probes, skin-partition independence; "
              "TLC-enumerated assemblies and bays replayed on real PanelAssembly / StiffPanelBay objects, every entry judged by "
              "TLC trace validation (exact for assemblies and stiffener-less bays, placement-of-observed-components for stiffened bays)",
    text="Assemblies of 1..6 unequal panels in any order with SSycte/SSxcte/BFycte/SB connections: get_size, calc_k0, calc_kG0, "
         "calc_kM, calc_fext, calc_kT and calc_fint are decided entry by entry against the exact placed sums; bays whose skin is "
         "cut at 0..4 arbitrary positions (flat and curved) are decided against the uncut skin (partition independence is a TLC "
         "invariant); for bays with 0..2 stiffeners of each kind the code's own component matrices are placed by the "
         "specification's placement map and must add up to the assembled matrix; the indefinite BladeStiff1D flange mass is the "
         "named deviation KF_C13_Blade1DMassCouplingDoubled (known finding, .pyx).")
CHECKS["C20"] = dict(level="model_checking", design="5 C20",
    note="Trusted: hand-transcribed step scripts of each public method (bounded by the run-time attribute recorder: a mismatch "
         "degrades to exhaustive concrete call sequences of length <= 3 and is recorded as drift, never as a violation); ARPACK "
         "results compared on eigenvalues at solver precision; exception identity = type + first 40 characters of the message.",
    technique="TLA+ module Lifecycle (def-use state machine of lazily derived attributes for 12 object kinds, one step script per "
              "public method) with invariants NoFailure / HistoryIndependent / CacheCoherent / Idempotent; FieldChunks and "
              "IntegratePartition model the OpenMP chunking; every (abstract state, method) edge TLC finds is replayed on real "
              "objects: results must be bit-identical to a fresh object's and to their own repetition, caller arrays unchanged, "
              "thread counts 1..16 bit-identical; verdicts by TLC trace validation",
    text="History independence is decided by replaying every edge of the abstract state graph (and sampled longer trajectories) "
         "on Panel (3 models), PanelAssembly, StiffPanelBay (6 variants) and ConeCyl (cylinder, cone) objects; first-call "
         "failures of today's code are TLC counterexamples of NoFailure and are listed one by one as named deviations (17 known "
         "findings, each a (kind, method, attribute) signature); padding/partition of the threaded kernels is model-checked for "
         "all sizes <= 40 (<= 60 points) and thread counts <= 16 and observed bit-identical on the real kernels.")

CHECKS["C18"] = dict(level="model_checking", design="5 C18",
    note="Trusted: TLC/SANY, BigInt/Rat definitions; pi is carried symbolically (a/pi + b + c*pi) with a 1e-40 enclosure. Decided by "
         "the specification: partition/re-insertion algebra, geometry derivation, which load parts scale with the load factor, the "
         "closed-form axial and pressure terms (checked against first-principles virtual work on the spec side), point forces on the "
         "quarter-turn lattice where the trigonometric shape functions are rational. Observed (judged by the trace spec on the "
         "package's own numbers): virtual work of arbitrary point forces and of the torque through uvw at unit amplitudes, and the "
         "residual of K_uu c_u = f_u. The shell kernels (.pyx) are those loaded.",
    technique="TLA+ modules ShellPartition (exclude/re-insert algebra on integer matrices), ShellGeometry (derivation of r1, r2, H, L "
              "and load rebuild as a state machine, pi symbolic), ShellLoads (load vector = virtual work; affine in the load factor); "
              "every TLC-enumerated transition replayed on exclude_dofs_matrix / calc_full_c / _rebuild / calc_fext of real ConeCyl "
              "objects, verdict by TLC trace validation",
    text="Book-keeping of complete shells: removal and re-insertion of prescribed amplitudes are inverse operations and give the "
         "reduced system with the prescribed-displacement terms on the right-hand side (TLC invariants, exact replay on integer "
         "matrices and on real k0), derived geometry is mutually consistent for all 16 input subsets x Pythagorean cone angles, the "
         "load vector is affine in the load factor with exactly the documented parts scaled, and equals the virtual work (exact on "
         "the rational lattice, observed elsewhere). Four named deviations are known findings (torque as a point force, loads on "
         "stiffness-free amplitudes dropped, LA column not moved to the right-hand side, kkk returns the complement block).")

_EIG_NOTE = ("Assumption of the module (the only one): the scipy/ARPACK/LAPACK solver contract SolverOK (eigsh/eigs/eigh/eig return "
             "eigenpairs of the reduced pencil selected by the shift-invert / Cayley / LM mode; selection assumed only in the stated "
             "regime or for reduced sizes <= 20). Eigen-residuals, zero patterns and values are OBSERVATIONS of the real code recorded "
             "exactly and judged by the trace specification (values at 2^-30 in mu-space); the abstract spectrum of package-made "
             "matrices is measured by Cholesky + eigvalsh and recorded as an assumption. ARPACK start vectors are random: "
             "eigenvectors are judged through residuals only.")
_EIG_TECH = ("TLA+ module EigWrap: the wrapper logic of lb / Panel.lb / ConeCyl.lb / freq / Panel.freq as one state machine (ChooseK, "
             "TrySparse, RemoveNull, SolveReduced under the solver contract, Scatter, NegateInvert/Sqrt, Sort, ReExpand, Return) over an "
             "exact abstract spectrum; TLC invariants: zeros off active amplitudes, pairing, ordering in the regime, path agreement, "
             "scaling, no raise; every TLC-emitted case realised as real matrices K = P^T D P and run through the real functions, "
             "verdict by TLC trace validation with named deviations")
CHECKS["C05"] = dict(level="model_checking", design="5 C05", note=_EIG_NOTE, technique=_EIG_TECH,
    text="Wrapper logic of the buckling analysis is model-checked for all active sets and mixed-sign spectra of sizes <= 7 and bound to "
         "the code by replaying every lattice case (about 4 000) plus package-made and random pairs through lb (both switches), "
         "Panel.lb and ConeCyl.lb: residual (K + lambda KG) v = 0 observed, zeros on stiffness-free amplitudes exact, ascending from "
         "the smallest positive multiplier in the sub-critical destabilising regime, sparse = dense on the common prefix, load scaling. "
         "Five named deviations are known findings (non-positive tail, three shape/size crashes, ConeCyl's mode='buckling' retry).")
CHECKS["C06"] = dict(level="model_checking", design="5 C06", note=_EIG_NOTE, technique=_EIG_TECH,
    text="Same module, frequency instance: null-column removal, eigs(sigma=-1)/eig contracts, sqrt, the rounding-based sort modelled "
         "literally, reduced_dof take/re-expand; every lattice case (about 4 400) plus package-made (K, M) replayed through freq (sparse, "
         "dense, sort, reduced_dof) and Panel.freq: K v = omega^2 M v observed, omega > 0 and ascending when sort is requested, zero "
         "pattern, path agreement, mass scaling. Four named deviations are known findings (rounded sort, size crash, reduced_dof "
         "scatter, dense column-sum test).")

CHECKS["C09"] = dict(level="model_checking", design="5 C09",
    note="Trusted: TLC/SANY, BigInt/Rat definitions, the TLA+ model of binary64 round-to-nearest-even (Fl) used to follow the "
         "driver's float arithmetic exactly; user callables are the environment: their return values are action parameters (scripted "
         "alphabets in the bounded models, recorded values in trace validation). Exhaustive models are data-free (Dim = 0); data flow "
         "is checked along every replayed path. minInc = 0 is outside the admissible settings (ASSUME).",
    technique="TLA+ module NewtonRaphson: _solver_NR branch by branch (25 actions) with exact modelling of its float arithmetic; TLC checks "
              "ReportedEquilibrated, IncrementsIncreasing, Snapshots (action properties), DoneOK, LinearSolved (invariants) and Termination "
              "(liveness under weak fairness) on scripted residual alphabets; path cover of the printed state graph replayed through the real "
              "Analysis driver with scripted stub callables, and real non-linear runs recorded through wrapper callables, all validated by "
              "TLC against Trace_NewtonRaphson",
    text="All interleavings of converged / diverged / too-slow / iteration-limited steps over dyadic residual alphabets, line search on/off, "
         "modified/full Newton, tangent refresh intervals and increment settings are explored by TLC (about 1.2e5 states quick, 1e6 thorough); "
         "every action is taken; about 700 behaviours are replayed through the real driver with stubs that realise the scripted residuals, "
         "check every argument they receive and scribble on arrays afterwards, and genuine 1-dof springs plus Panel.static(NLgeom=True) runs "
         "are validated as traces (re-evaluated residual of every reported pair < absTOL). Stopping short of full load and initialInc > 1 "
         "are the named deviations KF_C09_StopsShortOfFullLoad / KF_C09_InitialIncAboveOne (known findings).")

_SHELL_NOTE = ("PARTIAL claim. Trusted: TLC/SANY, BigInt/Rat definitions. The trigonometric kernels (.pyx, not rebuildable here) are "
               "opaque: no absolute kernel value is decided. Decided: the composition the Python layer performs (which kernel with "
               "which argument list - the plan is printed by TLC and executed literally by the harness -, symmetrisation, partition, "
               "sums) and the relations the property states between observable matrices / vectors, each judged by TLC on exactly "
               "recorded doubles with a tolerance stated in bits of the law's own term scale; the algebra behind the finite-difference "
               "laws is model-checked on exact integer polynomial maps. Findings in the kernels are listed as known findings.")
CHECKS["C16"] = dict(level="other", design="6 (C16) and 10.7", note=_SHELL_NOTE,
    technique="TLA+ module ShellLaws: (A) model-checked algebra on an exact toy von-Karman shell that uses the package's own composition "
              "(SymUp, k0 + k0edges, partition operators of ShellPartition); (B) state machine of the ConeCyl matrix life cycle whose "
              "invariants are the relational laws; LinearPlan printed by TLC, executed on the real ConeCyl and on the kernels directly, "
              "every study judged by TLC trace validation (Trace_ShellLaws)",
    text="Observation-level relational laws + model-checked algebra (not an exact-value decision). Decided for every registered classical "
         "and first-order-shear model, boundary-condition variant, cylinders and cones, random laminates / restraints / load triples: k0, kG0 "
         "and the Fc/P/T split symmetric; k0uu / k0uk are the partition of k0; k0 = Sym(kernel + k0edges) and kG0 = Sym(kernel) with the "
         "planned argument lists (F rule incl. fsdt shear scaling, F_reuse, orthotropic zero list, Fc = Nxxtop 2 pi r2 cos(alpha)); probe "
         "positivity (necessary condition only); dedicated cylinder kernels = cone kernels at zero angle; iso_ short-cuts = general model "
         "with the isotropic laminate; kG0 additive and homogeneous in (Fc, P, T); combined-load split adds up; elastic edge restraints enter "
         "affinely; same definition => bitwise same answer after pre-queries / single-aspect changes; inputs not modified. NOT decided: that "
         "k0 is the Hessian of the strain energy of the package's own strain field; positive semi-definiteness beyond the probes; any "
         "absolute kernel value.")
CHECKS["C17"] = dict(level="other", design="6 (C17) and 10.7", note=_SHELL_NOTE,
    technique="TLA+ module ShellLaws: TLC proves on integer polynomial maps of degree <= 4 that the 4-point central formula "
              "R4(f,c,d) = (8(f(c+d)-f(c-d)) - (f(c+2d)-f(c-2d)))/12 equals J(c) d exactly for ANY step (and is not exact for degree 5), that "
              "the Jacobian is symmetric iff the map is a gradient, closed-path work of cubic gradients is zero; the internal force of a "
              "von-Karman shell is a cubic polynomial map of the amplitudes whatever the (fixed, linear) integration rule is, so the "
              "Jacobian clause becomes an exact relation between five recorded vectors; NLPlan printed by TLC, executed on the real ConeCyl, "
              "judged by TLC trace validation",
    text="Observation-level relational laws + model-checked algebra. Decided on the free amplitudes for every non-linear-capable model, "
         "cylinders and cones, prescribed sets {2}, {1,2}, {0,1,2}, load levels 1, 0.5, 0.75, both integration rules, 1..8 threads, with and "
         "without imperfection coefficients: tangent symmetric; tangent = Jacobian of calc_fint (R4 with steps the size of the state, "
         "38 bits asked, 49-52 kept on the clean clpt models); fint is a gradient; f(0) = 0; linear limit = k0uu c; kTuu / kTuk = partition "
         "of kL + kG; kL, kG, fint = composition of the planned kernel calls; return_u deletion; thread counts agree within 2^-44. NOT "
         "decided: absolute kernel integrals; adequacy of the integration grid.")

NOT_YET = {}

NA = {}


def main():
    props = [json.loads(l)["id"] for l in open(os.path.join(VERIF, "properties.jsonl"))]
    checks = []
    for pid in props:
        c = CHECKS.get(pid)
        if not c:
            continue
        checks.append(dict(
            property_id=pid,
            quick_cmd="bin/check %s --tier quick" % pid,
            thorough_cmd="bin/check %s --tier thorough" % pid,
            evidence_file="evidence/%s.json" % pid,
            replay_cmd_template="bin/check %s --replay {path}" % pid,
            engine="tlc",
            level_claimed=dict(category=c["level"], text=c["text"], design_ref="DESIGN.md section " + c["design"]),
            level_note=c["note"],
            technique=c["technique"]))
    na = []
    for pid in props:
        if pid in CHECKS:
            continue
        if pid in NA:
            na.append(dict(property_id=pid, reason=NA[pid]))
        else:
            na.append(dict(property_id=pid, reason=NOT_YET.get(
                pid, "not claimed yet: its TLA+ module and binding are still under construction (DESIGN.md section 9 staging)")))
    m = dict(
        version=1,
        setup_cmd="bin/setup",
        hooks=dict(guard="COMPMECH_VERIF", enable="no source hooks: the checks observe through the public API, ctypes and "
                   "wrapper callables; extension modules are re-linked from the working tree's C sources into /verif/build",
                   baseline_off_cmd="cd /repo && /venv/bin/python -m pytest -ra -q -p no:cacheprovider --timeout=900 "
                                    "--continue-on-collection-errors",
                   source_commits=[], add_only=True),
        engines=[dict(name="tlc", path="/opt/veriftools/tla/tla2tools.jar", serves_properties=sorted(CHECKS),
                      kind_free_text="TLC 1.8.0 model checker: exhaustive checks of the TLA+ modules under /verif/spec "
                                     "and trace validation of recorded executions of compmech")],
        checks=checks,
        notes="Model-based verification with explicit TLA+ specifications (spec/), bound to the implementation by "
              "replay of TLC-generated behaviours and by TLC-decided trace validation (harness/). See DESIGN.md.",
        not_applicable=na)
    json.dump(m, open(os.path.join(VERIF, "MANIFEST.json"), "w"), indent=1)
    print("MANIFEST.json:", len(checks), "checks,", len(na), "not claimed")


if __name__ == "__main__":
    main()
