"""C02 (DESIGN.md section 5): decided through PanelModel.tla / Trace_PanelModel.tla."""
import panelmat


def run(tier, seed, build):
    return panelmat.run_prop("C02", ["k0"], tier, seed, build, what=WHAT)


WHAT = "the Hessian the specification derives"


def replay(path, build):
    return panelmat.replay_file("C02", path, build)
