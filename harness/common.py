"""Shared plumbing of the /verif checks: TLC runner, exact number encodings,
TLA+ value parser, evidence / known-findings / violation reporting."""
import fractions
import json
import math
import os
import re
import shutil
import subprocess
import sys
import time

VERIF = os.path.dirname(os.path.dirname(os.path.abspath(__file__)))
SPEC = os.path.join(VERIF, "spec")
BUILD = os.path.join(VERIF, "build")
TLAJAR = "/opt/veriftools/tla/tla2tools.jar:/opt/veriftools/tla/CommunityModules-deps.jar"
CLASSES = os.path.join(BUILD, "classes")
BASE = 10000
Fraction = fractions.Fraction


# ----------------------------------------------------------------------------------------
# exact encodings (JSON integers must stay below 2^31 for TLC's JsonDeserialize)

def limbs(n):
    n = abs(int(n))
    out = []
    while n:
        n, r = divmod(n, BASE)
        out.append(r)
    return out


def big(n):
    n = int(n)
    return [0, []] if n == 0 else [1 if n > 0 else -1, limbs(n)]


def rat(x):
    """Fraction/int -> <<num, den>> of BigInt"""
    x = Fraction(x)
    return [big(x.numerator), big(x.denominator)]


def dyadic(x):
    """an IEEE double as the exact <<sign, mantissa limbs, exponent>> with odd mantissa"""
    x = float(x)
    if x != x or x in (float("inf"), float("-inf")):
        raise ValueError("non-finite observation %r" % x)
    if x == 0.0:
        return [0, [], 0]
    n, d = x.as_integer_ratio()
    e = -(d.bit_length() - 1)
    m = abs(n)
    while m % 2 == 0:
        m //= 2
        e += 1
    return [1 if n > 0 else -1, limbs(m), e]


def from_big(b):
    s, l = b
    v = 0
    for k in reversed(l):
        v = v * BASE + k
    return s * v if s else 0


def from_rat(r):
    return Fraction(from_big(r[0]), from_big(r[1]))


# ----------------------------------------------------------------------------------------
# TLA+ value syntax (as printed by TLC in dumps / simulate files / PrintT) -> Python

class _P:
    def __init__(self, s):
        self.s = s
        self.i = 0

    def ws(self):
        while self.i < len(self.s) and self.s[self.i] in " \t\r\n":
            self.i += 1

    def peek(self, t):
        self.ws()
        return self.s.startswith(t, self.i)

    def eat(self, t):
        self.ws()
        if not self.s.startswith(t, self.i):
            raise ValueError("expected %r at %d: %r" % (t, self.i, self.s[self.i:self.i + 40]))
        self.i += len(t)

    def value(self):
        self.ws()
        s = self.s
        c = s[self.i]
        if c == '"':
            j = self.i + 1
            out = []
            while s[j] != '"':
                if s[j] == "\\":
                    j += 1
                out.append(s[j])
                j += 1
            self.i = j + 1
            return "".join(out)
        if s.startswith("<<", self.i):
            self.i += 2
            out = []
            if self.peek(">>"):
                self.eat(">>")
                return out
            while True:
                out.append(self.value())
                if self.peek(","):
                    self.eat(",")
                else:
                    self.eat(">>")
                    return out
        if c == "{":
            self.i += 1
            out = []
            if self.peek("}"):
                self.eat("}")
                return TlaSet(out)
            while True:
                out.append(self.value())
                if self.peek(","):
                    self.eat(",")
                else:
                    self.eat("}")
                    return TlaSet(out)
        if c == "[":
            self.i += 1
            out = {}
            if self.peek("]"):
                self.eat("]")
                return out
            while True:
                self.ws()
                m = re.compile(r"[A-Za-z_][A-Za-z0-9_]*").match(s, self.i)
                self.i = m.end()
                self.eat("|->")
                out[m.group(0)] = self.value()
                if self.peek(","):
                    self.eat(",")
                else:
                    self.eat("]")
                    return out
        if c == "(":   # function displayed as (a :> x @@ b :> y)
            self.i += 1
            out = {}
            while True:
                k = self.value()
                self.eat(":>")
                out[_hashable(k)] = self.value()
                if self.peek("@@"):
                    self.eat("@@")
                else:
                    self.eat(")")
                    return out
        m = re.compile(r"-?\d+").match(s, self.i)
        if m:
            self.i = m.end()
            if s.startswith("..", self.i):    # interval a..b
                self.i += 2
                m2 = re.compile(r"-?\d+").match(s, self.i)
                self.i = m2.end()
                return TlaSet(list(range(int(m.group(0)), int(m2.group(0)) + 1)))
            return int(m.group(0))
        m = re.compile(r"[A-Za-z_][A-Za-z0-9_]*").match(s, self.i)
        if m:
            self.i = m.end()
            w = m.group(0)
            return {"TRUE": True, "FALSE": False}.get(w, w)
        raise ValueError("cannot parse TLA+ value at %d: %r" % (self.i, s[self.i:self.i + 40]))


class TlaSet(list):
    pass


def _hashable(v):
    if isinstance(v, list):
        return tuple(_hashable(x) for x in v)
    if isinstance(v, dict):
        return tuple(sorted((k, _hashable(x)) for k, x in v.items()))
    return v


def parse_tla(text):
    p = _P(text)
    v = p.value()
    return v


def parse_state(text):
    """'/\\ a = 1 /\\ b = <<..>>' -> dict"""
    out = {}
    p = _P(text)
    while True:
        p.ws()
        if p.i >= len(p.s):
            return out
        if p.peek("/\\"):
            p.eat("/\\")
        p.ws()
        m = re.compile(r"[A-Za-z_][A-Za-z0-9_]*").match(p.s, p.i)
        if not m:
            return out
        p.i = m.end()
        p.eat("=")
        out[m.group(0)] = p.value()


_FIELD = re.compile(r'([A-Za-z_][A-Za-z0-9_]*)\s*\|->')


def _to_json_text(output):
    """TLA+ value syntax -> JSON text by character substitution (records [a |-> x] -> {"a": x}, tuples and sets ->
    arrays); valid for the values our specs print (no function displays, no special characters in strings)"""
    t = output.replace("[", "\x01").replace("]", "\x02")
    t = t.replace("<<", "[").replace(">>", "]").replace("{", "[").replace("}", "]")
    t = t.replace("\x01", "{").replace("\x02", "}")
    t = _FIELD.sub(r'"\1":', t)
    t = re.sub(r'\bTRUE\b', 'true', t)
    t = re.sub(r'\bFALSE\b', 'false', t)
    return t


def printed_values(output, tag):
    """all values TLC printed with PrintT(<<tag, ...>>); robust to line wrapping.  Fast path: substitution into JSON
    and the C decoder; fallback: the recursive-descent parser of TLA+ values"""
    if ":>" not in output and "@@" not in output:
        try:
            t = _to_json_text(output)
            dec = json.JSONDecoder()
            res = []
            for m in re.finditer(r'\[\s*"%s"' % re.escape(tag), t):
                v, _ = dec.raw_decode(t, m.start())
                res.append(v)
            return res
        except Exception:
            pass
    return _printed_values_slow(output, tag)


def _printed_values_slow(output, tag):
    res = []
    pat = re.compile(r'<<\s*"%s"' % re.escape(tag))
    i = 0
    while True:
        m = pat.search(output, i)
        if not m:
            return res
        p = _P(output)
        p.i = m.start()
        try:
            res.append(p.value())
            i = p.i
        except Exception:
            i = m.end()


# ----------------------------------------------------------------------------------------
# TLC

class TlcResult:
    def __init__(self, out, rc, wall):
        self.out = out
        self.rc = rc
        self.wall = wall
        ms = re.findall(r"(\d+) states generated, (\d+) distinct states found", out)     # the last one is the summary
        self.generated = int(ms[-1][0]) if ms else 0
        self.distinct = int(ms[-1][1]) if ms else 0
        m = re.search(r"The depth of the complete state graph search is (\d+)", out)
        self.depth = int(m.group(1)) if m else 0
        self.ok = (rc == 0 and "Error:" not in out)

    def errors(self):
        return "\n".join(l for l in self.out.splitlines() if "Error" in l or "error" in l)[:4000]


_CHILDREN = set()


def _kill_children(*_a):
    for pr in list(_CHILDREN):
        try:
            pr.kill()
        except Exception:
            pass
    if _a:                      # called as a signal handler
        os._exit(143)


def _install_reaper():
    import atexit
    import signal
    if getattr(_install_reaper, "done", False):
        return
    _install_reaper.done = True
    atexit.register(_kill_children)
    try:
        signal.signal(signal.SIGTERM, _kill_children)
    except Exception:
        pass                    # not in the main thread


def tla_modules():
    mods = {}
    for root, _, fs in os.walk(SPEC):
        for f in fs:
            if f.endswith(".tla"):
                mods[f] = os.path.join(root, f)
    return mods


def run_tlc(tag, module, cfg_text, files=None, workers=1, args=(), timeout=3600, fast=True,
            env_extra=None, keep=False, heap="3g", simulate=None):
    """Run TLC on spec module `module` with configuration text `cfg_text` in a private
    directory under build/tlc; `files` maps file names to contents written next to the spec."""
    d = os.path.join(BUILD, "tlc", "%s-%d-%d" % (tag, os.getpid(), int(time.time() * 1000) % 100000000))
    os.makedirs(d, exist_ok=True)
    try:
        for f, p in tla_modules().items():
            shutil.copy(p, os.path.join(d, f))
        with open(os.path.join(d, module + ".cfg"), "w") as f:
            f.write(cfg_text)
        for name, content in (files or {}).items():
            with open(os.path.join(d, name), "w") as f:
                f.write(content if isinstance(content, str) else json.dumps(content))
        cp = TLAJAR + ((":" + CLASSES) if fast and os.path.isdir(CLASSES) else "")
        cmd = ["java", "-XX:+UseParallelGC", "-XX:ParallelGCThreads=2", "-Xmx" + heap, "-Xss64m",
               "-cp", cp, "tlc2.TLC", "-workers", str(workers), "-metadir", os.path.join(d, "states"),
               "-noGenerateSpecTE", "-config", module + ".cfg"]
        if simulate:
            cmd += ["-simulate", simulate]
        cmd += list(args) + [module + ".tla"]
        env = dict(os.environ)
        env.update(env_extra or {})
        t0 = time.time()
        # the JVMs are killed when the harness exits or is terminated, and at the time limit
        _install_reaper()
        proc = subprocess.Popen(cmd, cwd=d, stdout=subprocess.PIPE, stderr=subprocess.STDOUT, text=True, env=env)
        _CHILDREN.add(proc)
        try:
            out, _ = proc.communicate(timeout=timeout)
            rc = proc.returncode
        except subprocess.TimeoutExpired:
            proc.kill()
            out, _ = proc.communicate()
            out = (out or "") + "\nError: TLC killed after the time limit of %d s\n" % timeout
            rc = 124
        finally:
            _CHILDREN.discard(proc)

        class _R:
            pass
        r = _R()
        r.stdout, r.stderr, r.returncode = out, "", rc
        res = TlcResult(r.stdout + r.stderr, r.returncode, time.time() - t0)
        res.dir = d
        return res
    finally:
        if not keep:
            shutil.rmtree(d, ignore_errors=True)


# ----------------------------------------------------------------------------------------
# reporting

def known_findings():
    p = os.path.join(VERIF, "known_findings.json")
    if not os.path.exists(p):
        return []
    return json.load(open(p))["findings"]


def open_deviations(prop):
    """names of the spec deviation constants that are listed as open for this property"""
    return [f["deviation"] for f in known_findings()
            if f["property"] == prop and f["status"] == "open" and f.get("deviation")]


class Report:
    """collects verdicts of one check run, prints KNOWN-FINDING / VIOLATION lines, writes evidence"""

    def __init__(self, prop, tier, seed, level="model_checking"):
        self.prop = prop
        self.tier = tier
        self.seed = seed
        self.level = level
        self.t0 = time.time()
        self.cov = dict(states=0, transitions=0, traces_validated_against_impl=0, samples=[],
                        evaluations=0, distinct_nontrivial=0, rule="", tlc_runs=[])
        self.assumptions = []
        self.violations = []
        self.kf_seen = {}
        self.machinery_errors = []
        self._distinct = set()

    def add_tlc(self, name, res):
        self.cov["states"] += res.distinct
        self.cov["transitions"] += res.generated
        self.cov["tlc_runs"].append(dict(name=name, generated=res.generated, distinct=res.distinct,
                                         depth=res.depth, wall_s=round(res.wall, 2)))

    def sample(self, s, limit=6):
        if len(self.cov["samples"]) < limit:
            self.cov["samples"].append(s)

    def nontrivial(self, key):
        self._distinct.add(key)

    def violation(self, what, replay):
        self.violations.append((what, replay))

    def known(self, deviation, what):
        self.kf_seen.setdefault(deviation, what)

    def machinery(self, msg):
        self.machinery_errors.append(msg)

    def finish(self):
        os.makedirs(os.path.join(VERIF, "evidence"), exist_ok=True)
        self.cov["distinct_nontrivial"] = len(self._distinct)
        kf = {f["deviation"]: f for f in known_findings() if f["property"] == self.prop}
        for dev, what in sorted(self.kf_seen.items()):
            f = kf.get(dev)
            if f is not None and f["status"] == "open":
                print("KNOWN-FINDING: property=%s %s [%s] witness: %s" % (self.prop, f["what"], dev, what))
            else:
                self.violations.append(("unlisted deviation %s: %s" % (dev, what), dict(deviation=dev, what=what)))
        paths = []
        if self.violations:
            os.makedirs(os.path.join(VERIF, "replays"), exist_ok=True)
            for k, (what, replay) in enumerate(self.violations[:20]):
                p = os.path.join(VERIF, "replays", "%s-%d-%d.json" % (self.prop, self.seed, k))
                with open(p, "w") as f:
                    json.dump(dict(property=self.prop, what=what, replay=replay), f, indent=1, default=str)
                paths.append(p)
                print("VIOLATION property=%s replay=%s" % (self.prop, p))
                print("  " + str(what)[:600])
        ev = dict(property_id=self.prop, tier=self.tier, seed=self.seed, level=self.level,
                  coverage=self.cov, assumptions=self.assumptions,
                  wall_s=round(time.time() - self.t0, 2), violations=len(self.violations))
        ev["coverage"]["known_findings_reproduced"] = sorted(self.kf_seen)
        with open(os.path.join(VERIF, "evidence", self.prop + ".json"), "w") as f:
            json.dump(ev, f, indent=1, default=str)
        if self.machinery_errors:
            for m in self.machinery_errors:
                print("MACHINERY-ERROR", self.prop, m[:2000])
            return 2
        return 1 if self.violations else 0


# ----------------------------------------------------------------------------------------
# trace validation in parallel chunks

def validate_trace(tag, module, cfg_text, events, nproc=16, timeout=3600, extra_files=None,
                   spec_name="TSpec", judged=None, max_chunk=1500):
    """events: list of dicts each with a unique integer 'id'.  Splits them into chunks, runs one
    TLC (workers 1) per chunk on trace spec `module`, returns (verdicts, results, problems):
    verdicts id -> (verdict, detail).  Every judged event must get exactly one verdict and every
    TLC must consume its whole chunk (postcondition Done), else a machinery problem is reported."""
    import concurrent.futures as cf
    if not events:
        return {}, [], []
    nproc = max(1, min(nproc, len(events)))
    # more chunks than workers when the trace is long: each TLC holds its whole chunk in memory
    nev = sum(len(g) for g in events) if isinstance(events[0], list) else len(events)
    nchunks = max(nproc, min(len(events), -(-nev // max_chunk)))
    if isinstance(events[0], list):
        # groups of events (behaviours) that must stay together and in order
        chunks = [[e for g in events[k::nchunks] for e in g] for k in range(nchunks)]
        events = [e for g in events for e in g]
    else:
        chunks = [events[k::nchunks] for k in range(nchunks)]
    cfg = "SPECIFICATION %s\nPOSTCONDITION Done\nCHECK_DEADLOCK FALSE\n%s" % (spec_name, cfg_text)

    def one(k):
        files = {"trace.json": json.dumps(chunks[k])}
        files.update(extra_files or {})
        return run_tlc("%s-c%d" % (tag, k), module, cfg, files=files, workers=1, timeout=timeout)

    verdicts, problems, results = {}, [], []
    with cf.ThreadPoolExecutor(max_workers=nproc) as ex:
        for k, res in enumerate(ex.map(one, range(nchunks))):
            results.append(res)
            if not res.ok:
                problems.append("TLC chunk %d of %s failed (rc=%s): %s" % (k, tag, res.rc, res.errors()[:1500]))
            for v in printed_values(res.out, "V"):
                if v[1] in verdicts:
                    problems.append("duplicate verdict for event %r" % (v[1],))
                verdicts[v[1]] = (v[2], v[3])
    want = [e["id"] for e in events if judged is None or judged(e)]
    missing = [i for i in want if i not in verdicts]
    if missing:
        problems.append("%d events of %s got no verdict (first ids %s)" % (len(missing), tag, missing[:5]))
    return verdicts, results, problems
