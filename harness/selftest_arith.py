"""Differential self-test of the Java accelerators (DESIGN.md 3.2): the same seeded operand
list is evaluated by TLC with the pure TLA+ definitions and with the override classes."""
import re
import sys
import os
sys.path.insert(0, os.path.dirname(os.path.abspath(__file__)))
from common import run_tlc, printed_values


def main():
    seed = int(os.environ.get("VERIF_SEED", "12345")) % 100000
    ok = True
    for (n, limbs, fastonly) in ((6, 3, False), (60, 40, True)):
        cfg = "CONSTANTS\nSeed = %d\nNCases = %d\nMaxLimbs = %d\n" % (seed, n, limbs)
        fast = run_tlc("arith-fast", "ArithSelfTest", cfg, fast=True, timeout=600)
        if not fast.ok:
            print("arith self-test: accelerated run failed", fast.errors())
            return 1
        if fastonly:
            continue
        pure = run_tlc("arith-pure", "ArithSelfTest", cfg, fast=False, timeout=1200)
        a = printed_values(fast.out, "ARITH")
        b = printed_values(pure.out, "ARITH")
        if not pure.ok or not a or a != b:
            print("arith self-test: MISMATCH between pure TLA+ and Java accelerator", pure.errors()[:500])
            ok = False
    print("arith self-test", "ok" if ok else "FAILED")
    return 0 if ok else 1


if __name__ == "__main__":
    sys.exit(main())
