"""C18 - complete-shell (ConeCyl) loads, prescribed amplitudes, partition book-keeping
(DESIGN.md section 5, C18; partial claim: see `OBSERVED` below).

Decided by the specification (TLC evaluates exact values, the trace specs judge the real code):
  ShellPartition  exclude_dofs_matrix / calc_full_c on TLC-enumerated integer cases, seeded dyadic cases and real k0
  ShellGeometry   _rebuild: (r1, r2, H, L) from every admissible subset, Nxxtop from Fc, prescribed-amplitude lists
  ShellLoads      calc_fext(inc) entry by entry on the quarter-turn lattice (exact shape functions)
  ShellObject     the object's life: add_force/add_SPL/SPLA/from_DB/_clear_matrices/lb/get_size book-keeping, and every query
                  after another query / a change of one attribute / another object, judged as a fresh identical object
Observed (numbers produced by the package, structure and verdict by the trace spec):
  point forces / torque anywhere against ConeCyl.uvw at unit amplitudes; K_uu c_u = f_u after static()."""
import contextlib
import gc
import io
import os
import json
import math
import random
import sys
import threading
import time
import warnings

import numpy as np

from common import (Fraction, Report, dyadic, rat, run_tlc, printed_values, validate_trace, from_rat, TlaSet)

OBSERVED = ["virtual work of point forces and torque against ConeCyl.uvw at unit amplitudes",
            "residual K_uu c_u - f_u of ConeCyl.static()"]
ALL_DEVS = ["KF_C18_KkkComplementBlock", "KF_C18_TorquePointForce", "KF_C18_LAColumnDropped",
            "KF_C18_LoadOnNullStiffness"]
F = Fraction
LAMINA = (123.55e3, 8.708e3, 0.319, 5.695e3, 5.695e3, 5.695e3)
PYTH = [(F(0), F(1)), (F(3, 5), F(4, 5)), (F(5, 13), F(12, 13))]
PYTH_RND = PYTH + [(F(8, 17), F(15, 17)), (F(7, 25), F(24, 25)), (F(20, 29), F(21, 29)), (F(9, 41), F(40, 41))]


def deg_of(s, c):
    return math.degrees(math.atan2(float(s), float(c)))


def dy_list(a):
    return [dyadic(v) for v in np.asarray(a, dtype=float).ravel()]


def dy_mat(a):
    a = np.asarray(a, dtype=float)
    if a.ndim != 2:
        raise ValueError("matrix expected")
    return [[dyadic(v) for v in row] for row in a]


def dyf(rng, lo, hi, bits=6):
    den = 1 << bits
    return F(rng.randint(int(lo * den), int(hi * den)), den)


# ----------------------------------------------------------------------------------------------------
# real objects

def new_cc(model="clpt_donnell_bc1", m1=2, m2=1, n2=1, **kw):
    from compmech.conecyl import ConeCyl
    tick()
    cc = ConeCyl()
    cc.out_num_cores = 1
    cc.model = model
    cc.m1, cc.m2, cc.n2 = m1, m2, n2
    if model.startswith("iso_"):
        cc.E11, cc.nu, cc.h = 70e3, 0.25, 1.0
    else:
        cc.laminaprop = LAMINA
        cc.stack = [0, 45, -45]
        cc.plyt = 0.125
    for k, v in kw.items():
        setattr(cc, k, v)
    return cc


MODEL_FOR_SIZE = {3: ("clpt_donnell_bc1", 0), 6: ("clpt_donnell_bc1", 1), 8: ("fsdt_donnell_bc1", 1),
                  9: ("clpt_donnell_bc1", 2), 12: ("clpt_donnell_bc1", 3), 13: ("fsdt_donnell_bc1", 2)}


_CC_CACHE = {}


def cc_for_size(n):
    """a ConeCyl whose get_size() is n (the helpers under test only read excluded_dofs[_ck], num0, get_size)"""
    model, m1 = MODEL_FOR_SIZE.get(n, ("clpt_donnell_bc1", 0))
    if (model, m1) not in _CC_CACHE:
        cc = new_cc(model, m1=m1, m2=0, n2=0)
        cc.r2, cc.L = 10., 5.
        _CC_CACHE[(model, m1)] = cc
    return _CC_CACHE[(model, m1)]


def refreeze():
    """ConeCyl.__init__ / _calc_linear_matrices call gc.collect(), whose cost grows with the number of live tracked
    objects: keep the harness's own (large, growing) event lists out of its way by moving them to the permanent
    generation.  Purely a harness-side speed measure (gc.collect() took 30 ms per call without it)."""
    gc.freeze()


_TICK = [0]


def tick():
    _TICK[0] += 1
    if _TICK[0] % 20 == 0:
        gc.freeze()


# ----------------------------------------------------------------------------------------------------
# 1. partition

def part_exclude_event(eid, K, xs, judge=("kuu", "kuk", "kku", "kkk"), via="attribute"):
    """K: float matrix; xs: list of dofs.  Calls the real exclude_dofs_matrix."""
    cc = cc_for_size(3)
    cc.excluded_dofs = list(xs)
    raised = "no"
    Kin = np.array(K, dtype=float)
    if len(K) % 2:
        from scipy.sparse import coo_matrix as _coo      # the API takes dense arrays and COO matrices
        Kin = _coo(Kin)
    Kcopy = Kin.toarray().copy() if hasattr(Kin, "toarray") else Kin.copy()
    try:
        out = cc.exclude_dofs_matrix(Kin, return_kkk=True, return_kku=True, return_kuk=True)
        obs = dict(kuu=dy_mat(out["kuu"].toarray()) if out["kuu"].shape[0] else [],
                   kuk=dy_mat(out["kuk"]), kku=dy_mat(out["kku"]), kkk=dy_mat(out["kkk"]))
    except Exception as ex:      # an exception of the code under test is an observation: nothing returned
        raised = type(ex).__name__
        obs = dict(kuu=[[[1, [1], 0]]], kuk=[[[1, [1], 0]]], kku=[], kkk=[])
    after = Kin.toarray() if hasattr(Kin, "toarray") else Kin
    return dict(id=eid, kind="exclude", K=dy_mat(K), xs=list(xs), judge=list(judge), obs=obs, via=via,
                n=len(K), raised=raised, inputs_unchanged=bool(after.shape == Kcopy.shape and np.array_equal(after, Kcopy)))


def part_fullc_event(eid, n, xs, cks, inc, vec, cc=None):
    """cks, inc, vec: Fractions (exactly representable)."""
    cc = cc or cc_for_size(n)
    if cc.get_size() != n:
        return None
    cc.excluded_dofs = list(xs)
    cc.excluded_dofs_ck = [float(c) for c in cks]
    raised = "no"
    cin = np.array([float(v) for v in vec], dtype=float)
    ccopy = cin.copy()
    try:
        got = cc.calc_full_c(cin, inc=float(inc))
    except Exception as ex:
        raised, got = type(ex).__name__, []
    return dict(id=eid, kind="fullc", size=n, xs=list(xs), cks=[rat(c) for c in cks], inc=rat(inc),
                cu=[rat(v) for v in vec], obs=dy_list(got), raised=raised, inputs_unchanged=bool(np.array_equal(cin, ccopy)))


def part_k0_events(eid0, tier, rng):
    """real k0 of small shells: the stored k0uu / k0uk must be the sub-matrix / slab of the stored k0 for the
    prescribed set the API produced (pdC, pdT flags through _rebuild)."""
    evs = []
    models = ["clpt_donnell_bc1", "clpt_donnell_bc3", "clpt_sanders_bc2", "fsdt_donnell_bc1", "iso_clpt_donnell_bc2"]
    if tier != "quick":
        models += ["clpt_donnell_bc2", "clpt_donnell_bc4", "clpt_sanders_bc1", "clpt_sanders_bc3", "clpt_sanders_bc4",
                   "fsdt_donnell_bc2", "fsdt_donnell_bc3", "fsdt_donnell_bc4", "iso_clpt_donnell_bc3"]
    flags = [(False, True), (True, True), (False, False), (True, False)]
    for mi, model in enumerate(models):
        for fi, (pdC, pdT) in enumerate(flags):
            if tier == "quick" and (mi + fi) % 2:
                continue
            s, c = PYTH[(mi + fi) % 3]
            cc = new_cc(model, m1=2, m2=1, n2=1, pdC=pdC, pdT=pdT, alphadeg=deg_of(s, c))
            cc.r2, cc.L = 8., 4.
            cc.calc_k0(silent=True)
            k0 = cc.k0.toarray()
            ev = dict(id=eid0 + len(evs), kind="exclude", K=dy_mat(k0), xs=[int(d) for d in cc.excluded_dofs],
                      judge=["kuu", "kuk"], via="_calc_linear_matrices(%s,pdC=%s,pdT=%s)" % (model, pdC, pdT),
                      n=k0.shape[0], inputs_unchanged=True,
                      obs=dict(kuu=dy_mat(cc.k0uu.toarray()), kuk=dy_mat(cc.k0uk), kku=[], kkk=[]))
            evs.append(ev)
    return evs


def isolated_excludes(reqs):
    """part_exclude_event for every request, in forked children: exclude_dofs_matrix edits the private index arrays and
    _shape of a scipy COO matrix, so an index slip there corrupts memory instead of raising.  A child that dies is an
    observation (the call killed the interpreter); the parent goes on with the next request in a new child."""
    events, crashes, i = [None] * len(reqs), [], 0
    while i < len(reqs) and len(crashes) < 4:
        r, w = os.pipe()
        pid = os.fork()
        if pid == 0:
            try:
                os.close(r)
                with os.fdopen(w, "w") as f:
                    for k in range(i, len(reqs)):
                        f.write(json.dumps(part_exclude_event(k, reqs[k]["K"], reqs[k]["xs"])) + "\n")
                        f.flush()
            finally:
                os._exit(0)
        os.close(w)
        with os.fdopen(r) as f:
            for line in f:
                if i < len(reqs) and line.endswith("\n"):
                    try:
                        events[i] = json.loads(line)
                    except ValueError:
                        break
                    i += 1
        _, status = os.waitpid(pid, 0)
        if i < len(reqs):
            crashes.append((i, status))
            i += 1
    return events, crashes


def partition_prepare(rep, tier, seed, rng):
    """TLC on the bounded model, then the replays of exclude_dofs_matrix (isolated).  Runs before any thread starts."""
    inv = ["ExcludeIsSubmatrix", "SlabsRight", "KkkIsPrescribedBlock", "InsertThenDelete", "DeleteThenInsert",
           "InsertPlacesValues", "ScaleInPlace", "ReducedSystem"]
    cfg = ("SPECIFICATION EmitSpec\nCONSTANTS Tier = \"%s\"\nDev = {}\n%sCHECK_DEADLOCK FALSE\n"
           % (tier, "".join("INVARIANT %s\n" % i for i in inv)))
    mc = run_tlc("c18-mcp", "MC_ShellPartition", cfg, workers=8, timeout=1500)
    rep.add_tlc("MC_ShellPartition", mc)
    if not mc.ok:
        rep.machinery("TLC on MC_ShellPartition failed: " + mc.errors() + mc.out[-1500:])
        return None
    seen, xreq, freq = set(), [], []
    reqs = printed_values(mc.out, "REQ")
    refreeze()
    for v in reqs:
        r = v[1]
        key = json.dumps(r, sort_keys=True, default=list)
        if key in seen:
            continue
        seen.add(key)
        if r["op"] == "Exclude":
            xreq.append(dict(K=[[float(x) for x in row] for row in r["K"]], xs=list(r["xs"])))
        else:
            freq.append(r)
    n_xlat = len(xreq)
    nrand = 40 if tier == "quick" else 400
    for _ in range(nrand // 2):
        n = rng.choice([3, 5, 6, 8, 9, 12, 13])
        xs = rng.sample([0, 1, 2], rng.randint(0, 3))
        xreq.append(dict(K=[[float(dyf(rng, -8, 8)) if rng.random() < 0.7 else 0.0 for _ in range(n)] for _ in range(n)], xs=xs))
    xev, crashes = isolated_excludes(xreq)
    for i, status in crashes:
        small = dict(n=len(xreq[i]["K"]), xs=xreq[i]["xs"], K=xreq[i]["K"])
        rep.violation("exclude_dofs_matrix(k %dx%d, excluded_dofs=%s) did not return: the interpreter died (wait status %d: "
                      "memory corrupted through the COO index arrays?)" % (small["n"], small["n"], small["xs"], status),
                      dict(section="partition", crashed_call=small))
    return dict(xev=[e for e in xev if e is not None], freq=freq, n_xlat=n_xlat, nrand=nrand, crashed=bool(crashes))


def partition_section(rep, tier, seed, rng, prep=None):
    if prep is None:
        return
    events = list(prep["xev"])
    nrand = prep["nrand"]
    for r in prep["freq"]:
        e = part_fullc_event(len(events), r["n"], r["xs"], [F(c) for c in r["cks"]], F(r["inc"]), [F(x) for x in r["vec"]])
        if e is not None:
            events.append(e)
    n_lattice = len(events) - nrand // 2
    if n_lattice < 100:
        rep.machinery("only %d partition requests parsed from TLC output" % n_lattice)
    # direction B: seeded dyadic vectors, unsorted prescribed lists (the seeded matrices were replayed in partition_prepare)
    for _ in range(nrand - nrand // 2):
        n = rng.choice([3, 6, 8, 9, 12, 13])
        xs = rng.sample([0, 1, 2], rng.randint(0, 3))
        cks = [dyf(rng, -4, 4, 3) for _ in xs]
        inc = rng.choice([F(1, 2), F(3, 4), F(1), F(2), F(-1, 4)])
        full = rng.random() < 0.3
        vec = [dyf(rng, -16, 16, 4) for _ in range(n if full else n - len(xs))]
        e = part_fullc_event(len(events), n, xs, cks, inc, vec)
        if e is not None:
            events.append(e)
    # every bc family: insertion into a reduced vector of that family's size, scaling of a full one
    for model in MODELS:
        cc = new_cc(model, m1=2, m2=1, n2=2)
        n = int(cc.get_size())
        for xs in ([2], [1, 2], [0, 2], [0, 1, 2], [2, 0]):
            for full in (False, True):
                vec = [F(k + 1, 4) for k in range(n if full else n - len(xs))]
                events.append(part_fullc_event(len(events), n, xs, [F(7 * (d + 1), 8) for d in xs], F(3, 2), vec, cc=cc))
    events += part_k0_events(len(events), tier, rng)
    for k, e in enumerate(events):
        e["id"] = k
    ops = {(e["kind"], len(e.get("cu", [])) == e.get("size")) for e in events if e.get("via", "attribute") == "attribute"}
    if ops != {("exclude", False), ("fullc", False), ("fullc", True)}:
        rep.machinery("vacuity: the partition model did not produce Exclude, Insert and Scale transitions: %s" % ops)
    n_k0 = sum(1 for e in events if e.get("via", "attribute") != "attribute")
    add_selftests(events, [("exclude", lambda e: e["n"] > 4 and len(e["xs"]) == 1), ("fullc", lambda e: e["size"] >= 6)])
    verdicts, results, problems = validate_trace("c18-trp", "Trace_ShellPartition",
                                                 "CONSTANTS Tier = \"%s\"\nDev = {}\n" % tier, events, timeout=1500,
                                                 nproc=6 if tier == "quick" else 16)
    for res in results:
        rep.add_tlc("Trace_ShellPartition", res)
    for p in problems:
        rep.machinery(p)
    if check_selftests(rep, events, verdicts, "Trace_ShellPartition") != 2:
        rep.machinery("binding self-test of Trace_ShellPartition did not run")
    # most readable witness first (Report.known keeps the first one per deviation)
    for e in sorted(events, key=lambda e: (not (e["kind"] == "exclude" and e["n"] == 4 and e["xs"] == [0]), e["id"])):
        v = verdicts.get(e["id"])
        if e.get("selftest"):
            continue
        rep.nontrivial(("part", e["kind"], e.get("n", e.get("size")), tuple(e["xs"])))
        if not v or v[0] == "ok":
            continue
        small = {k: e[k] for k in e if k not in ("K", "obs")}
        if v[0].startswith("kf:"):
            rep.known(v[0][3:], "exclude_dofs_matrix(k=%s, return_kkk=True) with excluded_dofs=%s returns kkk=%s, the corner of the "
                      "amplitudes that are NOT prescribed (documented: the block of the prescribed ones)"
                      % ([[undy(x) for x in row] for row in e["K"]] if e["n"] <= 4 else "<%dx%d>" % (e["n"], e["n"]), e["xs"],
                         [[undy(x) for x in row] for row in e["obs"]["kkk"]]))
        else:
            rep.violation("partition book-keeping: %s with %s disagrees with the specification at %s"
                          % (e["kind"], small, sorted(v[1]) if isinstance(v[1], list) else v[1]),
                          dict(section="partition", event=e))
    rep.cov["traces_validated_against_impl"] += len(events)
    rep.cov["evaluations"] += len(events)
    rep.cov["partition"] = dict(lattice_requests_replayed=n_lattice, random=nrand, real_k0=n_k0)
    for e in events[:1] + events[-1:]:
        rep.sample({k: (v if k not in ("K", "obs") else "<exact doubles>") for k, v in e.items()})


# ----------------------------------------------------------------------------------------------------
# 2. geometry / derived load data

def opt(x):
    return [] if x is None else [rat(x)]


def geo_event(eid, d, expect="built"):
    """d: dict(geo={r1,r2,H,L: Fraction|None}, s, c, n2, Fc, nxxIn (None|('scalar',q)|('array',[q..])), xiLA, uTM,
    thetaTdeg, tanBeta, pdC, pdT, pdLA, nreb).  Sets the inputs on a fresh ConeCyl and calls _rebuild nreb times."""
    cc = new_cc("clpt_donnell_bc1", m1=1, m2=1, n2=d["n2"])
    num = (lambda v: int(v) if (eid % 3 == 0 and Fraction(v).denominator == 1) else float(v))    # ints and floats
    for k, v in d["geo"].items():
        if v is not None:
            setattr(cc, k, num(v))
    cc.alphadeg = deg_of(d["s"], d["c"])
    if d["Fc"] is not None:
        cc.Fc = num(d["Fc"])
    if d["nxxIn"] is not None:
        cc.Nxxtop = num(d["nxxIn"][1]) if d["nxxIn"][0] == "scalar" else np.array([float(v) for v in d["nxxIn"][1]])
    if d["xiLA"] is not None:
        cc.xiLA = float(d["xiLA"])
    cc.uTM = float(d["uTM"])
    cc.thetaTdeg = num(d["thetaTdeg"])
    cc.betadeg = math.degrees(math.atan(float(d["tanBeta"])))
    cc.pdC, cc.pdT, cc.pdLA = d["pdC"], d["pdT"], d.get("pdLA", True)
    raised = "no"
    try:
        for _ in range(d["nreb"]):
            cc._rebuild()
    except Exception as ex:          # the trace spec says whether raising is what the module prescribes
        raised = type(ex).__name__
    e = dict(id=eid, kind="rebuild", expect=expect, raised=raised, nreb=d["nreb"], n2=d["n2"],
             geo={k: opt(v) for k, v in d["geo"].items()}, ang=dict(s=rat(d["s"]), c=rat(d["c"])),
             Fc=opt(d["Fc"]), xiLA=opt(d["xiLA"]), uTM=rat(d["uTM"]), thetaTdeg=rat(d["thetaTdeg"]),
             tanBeta=rat(d["tanBeta"]), pdC=d["pdC"], pdT=d["pdT"], pdLA=d.get("pdLA", True),
             nxxIn=[] if d["nxxIn"] is None else
             [dict(kind=d["nxxIn"][0], v=rat(d["nxxIn"][1]) if d["nxxIn"][0] == "scalar" else [rat(v) for v in d["nxxIn"][1]])])
    if raised == "no":
        fcback = float(cc.Nxxtop[0] * (2 * np.pi * cc.r2 * cc.cosa))          # conecyl.py:664
        e["obs"] = dict(r1=dyadic(cc.r1), r2=dyadic(cc.r2), H=dyadic(cc.H), L=dyadic(cc.L), sina=dyadic(cc.sina),
                        cosa=dyadic(cc.cosa), is_cylinder=bool(cc.is_cylinder), nxx=dy_list(cc.Nxxtop),
                        LA=dyadic(cc.LA), thetaTrad=dyadic(cc.thetaTrad), xs=[int(x) for x in cc.excluded_dofs],
                        cks=dy_list(cc.excluded_dofs_ck), FcBack=dyadic(fcback))
    else:
        e["obs"] = {}
    return e


def geo_req(v):
    o = lambda x: None if not x else from_rat(x[0])
    nx = None
    if v["nxxIn"]:
        r = v["nxxIn"][0]
        nx = ("scalar", from_rat(r["v"])) if r["kind"] == "scalar" else ("array", [from_rat(x) for x in r["v"]])
    return dict(geo={k: o(v["geo"][k]) for k in ("r1", "r2", "H", "L")}, s=from_rat(v["ang"]["s"]),
                c=from_rat(v["ang"]["c"]), n2=v["n2"], Fc=o(v["Fc"]), nxxIn=nx, xiLA=o(v["xiLA"]),
                uTM=from_rat(v["uTM"]), thetaTdeg=from_rat(v["thetaTdeg"]), tanBeta=from_rat(v["tanBeta"]),
                pdC=v["pdC"], pdT=v["pdT"], nreb=v["nreb"])


def geometry_section(rep, tier, seed, rng):
    inv = ["GeometryConsistent", "GeometryIsTheShell", "AllDetermined", "NxxFromFc", "NxxShape", "PrescribedLists",
           "InadmissibleNeverBuilt"]
    cfg = ("SPECIFICATION EmitSpec\nCONSTANTS Tier = \"%s\"\nDev = {}\n%sPROPERTY RebuildIdempotent\n"
           "CHECK_DEADLOCK FALSE\n" % (tier, "".join("INVARIANT %s\n" % i for i in inv)))
    mc = run_tlc("c18-mcg", "MC_ShellGeometry", cfg, workers=4, timeout=1500)
    rep.add_tlc("MC_ShellGeometry", mc)
    if not mc.ok:
        rep.machinery("TLC on MC_ShellGeometry failed: " + mc.errors() + mc.out[-1500:])
        return
    seen, defs = set(), []
    for v in printed_values(mc.out, "REQ"):
        key = json.dumps(v[1], sort_keys=True)
        if key not in seen:
            seen.add(key)
            defs.append(geo_req(v[1]))
    if len(defs) < 200:
        rep.machinery("only %d geometry requests parsed from TLC output" % len(defs))
    refreeze()
    events = []
    for k, d in enumerate(defs):
        for nreb in ((1, 2, 3) if tier != "quick" else (1 + k % 3,)):
            events.append(geo_event(len(events), dict(d, nreb=nreb)))
    n_lat = len(events)
    # direction B: seeded shells outside the lattice (other Pythagorean angles, dyadic lengths)
    keys = ["r1", "r2", "H", "L"]
    for _ in range(60 if tier == "quick" else 800):
        s, c = rng.choice(PYTH_RND)
        r2, L = dyf(rng, 1, 300, 3), dyf(rng, F(1, 2), 600, 3)
        if rng.random() < 0.15:
            L = r2 / c                      # coincidence H = r2
        true = dict(r1=r2 + L * s, r2=r2, H=L * c, L=L)
        while True:
            S = [k for k in keys if rng.random() < 0.55]
            if ({"r1", "r2"} & set(S)) and (({"H", "L"} & set(S)) or ({"r1", "r2"} <= set(S) and s != 0)):
                break
        n2 = rng.randint(1, 3)
        nx = rng.choice([None, None, ("scalar", dyf(rng, -50, 50, 2)),
                         ("array", [dyf(rng, -9, 9, 2) for _ in range(2 * n2 + 1)])])
        d = dict(geo={k: (true[k] if k in S else None) for k in keys}, s=s, c=c, n2=n2,
                 Fc=rng.choice([None, dyf(rng, -5000, 5000, 1)]), nxxIn=nx, xiLA=rng.choice([None, dyf(rng, 0, 1, 4)]),
                 uTM=dyf(rng, -1, 1, 5), thetaTdeg=dyf(rng, -90, 90, 2), tanBeta=rng.choice([F(0), F(3, 4), F(1, 8), F(-5, 12)]),
                 pdC=rng.random() < 0.5, pdT=rng.random() < 0.5, nreb=rng.randint(1, 4))
        events.append(geo_event(len(events), d))
    # calls the module says must raise: no radius at all; pdLA switched off
    for S in (["H", "L"], ["L"], ["H"]):
        d = dict(geo={k: (F(5) if k in S else None) for k in keys}, s=F(3, 5), c=F(4, 5), n2=1, Fc=None, nxxIn=None,
                 xiLA=None, uTM=F(0), thetaTdeg=F(0), tanBeta=F(0), pdC=False, pdT=True, nreb=1)
        events.append(geo_event(len(events), d, expect="raise"))
    d = dict(geo=dict(r1=None, r2=F(4), H=None, L=F(2)), s=F(0), c=F(1), n2=1, Fc=None, nxxIn=None, xiLA=None,
             uTM=F(0), thetaTdeg=F(0), tanBeta=F(0), pdC=False, pdT=True, pdLA=False, nreb=1)
    events.append(geo_event(len(events), d, expect="raise"))
    subsets = {tuple(k for k in keys if e["geo"][k]) for e in events[:n_lat]}
    if len(subsets) < 10 or not any(e["Fc"] for e in events[:n_lat]) or not any(e["nreb"] == 3 for e in events[:n_lat]):
        rep.machinery("vacuity: geometry lattice lacks subsets / Fc / repeated rebuilds: %s" % sorted(subsets))
    add_selftests(events, [("rebuild", lambda e: e["expect"] == "built" and e["raised"] == "no")])
    verdicts, results, problems = validate_trace("c18-trg", "Trace_ShellGeometry",
                                                 "CONSTANTS Tier = \"%s\"\nDev = {}\nTol = 40\n" % tier, events, timeout=1500,
                                                 nproc=6 if tier == "quick" else 16)
    for res in results:
        rep.add_tlc("Trace_ShellGeometry", res)
    for p in problems:
        rep.machinery(p)
    if check_selftests(rep, events, verdicts, "Trace_ShellGeometry") != 1:
        rep.machinery("binding self-test of Trace_ShellGeometry did not run")
    for e in events:
        v = verdicts.get(e["id"])
        if e.get("selftest"):
            continue
        rep.nontrivial(("geo", tuple(k for k in keys if e["geo"][k]), str(e["ang"]["s"]), bool(e["Fc"]), bool(e["nxxIn"]),
                        e["pdC"], e["pdT"], e["nreb"]))
        if v and v[0] != "ok":
            small = {k: e[k] for k in e if k != "obs"}
            rep.violation("_rebuild: derived attributes %s disagree with the specification for inputs %s"
                          % (sorted(v[1]), small), dict(section="geometry", event=e, bad=sorted(map(str, v[1]))))
    rep.cov["traces_validated_against_impl"] += len(events)
    rep.cov["evaluations"] += 13 * len(events)
    rep.cov["geometry"] = dict(lattice_definitions=len(defs), lattice_events=n_lat, random_and_raise=len(events) - n_lat)
    rep.sample({k: v for k, v in events[0].items()})


# ----------------------------------------------------------------------------------------------------
# 3. loads

MODELS = ["clpt_donnell_bc1", "clpt_donnell_bc2", "clpt_donnell_bc3", "clpt_donnell_bc4",
          "clpt_sanders_bc1", "clpt_sanders_bc2", "clpt_sanders_bc3", "clpt_sanders_bc4",
          "iso_clpt_donnell_bc2", "iso_clpt_donnell_bc3",
          "fsdt_donnell_bc1", "fsdt_donnell_bc2", "fsdt_donnell_bc3", "fsdt_donnell_bc4"]
_K0_CACHE = {}


def shell_cc(d):
    """fresh ConeCyl for load definition d (see load_event).  The linear matrices of an identical shell (same model,
    series, geometry, prescribed flags) are computed by the package once and handed to later objects through the
    public attributes k0, k0uk, k0uu: calc_fext only reads k0uk from them, which is logged with every event."""
    cc = new_cc(d["model"], m1=d["m1"], m2=d["m2"], n2=d["n2"])
    for k, v in d["geo"].items():
        if v is not None:
            setattr(cc, k, float(v))
    cc.alphadeg = deg_of(d["s"], d["c"])
    if d["Fc"] is not None:
        cc.Fc = float(d["Fc"])
    if d["nxxIn"] is not None:
        cc.Nxxtop = float(d["nxxIn"][1]) if d["nxxIn"][0] == "scalar" else np.array([float(v) for v in d["nxxIn"][1]])
    if d["xiLA"] is not None:
        cc.xiLA = float(d["xiLA"])
    cc.uTM = float(d["uTM"])
    cc.thetaTdeg = float(d["thetaTdeg"])
    cc.betadeg = math.degrees(math.atan(float(d["tanBeta"])))
    cc.pdC, cc.pdT = d["pdC"], d["pdT"]
    cc.P, cc.P_inc, cc.T, cc.T_inc = float(d["P"]), float(d["Pinc"]), float(d["T"]), float(d["Tinc"])
    form = d.get("form", 0)           # every container form the API accepts: add_force, lists of tuples / numpy rows / ints
    if form == 0:
        for f in d["forces"]:
            cc.add_force(float(f["x"]), float(f["thetadeg"]), *[float(v) for v in f["F"]])
        for f in d["forcesInc"]:
            cc.add_force(float(f["x"]), float(f["thetadeg"]), *[float(v) for v in f["F"]], increment=True)
    else:
        cc.forces = [force_row(f, form) for f in d["forces"]]
        cc.forces_inc = tuple(force_row(f, form) for f in d["forcesInc"])
        d["_held"] = [(r, np.array(r, dtype=float).copy()) for r in list(cc.forces) + list(cc.forces_inc)]
    return cc


def share_k0(cc, d):
    key = (d["model"], d["m1"], d["m2"], d["n2"], tuple(sorted((k, v) for k, v in d["geo"].items())), d["s"], d["c"],
           d["pdC"], d["pdT"])
    if key in _K0_CACHE:
        cc.k0, cc.k0uk, cc.k0uu = _K0_CACHE[key]
    return key


def force_json(f, G=None):
    j = dict(F=[rat(v) for v in f["F"]], x=rat(f["x"]), thetadeg=rat(f["thetadeg"]))
    if G is None:
        j.update(p=f["p"], q=f["q"])
    else:
        j["G"] = G
    return j


def load_event(eid, d, inc, kuk=None, observed=False, pre=0):
    """one real calc_fext(inc[, kuk]) call.  d: load definition with Fractions; forces carry x, thetadeg and, on the
    lattice, (p, q).  observed=True: shape functions are taken from ConeCyl.uvw at unit amplitudes."""
    cc = shell_cc(d)
    key = share_k0(cc, d)
    raised, fext = "no", []
    try:
        for _ in range(pre):
            cc._rebuild()
        if kuk is None:
            fext = cc.calc_fext(inc=float(inc), silent=True)
        else:
            fext = cc.calc_fext(inc=float(inc), kuk=np.array(kuk, dtype=float), silent=True)
        if key not in _K0_CACHE:
            _K0_CACHE[key] = (cc.k0, cc.k0uk, cc.k0uu)
    except Exception as ex:          # the trace spec says whether refusing is what the module prescribes
        raised = type(ex).__name__
    if any(not np.array_equal(np.array(r, dtype=float), c) for r, c in d.pop("_held", [])):
        raised = "CallerContainerModified"          # the module never prescribes this: the trace spec rejects the event
    e = dict(id=eid, kind="fext", mode="observed" if observed else "lattice", model=d["model"], m1=d["m1"], m2=d["m2"],
             n2=d["n2"], geo={k: opt(v) for k, v in d["geo"].items()}, ang=dict(s=rat(d["s"]), c=rat(d["c"])),
             Fc=opt(d["Fc"]), xiLA=opt(d["xiLA"]), uTM=rat(d["uTM"]), thetaTdeg=rat(d["thetaTdeg"]),
             tanBeta=rat(d["tanBeta"]), pdC=d["pdC"], pdT=d["pdT"], pdLA=True,
             nxxIn=[] if d["nxxIn"] is None else
             [dict(kind=d["nxxIn"][0], v=rat(d["nxxIn"][1]) if d["nxxIn"][0] == "scalar" else [rat(v) for v in d["nxxIn"][1]])],
             P=rat(d["P"]), Pinc=rat(d["Pinc"]), T=rat(d["T"]), Tinc=rat(d["Tinc"]), inc=rat(inc), raised=raised,
             custom_kuk=kuk is not None, pre=pre, ring=[], obs=dy_list(fext))
    if raised != "no":
        e.update(forces=[force_json(f) if "p" in f else force_json(f, []) for f in d["forces"]],
                 forcesInc=[force_json(f) if "p" in f else force_json(f, []) for f in d["forcesInc"]], kuk=[])
        return e
    e["kuk"] = dy_mat(cc.k0uk if kuk is None else np.array(kuk, dtype=float))
    if not observed:
        e["forces"] = [force_json(f) for f in d["forces"]]
        e["forcesInc"] = [force_json(f) for f in d["forcesInc"]]
        return e
    # observed displacement functional: uvw at unit amplitudes, at the force points and around the top edge
    allf = d["forces"] + d["forcesInc"]
    n = cc.get_size()
    nring = 4 * d["n2"] + 4
    ring_needed = (not d["pdT"]) and (d["T"] != 0 or d["Tinc"] != 0)
    xs = np.array([float(f["x"]) for f in allf] + [0.] * nring)
    ts = np.array([math.radians(float(f["thetadeg"])) for f in allf] + [2 * math.pi * q / nring for q in range(nring)])
    G = [[] for _ in allf]
    ring = []
    for k in range(n):
        c = np.zeros(n)
        c[k] = 1.
        res = cc.uvw(c, xs=xs, ts=ts)
        u, v, w = res[0], res[1], res[2]
        for i in range(len(allf)):
            G[i].append([dyadic(u[i]), dyadic(v[i]), dyadic(w[i])])
        if ring_needed:
            ring.append([dyadic(x) for x in v[len(allf):]])
    nf = len(d["forces"])
    e["forces"] = [force_json(f, G[i]) for i, f in enumerate(d["forces"])]
    e["forcesInc"] = [force_json(f, G[nf + i]) for i, f in enumerate(d["forcesInc"])]
    e["ring"] = ring
    return e


def load_req(v):
    """REQ record printed by MC_ShellLoads -> load definition"""
    o = lambda x: None if not x else from_rat(x[0])
    nx = None
    if v["nxxIn"]:
        r = v["nxxIn"][0]
        nx = ("scalar", from_rat(r["v"])) if r["kind"] == "scalar" else ("array", [from_rat(x) for x in r["v"]])
    geo = {k: o(v["geo"][k]) for k in ("r1", "r2", "H", "L")}
    L = geo["L"]

    def fo(f):
        return dict(F=[from_rat(x) for x in f["F"]], p=f["p"], q=f["q"], x=L * f["p"] / 2, thetadeg=F(90 * f["q"]))
    ld = v["ld"]
    return dict(model=v["sh"]["model"], m1=v["sh"]["m1"], m2=v["sh"]["m2"], n2=v["sh"]["n2"], geo=geo,
                s=from_rat(v["ang"]["s"]), c=from_rat(v["ang"]["c"]), Fc=o(v["Fc"]), nxxIn=nx, xiLA=o(v["xiLA"]),
                uTM=from_rat(v["uTM"]), thetaTdeg=from_rat(v["thetaTdeg"]), tanBeta=from_rat(v["tanBeta"]),
                pdC=v["pdC"], pdT=v["pdT"], forces=[fo(f) for f in ld["forces"]], forcesInc=[fo(f) for f in ld["forcesInc"]],
                P=from_rat(ld["P"]), Pinc=from_rat(ld["Pinc"]), T=from_rat(ld["T"]), Tinc=from_rat(ld["Tinc"])), from_rat(v["inc"])


def random_load_def(rng, lattice_forces=False):
    model = rng.choice(MODELS)
    m1, m2, n2 = rng.randint(1, 4), rng.randint(1, 2), rng.randint(1, 3)
    s, c = rng.choice(PYTH_RND)
    r2, L = dyf(rng, 2, 300, 2), dyf(rng, 1, 500, 2)
    coin = rng.randint(0, 5)              # coincidences between unrelated parameters
    if coin == 0:
        m1 = n2
    elif coin == 1:
        L = r2 / c                        # H = r2
    elif coin == 2:
        m2 = n2 = m1 = 2
    geo = dict(r1=None, r2=r2, H=None, L=L)
    if rng.random() < 0.3:
        geo = dict(r1=r2 + L * s, r2=None, H=L * c, L=None)

    def force():
        if lattice_forces:
            p, q = rng.choice([0, 0, 1, 2, 2]), rng.choice([-2, -1, 0, 0, 1, 2, 3, 4, 4, 5])     # x = 0 / L, theta = 0 / 360 often
            return dict(F=[dyf(rng, -20, 20, 2) for _ in range(3)], p=p, q=q, x=L * p / 2, thetadeg=F(90 * q))
        return dict(F=[dyf(rng, -20, 20, 2) for _ in range(3)], x=L * dyf(rng, 0, 1, 5), thetadeg=dyf(rng, -180, 360, 3))
    pdC = rng.random() < 0.3
    pdT = rng.random() < 0.5
    ax = rng.choice(["none", "scalar", "Fc", "array", "FcXi"])
    fs = model.startswith("fsdt")
    return dict(model=model, m1=m1, m2=m2, n2=n2, geo=geo, s=s, c=c,
                Fc=dyf(rng, -3000, 3000, 0) if (ax in ("Fc", "FcXi") and not pdC) else None,
                nxxIn=None if pdC else (("scalar", dyf(rng, -9, 9, 2)) if ax == "scalar" else
                                        ("array", [dyf(rng, -9, 9, 2) for _ in range(2 * n2 + 1)]) if ax == "array" else None),
                xiLA=dyf(rng, 0, 1, 3) if (ax == "FcXi" and not pdC) else None,
                uTM=dyf(rng, -1, 1, 4) if pdC else F(0), thetaTdeg=rng.choice([F(0), dyf(rng, -40, 40, 1)]),
                tanBeta=rng.choice([F(0), F(0), F(1, 8), F(3, 4)]), pdC=pdC, pdT=pdT,
                forces=[force() for _ in range(rng.randint(0, 2))], forcesInc=[force() for _ in range(rng.randint(0, 2))],
                P=F(0) if fs else rng.choice([F(0), dyf(rng, -3, 3, 3)]), Pinc=F(0) if fs else rng.choice([F(0), dyf(rng, -3, 3, 3)]),
                T=rng.choice([F(0), dyf(rng, -50, 50, 1)]), Tinc=rng.choice([F(0), dyf(rng, -50, 50, 1)]))


def static_event(eid, model, s, c, rng):
    n2 = 2
    d = dict(model=model, m1=3, m2=2, n2=n2, geo=dict(r1=None, r2=F(250), H=None, L=F(500)), s=s, c=c,
             Fc=F(2000), nxxIn=None, xiLA=None, uTM=F(0), thetaTdeg=F(3, 2), tanBeta=F(0), pdC=False, pdT=True,
             forces=[dict(F=[F(0), F(0), F(-10)], x=F(250), thetadeg=F(0)), dict(F=[F(1), F(2), F(3)], x=F(125), thetadeg=F(45))],
             forcesInc=[dict(F=[F(-15), F(0), F(0)], x=F(0), thetadeg=F(30 * k)) for k in range(12)],
             P=F(0) if model.startswith("fsdt") else F(1, 8), Pinc=F(0), T=F(0), Tinc=F(0))
    cc = shell_cc(d)
    try:
        cs = cc.static(silent=True)
        f = cc.calc_fext(silent=True)
    except Exception as ex:
        return dict(id=eid, kind="static", model=model, alphadeg=cc.alphadeg, n=1, kuu=[], cu=[], f=[dyadic(1.0)],
                    raised=type(ex).__name__)
    return dict(id=eid, kind="static", model=model, alphadeg=cc.alphadeg, n=len(f), kuu=dy_mat(cc.k0uu.toarray()),
                cu=dy_list(cs[0]), f=dy_list(f), raised="no")


def loads_section(rep, tier, seed, rng):
    inv = ["FextIsVirtualWork", "ScaleDominates", "FextLength", "AffineInInc", "Superposition", "LayoutOK",
           "GeometryConsistent"]
    cfg = ("SPECIFICATION EmitSpec\nCONSTANTS Tier = \"%s\"\nDev = {}\n%sCHECK_DEADLOCK FALSE\n"
           % (tier, "".join("INVARIANT %s\n" % i for i in inv)))
    mc = run_tlc("c18-mcl", "MC_ShellLoads", cfg, workers=16, timeout=3000, heap="3g" if tier == "quick" else "6g")
    rep.add_tlc("MC_ShellLoads", mc)
    if not mc.ok:
        rep.machinery("TLC on MC_ShellLoads failed (rc=%s): %s %s" % (mc.rc, mc.errors(), mc.out[-1500:]))
        return
    reqs = [load_req(v[1]) for v in printed_values(mc.out, "REQ")]
    if len(reqs) < 500:
        rep.machinery("only %d load requests parsed from TLC output" % len(reqs))
    refreeze()
    events = []
    limit = 2600 if tier == "quick" else 12000
    if len(reqs) > limit:
        reqs = rng.sample(reqs, limit)
    for k, (d, inc) in enumerate(reqs):
        d["form"] = k % 4
        events.append(load_event(len(events), d, inc, pre=1 if k % 7 == 0 else 0))
    n_lat = len(events)
    # direction B: seeded shells / loads off the lattice: forces on lattice points (decided) and anywhere (observed)
    nrand = 40 if tier == "quick" else 500
    for k in range(nrand):
        d = random_load_def(rng, lattice_forces=(k % 4 == 0))
        events.append(load_event(len(events), d, rng.choice([F(1), F(1, 2), F(3, 8), F(2), F(-1, 4)]),
                                 observed=(k % 4 != 0)))
    # the `kuk` argument with a coupling column for the load-asymmetry amplitude
    for k in range(3 if tier == "quick" else 12):
        d = random_load_def(rng, lattice_forces=True)
        d.update(tanBeta=F(3, 4), pdC=k % 2 == 0, pdT=True, Fc=None, nxxIn=None, xiLA=None, uTM=F(1, 8), thetaTdeg=F(10))
        n = 3 + (5 if d["model"].startswith("fsdt") else 3) * d["m1"] + (10 if d["model"].startswith("fsdt") else 6) * d["m2"] * d["n2"]
        rows = n - (3 if d["pdC"] else 2)
        kuk = [[float(rng.randint(-9, 9)) for _ in range(3)] for _ in range(rows)]
        events.append(load_event(len(events), d, F(1, 2), kuk=kuk))
    # fsdt + pressure: the module says calc_fext refuses
    d = random_load_def(rng, lattice_forces=True)
    d.update(model="fsdt_donnell_bc1", P=F(2), Pinc=F(0))
    events.append(load_event(len(events), d, F(1)))
    n_fext = len(events)
    # observed: K_uu c_u = f_u after static()
    smodels = MODELS if tier != "quick" else ["clpt_donnell_bc1", "clpt_donnell_bc2", "clpt_donnell_bc4", "clpt_sanders_bc3",
                                              "iso_clpt_donnell_bc2", "fsdt_donnell_bc1", "fsdt_donnell_bc3", "clpt_sanders_bc2"]
    for mi, model in enumerate(smodels):
        for s, c in (PYTH if tier != "quick" else [PYTH[0], PYTH[1 + mi % 2]]):
            events.append(static_event(len(events), model, s, c, rng))
    lat = events[:n_lat]
    feats = dict(pdC=any(e["pdC"] for e in lat), torque=any(not e["pdT"] and e["T"] != rat(0) for e in lat),
                 twist=any(e["pdT"] and e["thetaTdeg"] != rat(0) for e in lat), pressure=any(e["Pinc"] != rat(0) for e in lat),
                 harmonics=any(e["nxxIn"] and e["nxxIn"][0]["kind"] == "array" and e["model"][-1] in "24" for e in lat),
                 Fc=any(e["Fc"] for e in lat), cone=any(e["ang"]["s"] != rat(0) for e in lat),
                 inc_forces=any(e["forcesInc"] for e in lat), beta=any(e["tanBeta"] != rat(0) for e in lat),
                 fsdt=any(e["model"].startswith("fsdt") for e in lat))
    if not all(feats.values()):
        rep.machinery("vacuity: load lattice lacks features %s" % [k for k, v in feats.items() if not v])
    add_selftests(events, [("fext", lambda e: e["mode"] == "lattice" and e["forcesInc"] and e["pdT"] and e["raised"] == "no"),
                           ("static", lambda e: e["alphadeg"] == 0)])
    n_static = len(events) - n_fext
    verdicts, results, problems = validate_trace(
        "c18-trl", "Trace_ShellLoads", "CONSTANTS Tier = \"%s\"\nDev = {}\nTol = 38\nTolStatic = 30\nTolNorm = 44\n" % tier, events,
        timeout=3000, nproc=10 if tier == "quick" else 16)
    for res in results:
        rep.add_tlc("Trace_ShellLoads", res)
    for p in problems:
        rep.machinery(p)
    kinds = {}
    if check_selftests(rep, events, verdicts, "Trace_ShellLoads") != 2:
        rep.machinery("binding self-test of Trace_ShellLoads did not run")
    def simplicity(e):
        if e["kind"] != "fext":
            return (0, e["id"])
        return (len(e["forces"]) + len(e["forcesInc"]) + (e["P"] != rat(0)) + (e["Pinc"] != rat(0)) + bool(e["Fc"])
                + bool(e["nxxIn"]) + (e["thetaTdeg"] != rat(0)), e["id"])
    for e in sorted(events, key=simplicity):
        v = verdicts.get(e["id"])
        if e.get("selftest"):
            continue
        if e["kind"] == "static":
            rep.nontrivial(("static", e["model"], e["alphadeg"] != 0))
        else:
            rep.nontrivial(("fext", e["mode"], e["model"], e["m1"], e["m2"], e["n2"], str(e["ang"]["s"]), e["pdC"], e["pdT"],
                            len(e["forces"]), len(e["forcesInc"]), str(e["P"]) + str(e["Pinc"]), str(e["T"]) + str(e["Tinc"]),
                            bool(e["Fc"]), bool(e["nxxIn"]), str(e["tanBeta"])))
        if not v:
            continue
        kinds[(e["kind"], e.get("mode", ""), v[0])] = kinds.get((e["kind"], e.get("mode", ""), v[0]), 0) + 1
        if v[0] == "ok":
            continue
        small = {k: e[k] for k in e if k not in ("obs", "kuk", "kuu", "cu", "f", "ring", "forces", "forcesInc")}
        if e["kind"] == "fext":
            small["forces"] = [{k: f[k] for k in f if k != "G"} for f in e["forces"]]
            small["forcesInc"] = [{k: f[k] for k in f if k != "G"} for f in e["forcesInc"]]
        if v[0].startswith("kf:"):
            if e["kind"] == "static":
                rep.known(v[0][3:], "static() of %s, alphadeg=%.6g, m1=3 m2=2 n2=2: K_uu c_u - f_u is not small in rows %s "
                          "(all-zero stiffness rows carrying load)" % (e["model"], e["alphadeg"], sorted(v[1])[:8]))
            else:
                idx = sorted(v[1])[:6]
                rep.known(v[0][3:], "calc_fext(inc=%s%s) of %s (m1=%d, m2=%d, n2=%d, r2=%s, L=%s, sin(alpha)=%s, pdC=%s, pdT=%s, T=%s, "
                          "T_inc=%s, tan(beta)=%s, %d+%d point forces, P=%s, P_inc=%s): entries %s of the returned vector are %s, "
                          "which is not the virtual work of the loads"
                          % (from_rat(e["inc"]), ", kuk=<integer matrix>" if e["custom_kuk"] else "", e["model"], e["m1"], e["m2"],
                             e["n2"], from_rat(e["geo"]["r2"][0]) if e["geo"]["r2"] else "derived",
                             from_rat(e["geo"]["L"][0]) if e["geo"]["L"] else "derived", from_rat(e["ang"]["s"]), e["pdC"], e["pdT"],
                             from_rat(e["T"]), from_rat(e["Tinc"]), from_rat(e["tanBeta"]), len(e["forces"]), len(e["forcesInc"]),
                             from_rat(e["P"]), from_rat(e["Pinc"]), [i - 1 for i in idx], [undy(e["obs"][i - 1]) for i in idx]))
        else:
            rep.violation("%s: %s rejected by ShellLoads at entries %s: %s"
                          % (e["kind"], "calc_fext" if e["kind"] == "fext" else "static() residual", sorted(v[1])[:10], small),
                          dict(section="loads", event=e, bad=sorted(map(str, v[1]))))
    rep.cov["traces_validated_against_impl"] += len(events)
    rep.cov["evaluations"] += sum(len(e["obs"]) if e["kind"] == "fext" else e["n"] for e in events)
    rep.cov["loads"] = dict(lattice_cases_replayed=n_lat, lattice_cases_enumerated=len(reqs), random=nrand,
                            static_observed=n_static, verdict_census={"/".join(k): n for k, n in sorted(kinds.items())})
    small = dict(events[0])
    small["kuk"] = "<%d x 3 exact doubles>" % len(events[0]["kuk"])
    rep.sample(small)


# ----------------------------------------------------------------------------------------------------
# 4. the object's life: queries after changes / other queries / other objects, judged as a fresh identical object

OBJ_DEVS = ["KF_C18_DerivedGeometryKept", "KF_C18_LoadDataFrozen", "KF_C18_StiffnessCacheKept",
            "KF_C18_NxxtopDiscardedOnClear", "KF_C18_LbSetsFc", "KF_C18_SPLAUsesTimeClock", "KF_C18_PlyListsKept"]
STACKS = {0: [0, 45, -45], 1: [0, 30, -30], 9: None}
PLYT = {0: 0.125, 1: 0.25}


def tv(v):
    """typed JSON value of a step argument"""
    if isinstance(v, bool):
        return dict(t="bool", v=v)
    if isinstance(v, int):
        return dict(t="int", v=v)
    if isinstance(v, str):
        return dict(t="str", v=v)
    if isinstance(v, Fraction):
        return dict(t="rat", v=rat(v))
    if isinstance(v, tuple) and len(v) == 2:
        return dict(t="ang", v=dict(s=rat(v[0]), c=rat(v[1])))
    if isinstance(v, list) and v and isinstance(v[0], dict):
        return dict(t="forces", v=[dict(x=rat(f["x"]), thetadeg=rat(f["thetadeg"]), F=[rat(c) for c in f["F"]]) for f in v])
    if isinstance(v, list):
        return dict(t="rats", v=[rat(c) for c in v])
    raise ValueError("untyped step value %r" % (v,))


def S(attr, val):
    return dict(op="set", attr=attr, val=val)


def step_json(s):
    j = dict(op=s["op"])
    for k, v in s.items():
        if k == "op":
            continue
        if k.startswith("_"):
            j[k] = v                      # harness-side detail of the call (data-base key, the other object): kept for replay
        elif k == "val":
            j[k] = tv(v)
        elif k in ("x", "thetadeg", "PL", "pt", "inc"):
            j[k] = rat(v)
        elif k == "F":
            j[k] = [rat(c) for c in v]
        elif k == "PLs":
            j[k] = [rat(c) for c in v]
        elif k == "entry":
            j[k] = {a: tv(b) for a, b in v.items()}
        else:
            j[k] = v
    return j


def untv(x):
    t, v = x["t"], x["v"]
    if t == "rat":
        return from_rat(v)
    if t == "rats":
        return [from_rat(c) for c in v]
    if t == "ang":
        return (from_rat(v["s"]), from_rat(v["c"]))
    if t == "forces":
        return [dict(x=from_rat(f["x"]), thetadeg=from_rat(f["thetadeg"]), F=[from_rat(c) for c in f["F"]]) for f in v]
    return v


def step_unjson(j):
    s = dict(op=j["op"])
    for k, v in j.items():
        if k == "op":
            continue
        if k == "val":
            s[k] = untv(v)
        elif k in ("x", "thetadeg", "PL", "pt", "inc"):
            s[k] = from_rat(v)
        elif k in ("F", "PLs"):
            s[k] = [from_rat(c) for c in v]
        elif k == "entry":
            s[k] = {a: untv(b) for a, b in v.items()}
        else:
            s[k] = v
    return s


def force_row(f, form):
    row = [float(f["x"]), math.radians(float(f["thetadeg"]))] + [float(c) for c in f["F"]]
    if form == 1:
        return tuple(row)
    if form == 2:
        return np.array(row)
    if form == 3 and all(float(v).is_integer() for v in row[:1] + row[2:]):
        return [int(row[0]), row[1]] + [int(v) for v in row[2:]]
    return row


class Held:
    """containers the caller handed over, with copies to compare afterwards"""

    def __init__(self):
        self.items = []

    def keep(self, name, obj):
        self.items.append((name, obj, np.array(obj, dtype=float).copy()))

    def changed(self):
        return sorted({n for n, o, c in self.items
                       if np.array(o, dtype=float).shape != c.shape or not np.array_equal(np.array(o, dtype=float), c)})


def apply_step(cc, s, held, form=0):
    op = s["op"]
    if op == "set":
        a, v = s["attr"], s["val"]
        if a in ("r1", "r2", "H", "L", "Fc", "xiLA", "uTM", "thetaTdeg"):
            setattr(cc, a, float(v))
            if a in ("Fc", "xiLA"):      # the object adopts a given Nxxtop array and writes Nxxtop[0] / [2] from Fc / MLA into it
                held.items = [it for it in held.items if it[0] != "Nxxtop"]
        elif a in ("P", "T"):
            setattr(cc, a, float(v))
        elif a == "Pinc":
            cc.P_inc = float(v)
        elif a == "Tinc":
            cc.T_inc = float(v)
        elif a == "Nxxtop":
            arr = np.array([float(c) for c in v])
            cc.Nxxtop = arr
            if cc.Fc is None and cc.xiLA is None:
                held.keep("Nxxtop", arr)
        elif a == "NxxtopScalar":
            cc.Nxxtop = float(v)
        elif a == "ang":
            cc.alphadeg = deg_of(*v)
        elif a == "tanBeta":
            cc.betadeg = math.degrees(math.atan(float(v)))
        elif a in ("model", "m1", "m2", "n2", "pdC", "pdT"):
            setattr(cc, a, v)
        elif a == "stiff":
            cc.stack = list(STACKS[v])
        elif a == "plyt":
            cc.plyt = PLYT[v]
        elif a == "plyts":
            cc.plyts = [0.5] * len(cc.stack)
        elif a in ("forces", "forcesInc"):
            rows = [force_row(f, (form + k) % 4) for k, f in enumerate(v)]
            for r in rows:
                held.keep(a, r)
            setattr(cc, "forces" if a == "forces" else "forces_inc", rows)
        else:
            raise ValueError(a)
    elif op == "add_force":
        args = [float(s["x"]), float(s["thetadeg"])] + [float(c) for c in s["F"]]
        if form == 3:
            args = [int(v) if float(v).is_integer() else v for v in args]
        cc.add_force(*args, increment=s["increment"])
    elif op == "add_SPL":
        cc.add_SPL(float(s["PL"]), pt=float(s["pt"]), thetadeg=float(s["thetadeg"]), increment=s["increment"])
    elif op == "clear":
        cc._clear_matrices()
    elif op == "SPLA":
        cc.SPLA([float(v) for v in s["PLs"]], NLgeom=False)
    elif op == "from_DB":
        cc.from_DB(s["_name"])
    elif op == "rebuild":
        cc._rebuild()
    elif op == "calc_k0":
        cc.calc_k0(silent=True)
    elif op == "calc_fext":
        return cc.calc_fext(inc=float(s["inc"]), silent=True)
    elif op == "static":
        return cc.static(silent=True)[0]
    elif op == "lb":
        cc.num_eigvalues = 2
        cc.lb()
    elif op == "uvw":                      # after a calc_fext step of the history (sizes, excluded_dofs known)
        n = cc.get_size() - len(cc.excluded_dofs)
        cc.uvw(np.ones(n), gridx=3, gridt=3, inc=0.25)
    elif op == "calc_kT":                  # after a static step of the history; k0 exists, so calc_kT reads but keeps the state
        cc.nx, cc.nt = 8, 8
        cc.calc_kT(np.array(cc.cs[0]), inc=0.5, silent=True)
    elif op == "other":
        oc = new_cc(s["_model"], m1=1, m2=1, n2=1)
        oc.r2, oc.L, oc.alphadeg, oc.thetaTdeg = 5., 3., s.get("_alphadeg", 0.), 20.
        oc.add_force(1.5, 90., 1., 2., 3.)
        oc.calc_fext(inc=0.75, silent=True)
        oc.static(silent=True)
    elif op in ("none", "get_size", "forces"):
        pass
    else:
        raise ValueError(op)
    return None


def study_event(eid, steps0, steps, query, form=0):
    """one real object: definition steps, history, final query; plus the stiffness data of the fresh identical object"""
    held = Held()
    cc = new_cc("clpt_donnell_bc1", m1=1, m2=1, n2=1)
    fresh = new_cc("clpt_donnell_bc1", m1=1, m2=1, n2=1)
    hf = Held()
    for s in steps0:
        apply_step(cc, s, held, form)
        apply_step(fresh, s, hf, form)
    for s in steps:
        try:
            apply_step(cc, s, held, form)
        except Exception:
            pass                          # a refused call inside the history: the module leaves the object as it was
        if s["op"] in ("set", "add_force", "add_SPL", "from_DB"):
            try:
                apply_step(fresh, s, hf, form)
            except Exception:
                pass
    obs = dict(raised="no")
    try:
        r = apply_step(cc, query, held, form)
        q = query["op"]
        if q in ("calc_fext", "static"):
            obs["vec"] = dy_list(r)
        elif q == "get_size":
            obs["size"] = int(cc.get_size())
        elif q == "rebuild":
            obs.update(r1=dyadic(cc.r1), r2=dyadic(cc.r2), H=dyadic(cc.H), L=dyadic(cc.L), nxx=dy_list(cc.Nxxtop),
                       xs=[int(x) for x in cc.excluded_dofs], cks=dy_list(cc.excluded_dofs_ck))
        elif q in ("calc_k0", "lb"):
            obs["kuu"] = dy_mat(cc.k0uu.toarray())
        elif q == "forces":
            obs["forces"] = [dy_list(f) for f in cc.forces]
            obs["forcesInc"] = [dy_list(f) for f in cc.forces_inc]
    except Exception as ex:
        obs = dict(raised=type(ex).__name__)
    e = dict(id=eid, kind="study", steps0=[step_json(s) for s in steps0], steps=[step_json(s) for s in steps],
             query=step_json(query), obs=obs, containers_changed=held.changed(), form=form,
             kuk_fresh=[], kuk_used=[], kuu_fresh=[], kuu_used=[])
    if query["op"] in ("calc_fext", "static", "calc_k0", "lb"):
        try:
            if query["op"] == "lb":
                apply_step(fresh, query, hf, form)
            else:
                fresh.calc_k0(silent=True)
            e["kuk_fresh"], e["kuu_fresh"] = dy_mat(fresh.k0uk), dy_mat(fresh.k0uu.toarray())
        except Exception:
            pass
        if cc.k0uk is not None:
            e["kuk_used"], e["kuu_used"] = dy_mat(cc.k0uk), dy_mat(cc.k0uu.toarray())
    return e


FORCE1 = dict(x=F(0), thetadeg=F(90), F=[F(2), F(-3), F(5)])
REAL_SIZES = (3, 2, 2)          # the bounded model uses (1,1,1); replays use a series on which lb() can run
ARR0, ARR1 = [F(2), F(1, 2), F(-3), F(7), F(-1, 4)], [F(1), F(1), F(4), F(0), F(2)]
ANG = dict(cyl=(F(0), F(1)), cone=(F(3, 5), F(4, 5)))


def base_steps(model, ang, pdT, geo, axial):
    s = [S("m1", REAL_SIZES[0]), S("m2", REAL_SIZES[1]), S("n2", REAL_SIZES[2]), S("thetaTdeg", F(30)), S("forces", [FORCE1]), S("Pinc", F(3)),
         S("model", model), S("ang", ang), S("pdT", pdT), S("T", F(5))]
    if geo == "r2L":
        s += [S("r2", F(4)), S("L", F(5, 2))]
    else:
        s += [S("r1", 4 + F(5, 2) * ang[0]), S("H", F(5, 2) * ang[1])]
    if axial == "Fc":
        s += [S("Fc", F(100)), S("xiLA", F(1, 8))]
    elif axial == "array":
        s += [S("Nxxtop", list(ARR0))]
    elif axial == "scalar":
        s += [S("NxxtopScalar", F(3, 4))]
    return s


def step_from_tla(v):
    op = v["op"]
    if op == "set":
        a, x = v["attr"], v["val"]
        if a in ("m1", "m2", "n2"):
            return S(a, x - 1 + REAL_SIZES[("m1", "m2", "n2").index(a)])          # "one more term than the base"
        if a in ("model", "stiff", "plyt", "plyts", "pdC", "pdT"):
            return S(a, x)
        if a == "ang":
            return S(a, (from_rat(x["s"]), from_rat(x["c"])))
        if a == "Nxxtop":
            return S(a, list(ARR1))
        return S(a, from_rat(x))
    if op == "add_force":
        return dict(op=op, x=from_rat(v["x"]), thetadeg=from_rat(v["thetadeg"]), F=[from_rat(c) for c in v["F"]],
                    increment=v["increment"])
    if op == "add_SPL":
        return dict(op=op, PL=from_rat(v["PL"]), pt=from_rat(v["pt"]), thetadeg=from_rat(v["thetadeg"]), increment=v["increment"])
    if op == "SPLA":
        return dict(op=op, PLs=[from_rat(c) for c in v["PLs"]])
    if op == "calc_fext":
        return dict(op=op, inc=from_rat(v["inc"]))
    return dict(op=op)


def db_entries():
    from compmech.conecyl.conecylDB import ccs
    out = []
    for name in sorted(ccs):
        e = ccs[name]
        if "alphadeg" in e and e["alphadeg"] != 0:
            continue                               # exact trigonometry only for the cylinders of the data base
        ent = dict(stiff=9)
        for k in ("r1", "r2", "H", "L"):
            if k in e:
                ent[k] = Fraction(float(e[k]))
        out.append((name, ent))
    return out


def object_section(rep, tier, seed, rng):
    devs = "{%s}" % ",".join('"%s"' % d for d in OBJ_DEVS if d != "KF_C18_SPLAUsesTimeClock")      # repaired upstream
    walls = {}
    histories = None
    for name, dv in (("code", devs), ("property", "{}")):
        cfg = ("SPECIFICATION EmitSpec\nCONSTANTS Tier = \"%s\"\nDev = %s\nINVARIANT HistoryIndependent\nINVARIANT ForcesBookkeeping\n"
               "INVARIANT SizeFormula\nCHECK_DEADLOCK FALSE\n" % (tier, dv))
        mc = run_tlc("c18-mco", "MC_ShellObject", cfg, workers=8, timeout=3000, heap="4g")
        rep.add_tlc("MC_ShellObject(Dev=%s)" % name, mc)
        if not mc.ok:
            rep.machinery("TLC on MC_ShellObject (%s semantics) failed (rc=%s): %s %s" % (name, mc.rc, mc.errors(), mc.out[-1200:]))
            return
        if name == "code":
            histories = [v[1] for v in printed_values(mc.out, "REQ")]
        elif any(not v[1]["same"] for v in printed_values(mc.out, "REQ")):
            rep.machinery("MC_ShellObject with no deviation: an answer depends on the history")
    sig_seen = set()
    for h in histories:
        sig_seen |= set(h["sigs"])
    if not set(OBJ_DEVS) - {"KF_C18_SPLAUsesTimeClock"} <= sig_seen:
        rep.machinery("vacuity: signatures never reached in the object model: %s" % sorted(set(OBJ_DEVS) - sig_seen))
    refreeze()
    # stratified sample of the enumerated histories: every (signature set, ops) class, then seeded fill-up
    limit = 240 if tier == "quick" else 3200
    classes = {}
    for h in histories:
        k = (tuple(sorted(h["sigs"])), tuple((x["op"], x.get("attr")) for x in h["hist"]))
        classes.setdefault(k, []).append(h)
    keys = sorted(classes, key=str)
    rng.shuffle(keys)
    chosen = [rng.choice(classes[k]) for k in keys[:limit]]
    events = []
    for n, h in enumerate(chosen):
        b = h["base"]
        steps0 = base_steps(b["model"], (from_rat(b["ang"]["s"]), from_rat(b["ang"]["c"])), b["pdT"], b["geo"], b["axial"])
        hs = [step_from_tla(x) for x in h["hist"]]
        events.append(study_event(len(events), steps0, hs[:-1], hs[-1], form=n % 4))
    n_lat = len(events)
    # seeded histories beyond the model: other public queries, other objects in between, containers, coincidences, data base
    B = [("clpt_donnell_bc1", ANG["cone"], True, "r2L", "Fc"), ("clpt_donnell_bc4", ANG["cyl"], False, "r1H", "array"),
         ("fsdt_donnell_bc1", ANG["cone"], True, "r2L", "none"), ("clpt_sanders_bc2", ANG["cyl"], True, "r2L", "scalar")]
    warm = [[dict(op="calc_fext", inc=F(1)), dict(op="uvw")], [dict(op="static"), dict(op="calc_kT")], dict(op="static"), dict(op="other", _model="clpt_donnell_bc2"),
            dict(op="other", _model="clpt_donnell_bc1", _alphadeg=deg_of(F(5, 13), F(12, 13))), dict(op="lb")]
    finals = [dict(op="calc_fext", inc=F(1, 2)), dict(op="static"), dict(op="rebuild"), dict(op="forces"), dict(op="forces")]
    changes = [dict(op="none"), S("P", F(2)), S("thetaTdeg", F(45)),
               dict(op="add_SPL", PL=F(7), pt=F(1, 2), thetadeg=F(180), increment=True),
               dict(op="add_SPL", PL=F(7), pt=F(1), thetadeg=F(360), increment=False),
               dict(op="add_force", x=F(0), thetadeg=F(90), F=[F(1), F(2), F(3)], increment=False),
               dict(op="add_force", x=F(0), thetadeg=F(-45), F=[F(1), F(0), F(-3)], increment=True),
               S("forcesInc", [dict(x=F(5, 2), thetadeg=F(270), F=[F(4), F(0), F(-1)]), FORCE1]),
               S("L", F(4)), S("m1", 2), S("n2", 2)]
    extra = 40 if tier == "quick" else 500
    for k in range(extra):
        b = B[k % len(B)]
        st0 = base_steps(*b)
        if k % 5 == 4:                      # coincidences: H = r2 (cylinder L = r2), m1 = n2, thetadeg 0 / 360, x = 0 / L
            st0 = [s for s in st0 if s.get("attr") not in ("r1", "r2", "H", "L")] + [S("r2", F(4)), S("L", F(4))]
        w = rng.choice(warm)
        events.append(study_event(len(events), st0, (w if isinstance(w, list) else [w]) + [rng.choice(changes)], rng.choice(finals),
                                  form=k % 4))
    for name, ent in (db_entries() if tier != "quick" else rng.sample(db_entries(), 6)):
        st0 = [S("m1", 2), S("m2", 1), S("n2", 1)]
        events.append(study_event(len(events), st0, [dict(op="from_DB", entry=ent, _name=name)], dict(op="rebuild")))
    n_study = len(events)
    # get_size of every registered model family
    from compmech.conecyl import modelDB
    for name in sorted(modelDB.db):
        for (m1, m2, n2) in [(1, 1, 1), (4, 3, 2), (2, 5, 7)]:
            cc = new_cc("clpt_donnell_bc1", m1=m1, m2=m2, n2=n2)
            cc.model = name
            events.append(dict(id=len(events), kind="size", model=name, m1=m1, m2=m2, n2=n2, obs=int(cc.get_size())))
    # SPLA to the end (a return of time.clock would make it raise: KF_C18_SPLAUsesTimeClock, listed as fixed)
    for b in (B[0], ("clpt_donnell_bc3", ANG["cyl"], True, "r1H", "Fc")):
        events.append(spla_event(len(events), base_steps(*b), [F(7), F(3), F(12)]))
    add_selftests(events, [("study", lambda e: e["query"]["op"] == "calc_fext" and e["obs"]["raised"] == "no")])
    verdicts, results, problems = validate_trace(
        "c18-tro", "Trace_ShellObject", "CONSTANTS Tier = \"%s\"\nDev = {}\nTol = 38\nTolStatic = 30\nTolNorm = 44\n" % tier,
        events, timeout=3000, nproc=8 if tier == "quick" else 16)
    for res in results:
        rep.add_tlc("Trace_ShellObject", res)
    for p in problems:
        rep.machinery(p)
    if check_selftests(rep, events, verdicts, "Trace_ShellObject") != 1:
        rep.machinery("binding self-test of Trace_ShellObject did not run")
    census = {}
    for e in events:
        v = verdicts.get(e["id"])
        if e.get("selftest") or not v:
            continue
        if e["kind"] in ("size", "spla"):
            rep.nontrivial((e["kind"], e.get("model"), e.get("m1")))
            census[e["kind"] + ":" + v[0]] = census.get(e["kind"] + ":" + v[0], 0) + 1
            if v[0] != "ok":
                rep.violation("%s: %s rejected: %s" % (e["kind"], {k: e[k] for k in e if k not in ("steps0",)}, sorted(map(str, v[1]))),
                              dict(section="object", event=e))
            continue
        desc = [(s["op"], s.get("attr")) for s in e["steps"]] + [e["query"]["op"]]
        rep.nontrivial(("study", str(desc), e["form"], str(e["steps0"][6:10])))
        census[v[0]] = census.get(v[0], 0) + 1
        if v[0] == "ok":
            continue
        text = ("fresh-object definition %s; history %s; then %s -> %s" %
                ([(s["attr"]) for s in e["steps0"]][6:], desc[:-1], desc[-1],
                 "raised " + e["obs"]["raised"] if e["obs"]["raised"] != "no" else "answer differs from a fresh identical object"))
        if v[0] == "na":
            continue
        if v[0] == "kf":
            for d in sorted(v[1]):
                rep.known(d, text)
        else:
            rep.violation("object history: %s (judged %s)" % (text, sorted(map(str, v[1]))), dict(section="object", event=e))
    rep.cov["traces_validated_against_impl"] += len(events)
    rep.cov["evaluations"] += len(events)
    rep.cov["object"] = dict(histories_enumerated=len(histories), history_classes=len(classes), replayed=n_lat,
                             seeded=n_study - n_lat, verdict_census=census)
    rep.sample({k: v for k, v in events[0].items() if not k.startswith("ku")})


def spla_event(eid, steps0, PLs):
    cc = new_cc("clpt_donnell_bc1", m1=1, m2=1, n2=1)
    held = Held()
    for s in steps0:
        apply_step(cc, s, held)
    obs = dict(raised="no", ncurves=0, stored=False, forces=[], forcesInc=[], Fcs=[], uTMs=[], c0s=[], incs=[])
    try:
        curves = cc.SPLA([float(v) for v in PLs], NLgeom=False)
        obs.update(ncurves=len(curves), stored=cc.outputs.get("SPLA_curves") is curves,
                   forces=[dy_list(f) for f in cc.forces], forcesInc=[dy_list(f) for f in cc.forces_inc],
                   Fcs=[dy_list(c["Fcs"]) for c in curves], uTMs=[dy_list(c["uTMs"]) for c in curves],
                   c0s=[dyadic(c["cs"][0][0]) for c in curves], incs=[dy_list(c["increments"]) for c in curves])
    except Exception as ex:
        obs["raised"] = type(ex).__name__
    return dict(id=eid, kind="spla", steps0=[step_json(s) for s in steps0], PLs=[rat(v) for v in PLs], obs=obs)


def corrupt_study(c):
    c["query"]["inc"] = rat(from_rat(c["query"]["inc"]) + F(1, 4))


# ----------------------------------------------------------------------------------------------------
# binding self-test: a corrupted record must be rejected by the trace specification

def undy(d):
    s_, l, e = d
    m = 0
    for k in reversed(l):
        m = m * 10000 + k
    return float(s_ * m) * 2.0 ** e if e >= -1000 else float(F(s_ * m) * F(2) ** e)


def bump(d):
    """another double: the same with the lowest mantissa limb changed (zero becomes 1)"""
    if d[0] == 0:
        return [1, [1], 0]
    l = list(d[1])
    l[0] = (l[0] + 2) % 10000 or 2
    return [d[0], l, d[2]]


def corrupt(e):
    c = json.loads(json.dumps(e))
    c["selftest"] = True
    if e["kind"] == "exclude":
        row = c["obs"]["kuu"][0]
        row[0] = bump(row[0])
    elif e["kind"] == "fullc":
        c["obs"][len(c["obs"]) // 2] = bump(c["obs"][len(c["obs"]) // 2])
    elif e["kind"] == "rebuild":
        c["obs"]["H"] = bump(c["obs"]["H"])
    elif e["kind"] == "fext":
        c["inc"] = rat(from_rat(e["inc"]) + F(1, 4))
    elif e["kind"] == "study":
        corrupt_study(c)
    elif e["kind"] == "static":
        k = max(range(len(c["f"])), key=lambda i: abs(undy(c["f"][i])))
        c["f"][k] = [c["f"][k][0], c["f"][k][1], c["f"][k][2] + 1]
    return c


def add_selftests(events, pick):
    extra = []
    for kind, pred in pick:
        for e in events:
            if e["kind"] == kind and pred(e):
                extra.append(corrupt(e))
                break
    for c in extra:
        c["id"] = len(events)
        events.append(c)
    return len(extra)


def check_selftests(rep, events, verdicts, name):
    n = 0
    for e in events:
        if e.get("selftest"):
            n += 1
            v = verdicts.get(e["id"])
            if v and v[0] == "ok":
                rep.machinery("binding self-test: corrupted %s record was accepted by %s" % (e["kind"], name))
    return n


# ----------------------------------------------------------------------------------------------------

TRACE_OF = dict(partition=("Trace_ShellPartition", "CONSTANTS Tier = \"%s\"\nDev = {}\n"),
                geometry=("Trace_ShellGeometry", "CONSTANTS Tier = \"%s\"\nDev = {}\nTol = 40\n"),
                object=("Trace_ShellObject", "CONSTANTS Tier = \"%s\"\nDev = {}\nTol = 38\nTolStatic = 30\nTolNorm = 44\n"),
                loads=("Trace_ShellLoads", "CONSTANTS Tier = \"%s\"\nDev = {}\nTol = 38\nTolStatic = 30\nTolNorm = 44\n"))


def run(tier, seed, build):
    warnings.filterwarnings("ignore")
    rep = Report("C18", tier, seed)
    with contextlib.redirect_stdout(io.StringIO()):      # the package prints progress messages
        import compmech.conecyl                           # noqa: F401
    gc.freeze()
    timer = {}
    t0 = time.time()
    with contextlib.redirect_stdout(io.StringIO()):
        prep = partition_prepare(rep, tier, seed, random.Random(seed * 7 + 11))
    timer["partition_prepare"] = round(time.time() - t0, 1)
    if prep is None or prep["crashed"]:
        # exclude_dofs_matrix kills the interpreter: every object with a stiffness matrix would do the same in-process
        rep.cov["section_wall_s"] = timer
        rep.assumptions.append("run stopped after the isolated exclude_dofs_matrix replays: the call crashed the interpreter")
        return rep.finish()
    sections = [("partition", lambda *a: partition_section(*a, prep=prep)), ("geometry", geometry_section),
                ("loads", loads_section), ("object", object_section)]

    def one(k):
        name, fn = sections[k]
        t0 = time.time()
        try:
            fn(rep, tier, seed, random.Random(seed * 7 + k))
        except Exception:
            import traceback
            rep.machinery("section %s crashed: %s" % (name, traceback.format_exc()[-1500:]))
        timer[name] = round(time.time() - t0, 1)

    import concurrent.futures as cf
    real_stdout = sys.stdout
    with contextlib.redirect_stdout(io.StringIO()):
        with cf.ThreadPoolExecutor(max_workers=4) as ex:
            list(ex.map(one, range(len(sections))))
    sys.stdout = real_stdout
    rep.cov["section_wall_s"] = timer
    rep.cov["observations"] = OBSERVED
    rep.cov["exhaustive"] = False
    rep.cov["rule"] = ("distinct = distinct (section, call kind, model, series sizes, angle, prescribed flags, load pattern, "
                       "inputs subset) tuples actually executed on the real ConeCyl; every TLC-enumerated transition of "
                       "MC_ShellPartition / MC_ShellGeometry / MC_ShellLoads that calls the package is replayed (quick: all), "
                       "plus seeded dyadic cases off the lattice, real k0 partitions, uvw-functional and static() observations")
    rep.assumptions += [
        "exact shape functions only on the quarter-turn lattice x = pL/2, theta = q*90deg; forces elsewhere, the force-controlled "
        "torque ring integral and the static residual are OBSERVATIONS (package's own uvw / solve output judged by the trace spec)",
        "tolerances: exact equality for partition book-keeping; 2^-40 of the shell's length scale for derived geometry; "
        "2^-38 of the term scale for calc_fext; 2^-30 of the row scale or 2^-44 of the system's norm scale (backward stability of the direct solve) for the static residual; pi enclosed within 1e-40",
        "prescribed sets other than those the API flags produce ({2},{0,2},{1,2},{0,1,2}) are exercised by setting the public "
        "list excluded_dofs directly; pdLA=False is refused by the package (NotImplementedError) and the module says so",
        "axial line load and displacement control are alternatives (pdC=True cases carry no Nxxtop/Fc); tLAdeg = 0",
        "object histories (ShellObject): a query after another query, after a change of one attribute, after calls on another "
        "object is judged as the answer of a fresh identical object; stiffness data (k0uk/k0uu) of both objects is recorded, the "
        "module decides which one a history uses; a call that raises inside a history is a refusal, not a verdict; histories "
        "whose forces leave the quarter-turn lattice (x = pL/2 after a change of L) are counted as not applicable",
        "a given Nxxtop ndarray is adopted by the object and its [0] / [2] are overwritten from Fc / MLA: not judged as a "
        "modification of the caller's container; every other container handed over must come back unchanged",
        "SPLA is run as it is (repaired upstream in c0ba97d); it completes only with Fc given and without pdC / fsdt pressure, "
        "otherwise the module says where it stops and what it leaves behind",
        "k0 of identical shells is computed once by the package and shared through the public attributes k0/k0uk/k0uu; "
        "harness calls gc.freeze() so that the package's gc.collect() calls stay cheap",
        "kernels (.pyx) are the extensions loaded; fsdt pressure is refused by the package (NotImplementedError), as the module says"]
    return rep.finish()


def replay(path, build):
    """re-execute the real call recorded in a replay file and judge it again with the trace specification"""
    warnings.filterwarnings("ignore")
    rp = json.load(open(path))["replay"]
    if "crashed_call" in rp:
        with contextlib.redirect_stdout(io.StringIO()):
            import compmech.conecyl                       # noqa: F401
            evs, crashes = isolated_excludes([dict(K=rp["crashed_call"]["K"], xs=rp["crashed_call"]["xs"])])
        if crashes:
            print("replay of %s: exclude_dofs_matrix killed the interpreter again (wait status %d)" % (path, crashes[0][1]))
            print("VIOLATION property=C18 replay=%s" % path)
            return 1
        evs[0]["judge"] = ["kuu", "kuk", "kku"]
        rp = dict(section="partition", event=evs[0])
    if "event" not in rp:
        print("replay: nothing executable in", path, "-", rp)
        return 2
    e, section = rp["event"], rp["section"]
    fr = lambda r: from_rat(r)
    o = lambda x: None if not x else from_rat(x[0])
    with contextlib.redirect_stdout(io.StringIO()):
        if e["kind"] == "exclude" and e["via"] == "attribute":
            new = part_exclude_event(0, [[undy(x) for x in row] for row in e["K"]], e["xs"], judge=e["judge"])
        elif e["kind"] == "exclude":
            new = None
            for cand in part_k0_events(0, "thorough", random.Random(0)):
                if cand["via"] == e["via"]:
                    new = cand
        elif e["kind"] == "fullc":
            new = part_fullc_event(0, e["size"], e["xs"], [fr(c) for c in e["cks"]], fr(e["inc"]), [fr(c) for c in e["cu"]])
        elif e["kind"] in ("rebuild", "fext"):
            nx = None
            if e["nxxIn"]:
                r = e["nxxIn"][0]
                nx = ("scalar", fr(r["v"])) if r["kind"] == "scalar" else ("array", [fr(x) for x in r["v"]])
            d = dict(geo={k: o(e["geo"][k]) for k in ("r1", "r2", "H", "L")}, s=fr(e["ang"]["s"]), c=fr(e["ang"]["c"]),
                     n2=e["n2"], Fc=o(e["Fc"]), nxxIn=nx, xiLA=o(e["xiLA"]), uTM=fr(e["uTM"]), thetaTdeg=fr(e["thetaTdeg"]),
                     tanBeta=fr(e["tanBeta"]), pdC=e["pdC"], pdT=e["pdT"], pdLA=e["pdLA"])
            if e["kind"] == "rebuild":
                new = geo_event(0, dict(d, nreb=e["nreb"]), expect=e["expect"])
            else:
                def fo(f):
                    g = dict(F=[fr(x) for x in f["F"]], x=fr(f["x"]), thetadeg=fr(f["thetadeg"]))
                    if "p" in f:
                        g.update(p=f["p"], q=f["q"])
                    return g
                d.update(model=e["model"], m1=e["m1"], m2=e["m2"], forces=[fo(f) for f in e["forces"]],
                         forcesInc=[fo(f) for f in e["forcesInc"]], P=fr(e["P"]), Pinc=fr(e["Pinc"]), T=fr(e["T"]), Tinc=fr(e["Tinc"]))
                kuk = [[undy(x) for x in row] for row in e["kuk"]] if e["custom_kuk"] else None
                new = load_event(0, d, fr(e["inc"]), kuk=kuk, observed=e["mode"] == "observed", pre=e["pre"])
        elif e["kind"] == "study":
            new = study_event(0, [step_unjson(x) for x in e["steps0"]], [step_unjson(x) for x in e["steps"]],
                              step_unjson(e["query"]), form=e.get("form", 0))
        elif e["kind"] == "spla":
            new = spla_event(0, [step_unjson(x) for x in e["steps0"]], [from_rat(v) for v in e["PLs"]])
        elif e["kind"] == "size":
            cc = new_cc("clpt_donnell_bc1", m1=e["m1"], m2=e["m2"], n2=e["n2"])
            cc.model = e["model"]
            new = dict(e, id=0, obs=int(cc.get_size()))
        elif e["kind"] == "static":
            s_, c_ = min(PYTH, key=lambda sc: abs(deg_of(*sc) - e["alphadeg"]))
            new = static_event(0, e["model"], s_, c_, random.Random(0))
        else:
            new = None
    if new is None:
        print("replay: cannot rebuild the call of", path)
        return 2
    module, cfg = TRACE_OF[section]
    verdicts, results, problems = validate_trace("c18-replay", module, cfg % "quick", [new], nproc=1, timeout=900)
    if problems:
        print("MACHINERY-ERROR C18 replay:", problems[0][:1500])
        return 2
    v = verdicts[0]
    print("replay of %s: verdict %s %s" % (path, v[0], v[1]))
    if v[0] in ("ok", "na"):
        return 0
    if v[0] == "kf":
        opened = [f["deviation"] for f in __import__("common").known_findings() if f["property"] == "C18" and f["status"] == "open"]
        if all(d in opened for d in v[1]):
            print("KNOWN-FINDING: property=C18 %s" % sorted(v[1]))
            return 0
        print("VIOLATION property=C18 replay=%s" % path)
        return 1
    if v[0].startswith("kf:") and v[0][3:] in [f["deviation"] for f in __import__("common").known_findings()
                                                 if f["property"] == "C18" and f["status"] == "open"]:
        print("KNOWN-FINDING: property=C18 [%s]" % v[0][3:])
        return 0
    print("VIOLATION property=C18 replay=%s" % path)
    return 1
