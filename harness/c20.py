"""C20 - results depend on the model definition only, not on call history or thread count
(DESIGN.md section 5, C20).

Part 1 (this half of the file): the laboratory that runs inside worker processes - object
kinds, the public calls as named methods, canonical result encoding, the attribute recorder.
Part 2: the decision procedure (TLC on Lifecycle/FieldChunks/IntegratePartition, replay of the
TLC-generated call paths, trace validation by Trace_Lifecycle)."""
import hashlib
import json
import os
import subprocess
import sys
import time

HERE = os.path.dirname(os.path.abspath(__file__))
if HERE not in sys.path:
    sys.path.insert(0, HERE)

# =========================================================================================
# Part 1: laboratory (imports compmech lazily; only used in worker processes)
# =========================================================================================

LAMINAPROP = (142.5e9, 8.7e9, 0.28, 5.1e9, 5.1e9, 5.1e9)
ARPACK = {"lb", "freq", "an_lb", "an_freq"}       # results that pass through ARPACK (random start vector)


def _np():
    import numpy
    return numpy


class Ctx:
    """per-object master copies of the caller-supplied arrays"""
    def __init__(self, **kw):
        self.__dict__.update(kw)

    def fresh(self, *names):
        return {n: getattr(self, n).copy() for n in names}


def _vec(n, scale=1e-4, phase=0.3):
    np = _np()
    k = np.arange(n, dtype=float)
    return scale * np.sin(0.7 * k + phase) * (1.0 + (k % 5) / 8.0)


def _panel(kind, **over):
    from compmech.panel import Panel
    kw = dict(a=2., b=1., stack=[0, 45, -45, 90], plyt=0.125e-3, laminaprop=LAMINAPROP, mu=1300.,
              m=4, n=5, offset=0.25e-3)
    if kind in ("CPanel", "KPanel"):
        kw["r"] = 10.
    if kind == "KPanel":
        kw["alphadeg"] = 5.
    kw.update(over)
    p = Panel(**kw)
    p.Nxx = -1.
    p.Nxy = 0.25
    p.nx = 6
    p.ny = 7
    p.u1tx = 1.
    p.u1ty = 1.
    p.u2ty = 1.
    p.forces_inc = [[kw["a"], kw["b"] / 2, 10., 0., 3.]]
    p.forces = [[kw["a"] / 4, kw["b"] / 4, 0., 0., 1.]]
    p.rho_air = 1.2
    p.Mach = 2.
    p.V = 700.
    p.speed_sound = 340.
    p.out_num_cores = 3
    p.ni_num_cores = 1
    p.num_eigvalues = 4
    return p


def build(kind):
    """fresh object of the kind + its context; nothing but definition statements is executed"""
    np = _np()
    if kind in ("Plate", "CPanel", "KPanel"):
        p = _panel(kind)
        n = 3 * p.m * p.n
        ctx = Ctx(c=_vec(n), xs=np.linspace(0, p.a, 7), ys=np.linspace(0, p.b, 7) ** 2,
                  Fnxny=None)
        return p, ctx
    if kind == "Assembly":
        from compmech.panel.assembly import PanelAssembly
        p1 = _panel("Plate", b=0.5, group="skin", y0=0.5)
        p2 = _panel("Plate", b=0.5, group="skin", y0=0., offset=-0.125e-3)
        for p in (p1, p2):
            p.u1tx = p.v1tx = p.w1tx = 0.
            p.u2tx = p.v2tx = p.w2tx = 0.
        p1.u1ty = p1.v1ty = p1.w1ty = 1.
        p1.u2ty = p1.v2ty = p1.w2ty = 0.
        p2.u1ty = p2.v1ty = p2.w1ty = 0.
        p2.u2ty = p2.v2ty = p2.w2ty = 1.
        conn = [dict(p1=p1, p2=p2, func="SSycte", ycte1=0., ycte2=p2.b)]
        conn2 = [dict(p1=p1, p2=p2, func="SSycte", ycte1=0., ycte2=p2.b),
                 dict(p1=p1, p2=p2, func="SSycte", ycte1=0., ycte2=p2.b)]
        assy = PanelAssembly([p1, p2], conn)
        assy.out_num_cores = 3
        n = sum(3 * p.m * p.n for p in (p1, p2))
        ctx = Ctx(c=_vec(n), conn2=conn2)
        return assy, ctx
    if kind.startswith("Bay"):
        from compmech.stiffpanelbay import StiffPanelBay
        spb = StiffPanelBay()
        spb.a = 1.
        spb.b = 0.5
        spb.stack = [0, 90, 90, 0]
        spb.plyt = 1e-3 * 0.125
        spb.laminaprop = LAMINAPROP
        spb.mu = 1.3e3
        spb.m = 5
        spb.n = 6
        spb.rho_air = 1.2
        spb.Mach = 2.
        spb.V = 700.
        spb.speed_sound = 340.
        spb.out_num_cores = 3
        spb.add_panel(y1=0, y2=spb.b / 2., plyt=spb.plyt, Nxx=-1.)
        spb.add_panel(y1=spb.b / 2., y2=spb.b, plyt=spb.plyt, Nxx=-1.)
        if kind == "BayB1":
            spb.add_bladestiff1d(ys=spb.b / 2., Fx=-10., bf=0.05, fstack=[0, 90, 90, 0],
                                 fplyt=spb.plyt, flaminaprop=spb.laminaprop, mu=spb.mu)
        elif kind == "BayB1b":
            spb.add_bladestiff1d(ys=spb.b / 2., Fx=-10., bf=0.05, fstack=[0, 90, 90, 0],
                                 fplyt=spb.plyt, flaminaprop=spb.laminaprop, mu=spb.mu,
                                 bb=0.1, bstack=[0, 90], bplyt=spb.plyt, blaminaprop=spb.laminaprop)
        elif kind == "BayB2":
            spb.add_bladestiff2d(ys=spb.b / 2., bf=0.05, fstack=[0, 90, 90, 0], fplyt=spb.plyt,
                                 flaminaprop=spb.laminaprop, mu=spb.mu, mf=4, nf=3,
                                 bb=0.1, bstack=[0, 90], bplyt=spb.plyt, blaminaprop=spb.laminaprop)
        elif kind == "BayT2":
            spb.add_tstiff2d(ys=spb.b / 2., bf=0.05, bb=0.1, fstack=[0, 90, 90, 0], fplyt=spb.plyt,
                             flaminaprop=spb.laminaprop, bstack=[0, 90], bplyt=spb.plyt,
                             blaminaprop=spb.laminaprop, mb=4, nb=3, mf=4, nf=3, mu=spb.mu)
        elif kind != "BayPlain":
            raise KeyError(kind)
        n = 3 * spb.m * spb.n
        for s in spb.bladestiff2ds:
            n += 3 * s.flange.m * s.flange.n
        for s in spb.tstiff2ds:
            n += 3 * s.flange.m * s.flange.n + 3 * s.base.m * s.base.n
        ctx = Ctx(c=_vec(n), xs=np.linspace(0, spb.a, 7), ys=np.linspace(0, spb.b, 7) ** 2 * 2)
        return spb, ctx
    if kind in ("Cyl", "Cone"):
        from compmech.conecyl import ConeCyl
        cc = ConeCyl()
        cc.model = "clpt_donnell_bc1"
        cc.m1 = 8
        cc.m2 = 4
        cc.n2 = 5
        cc.nx = 16
        cc.nt = 20
        cc.name = "Z33"
        cc.laminaprop = (123.55e3, 8.708e3, 0.319, 5.695e3, 5.695e3, 5.695e3)
        cc.stack = [0, 0, 19, -19, 37, -37, 45, -45, 51, -51]
        cc.plyt = 0.125
        cc.r2 = 250.
        if kind == "Cone":
            cc.alphadeg = 10.           # defined through L: nothing but alpharad/sina/cosa is derived lazily
            cc.L = 500.
        else:
            cc.H = 510.
        cc.Fc = 1000.
        cc.num_eigvalues = 4
        cc.ni_num_cores = 1
        cc.out_num_cores = 3
        cc.forces = [[0.5 * 510., 0., 0., 0., -10.]]
        cc.forces_inc = [[0., 0.5, -15., 0., 0.], [0., 2.0, -15., 0., 0.]]
        cc.analysis.initialInc = 0.5
        n = 3 + 3 * cc.m1 + 6 * cc.m2 * cc.n2
        ctx = Ctx(c=_vec(n, 1e-3), xs=np.linspace(0, 500., 7), ts=np.linspace(-3, 3, 7))
        return cc, ctx
    raise KeyError(kind)


def _close_figs():
    import matplotlib.pyplot as plt
    plt.close("all")


def _plot_result(ax):
    """what a contour plot shows: the data limits of the axes (levels are derived from the field)"""
    r = ax[0] if isinstance(ax, tuple) else ax
    lim = [float(v) for v in (r.dataLim.x0, r.dataLim.y0, r.dataLim.x1, r.dataLim.y1)]
    extra = ax[1] if isinstance(ax, tuple) else None
    _close_figs()
    return [lim, extra]


def methods(kind):
    """name -> (callable(obj, ctx, arrays) -> result, names of the caller arrays it receives)"""
    np = _np()
    M = {}
    if kind in ("Plate", "CPanel", "KPanel"):
        M["calc_k0"] = (lambda o, x, a: o.calc_k0(silent=True), ())
        M["calc_kG0"] = (lambda o, x, a: o.calc_kG0(silent=True), ())
        M["calc_kM"] = (lambda o, x, a: o.calc_kM(silent=True), ())
        M["calc_fext"] = (lambda o, x, a: o.calc_fext(silent=True), ())
        M["lb"] = (lambda o, x, a: (o.lb(silent=True), o.eigvals)[1], ())
        M["lb_dense"] = (lambda o, x, a: (o.lb(silent=True, sparse_solver=False), o.eigvals, o.eigvecs)[1:], ())
        M["freq"] = (lambda o, x, a: (o.freq(silent=True), o.eigvals)[1], ())
        M["freq_dense"] = (lambda o, x, a: (o.freq(silent=True, sparse_solver=False), o.eigvals, o.eigvecs)[1:], ())
        M["static"] = (lambda o, x, a: o.static(silent=True), ())
        M["uvw"] = (lambda o, x, a: o.uvw(a["c"], xs=a["xs"], ys=a["ys"]), ("c", "xs", "ys"))
        M["plot"] = (lambda o, x, a: _plot_result(o.plot(a["c"], save=False, gridx=5, gridy=4)), ("c",))
        if kind != "KPanel":
            M["calc_k0_c"] = (lambda o, x, a: o.calc_k0(silent=True, c=a["c"], NLgeom=True), ("c",))
            M["calc_kG0_c"] = (lambda o, x, a: o.calc_kG0(silent=True, c=a["c"], NLgeom=True), ("c",))
            M["calc_kT_c"] = (lambda o, x, a: o.calc_kT(silent=True, c=a["c"]), ("c",))
            M["calc_kA"] = (lambda o, x, a: o.calc_kA(silent=True), ())
            M["calc_cA"] = (lambda o, x, a: (o.calc_cA(0.125, silent=True), o.cA)[1], ())
            M["calc_fint"] = (lambda o, x, a: o.calc_fint(a["c"], silent=True), ("c",))
            M["static_NL"] = (lambda o, x, a: o.static(silent=True, NLgeom=True), ())
            M["strain"] = (lambda o, x, a: o.strain(a["c"], xs=a["xs"], ys=a["ys"]), ("c", "xs", "ys"))
            M["stress"] = (lambda o, x, a: o.stress(a["c"], xs=a["xs"], ys=a["ys"]), ("c", "xs", "ys"))
        return M
    if kind == "Assembly":
        M["calc_k0"] = (lambda o, x, a: o.calc_k0(silent=True), ())
        M["calc_k0_c"] = (lambda o, x, a: o.calc_k0(silent=True, c=a["c"]), ("c",))
        M["calc_kG0"] = (lambda o, x, a: o.calc_kG0(silent=True), ())
        M["calc_kG0_c"] = (lambda o, x, a: o.calc_kG0(silent=True, c=a["c"]), ("c",))
        M["calc_kM"] = (lambda o, x, a: o.calc_kM(silent=True), ())
        M["calc_kT_c"] = (lambda o, x, a: o.calc_kT(c=a["c"], silent=True), ("c",))
        M["calc_fint"] = (lambda o, x, a: o.calc_fint(a["c"], silent=True), ("c",))
        M["calc_fext"] = (lambda o, x, a: o.calc_fext(silent=True), ())
        M["get_k0_conn"] = (lambda o, x, a: o.get_k0_conn(), ())
        M["get_k0_conn_arg"] = (lambda o, x, a: o.get_k0_conn(conn=x.conn2), ())
        M["uvw"] = (lambda o, x, a: o.uvw(a["c"], "skin", gridx=5, gridy=4), ("c",))
        M["strain"] = (lambda o, x, a: o.strain(a["c"], "skin", gridx=5, gridy=4), ("c",))
        M["stress"] = (lambda o, x, a: o.stress(a["c"], "skin", gridx=5, gridy=4), ("c",))
        M["plot"] = (lambda o, x, a: _plot_result(o.plot(a["c"], "skin", save=False, gridx=5, gridy=4)), ("c",))
        return M
    if kind.startswith("Bay"):
        import compmech.analysis as an

        def solver(a, fn, A, B, **kw):
            """hand matrices A, B to a stand-alone solver; they are caller data: hashed before/after"""
            h0 = (digest(A), digest(B))
            r = fn(A, B, silent=True, **kw)
            a["_solver_same"] = (h0 == (digest(A), digest(B)))
            return r

        def an_lb(o, x, a):
            return solver(a, an.lb, o.calc_k0(silent=True), o.calc_kG0(silent=True), num_eigvalues=4)[0]

        def an_freq(o, x, a):
            return solver(a, an.freq, o.calc_k0(silent=True), o.calc_kM(silent=True), num_eigvalues=4)[0]

        def an_static(o, x, a):
            return solver(a, an.static, o.calc_k0(silent=True), o.calc_fext(silent=True))

        M["calc_k0"] = (lambda o, x, a: o.calc_k0(silent=True), ())
        M["calc_kG0"] = (lambda o, x, a: o.calc_kG0(silent=True), ())
        M["calc_kM"] = (lambda o, x, a: o.calc_kM(silent=True), ())
        M["calc_kA"] = (lambda o, x, a: o.calc_kA(silent=True), ())
        M["calc_cA"] = (lambda o, x, a: o.calc_cA(silent=True), ())
        M["calc_fext"] = (lambda o, x, a: o.calc_fext(silent=True), ())
        M["uvw_skin"] = (lambda o, x, a: o.uvw_skin(a["c"], xs=a["xs"], ys=a["ys"]), ("c", "xs", "ys"))
        M["an_lb"] = (an_lb, ())
        M["an_freq"] = (an_freq, ())
        M["an_static"] = (an_static, ())
        if kind in ("BayB2", "BayT2"):
            M["uvw_stiffener"] = (lambda o, x, a: o.uvw_stiffener(a["c"], 0, region="flange", gridx=5, gridy=4), ("c",))
        return M
    if kind in ("Cyl", "Cone"):
        M["calc_k0"] = (lambda o, x, a: o.calc_k0(silent=True), ())
        M["calc_kT"] = (lambda o, x, a: o.calc_kT(a["c"], silent=True), ("c",))
        M["calc_fext"] = (lambda o, x, a: o.calc_fext(silent=True), ())
        M["calc_fint"] = (lambda o, x, a: o.calc_fint(a["c"], silent=True), ("c",))
        M["lb"] = (lambda o, x, a: (o.lb(), o.eigvals)[1], ())
        M["static"] = (lambda o, x, a: o.static(silent=True), ())
        M["uvw"] = (lambda o, x, a: o.uvw(a["c"], xs=a["xs"], ts=a["ts"]), ("c", "xs", "ts"))
        M["strain"] = (lambda o, x, a: o.strain(a["c"], xs=a["xs"], ts=a["ts"]), ("c", "xs", "ts"))
        M["stress"] = (lambda o, x, a: o.stress(a["c"], xs=a["xs"], ts=a["ts"]), ("c", "xs", "ts"))
        return M
    raise KeyError(kind)


# ---------------------------------------------------------------------------- canonical form

def canon(r, out):
    """append a canonical byte encoding of result r to list `out` (sparse -> sorted COO with
    explicit zeros dropped, arrays -> dtype/shape/bytes, containers recursively)"""
    np = _np()
    import scipy.sparse as sp
    if r is None:
        out.append(b"N")
    elif sp.issparse(r):
        m = sp.coo_matrix(r)
        m.sum_duplicates()
        keep = m.data != 0
        row, col, dat = m.row[keep], m.col[keep], m.data[keep]
        o = np.lexsort((col, row))
        out.append(b"S%d,%d,%s;" % (m.shape[0], m.shape[1], str(dat.dtype).encode()))
        out.append(np.ascontiguousarray(row[o], dtype=np.int64).tobytes())
        out.append(np.ascontiguousarray(col[o], dtype=np.int64).tobytes())
        out.append(np.ascontiguousarray(dat[o]).tobytes())
    elif isinstance(r, np.ndarray):
        out.append(b"A%s;%s;" % (str(r.dtype).encode(), str(r.shape).encode()))
        out.append(np.ascontiguousarray(r).tobytes())
    elif isinstance(r, dict):
        out.append(b"D%d;" % len(r))
        for k in sorted(r):
            out.append(str(k).encode() + b"=")
            canon(r[k], out)
    elif isinstance(r, (list, tuple)):
        out.append(b"L%d;" % len(r))
        for v in r:
            canon(v, out)
    elif isinstance(r, (float, np.floating)):
        out.append(b"F" + np.float64(r).tobytes())
    elif isinstance(r, (complex, np.complexfloating)):
        out.append(b"C" + np.complex128(r).tobytes())
    elif isinstance(r, (int, np.integer, bool, str)):
        out.append(b"I" + str(r).encode() + b";")
    else:
        try:
            arr = np.asarray(r)         # typed memoryviews returned by the Cython kernels
        except Exception:
            arr = None
        if arr is None or arr.dtype == object:
            raise TypeError("no canonical form for %r" % type(r))
        canon(arr, out)


def digest(r):
    out = []
    canon(r, out)
    return hashlib.sha256(b"".join(out)).hexdigest()[:24]


def eig_values(r):
    """sorted (real, imag) pairs of an eigenvalue result, for comparison at solver precision"""
    np = _np()
    v = np.asarray(r[0] if isinstance(r, (tuple, list)) else r).ravel()
    v = np.asarray(v, dtype=complex)
    return sorted((float(z.real), float(z.imag)) for z in v)


# ---------------------------------------------------------------------------- recorder

class Recorder:
    """logs reads/writes of data attributes of the compmech objects through class-level
    __getattribute__/__setattr__ wrappers installed at run time (nothing is changed in /repo)"""

    def __init__(self):
        self.roles = {}
        self.keep = []          # keeps registered objects alive so that ids stay unique
        self.log = None
        self.installed = False

    def classes(self):
        from compmech.panel import Panel
        from compmech.panel.assembly import PanelAssembly
        from compmech.stiffpanelbay import StiffPanelBay
        from compmech.stiffener import BladeStiff1D, BladeStiff2D, TStiff2D
        from compmech.conecyl import ConeCyl
        from compmech.analysis import Analysis
        return Panel, PanelAssembly, StiffPanelBay, BladeStiff1D, BladeStiff2D, TStiff2D, ConeCyl, Analysis

    def install(self):
        if self.installed:
            return
        self.installed = True
        rec = self
        for cls in self.classes():
            def make(cls):
                base_get = object.__getattribute__
                base_set = object.__setattr__

                def __getattribute__(self, name):
                    log = rec.log
                    if log is None:
                        return base_get(self, name)
                    try:
                        v = base_get(self, name)
                    except AttributeError:
                        role = rec.roles.get(id(self))
                        if role is not None and not name.startswith("__"):
                            log.append((role, name, "r"))
                        raise
                    if not callable(v) or isinstance(v, type(None)):
                        role = rec.roles.get(id(self))
                        if role is not None and not name.startswith("__"):
                            log.append((role, name, "r"))
                    return v

                def __setattr__(self, name, value):
                    log = rec.log
                    if log is not None:
                        role = rec.roles.get(id(self))
                        if role is not None:
                            log.append((role, name, "w"))
                            if name in ("base", "flange") and value is not None and id(value) not in rec.roles:
                                rec.register(value, name)
                    base_set(self, name, value)

                cls.__getattribute__ = __getattribute__
                cls.__setattr__ = __setattr__
            make(cls)

    def register(self, obj, role):
        self.roles[id(obj)] = role
        self.keep.append(obj)

    def register_tree(self, obj):
        """top object -> role '', its panels 'p', stiffeners 's', their panels 'base'/'flange'"""
        self.roles.clear()
        del self.keep[:]
        self.register(obj, "")
        g = object.__getattribute__
        d = getattr(obj, "__dict__", {})
        an = d.get("analysis") if d else None
        if an is None and hasattr(type(obj), "__slots__"):
            an = g(obj, "analysis")
        if an is not None:
            self.register(an, "an")
        for p in d.get("panels", []) or []:
            self.register(p, "p")
            self.register(p.__dict__["analysis"], "p.an")
        for s in d.get("stiffeners", []) or []:
            self.register(s, "s")
            for nm in ("base", "flange"):
                q = s.__dict__.get(nm)
                if q is not None:
                    self.register(q, nm)

    def start(self):
        self.log = []

    def stop(self):
        log, self.log = self.log, None
        reads, writes, rbw = set(), set(), set()
        for role, name, kind in log:
            key = (role, name)
            if kind == "w":
                writes.add(key)
            else:
                reads.add(key)
                if key not in writes:
                    rbw.add(key)
        return reads, writes, rbw


REC = Recorder()


def exc_sig(e):
    msg = " ".join(str(e).split())
    return type(e).__name__, msg[:40]


class Lab:
    """one object of a kind with the bookkeeping needed to call its methods observably"""

    def __init__(self, kind, record=False):
        self.kind = kind
        self.obj, self.ctx = build(kind)
        self.meth = methods(kind)
        self.record = record
        if record:
            REC.install()
            REC.register_tree(self.obj)

    def call(self, m):
        """-> dict(out='ok'|'exc', h=digest, etype, emsg, args_same, eig, reads, writes, rbw)"""
        np = _np()
        f, touch = self.meth[m]
        arrays = self.ctx.fresh(*touch)
        before = {k: digest(v) for k, v in arrays.items()}
        res = dict(m=m, out="ok", h="", etype="", emsg="", args_same=True, eig=None,
                   reads=[], writes=[], rbw=[])
        if self.record:
            REC.start()
        try:
            r = f(self.obj, self.ctx, arrays)
            res["h"] = digest(r)
            if m in ARPACK:
                res["eig"] = eig_values(r)
        except Exception as e:          # noqa - every failure of the call under test is an observation
            res["out"] = "exc"
            res["etype"], res["emsg"] = exc_sig(e)
        finally:
            if self.record:
                reads, writes, rbw = REC.stop()
                res["reads"], res["writes"], res["rbw"] = sorted(reads), sorted(writes), sorted(rbw)
        solver_same = arrays.pop("_solver_same", True)
        after = {k: digest(v) for k, v in arrays.items()}
        res["args_same"] = (after == before) and solver_same
        try:
            _close_figs()
        except Exception:
            pass
        return res
