"""C20 - results depend on the model definition only, not on call history or thread count
(DESIGN.md section 5, C20).

Part 1 (this half of the file): the laboratory that runs inside worker processes - object
kinds, the public calls as named methods, canonical result encoding, the attribute recorder.
Part 2: the decision procedure (TLC on Lifecycle/FieldChunks/IntegratePartition, replay of the
TLC-generated call paths, trace validation by Trace_Lifecycle)."""
import hashlib
import json
import os
import subprocess
import sys
import time

HERE = os.path.dirname(os.path.abspath(__file__))
if HERE not in sys.path:
    sys.path.insert(0, HERE)

# =========================================================================================
# Part 1: laboratory (imports compmech lazily; only used in worker processes)
# =========================================================================================

LAMINAPROP = (142.5e9, 8.7e9, 0.28, 5.1e9, 5.1e9, 5.1e9)
LAMINAPROP_TWIN = (71.e9, 9.5e9, 0.31, 4.2e9, 4.2e9, 4.2e9)     # the twin object: same lay-up, another material
_MAT = [LAMINAPROP]
REDEF = {"redef_preload": "preload", "redef_lam": "lam"}
ARPACK = {"lb", "freq", "an_lb", "an_freq"}       # results that pass through ARPACK (random start vector)
NREF = 5                                          # reference runs that define the solver's own spread


def _np():
    import numpy
    return numpy


class Ctx:
    """per-object master copies of the caller-supplied arrays"""
    def __init__(self, **kw):
        self.__dict__.update(kw)

    def fresh(self, names, form="contiguous"):
        """caller arrays in one of the forms the API accepts: a contiguous float64 array, a strided view
        (every second element of a larger buffer), a read-only array; the values are always the same"""
        np = _np()
        out = {}
        for n in names:
            v = getattr(self, n).copy()
            if form == "strided" and v.ndim == 1:
                big = np.full(2 * v.shape[0], 7.5)
                big[::2] = v
                v = big[::2]
            elif form == "readonly":
                v.setflags(write=False)
            out[n] = v
        return out


def _vec(n, scale=1e-4, phase=0.3):
    np = _np()
    k = np.arange(n, dtype=float)
    return scale * np.sin(0.7 * k + phase) * (1.0 + (k % 5) / 8.0)


def _panel(kind, **over):
    from compmech.panel import Panel
    kw = dict(a=2., b=1., stack=[0, 45, -45, 90], plyt=0.125e-3, laminaprop=_MAT[0], mu=1300.,
              m=4, n=5, offset=0.25e-3)
    if kind in ("CPanel", "KPanel"):
        kw["r"] = 10.
    if kind == "KPanel":
        kw["alphadeg"] = 5.
    kw.update(over)
    p = Panel(**kw)
    p.Nxx = -1.
    p.Nxy = 0.25
    p.nx = 6
    p.ny = 7
    p.u1tx = 1.
    p.u1ty = 1.
    p.u2ty = 1.
    p.forces_inc = [[kw["a"], kw["b"] / 2, 10., 0., 3.]]
    p.forces = [[kw["a"] / 4, kw["b"] / 4, 0., 0., 1.]]
    p.rho_air = 1.2
    p.Mach = 2.
    p.V = 700.
    p.speed_sound = 340.
    p.out_num_cores = 3
    p.ni_num_cores = 1
    p.num_eigvalues = 4
    return p


def build(kind, variant=None):
    """fresh object of the kind + its context; nothing but definition statements is executed.
    variant "material": the twin definition (everything alike except the lamina properties)"""
    _MAT[0] = LAMINAPROP_TWIN if variant == "material" else LAMINAPROP
    try:
        return _build(kind)
    finally:
        _MAT[0] = LAMINAPROP


def _build(kind):
    np = _np()
    if kind in ("Plate", "PlateRedef", "CPanel", "KPanel"):
        p = _panel("Plate" if kind == "PlateRedef" else kind)
        n = 3 * p.m * p.n
        ctx = Ctx(c=_vec(n), xs=np.linspace(0, p.a, 7), ys=np.linspace(0, p.b, 7) ** 2,
                  Fnxny=None)
        return p, ctx
    if kind == "Assembly":
        from compmech.panel.assembly import PanelAssembly
        p1 = _panel("Plate", b=0.5, group="skin", y0=0.5)
        p2 = _panel("Plate", b=0.5, group="skin", y0=0., offset=-0.125e-3)
        for p in (p1, p2):
            p.u1tx = p.v1tx = p.w1tx = 0.
            p.u2tx = p.v2tx = p.w2tx = 0.
        p1.u1ty = p1.v1ty = p1.w1ty = 1.
        p1.u2ty = p1.v2ty = p1.w2ty = 0.
        p2.u1ty = p2.v1ty = p2.w1ty = 0.
        p2.u2ty = p2.v2ty = p2.w2ty = 1.
        conn = [dict(p1=p1, p2=p2, func="SSycte", ycte1=0., ycte2=p2.b)]
        conn2 = [dict(p1=p1, p2=p2, func="SSycte", ycte1=0., ycte2=p2.b),
                 dict(p1=p1, p2=p2, func="SSycte", ycte1=0., ycte2=p2.b)]
        assy = PanelAssembly([p1, p2], conn)
        assy.out_num_cores = 3
        n = sum(3 * p.m * p.n for p in (p1, p2))
        ctx = Ctx(c=_vec(n), conn2=conn2)
        return assy, ctx
    if kind.startswith("Bay"):
        from compmech.stiffpanelbay import StiffPanelBay
        spb = StiffPanelBay()
        spb.a = 1.
        spb.b = 0.5
        spb.stack = [0, 90, 90, 0]
        spb.plyt = 1e-3 * 0.125
        spb.laminaprop = _MAT[0]
        spb.mu = 1.3e3
        spb.m = 5
        spb.n = 6
        spb.rho_air = 1.2
        spb.Mach = 2.
        spb.V = 700.
        spb.speed_sound = 340.
        spb.out_num_cores = 3
        spb.add_panel(y1=0, y2=spb.b / 2., plyt=spb.plyt, Nxx=-1.)
        spb.add_panel(y1=spb.b / 2., y2=spb.b, plyt=spb.plyt, Nxx=-1.)
        if kind == "BayB1":
            spb.add_bladestiff1d(ys=spb.b / 2., Fx=-10., bf=0.05, fstack=[0, 90, 90, 0],
                                 fplyt=spb.plyt, flaminaprop=spb.laminaprop, mu=spb.mu)
        elif kind == "BayB1b":
            spb.add_bladestiff1d(ys=spb.b / 2., Fx=-10., bf=0.05, fstack=[0, 90, 90, 0],
                                 fplyt=spb.plyt, flaminaprop=spb.laminaprop, mu=spb.mu,
                                 bb=0.1, bstack=[0, 90], bplyt=spb.plyt, blaminaprop=spb.laminaprop)
        elif kind == "BayB2":
            spb.add_bladestiff2d(ys=spb.b / 2., bf=0.05, fstack=[0, 90, 90, 0], fplyt=spb.plyt,
                                 flaminaprop=spb.laminaprop, mu=spb.mu, mf=4, nf=3,
                                 bb=0.1, bstack=[0, 90], bplyt=spb.plyt, blaminaprop=spb.laminaprop)
        elif kind == "BayT2":
            spb.add_tstiff2d(ys=spb.b / 2., bf=0.05, bb=0.1, fstack=[0, 90, 90, 0], fplyt=spb.plyt,
                             flaminaprop=spb.laminaprop, bstack=[0, 90], bplyt=spb.plyt,
                             blaminaprop=spb.laminaprop, mb=4, nb=3, mf=4, nf=3, mu=spb.mu)
        elif kind == "BayBeta":              # aerodynamic pressure parameter given directly instead of Mach
            spb.Mach = None
            spb.beta = 1.5e5
            spb.gamma = 0.
        elif kind != "BayPlain":
            raise KeyError(kind)
        n = 3 * spb.m * spb.n
        for s in spb.bladestiff2ds:
            n += 3 * s.flange.m * s.flange.n
        for s in spb.tstiff2ds:
            n += 3 * s.flange.m * s.flange.n + 3 * s.base.m * s.base.n
        ctx = Ctx(c=_vec(n), xs=np.linspace(0, spb.a, 7), ys=np.linspace(0, spb.b, 7) ** 2 * 2)
        return spb, ctx
    if kind in ("Cyl", "Cone"):
        from compmech.conecyl import ConeCyl
        cc = ConeCyl()
        cc.model = "clpt_donnell_bc1"
        cc.m1 = 8
        cc.m2 = 4
        cc.n2 = 5
        cc.nx = 16
        cc.nt = 20
        cc.name = "Z33"
        cc.laminaprop = (123.55e3, 8.708e3, 0.319, 5.695e3, 5.695e3, 5.695e3) if _MAT[0] is LAMINAPROP else \
            (61.e3, 9.5e3, 0.3, 4.2e3, 4.2e3, 4.2e3)
        cc.stack = [0, 0, 19, -19, 37, -37, 45, -45, 51, -51]
        cc.plyt = 0.125
        cc.r2 = 250.
        if kind == "Cone":
            cc.alphadeg = 10.           # defined through L: nothing but alpharad/sina/cosa is derived lazily
            cc.L = 500.
        else:
            cc.H = 510.
        cc.Fc = 1000.
        cc.num_eigvalues = 4
        cc.ni_num_cores = 1
        cc.out_num_cores = 3
        cc.forces = [[0.5 * 510., 0., 0., 0., -10.]]
        cc.forces_inc = [[0., 0.5, -15., 0., 0.], [0., 2.0, -15., 0., 0.]]
        cc.analysis.initialInc = 0.5
        n = 3 + 3 * cc.m1 + 6 * cc.m2 * cc.n2
        ctx = Ctx(c=_vec(n, 1e-3), xs=np.linspace(0, 500., 7), ts=np.linspace(-3, 3, 7))
        return cc, ctx
    raise KeyError(kind)


def _close_figs():
    import matplotlib.pyplot as plt
    plt.close("all")


def _plot_result(ax):
    """what a contour plot shows: the data limits of the axes (levels are derived from the field)"""
    r = ax[0] if isinstance(ax, tuple) else ax
    lim = [float(v) for v in (r.dataLim.x0, r.dataLim.y0, r.dataLim.x1, r.dataLim.y1)]
    extra = ax[1] if isinstance(ax, tuple) else None
    _close_figs()
    return [lim, extra]


def methods(kind):
    """name -> (callable(obj, ctx, arrays) -> result, names of the caller arrays it receives)"""
    np = _np()
    M = {}
    if kind in ("Plate", "PlateRedef", "CPanel", "KPanel"):
        def redef_preload(o, x, a):
            o.Nxx_cte = 250.

        def redef_lam(o, x, a):
            o.plyt = 0.15e-3
            o.laminaprop = LAMINAPROP_TWIN

        if kind == "PlateRedef":
            M["redef_preload"] = (redef_preload, ())
            M["redef_lam"] = (redef_lam, ())
        M["calc_k0"] = (lambda o, x, a: o.calc_k0(silent=True), ())
        M["calc_kG0"] = (lambda o, x, a: o.calc_kG0(silent=True), ())
        M["calc_kM"] = (lambda o, x, a: o.calc_kM(silent=True), ())
        M["calc_fext"] = (lambda o, x, a: o.calc_fext(silent=True), ())
        M["lb"] = (lambda o, x, a: (o.lb(silent=True), o.eigvals)[1], ())
        M["lb_dense"] = (lambda o, x, a: (o.lb(silent=True, sparse_solver=False), o.eigvals, o.eigvecs)[1:], ())
        M["freq"] = (lambda o, x, a: (o.freq(silent=True), o.eigvals)[1], ())
        M["freq_dense"] = (lambda o, x, a: (o.freq(silent=True, sparse_solver=False), o.eigvals, o.eigvecs)[1:], ())
        M["static"] = (lambda o, x, a: o.static(silent=True), ())
        M["uvw"] = (lambda o, x, a: o.uvw(a["c"], xs=a["xs"], ys=a["ys"]), ("c", "xs", "ys"))
        M["plot"] = (lambda o, x, a: _plot_result(o.plot(a["c"], save=False, gridx=5, gridy=4)), ("c",))
        if kind != "KPanel":
            M["calc_k0_c"] = (lambda o, x, a: o.calc_k0(silent=True, c=a["c"], NLgeom=True), ("c",))
            M["calc_kG0_c"] = (lambda o, x, a: o.calc_kG0(silent=True, c=a["c"], NLgeom=True), ("c",))
            M["calc_kT_c"] = (lambda o, x, a: o.calc_kT(silent=True, c=a["c"]), ("c",))
            M["calc_kA"] = (lambda o, x, a: o.calc_kA(silent=True), ())
            M["calc_cA"] = (lambda o, x, a: (o.calc_cA(0.125, silent=True), o.cA)[1], ())
            M["calc_fint"] = (lambda o, x, a: o.calc_fint(a["c"], silent=True), ("c",))
            M["static_NL"] = (lambda o, x, a: o.static(silent=True, NLgeom=True), ())
            M["strain"] = (lambda o, x, a: o.strain(a["c"], xs=a["xs"], ys=a["ys"]), ("c", "xs", "ys"))
            M["stress"] = (lambda o, x, a: o.stress(a["c"], xs=a["xs"], ys=a["ys"]), ("c", "xs", "ys"))
        return M
    if kind == "Assembly":
        M["calc_k0"] = (lambda o, x, a: o.calc_k0(silent=True), ())
        M["calc_k0_c"] = (lambda o, x, a: o.calc_k0(silent=True, c=a["c"]), ("c",))
        M["calc_kG0"] = (lambda o, x, a: o.calc_kG0(silent=True), ())
        M["calc_kG0_c"] = (lambda o, x, a: o.calc_kG0(silent=True, c=a["c"]), ("c",))
        M["calc_kM"] = (lambda o, x, a: o.calc_kM(silent=True), ())
        M["calc_kT_c"] = (lambda o, x, a: o.calc_kT(c=a["c"], silent=True), ("c",))
        M["calc_fint"] = (lambda o, x, a: o.calc_fint(a["c"], silent=True), ("c",))
        M["calc_fext"] = (lambda o, x, a: o.calc_fext(silent=True), ())
        M["get_k0_conn"] = (lambda o, x, a: o.get_k0_conn(), ())
        M["get_k0_conn_arg"] = (lambda o, x, a: o.get_k0_conn(conn=x.conn2), ())
        # reference prelude only (not a method of the specification): laminates of the panels with their offsets
        M["_panels_k0"] = (lambda o, x, a: [p.calc_k0(silent=True) for p in o.panels][-1], ())
        M["uvw"] = (lambda o, x, a: o.uvw(a["c"], "skin", gridx=5, gridy=4), ("c",))
        M["strain"] = (lambda o, x, a: o.strain(a["c"], "skin", gridx=5, gridy=4), ("c",))
        M["stress"] = (lambda o, x, a: o.stress(a["c"], "skin", gridx=5, gridy=4), ("c",))
        M["plot"] = (lambda o, x, a: _plot_result(o.plot(a["c"], "skin", save=False, gridx=5, gridy=4)), ("c",))
        M["p1_lb_dense"] = (lambda o, x, a: (o.panels[0].lb(silent=True, sparse_solver=False), o.panels[0].eigvals,
                                             o.panels[0].eigvecs)[1:], ())
        return M
    if kind.startswith("Bay"):
        import compmech.analysis as an

        def solver(a, fn, A, B, **kw):
            """hand matrices A, B to a stand-alone solver; they are caller data: hashed before/after"""
            h0 = (digest(A), digest(B))
            r = fn(A, B, silent=True, **kw)
            a["_solver_same"] = (h0 == (digest(A), digest(B)))
            return r

        def an_lb(o, x, a):
            return solver(a, an.lb, o.calc_k0(silent=True), o.calc_kG0(silent=True), num_eigvalues=4)[0]

        def an_freq(o, x, a):
            return solver(a, an.freq, o.calc_k0(silent=True), o.calc_kM(silent=True), num_eigvalues=4)[0]

        def an_static(o, x, a):
            return solver(a, an.static, o.calc_k0(silent=True), o.calc_fext(silent=True))

        M["calc_k0"] = (lambda o, x, a: o.calc_k0(silent=True), ())
        M["calc_kG0"] = (lambda o, x, a: o.calc_kG0(silent=True), ())
        M["calc_kM"] = (lambda o, x, a: o.calc_kM(silent=True), ())
        M["calc_kA"] = (lambda o, x, a: o.calc_kA(silent=True), ())
        M["calc_cA"] = (lambda o, x, a: o.calc_cA(silent=True), ())
        M["calc_fext"] = (lambda o, x, a: o.calc_fext(silent=True), ())
        M["uvw_skin"] = (lambda o, x, a: o.uvw_skin(a["c"], xs=a["xs"], ys=a["ys"]), ("c", "xs", "ys"))
        M["an_lb"] = (an_lb, ())
        M["an_freq"] = (an_freq, ())
        M["an_static"] = (an_static, ())
        if kind in ("BayB2", "BayT2"):
            M["uvw_stiffener"] = (lambda o, x, a: o.uvw_stiffener(a["c"], 0, region="flange", gridx=5, gridy=4), ("c",))
        return M
    if kind in ("Cyl", "Cone"):
        M["calc_k0"] = (lambda o, x, a: o.calc_k0(silent=True), ())
        M["calc_kT"] = (lambda o, x, a: o.calc_kT(a["c"], silent=True), ("c",))
        M["calc_fext"] = (lambda o, x, a: o.calc_fext(silent=True), ())
        M["calc_fint"] = (lambda o, x, a: o.calc_fint(a["c"], silent=True), ("c",))
        M["lb"] = (lambda o, x, a: (o.lb(), o.eigvals)[1], ())
        M["static"] = (lambda o, x, a: o.static(silent=True), ())
        M["uvw"] = (lambda o, x, a: o.uvw(a["c"], xs=a["xs"], ts=a["ts"]), ("c", "xs", "ts"))
        M["strain"] = (lambda o, x, a: o.strain(a["c"], xs=a["xs"], ts=a["ts"]), ("c", "xs", "ts"))
        M["stress"] = (lambda o, x, a: o.stress(a["c"], xs=a["xs"], ts=a["ts"]), ("c", "xs", "ts"))
        # the same queries at half the load increment (the prescribed entries of the full-length vector are scaled)
        M["uvw_inc"] = (lambda o, x, a: o.uvw(a["c"], xs=a["xs"], ts=a["ts"], inc=0.5), ("c", "xs", "ts"))
        M["strain_inc"] = (lambda o, x, a: o.strain(a["c"], xs=a["xs"], ts=a["ts"], inc=0.5), ("c", "xs", "ts"))
        M["calc_fint_inc"] = (lambda o, x, a: o.calc_fint(a["c"], inc=0.5, silent=True), ("c",))
        M["calc_kT_inc"] = (lambda o, x, a: o.calc_kT(a["c"], inc=0.5, silent=True), ("c",))
        return M
    raise KeyError(kind)


# ---------------------------------------------------------------------------- canonical form

def canon(r, out):
    """append a canonical byte encoding of result r to list `out` (sparse -> sorted COO with
    explicit zeros dropped, arrays -> dtype/shape/bytes, containers recursively)"""
    np = _np()
    import scipy.sparse as sp
    if r is None:
        out.append(b"N")
    elif sp.issparse(r):
        m = sp.coo_matrix(r)
        m.sum_duplicates()
        keep = m.data != 0
        row, col, dat = m.row[keep], m.col[keep], m.data[keep]
        o = np.lexsort((col, row))
        out.append(b"S%d,%d,%s;" % (m.shape[0], m.shape[1], str(dat.dtype).encode()))
        out.append(np.ascontiguousarray(row[o], dtype=np.int64).tobytes())
        out.append(np.ascontiguousarray(col[o], dtype=np.int64).tobytes())
        out.append(np.ascontiguousarray(dat[o]).tobytes())
    elif isinstance(r, np.ndarray):
        out.append(b"A%s;%s;" % (str(r.dtype).encode(), str(r.shape).encode()))
        out.append(np.ascontiguousarray(r).tobytes())
    elif isinstance(r, dict):
        out.append(b"D%d;" % len(r))
        for k in sorted(r):
            out.append(str(k).encode() + b"=")
            canon(r[k], out)
    elif isinstance(r, (list, tuple)):
        out.append(b"L%d;" % len(r))
        for v in r:
            canon(v, out)
    elif isinstance(r, (float, np.floating)):
        out.append(b"F" + np.float64(r).tobytes())
    elif isinstance(r, (complex, np.complexfloating)):
        out.append(b"C" + np.complex128(r).tobytes())
    elif isinstance(r, (int, np.integer, bool, str)):
        out.append(b"I" + str(r).encode() + b";")
    else:
        try:
            arr = np.asarray(r)         # typed memoryviews returned by the Cython kernels
        except Exception:
            arr = None
        if arr is None or arr.dtype == object:
            raise TypeError("no canonical form for %r" % type(r))
        canon(arr, out)


def digest(r):
    out = []
    canon(r, out)
    return hashlib.sha256(b"".join(out)).hexdigest()[:24]


def eig_values(r):
    """sorted (real, imag) pairs of an eigenvalue result, for comparison at solver precision"""
    np = _np()
    v = np.asarray(r[0] if isinstance(r, (tuple, list)) else r).ravel()
    v = np.asarray(v, dtype=complex)
    return sorted((float(z.real), float(z.imag)) for z in v)


# ---------------------------------------------------------------------------- recorder

class Recorder:
    """logs reads/writes of data attributes of the compmech objects through class-level
    __getattribute__/__setattr__ wrappers installed at run time (nothing is changed in /repo)"""

    def __init__(self):
        self.roles = {}
        self.keep = []          # keeps registered objects alive so that ids stay unique
        self.log = None
        self.installed = False

    def classes(self):
        from compmech.panel import Panel
        from compmech.panel.assembly import PanelAssembly
        from compmech.stiffpanelbay import StiffPanelBay
        from compmech.stiffener import BladeStiff1D, BladeStiff2D, TStiff2D
        from compmech.conecyl import ConeCyl
        from compmech.analysis import Analysis
        return Panel, PanelAssembly, StiffPanelBay, BladeStiff1D, BladeStiff2D, TStiff2D, ConeCyl, Analysis

    def install(self):
        if self.installed:
            return
        self.installed = True
        rec = self
        for cls in self.classes():
            def make(cls):
                base_get = object.__getattribute__
                base_set = object.__setattr__

                def __getattribute__(self, name):
                    log = rec.log
                    if log is None:
                        return base_get(self, name)
                    try:
                        v = base_get(self, name)
                    except AttributeError:
                        role = rec.roles.get(id(self))
                        if role is not None and not name.startswith("__"):
                            log.append((role, name, "r"))
                        raise
                    if not callable(v) or isinstance(v, type(None)):
                        role = rec.roles.get(id(self))
                        if role is not None and not name.startswith("__"):
                            log.append((role, name, "r"))
                    return v

                def __setattr__(self, name, value):
                    log = rec.log
                    if log is not None:
                        role = rec.roles.get(id(self))
                        if role is not None:
                            log.append((role, name, "w"))
                            if name in ("base", "flange") and value is not None and id(value) not in rec.roles:
                                rec.register(value, name)
                    base_set(self, name, value)

                cls.__getattribute__ = __getattribute__
                cls.__setattr__ = __setattr__
            make(cls)

    def register(self, obj, role):
        self.roles[id(obj)] = role
        self.keep.append(obj)

    def register_tree(self, obj):
        """top object -> role '', its panels 'p1','p2', stiffeners 's', their panels 'base'/'flange'"""
        self.roles.clear()
        del self.keep[:]
        self.register(obj, "")
        g = object.__getattribute__
        d = getattr(obj, "__dict__", {})
        an = d.get("analysis") if d else None
        if an is None and hasattr(type(obj), "__slots__"):
            an = g(obj, "analysis")
        if an is not None:
            self.register(an, "an")
        for i, p in enumerate(d.get("panels", []) or []):
            self.register(p, "p%d" % (i + 1))
            self.register(p.__dict__["analysis"], "p%d.an" % (i + 1))
        for s in d.get("stiffeners", []) or []:
            self.register(s, "s")
            for nm in ("base", "flange"):
                q = s.__dict__.get(nm)
                if q is not None:
                    self.register(q, nm)

    def start(self):
        self.log = []

    def stop(self):
        log, self.log = self.log, None
        reads, writes, rbw = set(), set(), set()
        for role, name, kind in log:
            key = (role, name)
            if kind == "w":
                writes.add(key)
            else:
                reads.add(key)
                if key not in writes:
                    rbw.add(key)
        return reads, writes, rbw


REC = Recorder()


def exc_sig(e):
    msg = " ".join(str(e).split())
    return type(e).__name__, msg[:40]


def _role_object(obj, role):
    g = getattr
    try:
        if role == "":
            return obj
        if role in ("p1", "p2"):
            return g(obj, "panels")[int(role[1]) - 1]
        if role == "an":
            return g(obj, "analysis")
        st = g(obj, "stiffeners")[0]
        return st if role == "s" else g(st, role)
    except Exception:
        return None


def attr_digest(obj, role, name):
    """bit-level digest of the value a derived attribute holds right now"""
    o = _role_object(obj, role)
    if o is None:
        return "no-object"
    try:
        v = getattr(o, name)
    except AttributeError:
        return "missing"
    try:
        if hasattr(v, "ABD") and hasattr(v, "plies"):          # Laminate: what later calls consume of it
            return digest([v.ABD, float(v.t), float(getattr(v, "offset", 0.) or 0.)])
        return digest(v)
    except Exception:
        return "type:" + type(v).__name__


class Lab:
    """one object of a kind with the bookkeeping needed to call its methods observably"""

    def __init__(self, kind, record=False, variant=None):
        self.kind = kind
        self.obj, self.ctx = build(kind, variant)
        self.meth = methods(kind)
        self.record = record
        if record:
            REC.install()
            REC.register_tree(self.obj)

    _tables = {}

    @classmethod
    def table(cls, kind):
        if kind not in cls._tables:
            cls._tables[kind] = methods(kind)
        return cls._tables[kind]

    def call(self, m):
        """-> dict(out='ok'|'exc', h=digest, etype, emsg, args_same, eig, reads, writes, rbw)"""
        np = _np()
        f, touch = self.meth[m]
        forms = ("contiguous", "strided", "readonly") if self.kind in ("Cyl", "Cone") else ("contiguous", "strided")
        last = getattr(self, "_last", None)
        if last is not None and last[0] == m:
            arrays = last[1]                 # the same query twice: the caller hands over the very same arrays
        else:
            self._ncalls = getattr(self, "_ncalls", 0) + 1
            arrays = self.ctx.fresh(touch, forms[self._ncalls % len(forms)])
        self._last = (m, arrays)
        before = {k: digest(v) for k, v in arrays.items()}
        res = dict(m=m, out="ok", h="", etype="", emsg="", args_same=True, eig=None,
                   reads=[], writes=[], rbw=[])
        if self.record:
            REC.start()
        try:
            r = f(self.obj, self.ctx, arrays)
            res["h"] = digest(r)
            if m in ARPACK:
                res["eig"] = eig_values(r)
        except Exception as e:          # noqa - every failure of the call under test is an observation
            res["out"] = "exc"
            res["etype"], res["emsg"] = exc_sig(e)
        finally:
            if self.record:
                reads, writes, rbw = REC.stop()
                res["writes"], res["rbw"] = sorted(writes), sorted(rbw)
        solver_same = arrays.pop("_solver_same", True)
        after = {k: digest(v) for k, v in arrays.items()}
        res["args_same"] = (after == before) and solver_same
        try:
            _close_figs()
        except Exception:
            pass
        return res


# ---------------------------------------------------------------------------- worker side

def _emit(f, rec):
    f.write(json.dumps(rec) + "\n")
    f.flush()          # data handed to the OS survives a crash of the interpreter


def _mutate(name):
    """development-time self-test only (never used by run()): simulated breakages, applied by
    monkeypatching inside the worker process; /repo is not touched"""
    if not name:
        return
    np = _np()
    from compmech.panel import Panel
    from compmech.panel.assembly import PanelAssembly
    if name == "mutate_c":                      # a method that scales its input array in place
        orig = Panel.calc_fint

        def calc_fint(self, c, *a, **k):
            c *= 1.0000001
            return orig(self, c, *a, **k)
        Panel.calc_fint = calc_fint
    elif name == "hidden_state":                # calc_k0 depends on whether calc_kM was called before
        orig_kM, orig_k0 = Panel.calc_kM, Panel.calc_k0

        def calc_kM(self, *a, **k):
            self.__dict__["_seen_kM"] = True
            return orig_kM(self, *a, **k)

        def calc_k0(self, *a, **k):
            r = orig_k0(self, *a, **k)
            if self.__dict__.get("_seen_kM"):
                r = r * (1 + 2.0 ** -40)
                self.k0 = r
            return r
        Panel.calc_kM, Panel.calc_k0 = calc_kM, calc_k0
    elif name == "stale_conn":                  # k0_conn survives although calc_k0_c was asked with another state
        orig = PanelAssembly.calc_kG0

        def calc_kG0(self, *a, **k):
            r = orig(self, *a, **k)
            if self.k0_conn is not None:
                self.k0_conn = self.k0_conn * 2.0
            return r
        PanelAssembly.calc_kG0 = calc_kG0
    elif name == "pad_leak":                    # trimming forgotten: a padded point replaces the last one
        import compmech.panel.modelDB as mdb
        field = mdb.db["plate_clt_donnell_bardell"]["field"]
        orig = field.fuvw

        class Wrap(object):
            def __getattr__(self, k):
                return getattr(field, k)

            def fuvw(self, c, p, xs, ys, num_cores=4):
                out = orig(c, p, xs, ys, num_cores)
                if xs.shape[0] % num_cores:
                    pad = orig(c, p, np.zeros(1), np.zeros(1), 1)
                    out = tuple(np.concatenate((o[:-1], q)) for o, q in zip(out, pad))
                return out
        for k in mdb.db:
            if mdb.db[k]["field"] is field:
                mdb.db[k]["field"] = Wrap()
    elif name == "lb_mutates_k0":               # an analysis that leaves its scaling in the cached matrix
        orig = Panel.lb

        def lb(self, *a, **k):
            r = orig(self, *a, **k)
            self.Nxx = self.Nxx * 1.0000001 if self.Nxx is not None else None
            return r
        Panel.lb = lb
    elif name == "repair_bay_cA":               # a later repair of an always-broken method must not raise an alarm
        from compmech.stiffpanelbay import StiffPanelBay
        orig = StiffPanelBay.calc_cA

        def calc_cA(self, *a, **k):
            d = self.__dict__
            keep = (d.get("beta"), d.get("aeromu"))
            if d.get("beta") is None:
                Mach = d["Mach"]
                d["beta"] = d["rho_air"] * d["V"] ** 2 / (Mach ** 2 - 1) ** 0.5
                d["aeromu"] = d["beta"] / (Mach * d["speed_sound"]) * (Mach ** 2 - 2) / (Mach ** 2 - 1)
            try:
                return orig(self, *a, **k)
            finally:
                d["beta"], d["aeromu"] = keep
        StiffPanelBay.calc_cA = calc_cA
    else:
        raise KeyError(name)


def worker_lifecycle(job, f):
    kind = job["kind"]
    refs = dict(job.get("refvals") or {})
    for key, path in sorted(job["refs"].items()):
        if key in refs:
            continue
        m, tags = key.split("|")
        pre = [q for q in path if q in REDEF]
        # reference = the call on a freshly (re)defined object; where that cannot succeed today, the call after the
        # shortest sequence the specification says makes it succeed; last resort: after calc_k0 (the suite's order)
        cands = [list(path)] if path else []
        alts = [pre + ["calc_k0", m]]
        if not (cands and kind in ("Cyl", "Cone")):     # a shell kernel handed F = None kills the interpreter
            alts.insert(0, pre + [m])
        for alt in alts:
            if alt not in cands and all(q in Lab.table(kind) for q in alt):
                cands.append(alt)
        r = None
        for cand in cands:
            _emit(f, dict(t="refcall", m=key, path=cand))
            lab = Lab(kind, record=False)
            for q in cand:
                r = lab.call(q)
            if r["out"] == "ok":
                path = cand
                break
        refs[key] = dict(out=r["out"], h=r["h"], eig=r["eig"], etype=r["etype"], emsg=r["emsg"], eigs=[], path=path)
        if m in ARPACK and r["out"] == "ok":
            # solver precision is what the solver shows for identical definition and history: NREF runs
            refs[key]["eigs"].append(r["eig"])
            for _ in range(NREF - 1):
                lab = Lab(kind, record=False)
                for q in path:
                    r = lab.call(q)
                if r["out"] == "ok":
                    refs[key]["eigs"].append(r["eig"])
        _emit(f, dict(t="ref", m=key, res=refs[key]))
    for i, path in job["paths"]:
        if job.get("twin"):
            # the same behaviour on a twin definition (other material) earlier in this very process
            tw = Lab(kind, record=False, variant="material")
            for m, rep in path:
                tw.call(m)
        lab = Lab(kind, record=job.get("record", True))
        _emit(f, dict(t="begin", i=i))
        prev = None
        defn = set()
        for j, (m, rep) in enumerate(path):
            _emit(f, dict(t="call", i=i, j=j, m=m))
            r = lab.call(m)
            r["vals"] = [[ro, nm, attr_digest(lab.obj, ro, nm)] for ro, nm in job.get("attrs", [])]
            if m in REDEF:
                defn.add(REDEF[m])
            r["refkey"] = ref_key(m, defn)
            ref = refs.get(r["refkey"]) if m not in REDEF else dict(out="ok", h=r["h"])
            r["rep"] = bool(rep)
            r["eqRef"] = bool(r["out"] == "ok" and ref is not None and ref["out"] == "ok" and r["h"] == ref["h"])
            r["eqPrev"] = bool(rep and prev is not None and prev["out"] == r["out"] and prev["h"] == r["h"])
            _emit(f, dict(t="step", i=i, j=j, res=r))
            prev = r
        _emit(f, dict(t="end", i=i))


def _field_points(np, rng_seed, S, a, b):
    k = np.arange(S, dtype=float)
    xs = a * ((0.37 + 0.618 * k + 0.01 * rng_seed) % 1.0)
    ys = b * ((0.11 + 0.414 * k) % 1.0)
    if S > 2:
        xs[0], ys[0] = 0., 0.          # edge points
        xs[-1], ys[-1] = a, b
    return xs, ys


def worker_threads(job, f):
    """field recovery for every core count: bit-identical to one core and to point-by-point evaluation"""
    np = _np()
    kind = job["kind"]
    for S in job["sizes"]:
        lab = Lab(kind)
        o, ctx = lab.obj, lab.ctx
        for q in job["prelude"]:
            lab.call(q)
        cone = kind in ("Cyl", "Cone")
        if cone:
            xs, ys = _field_points(np, job["seed"] % 7, S, 500., 6.0)
            ys = ys - 3.0
        elif kind.startswith("Bay"):
            xs, ys = _field_points(np, job["seed"] % 7, S, o.a, o.b)
        else:
            xs, ys = _field_points(np, job["seed"] % 7, S, o.a, o.b)

        def ev(method, X, Y, P):
            o.out_num_cores = P
            c = ctx.c.copy()
            if cone:
                return getattr(o, method)(c, xs=X.copy(), ts=Y.copy())
            return getattr(o, method)(c, xs=X.copy(), ys=Y.copy())

        for method in job["methods"]:
            serial = digest(ev(method, xs, ys, 1))
            # point by point, one core: what output slot i must carry
            single = [ev(method, xs[i:i + 1], ys[i:i + 1], 1) for i in range(S)] if S <= job["pointwise_max"] else None
            for P in job["cores"]:
                r = ev(method, xs, ys, P)
                rec = dict(t="field", kind=kind, method=method, S=S, P=P, eqSerial=(digest(r) == serial),
                           eqPointwise=True, checkedPointwise=single is not None)
                if single is not None:
                    vals = r if isinstance(r, (tuple, list)) else ([r[k] for k in sorted(r)] if isinstance(r, dict) else [r])
                    for i in range(S):
                        s1 = single[i]
                        v1 = s1 if isinstance(s1, (tuple, list)) else ([s1[k] for k in sorted(s1)] if isinstance(s1, dict) else [s1])
                        for A, B1 in zip(vals, v1):
                            A = np.asarray(A)
                            B1 = np.asarray(B1)
                            a_i = A.reshape((S,) + A.shape[1:])[i] if A.shape[0] == S else A[i]
                            if np.asarray(a_i).tobytes() != np.asarray(B1).reshape(np.asarray(a_i).shape).tobytes():
                                rec["eqPointwise"] = False
                _emit(f, rec)


def worker_integration(job, f):
    """shell non-linear integration for every ni_num_cores: values logged exactly, judged by TLC"""
    np = _np()
    from common import dyadic
    kind = job["kind"]
    base = {}
    for P in job["cores"]:
        lab = Lab(kind)
        o, ctx = lab.obj, lab.ctx
        lab.call("calc_k0")
        o.ni_num_cores = P
        c = ctx.c.copy()
        fint = np.asarray(o.calc_fint(c.copy(), silent=True), dtype=float)
        kT = o.calc_kT(c.copy(), silent=True)
        rows = np.asarray(abs(kT).sum(axis=1)).ravel()
        diag = np.asarray(kT.diagonal()).ravel()
        for name, v in (("fint", fint), ("kT_abs_row_sums", rows), ("kT_diag", diag)):
            if P == job["cores"][0]:
                base[name] = v
            _emit(f, dict(t="integ", kind=kind, what=name, P=P, n=int(v.shape[0]),
                          obs=[dyadic(x) for x in v], ref=[dyadic(x) for x in base[name]]))


def worker_main(jobfile):
    job = json.load(open(jobfile))
    import repo_env
    repo_env.activate(job.get("build"))
    import warnings
    warnings.filterwarnings("ignore")
    _mutate(job.get("mutant"))
    with open(job["out"], "a") as f:
        sys.stdout = open(os.devnull, "w")
        {"lifecycle": worker_lifecycle, "threads": worker_threads, "integration": worker_integration}[job["type"]](job, f)
        _emit(f, dict(t="done"))


# =========================================================================================
# Part 2: decision procedure
# =========================================================================================

KINDS = ["Plate", "PlateRedef", "CPanel", "KPanel", "Assembly", "BayPlain", "BayBeta", "BayB1", "BayB1b", "BayB2", "BayT2",
         "Cyl", "Cone"]
TOL = 30
SPREAD_MULT = 32        # ARPACK results: |x - ref| <= 2^-TOL |ref| + SPREAD_MULT * (spread of the NREF reference runs)


def _scratch():
    from common import BUILD
    d = os.path.join(BUILD, "c20", "%d-%d" % (os.getpid(), int(time.time() * 1000) % 100000000))
    os.makedirs(d, exist_ok=True)
    return d


def _run_worker(job, tag, scratch, timeout=1800):
    """run one worker process; returns (records, finished, stderr tail)"""
    out = os.path.join(scratch, tag + ".ndjson")
    jf = os.path.join(scratch, tag + ".job.json")
    job = dict(job, out=out)
    if os.path.exists(out):
        os.remove(out)
    with open(jf, "w") as f:
        json.dump(job, f)
    env = dict(os.environ)
    env.setdefault("OMP_NUM_THREADS", "1")
    env["OPENBLAS_NUM_THREADS"] = "1"
    env["MKL_NUM_THREADS"] = "1"
    env["MPLBACKEND"] = "Agg"
    env["PYTHONHASHSEED"] = "0"
    p = subprocess.run([sys.executable, os.path.abspath(__file__), "--worker", jf], capture_output=True,
                       text=True, env=env, cwd=scratch, timeout=timeout)
    recs = []
    if os.path.exists(out):
        for line in open(out):
            line = line.strip()
            if line:
                try:
                    recs.append(json.loads(line))
                except ValueError:
                    pass
    finished = bool(recs) and recs[-1].get("t") == "done"
    return recs, finished, (p.stderr or "")[-1500:], p.returncode


def replay_paths(kind, paths, refs, build, scratch, tag, mutant=None, record=True, refvals=None, attrs=None,
                 twin=False):
    """paths: list of lists of (method, rep).  Runs them in worker processes (restarting after a crash of
    the interpreter, which is recorded as the outcome of the call in progress).
    -> (list of step lists per path, ref results, problems)"""
    todo = list(enumerate(paths))
    results = {}
    refvals = dict(refvals or {})
    problems = []
    rounds = 0
    first = True
    while todo or first:
        first = False
        rounds += 1
        if rounds > len(paths) + 10:      # every restart decides at least one path (a crash is an outcome)
            problems.append("too many worker restarts for kind %s" % kind)
            break
        job = dict(type="lifecycle", kind=kind, refs=refs, refvals=refvals, paths=todo, build=build,
                   mutant=mutant, record=record, attrs=attrs or [], twin=twin)
        recs, finished, err, rc = _run_worker(job, "%s-r%d" % (tag, rounds), scratch)
        cur = None
        incall = None
        for r in recs:
            t = r["t"]
            if t == "ref":
                refvals[r["m"]] = r["res"]
            elif t == "begin":
                cur = r["i"]
                results[cur] = []
            elif t == "call":
                incall = (r["i"], r["j"], r["m"])
            elif t == "step":
                results[r["i"]].append(r["res"])
                incall = None
            elif t == "end":
                cur = None
        if finished:
            break
        if incall is None:
            last = recs[-1] if recs else None
            if last is not None and last.get("t") == "refcall":
                problems.append("worker died while computing the reference result of %s.%s (rc=%s) %s"
                                % (kind, last["m"], rc, err[-300:]))
            else:
                problems.append("worker for kind %s ended without finishing (rc=%s): %s" % (kind, rc, err[-600:]))
            break
        i, j, m = incall
        prev = results[i][-1] if results[i] else None
        rep = bool(paths[i][j][1])
        results[i].append(dict(m=m, out="exc", h="", etype="crash", emsg="worker process died", args_same=True,
                               eig=None, writes=[], rbw=[], vals=[], rep=rep, eqRef=False, refkey="",
                               eqPrev=bool(rep and prev is not None and prev["out"] == "exc" and prev["etype"] == "crash")))
        if not rep and j + 1 < len(paths[i]) and paths[i][j + 1][0] == m and paths[i][j + 1][1]:
            # the repetition of a call that kills the interpreter is not attempted again in a new process
            results[i].append(dict(results[i][-1], rep=True, eqPrev=True))
        todo = [(k, p) for k, p in todo if k not in results]
    return [results.get(i) for i in range(len(paths))], refvals, problems


# ---------------------------------------------------------------------------- the abstract graph

def _nk(ab, ck):
    d = tuple(sorted(tuple(x) for x in ab[0]))
    st = tuple(sorted(tuple(x) for x in ab[1]))
    k = tuple(sorted((tuple(a), v) for a, v in ck.items())) if isinstance(ck, dict) else ()
    e = tuple(sorted(ab[2])) if len(ab) > 2 else ()
    return (d, st, k, e)


class Graph:
    """per kind: nodes = abstract states (derived, ckey) reached by TLC, edges labelled by methods"""

    def __init__(self, kind, methods, universe, touches, init):
        self.kind = kind
        self.methods = sorted(methods)
        self.universe = {tuple(a) for a in universe}
        self.touches = touches
        self.init = init
        self.edges = {}          # (node, m) -> (dst, out, attr, explains)

    def status_attrs(self):
        out = set()
        for (u, m), e in self.edges.items():
            for node in (u, e[0]):
                out.update(node[0])
                out.update(node[1])
        return out

    def shortest(self):
        sp = {self.init: []}
        queue = [self.init]
        while queue:
            u = queue.pop(0)
            for m in self.methods:
                e = self.edges.get((u, m))
                if e is not None and e[0] not in sp:
                    sp[e[0]] = sp[u] + [m]
                    queue.append(e[0])
        return sp

    def walk(self, path):
        u = self.init
        nodes = [u]
        for m in path:
            e = self.edges.get((u, m))
            if e is None:
                return None
            u = e[0]
            nodes.append(u)
        return nodes


def parse_graphs(out):
    from common import printed_values
    graphs = {}
    for v in printed_values(out, "KIND"):
        _, kind, methods, universe, touches, ab, ck = v
        graphs[kind] = Graph(kind, list(methods), list(universe), touches, _nk(ab, ck))
    for v in printed_values(out, "EDGE"):
        _, kind, ab, ck, m, o, attr, ab2, ck2, expl = v
        graphs[kind].edges[(_nk(ab, ck), m)] = (_nk(ab2, ck2), o, tuple(attr), sorted(expl))
    return graphs


def choose_paths(g, maxlen, budget, rng):
    """edge cover (every (state, method) pair TLC explored below the depth bound ends one path) plus
    representatives of distinct state trajectories, up to `budget` paths; -> (paths, stats)"""
    sp = g.shortest()
    paths, seen = [], set()

    def add(p):
        t = tuple(p)
        if t not in seen and len(p) <= maxlen:
            seen.add(t)
            paths.append(list(p))

    for u in sorted(sp, key=lambda x: (len(sp[x]), sp[x])):
        for m in g.methods:
            if (u, m) in g.edges:
                add(sp[u] + [m])
    n_cover = len(paths)
    # distinct trajectories of abstract states (self-loops carry no new state and are covered above)
    trajs = []

    def dfs(u, nodes, labels):
        if len(trajs) >= 200000:
            return
        if len(nodes) - 1 >= 1:
            trajs.append((tuple(nodes), list(labels)))
        if len(nodes) - 1 >= maxlen:
            return
        succ = {}
        for m in g.methods:
            e = g.edges.get((u, m))
            if e is not None and e[0] != u:
                succ.setdefault(e[0], []).append(m)
        for v in sorted(succ):
            dfs(v, nodes + [v], labels + [succ[v]])

    import sys as _sys
    _sys.setrecursionlimit(max(_sys.getrecursionlimit(), 10000))
    dfs(g.init, [g.init], [])
    rng.shuffle(trajs)
    n_traj = len(trajs)
    used = 0
    for nodes, labels in trajs:
        if len(paths) >= budget:
            break
        p = [rng.choice(ms) for ms in labels]
        # pad with a state-preserving call so that the last state of the trajectory is also exercised
        before = len(paths)
        add(p)
        used += len(paths) - before
    covered_edges = set()
    for p in paths:
        nodes = g.walk(p)
        for u, m in zip(nodes, p):
            covered_edges.add((u, m))
    stats = dict(kind=g.kind, states=len(sp), edges=len(g.edges), edges_on_replayed_paths=len(covered_edges),
                 cover_paths=n_cover, distinct_state_trajectories=n_traj, trajectory_paths=used,
                 paths=len(paths))
    return paths, stats


def ref_key(m, defn):
    return "%s|%s" % (m, ",".join(sorted(defn)))


def ref_paths(g):
    """for every method (and every set of re-definitions reached) the reference computation: the
    re-definitions applied to a fresh object first, then the shortest call sequence after which the
    specification says the call succeeds with the definition-determined result"""
    sp = g.shortest()
    base = {}
    for m in g.methods:
        best = None
        for u, path in sp.items():
            e = g.edges.get((u, m))
            if e is not None and e[1] == "ok" and not u[3] and not any(q in REDEF for q in path):
                if best is None or (len(path), path) < (len(best), best):
                    best = path
        base[m] = (best + [m]) if best is not None else []
    inv = {v: k for k, v in REDEF.items()}
    refs = {}
    for defn in sorted({u[3] for u in sp}):
        pre = [inv[t] for t in defn]
        for m in g.methods:
            if m in REDEF:
                continue
            refs[ref_key(m, defn)] = (pre + base[m]) if (base[m] or not defn) else (pre + [m])
    return refs


# ---------------------------------------------------------------------------- events

def _dy(v):
    from common import dyadic
    out = []
    for re_, im_ in v:
        out.append([dyadic(re_), dyadic(im_)])
    return out


def _finite(v):
    import math
    return v is not None and all(math.isfinite(a) and math.isfinite(b) for a, b in v)


def make_event(eid, kind, mode, steps, keep, refvals=None):
    """steps: worker results; keep: attribute pairs that count for the drift check; refvals: reference
    results (eigenvalue lists of the NREF reference runs go into the event, exact)"""
    ev = dict(id=eid, kind=kind, mode=mode, steps=[], refs={})
    for r in steps:
        eig = r.get("eig")
        m = r["m"]
        lists = [e for e in ((refvals or {}).get(r.get("refkey") or ref_key(m, ())) or {}).get("eigs", []) if _finite(e)]
        use = _finite(eig) and r["out"] == "ok" and len(lists) >= 2 and all(len(e) == len(eig) for e in lists)
        if use and m not in ev["refs"]:
            ev["refs"][m] = [_dy(e) for e in lists]
        ev["steps"].append(dict(
            m=m, rep=bool(r["rep"]), out=r["out"], etype=r["etype"], emsg=r["emsg"],
            eqRef=bool(r["eqRef"]), eqPrev=bool(r["eqPrev"]), argsSame=bool(r["args_same"]),
            twinSame=bool(r.get("twinSame", True)),
            rbw=[list(a) for a in r["rbw"] if tuple(a) in keep],
            writes=[list(a) for a in r["writes"]],
            vals=[[ro, nm, bool(fl)] for ro, nm, fl in r.get("valflags", [])],
            eig=_dy(eig) if use else []))
    return ev

REF_OVERRIDE = {("Assembly", "get_k0_conn_arg"): ["_panels_k0", "get_k0_conn_arg"]}
TOUCH = {
    "c": {"calc_k0_c", "calc_kG0_c", "calc_kT_c", "calc_kT", "calc_fint", "plot", "uvw_stiffener", "uvw", "strain",
          "stress", "uvw_skin", "uvw_inc", "strain_inc", "calc_fint_inc", "calc_kT_inc"},
    "xy": {"uvw", "strain", "stress", "uvw_skin", "uvw_inc", "strain_inc"}}


def _touch_table(kind):
    """method -> (None, caller array names) as the laboratory passes them (static copy of methods(kind),
    kept here so that the parent process does not import compmech)"""
    cls = "Panel" if kind in ("Plate", "PlateRedef", "CPanel", "KPanel") else "Assembly" if kind == "Assembly" else \
        "ConeCyl" if kind in ("Cyl", "Cone") else "Bay"
    out = {}
    for m in sorted(TOUCH["c"] | {"calc_k0", "calc_kG0", "calc_kM", "calc_kA", "calc_cA", "calc_fext", "lb", "lb_dense",
                                  "freq", "freq_dense", "static", "static_NL", "get_k0_conn", "get_k0_conn_arg",
                                  "redef_preload", "redef_lam", "p1_lb_dense",
                                  "an_lb", "an_freq", "an_static"}):
        t = []
        if m in TOUCH["c"]:
            t.append("c")
        if m in TOUCH["xy"] and cls != "Assembly":
            t += ["xs", "ts"] if cls == "ConeCyl" else ["xs", "ys"]
        out[m] = (None, tuple(t))
    return out


def predicted_crash(g, path):
    """the specification predicts that this path hands F = None to a shell kernel (failure signature 'F' of a
    ConeCyl calc_fint query): the interpreter dies and the worker process has to be restarted"""
    u = g.init
    for m in path:
        e = g.edges.get((u, m))
        if e is None:
            return False
        if e[1] == "fails" and e[2] == ("", "F") and g.kind in ("Cyl", "Cone"):
            return True
        if e[1] == "fails" and False:
            return False
        u = e[0]
    return False


def random_walks(g, maxlen, count, rng):
    out = []
    for _ in range(count):
        n = rng.randint(2, maxlen)
        out.append([rng.choice(g.methods) for _ in range(n)])
    return out


def doubled(path):
    d = []
    for m in path:
        d.append((m, False))
        d.append((m, True))
    return d


def _chunks(lst, k):
    k = max(1, min(k, len(lst)))
    return [lst[i::k] for i in range(k)]


def replay_kind(kind, g, paths, build, scratch, nproc, mutant=None, record=True, twin=False, refvals=None):
    """-> (list of (path, steps)), refvals, problems.  twin: every path is preceded, in the same process, by the
    same path on a twin object of another material (reference results are taken over, not recomputed)"""
    import concurrent.futures as cf
    refs = ref_paths(g)
    for (k, m), p in REF_OVERRIDE.items():
        if k == kind and m in g.methods:
            refs[ref_key(m, ())] = p
    problems = []
    if refvals is None:
        # reference results once per kind (one worker, a process that never sees another definition)
        _, refvals, problems = replay_paths(kind, [], refs, build, scratch, "%s-ref" % kind, mutant=mutant, record=False)
        if problems:
            return [], refvals, problems
    else:
        refs = {}
    parts = _chunks(list(paths), max(1, min(nproc, len(paths) // 12 or 1)))

    def one(i):
        return replay_paths(kind, [doubled(p) for p in parts[i]], refs, build, scratch,
                            "%s-%s%d" % (kind, "tw" if twin else "", i), mutant=mutant, record=record,
                            refvals=refvals, attrs=sorted(g.status_attrs()), twin=twin)

    done = {}
    with cf.ThreadPoolExecutor(max_workers=len(parts)) as ex:
        for i, (res, rv, pr) in enumerate(ex.map(one, range(len(parts)))):
            problems += pr
            for p, steps in zip(parts[i], res):
                if steps is None:
                    problems.append("path %s of kind %s was not replayed" % (p, kind))
                else:
                    done[tuple(p)] = steps
    out = [(list(p), done[tuple(p)]) for p in paths if tuple(p) in done]      # plan order (shortest paths first)
    if not twin:
        mark_values(g, out)
    return out, refvals, problems


def mark_twin(plain, twinned):
    """twinSame flag per step: the replay that followed a twin object in the same process shows the same
    outcome, bit-identical result (ARPACK results excepted) and derived values as the replay without it"""
    tw = {tuple(p): steps for p, steps in twinned}
    n = 0
    for path, steps in plain:
        other = tw.get(tuple(path))
        if other is None:
            continue
        n += 1
        for j, st in enumerate(steps):
            if j >= len(other):
                st["twinSame"] = False
                continue
            o = other[j]
            st["twinSame"] = bool(o["out"] == st["out"] and o["etype"] == st["etype"] and o["emsg"] == st["emsg"]
                                  and (st["m"] in ARPACK or o["h"] == st["h"])
                                  and o.get("vals") == st.get("vals") and o["args_same"] == st["args_same"])
    return n


def mark_values(g, replays):
    """Def = 'holds the value the definition determines': one value per (kind, attribute).  The canonical
    value of an attribute is the one it holds the first time (plan order: shortest call sequences first,
    i.e. first calls on fresh objects) the specification says it is Def; every step gets, per attribute,
    the flag 'holds the canonical value'.  Trace_Lifecycle demands the flag wherever its state says Def."""
    canon, origin = {}, {}
    for path, steps in replays:
        nodes = g.walk(path)
        for j, st in enumerate(steps):
            node = nodes[j // 2 + 1] if nodes is not None and j // 2 + 1 < len(nodes) else None
            if node is None or st["out"] == "exc" and st["etype"] == "crash":
                continue
            isdef = set(node[0])
            st["_defn"] = node[3]
            for ro, nm, dg in st.get("vals", []):
                if (ro, nm) in isdef and (ro, nm, node[3]) not in canon:
                    canon[(ro, nm, node[3])] = dg
                    origin[(ro, nm, node[3])] = path[:j // 2 + 1]
    for path, steps in replays:
        for st in steps:
            e = st.get("_defn", ())
            st["valflags"] = [[ro, nm, canon.get((ro, nm, e), dg) == dg] for ro, nm, dg in st.get("vals", [])]


def tlc_cfg(kinds, maxlen, devs="all", invariants=True):
    cfg = "SPECIFICATION EmitSpec\nCONSTANTS Kinds = {%s}\nMaxLen = %d\n" % (
        ", ".join('"%s"' % k for k in kinds), maxlen)
    cfg += "Deviations <- AllDeviations\n" if devs == "all" else "Deviations = {%s}\n" % ", ".join('"%s"' % d for d in devs)
    if invariants:
        cfg += ("INVARIANT TypeOK\nINVARIANT NoFailure\nINVARIANT HistoryIndependent\nINVARIANT CacheCoherent\n"
                "INVARIANT Idempotent\n")
    return cfg + "CHECK_DEADLOCK FALSE\n"


def judge(rep, tag, events, info, mode):
    """trace validation by TLC; returns {event id: (verdict, detail)}"""
    from common import validate_trace
    cfg = "CONSTANTS Kinds <- AllKinds\nMaxLen = 0\nDeviations <- AllDeviations\nTol = %d\nSpreadMult = %d\n" % (TOL, SPREAD_MULT)
    verdicts, results, problems = validate_trace(tag, "Trace_Lifecycle", cfg, events, timeout=3000)
    for res in results:
        rep.add_tlc("Trace_Lifecycle(%s)" % mode, res)
    for p in problems:
        rep.machinery(p)
    return verdicts


def report_verdicts(rep, verdicts, events, info, drift_kinds):
    """info: event id -> (kind, path).  Violations / known findings from per-step judgements."""
    for ev in events:
        v = verdicts.get(ev["id"])
        if v is None:
            continue
        kind, path = info[ev["id"]]
        verdict, detail = v
        if verdict == "drift":
            what = [(d.get("m"), d.get("drift")) for d in detail if d.get("drift")]
            drift_kinds.setdefault(kind, []).append(dict(path=path, drift=what[:3]))
            continue
        for pos, d in enumerate(detail):
            st = ev["steps"][pos]
            if d["v"] == "kf":
                for dev in d["devs"]:
                    rep.known(dev, "%s: call sequence %s; %s() -> %s (specification: %s on attribute %s)" % (
                        kind, path[:pos // 2 + 1], d["m"],
                        ("%s: %s" % (st["etype"], st["emsg"])) if st["out"] == "exc" else "a result different from the freshly defined object",
                        d["spec"][0], ".".join(x for x in d["spec"][1] if x)))
            elif d["v"] == "fail":
                if isinstance(d["why"], list):      # <<text, set of attributes>>
                    d = dict(d, why="%s: after this call %s holds another value than the first time a call on a fresh "
                                    "object derives it, so later calls that consume it differ from a fresh object"
                                    % (d["why"][0], ", ".join(".".join(x for x in a if x) for a in d["why"][1])))
                rep.violation("%s after %s on kind %s: %s (observed %s; specification expects %s%s)" % (
                    d["m"], path[:pos // 2], kind, d["why"],
                    ("%s: %s" % (st["etype"], st["emsg"])) if st["out"] == "exc"
                    else "ok eqFresh=%s eqRepetition=%s callerArraysUnchanged=%s" % (st["eqRef"], st["eqPrev"] or not st["rep"], st["argsSame"]),
                    d["spec"][0], "" if d["spec"][0] == "ok" else " at " + ".".join(x for x in d["spec"][1] if x)),
                    dict(kind=kind, path=path, position=pos // 2, repetition=bool(st["rep"]), method=d["m"],
                         mode=ev["mode"], observed={k: st[k] for k in ("out", "etype", "emsg", "eqRef", "eqPrev", "argsSame")},
                         specification=d["spec"], why=d["why"]))
                break


def run(tier, seed, build, mutant=None, kinds=None):
    import concurrent.futures as cf
    import random
    import shutil
    from common import Report, run_tlc
    rep = Report("C20", tier, seed)
    rng = random.Random(seed)
    kinds = list(kinds or KINDS)
    maxlen = 4 if tier == "quick" else 6
    scratch = _scratch()
    try:
        return _run(rep, rng, tier, seed, build, mutant, kinds, maxlen, scratch)
    finally:
        shutil.rmtree(scratch, ignore_errors=True)


def _run(rep, rng, tier, seed, build, mutant, kinds, maxlen, scratch):
    import concurrent.futures as cf
    from common import run_tlc, printed_values
    quick = tier == "quick"
    phase, t_ph = {}, [time.time()]

    def mark(name):
        phase[name] = round(time.time() - t_ph[0], 1)
        t_ph[0] = time.time()
        rep.cov["phase_wall_s"] = phase

    # 1. the specification: all call sequences up to the bound on every kind, with the listed deviations
    mc = run_tlc("c20-mc", "MC_Lifecycle", tlc_cfg(kinds, maxlen), workers=1, timeout=1500, fast=False)
    rep.add_tlc("MC_Lifecycle(MaxLen=%d, all deviations on)" % maxlen, mc)
    if not mc.ok:
        rep.machinery("TLC on MC_Lifecycle failed (the model of today's code is not explained by its own "
                      "deviation tables): " + mc.errors())
        return rep.finish()
    graphs = parse_graphs(mc.out)
    if sorted(graphs) != sorted(kinds):
        rep.machinery("kinds reported by TLC %s differ from the requested %s" % (sorted(graphs), sorted(kinds)))
        return rep.finish()
    # the literal property (no deviation) on the same model: its counterexample is the first finding
    lit = run_tlc("c20-lit", "MC_Lifecycle", tlc_cfg(kinds, 1, devs=[], invariants=False) + "INVARIANT NoFailure\n",
                  workers=1, timeout=600, fast=False)
    rep.add_tlc("MC_Lifecycle(MaxLen=1, no deviation)", lit)
    literal_false = "Invariant NoFailure is violated" in lit.out
    rep.cov["literal_NoFailure_holds_on_model_of_todays_code"] = not literal_false
    if lit.ok:
        rep.cov["literal_note"] = "specification without deviations satisfies NoFailure at depth 1"
    elif not literal_false:
        rep.machinery("unexpected TLC result for the literal property: " + lit.errors())

    mark("tlc_lifecycle")
    # 2. thread partition specifications (TLC runs in the background while the replays go on)
    side = cf.ThreadPoolExecutor(max_workers=4)
    thr_future = side.submit(thread_checks, rep, tier, seed, build, scratch, mutant, kinds)
    inv = ("INVARIANT Shapes\nINVARIANT PointIInSlotI\nINVARIANT NoPadEscapes\nINVARIANT IndependentOfP\n"
           "INVARIANT NoRace\nCHECK_DEADLOCK FALSE\n")
    ipinv = ("INVARIANT RestNonNegative\nINVARIANT EachPointOnce\nINVARIANT NothingElse\nINVARIANT SerialAfterJoin\n"
             "CHECK_DEADLOCK FALSE\n")
    side_jobs = [("MC_FieldChunks(S<=40,P<=16)",
                  side.submit(run_tlc, "c20-fc", "MC_FieldChunks",
                              "SPECIFICATION Spec\nCONSTANTS MaxS = 40\nMaxP = 16\n" + inv,
                              workers=2, timeout=900, fast=False))]
    ipruns = [("all thread orders", 60, 10 if quick else 16, "")]
    if quick:
        ipruns.append(("threads finish in index order", 60, 16, "CONSTRAINT InOrder\n"))
    for name, mn, mp, extra in ipruns:
        side_jobs.append(("MC_IntegratePartition(npts<=%d,P<=%d,%s)" % (mn, mp, name),
                          side.submit(run_tlc, "c20-ip%d" % mp, "MC_IntegratePartition",
                                      "SPECIFICATION Spec\nCONSTANTS MaxN = %d\nMaxP = %d\n%s%s" % (mn, mp, extra, ipinv),
                                      workers=2 if quick else 8, timeout=1500, fast=False)))

    # 3. binding A+B: replay TLC's paths on real objects, record, let Trace_Lifecycle judge
    plan, stats, excluded_crash = {}, [], {}
    for kind in kinds:
        g = graphs[kind]
        budget = (len(g.edges) + 10) if quick else 800       # the edge cover is never cut; trajectories are sampled
        paths, st = choose_paths(g, maxlen, budget, rng)
        variants = 0 if quick else 2
        extra = []
        for _ in range(variants):
            more, _ = choose_paths(g, maxlen, budget // 2, rng)
            extra += more[st["cover_paths"]:]
        extra = extra[:budget // 2]
        # the harness hands each call exactly the caller arrays the specification lists (Touches)
        for m, (_, touch) in _touch_table(kind).items():
            want = set(g.touches.get(m, []))
            have = {"K", "M"} if m in ("an_lb", "an_freq", "an_static") else set(touch)
            if m in g.methods and want != have:
                rep.machinery("Touches(%s,%s) in Lifecycle.tla is %s but the harness passes %s"
                              % (kind, m, sorted(want), sorted(have)))
        walks = random_walks(g, maxlen, 6 if quick else 200, rng)
        # every quantity asked directly after every other call on a fresh object (all ordered pairs)
        pairs = [[a, b] for a in g.methods for b in g.methods]
        if quick and kind not in ("Plate", "PlateRedef"):       # quick tier: all pairs on two kinds, a sample elsewhere
            rng.shuffle(pairs)
            pairs = pairs[:60 if kind == "Assembly" else 25]
        seen = set(map(tuple, paths))
        for p in pairs + extra + walks:
            if tuple(p) not in seen:
                seen.add(tuple(p))
                paths.append(p)
        paths.sort(key=lambda p: (len(p), p))          # shortest first: canonical values come from first calls
        crashing = [p for p in paths if predicted_crash(g, p)]
        if len(crashing) > 12:
            # each of them costs a restart of a worker process: the 12 shortest are replayed (the crash is an
            # outcome like any other, judged against KF_C20_ConeCyl_calc_fint_L), the others are not
            drop = set(map(tuple, crashing[12:]))
            paths = [p for p in paths if tuple(p) not in drop]
            excluded_crash[kind] = len(drop)
        st["paths"] = len(paths)
        st["pairs"] = len(pairs)
        st["random_walks"] = len(walks)
        stats.append(st)
        plan[kind] = paths
    rep.cov["graph"] = stats
    rep.cov["paths_excluded_because_the_interpreter_would_crash"] = dict(
        count=excluded_crash, reason="the specification predicts a shell calc_fint query with F = None (segmentation "
        "fault, KF_C20_ConeCyl_calc_fint_L); 12 such paths per kind are replayed, each costs a process restart")
    total_paths = sum(len(p) for p in plan.values())
    nproc_total = 16
    replays, problems, refvals_of, twin_count = {}, [], {}, {}

    def do_kind(kind):
        share = max(1, int(round(nproc_total * len(plan[kind]) / float(max(1, total_paths)))))
        res, refvals, pr = replay_kind(kind, graphs[kind], plan[kind], build, scratch, share, mutant=mutant)
        # twin pass: the same behaviour right after the same behaviour on a twin object (another material) in the
        # same process; every single call, and every k-th longer path (none that kills the interpreter)
        k_th = 10 ** 9 if quick else 3       # quick: the single calls only
        pick = [p for i, (p, steps) in enumerate(res)
                if (len(p) == 1 or i % k_th == 0) and not any(s["etype"] == "crash" for s in steps)]
        if pick and not pr:
            tw, _, pr2 = replay_kind(kind, graphs[kind], pick, build, scratch, max(1, share // 2), mutant=mutant,
                                     record=False, twin=True, refvals=refvals)
            pr = pr + pr2
            twin_count[kind] = mark_twin(res, tw)
        return res, refvals, pr

    with cf.ThreadPoolExecutor(max_workers=len(kinds)) as ex:
        for kind, (res, refvals, pr) in zip(kinds, ex.map(do_kind, kinds)):
            replays[kind] = res
            refvals_of[kind] = refvals
            for p in pr:
                rep.machinery(p)
    mark("replay")
    rep.cov["twin_replays"] = twin_count
    ever_written = {}
    for kind in kinds:
        w = set()
        for _, steps in replays[kind]:
            for s in steps:
                w.update(tuple(a) for a in s["writes"])
        ever_written[kind] = w
    events, info = [], {}
    for kind in kinds:
        keep = graphs[kind].universe | ever_written[kind]
        for path, steps in replays[kind]:
            ev = make_event(len(events), kind, "abstract", steps, keep, refvals_of[kind])
            info[ev["id"]] = (kind, path)
            events.append(ev)
    verdicts = judge(rep, "c20-tr", events, info, "abstract")
    mark("trace_validation")
    drift_kinds = {}
    report_verdicts(rep, verdicts, events, info, drift_kinds)
    rep.cov["traces_validated_against_impl"] += len(events)
    rep.cov["evaluations"] += sum(len(e["steps"]) for e in events)
    for e in events:
        kind, path = info[e["id"]]
        nodes = graphs[kind].walk(path)
        rep.nontrivial((kind, tuple(path)))
    for e in events[:1] + events[len(events) // 2:len(events) // 2 + 1] + events[-1:]:
        rep.sample(dict(kind=e["kind"], path=info[e["id"]][1], verdict=str(verdicts.get(e["id"], ("?",))[0]),
                        steps=[{k: s[k] for k in ("m", "rep", "out", "etype", "eqRef", "eqPrev", "argsSame")}
                               for s in e["steps"]]))

    # 4. model drift: the abstraction is not trusted for that kind -> exhaustive concrete sequences
    rep.cov["model_drift"] = {k: v[:3] for k, v in drift_kinds.items()}
    for kind in sorted(drift_kinds):
        print("NOTE model-drift kind=%s: recorded attribute accesses are not covered by Lifecycle.tla (%s); "
              "falling back to concrete call sequences of length <= 3 (exhaustive; quick tier: triples sampled)"
              % (kind, json.dumps(drift_kinds[kind][0])[:300]))
        g = graphs[kind]
        seqs = [[a] for a in g.methods] + [[a, b] for a in g.methods for b in g.methods]
        triples = [[a, b, c] for a in g.methods for b in g.methods for c in g.methods]
        if quick and len(triples) > 400:            # quick tier: all sequences up to 2, a seeded sample of the triples
            rng.shuffle(triples)
            triples = triples[:400]
        seqs += triples
        res, crefs, pr = replay_kind(kind, g, seqs, build, scratch, nproc_total, mutant=mutant, record=False)
        for p in pr:
            rep.machinery(p)
        cevents, cinfo = [], {}
        for path, steps in res:
            ev = make_event(len(cevents), kind, "concrete", steps, set(), crefs)
            cinfo[ev["id"]] = (kind, path)
            cevents.append(ev)
        cverdicts = judge(rep, "c20-trc", cevents, cinfo, "concrete")
        report_verdicts(rep, cverdicts, cevents, cinfo, {})
        rep.cov["traces_validated_against_impl"] += len(cevents)
        rep.cov["evaluations"] += sum(len(e["steps"]) for e in cevents)
        rep.assumptions.append("kind %s: Lifecycle.tla does not cover the recorded attribute accesses (model drift); "
                               "decided on %d concrete call sequences of length <= 3 instead (%s)"
                               % (kind, len(cevents), "all singles and pairs, 400 sampled triples" if quick and len(triples) == 400 else "exhaustive"))

    # 5. thread counts
    mark("drift_fallback")
    thr_future.result()
    mark("thread_checks_wait")
    for name, fut in side_jobs:
        res = fut.result()
        rep.add_tlc(name, res)
        if not res.ok:
            rep.machinery("TLC on %s failed: %s" % (name, res.errors()))
    side.shutdown()

    rep.cov["rule"] = ("one replay per (abstract state, method) pair explored by TLC (edge cover of the dumped graph), "
                       "per distinct trajectory of abstract states (%s; counts under coverage.graph) and seeded "
                       "random call sequences; every call is made twice; distinct = distinct (kind, call sequence)"
                       % ("up to 10 per kind, 1 labelling" if quick else "up to 800 per kind, 3 labellings")
                       + "; ordered pairs of calls on a fresh object (quick: all on Plate/PlateRedef, sampled elsewhere)")
    rep.cov["exhaustive"] = False
    rep.assumptions += [
        "re-definitions between calls are explored on one kind (PlateRedef: constant pre-load; ply thickness + material); "
        "the reference of a call is then the same call on a fresh object re-defined the same way first",
        "process-global state: every single call and every %s-th longer path is also replayed right after the same path on "
        "a twin object of another material in the same process and must give the same outcome, result and derived "
        "values" % ("(none in the quick tier)" if quick else "3"),
        "methods a model does not support at all (kpanel: kA, cA, strain, non-linear kernels) are not part of Methods(kind)",
        "'freshly defined object' reference of a call that cannot be first today = the same call after the shortest "
        "call sequence the specification says makes it succeed",
        "results passing through ARPACK (random start vector) are compared on eigenvalues only, at 2^-%d relative plus "
        "%d x the spread of %d reference runs with identical definition and history (the solver's own precision: "
        "the buckling problems of stiffened bays reproduce only to ~1e-4)" % (TOL, SPREAD_MULT, NREF),
        "caller arrays are handed over as contiguous float64 arrays, strided views and (shells) read-only arrays in turn; "
        "the repetition of a call receives the very same array objects as the first call",
        "bit-identity everywhere else (OMP_NUM_THREADS=1, OPENBLAS_NUM_THREADS=1 in the replay processes)",
        "the extension modules loaded are the ones built from the generated C sources (Cython is not installed)"]
    return rep.finish()


def thread_checks(rep, tier, seed, build, scratch, mutant, kinds):
    import concurrent.futures as cf
    from common import validate_trace
    quick = tier == "quick"
    sizes = [1, 7, 13, 37] if quick else [1, 2, 3, 5, 7, 11, 13, 17, 19, 23, 29, 31, 37, 41, 97]
    cores = list(range(1, 17))
    jobs = []
    table = [("Plate", ["uvw", "strain", "stress"]), ("CPanel", ["uvw", "strain", "stress"]),
             ("KPanel", ["uvw"]), ("BayPlain", ["uvw_skin"]), ("Cyl", ["uvw", "strain", "stress"])]
    for kind, meths in table:
        if kind not in kinds:
            continue
        for part in _chunks(sizes, 2):
            jobs.append(dict(type="threads", kind=kind, sizes=part, cores=cores, methods=meths,
                             prelude=["calc_k0"], seed=seed, pointwise_max=41, build=build, mutant=mutant))
    if "Cyl" in kinds:
        for kind in (["Cyl"] if quick else ["Cyl", "Cone"]):
            jobs.append(dict(type="integration", kind=kind, cores=[1, 2, 3, 4, 8] if quick else list(range(1, 9)),
                             build=build, mutant=mutant))

    def one(i):
        return _run_worker(jobs[i], "thr-%d" % i, scratch)

    events = []
    with cf.ThreadPoolExecutor(max_workers=6) as ex:
        for i, (recs, finished, err, rc) in enumerate(ex.map(one, range(len(jobs)))):
            if not finished:
                rep.machinery("thread-count worker %s/%s did not finish (rc=%s): %s"
                              % (jobs[i]["type"], jobs[i]["kind"], rc, err[-600:]))
            for r in recs:
                if r["t"] == "field":
                    events.append(dict(id=len(events), kind="field", okind=r["kind"], method=r["method"], S=r["S"],
                                       P=r["P"], eqSerial=r["eqSerial"], eqPointwise=r["eqPointwise"],
                                       checkedPointwise=r["checkedPointwise"]))
                elif r["t"] == "integ":
                    events.append(dict(id=len(events), kind="integ", okind=r["kind"], method=r["what"], S=r["n"],
                                       P=r["P"], obs=r["obs"], ref=r["ref"]))
    if not events:
        return
    cfg = "CONSTANTS MaxS = 100\nMaxP = 16\nTol = %d\n" % TOL
    verdicts, results, problems = validate_trace("c20-thr", "Trace_FieldChunks", cfg, events, timeout=3000)
    for res in results:
        rep.add_tlc("Trace_FieldChunks", res)
    for p in problems:
        rep.machinery(p)
    for e in events:
        v = verdicts.get(e["id"])
        rep.nontrivial(("threads", e["okind"], e["method"], e["S"], e["P"]))
        if v and v[0] != "ok":
            small = {k: e[k] for k in e if k not in ("obs", "ref")}
            rep.violation("%s.%s with %d %s on %d points/entries: %s" % (
                e["okind"], e["method"], e["P"], "cores" if e["kind"] == "field" else "integration threads", e["S"],
                str(v[1])[:300]), dict(event=small, bad=str(v[1])[:1000], mode="threads"))
    rep.cov["traces_validated_against_impl"] += len(events)
    rep.cov["evaluations"] += len(events)
    rep.cov["thread_events"] = dict(field=sum(1 for e in events if e["kind"] == "field"),
                                    integration=sum(1 for e in events if e["kind"] == "integ"),
                                    sizes=sizes, cores=cores)
    rep.sample({k: v for k, v in events[0].items() if k not in ("obs", "ref")})


def replay(path, build):
    """re-execute a violation written by run(): the recorded call sequence (or thread event) is replayed
    on a fresh object and judged again by the trace specification"""
    from common import Report
    from common import VERIF
    doc = json.load(open(path))
    r = doc["replay"]
    rep = Report("C20", "replay", 0)
    scratch = _scratch()
    evp = os.path.join(VERIF, "evidence", "C20.json")
    keep_ev = open(evp).read() if os.path.exists(evp) else None      # a replay does not replace the evidence of a run
    try:
        if r.get("mode") == "threads":
            e = r["event"]
            thread_checks(rep, "quick", 0, build, scratch, None, [e["okind"]])
        elif "deviation" in r:
            print("NOTE the replay file records an unlisted deviation (%s); re-running the quick check" % r["deviation"])
            return run("quick", 0, build)
        else:
            from common import run_tlc
            kind = r["kind"]
            mc = run_tlc("c20-mc", "MC_Lifecycle", tlc_cfg([kind], max(4, len(r["path"]))), workers=1,
                         timeout=900, fast=False)
            if not mc.ok:
                rep.machinery("TLC on MC_Lifecycle failed: " + mc.errors())
                return rep.finish()
            g = parse_graphs(mc.out)[kind]
            res, rrefs, pr = replay_kind(kind, g, [r["path"]], build, scratch, 1, record=(r.get("mode") != "concrete"))
            for p in pr:
                rep.machinery(p)
            w = set()
            for _, steps in res:
                for s in steps:
                    w.update(tuple(a) for a in s["writes"])
            events, info = [], {}
            for pth, steps in res:
                ev = make_event(len(events), kind, r.get("mode", "abstract"), steps, g.universe | w, rrefs)
                info[ev["id"]] = (kind, pth)
                events.append(ev)
            verdicts = judge(rep, "c20-rp", events, info, r.get("mode", "abstract"))
            drift = {}
            report_verdicts(rep, verdicts, events, info, drift)
            for e in events:
                print("replayed %s %s -> %s" % (kind, info[e["id"]][1], verdicts.get(e["id"], ("?",))[0]))
        return rep.finish()
    finally:
        import shutil
        shutil.rmtree(scratch, ignore_errors=True)
        if keep_ev is not None:
            with open(evp, "w") as f:
                f.write(keep_ev)


if __name__ == "__main__" and len(sys.argv) >= 3 and sys.argv[1] == "--worker":
    worker_main(sys.argv[2])
    sys.exit(0)
