"""C09 - Newton-Raphson incremental driver (DESIGN.md section 5, C09).

1. TLC checks spec/ctrl/NewtonRaphson.tla on bounded models (spec/mc/MC_NewtonRaphson.tla):
   with the two known-finding deviations on (= the code as it is) and off (= the literal property).
2. direction A: the state graph TLC printed is covered by paths; every path is a script (residual
   history, line-search history) that stub callables play to the real Analysis.static(NLgeom=True);
   the recorded run is validated by TLC against spec/trace/Trace_NewtonRaphson.tla.
3. direction B: free runs (1-dof non-linear springs with real callables, linear problems, real
   Panel models through recording wrappers) validated by the same trace specification.
All verdicts are TLC's; this file only produces inputs, records outputs exactly and counts."""
import collections
import concurrent.futures as cf
import json
import math
import os
import random
import re
import time
import warnings

import numpy as np

from common import (Fraction, Report, dyadic, run_tlc, printed_values, validate_trace, from_rat,
                    VERIF, BUILD)

PROP = "C09"
KF1 = "KF_C09_StopsShortOfFullLoad"
KF2 = "KF_C09_InitialIncAboveOne"
ACTIONS = ["InitSolve", "BeginStep", "MaxIter", "RefreshKT", "SkipKT", "EvalResidual", "Converged",
           "Diverged", "TooSlow", "Continue", "SolveDelta", "LineSearchDone", "LineSearchGiveUp",
           "LineSearchIter", "UpdateC", "Report", "Finish", "Grow", "PostStepKT", "PostStepNoKT",
           "StopMinInc", "Bisect", "RestartFromLast", "RestartFromLinear"]
DEAD_ACTIONS = ["BisectAgain"]      # `continue` of the max_total loop: unreachable for minInc > 0 (invariant BisectAgainDead)
NAN = [2, [], 0]
SCRIBBLE = -777.125
LS = {"one": (1, 0), "two": (2, 1), "small": (1, -7), "third": (1, -2), "flat": (1, 1), "big": (12, 11)}
FLAM = [Fraction(1), Fraction(-2), Fraction(3)]
RSHAPE = [Fraction(1, 2), Fraction(-1), Fraction(1, 4)]


# ----------------------------------------------------------------------------------------
# settings

def S(init=(3, 10), minInc=(1, 20), maxInc=(1, 1), tol=(1, 1024), slow=(1, 100), maxNumIter=3,
      maxIterLS=2, every=2, ls=False, mod=True, kt0=True):
    return dict(init=init, minInc=minInc, maxInc=maxInc, tol=tol, slow=slow, maxNumIter=maxNumIter,
                maxIterLS=maxIterLS, every=every, ls=ls, mod=mod, kt0=kt0)


def fl(nd):
    """the double nearest to n/d (what the specification calls Fl(RFrac(n, d)))"""
    return float(Fraction(nd[0], nd[1]))


def skey(s):
    return json.dumps(s, sort_keys=True)


def configure(a, s):
    a.initialInc = fl(s["init"])
    a.minInc = fl(s["minInc"])
    a.maxInc = fl(s["maxInc"])
    a.absTOL = fl(s["tol"])
    a.too_slow_TOL = fl(s["slow"])
    a.maxNumIter = s["maxNumIter"]
    a.max_iter_line_search = s["maxIterLS"]
    a.compute_every_n = s["every"]
    a.line_search = s["ls"]
    a.modified_NR = s["mod"]
    a.kT_initial_state = s["kt0"]
    a.NL_method = "NR"


def tb(b):
    return "TRUE" if b else "FALSE"


def common_consts(s, kf1, kf2):
    return (" InitIncN = %d InitIncD = %d MinIncN = %d MinIncD = %d MaxIncN = %d MaxIncD = %d\n"
            " SlowN = %d SlowD = %d\n"
            " maxNumIter = %d maxIterLS = %d computeEveryN = %d\n"
            " lineSearch = %s modifiedNR = %s kTInitialState = %s\n"
            " %s = %s %s = %s\n"
            % (tuple(s["init"]) + tuple(s["minInc"]) + tuple(s["maxInc"]) + tuple(s["slow"])
               + (s["maxNumIter"], s["maxIterLS"], s["every"], tb(s["ls"]), tb(s["mod"]), tb(s["kt0"]),
                  KF1, tb(kf1), KF2, tb(kf2))))


def tla_set(xs):
    return "{" + ", ".join('"%s"' % x if isinstance(x, str) else str(x) for x in xs) + "}"


def mc_cfg(s, kf1, kf2, env="scripted", dim=0, resid=(0, 1, 4, 8), lsn=("one", "two", "small"), emit=True,
           live=True):
    n, d = s["tol"]
    if n not in (0, 1) or d & (d - 1):
        raise ValueError("bounded models use absTOL = 2^-k or 0")
    props = ["INVARIANT DoneOK", "INVARIANT LinearSolved", "INVARIANT BisectAgainDead",
             "INVARIANT AttemptInRange", "PROPERTY ReportedEquilibrated", "PROPERTY IncrementsIncreasing",
             "PROPERTY Snapshots"]
    if live:
        props.append("PROPERTY Termination")
    return ("SPECIFICATION MCSpec\nCONSTANTS\n initialInc <- MC_initialInc\n minInc <- MC_minInc\n"
            " maxIncSetting <- MC_maxInc\n absTOL <- MC_absTOL\n tooSlowTOL <- MC_tooSlow\n"
            " ResidAlphabet <- MC_Resid\n LSAlphabet <- MC_LS\n"
            + common_consts(s, kf1, kf2) +
            " TolExp = %d\n ResidHalves = %s\n LSNames = %s\n EmitEdges = %s\n Env = \"%s\" Dim = %d\n"
            % (1000 if n == 0 else d.bit_length() - 1, tla_set(resid), tla_set(lsn), tb(emit), env, dim)
            + "\n".join(props) + "\nCHECK_DEADLOCK FALSE\n")


def trace_cfg(s, kf1, kf2):
    return ("CONSTANTS\n initialInc <- T_initialInc\n minInc <- T_minInc\n maxIncSetting <- T_maxInc\n"
            " absTOL <- T_absTOL\n tooSlowTOL <- T_tooSlow\n ResidAlphabet = {}\n LSAlphabet = {}\n"
            + common_consts(s, kf1, kf2) +
            " AbsTolN = %d AbsTolD = %d\n Env = \"scripted\" Dim = 0\n" % tuple(s["tol"]))


# ----------------------------------------------------------------------------------------
# exact encodings

def dy(x):
    x = float(x)
    return NAN if x != x else dyadic(x)


def dyv(a):
    return [dy(v) for v in np.asarray(a, dtype=float).ravel()]


def quant(inc):
    """load factor rounded to 20 binary places (NewtonRaphson!Quant)"""
    return Fraction(math.floor(Fraction(float(inc)) * 2 ** 20 + Fraction(1, 2)), 2 ** 20)


class ScriptExhausted(Exception):
    pass


class CallCap(Exception):
    pass


# ----------------------------------------------------------------------------------------
# user problems (the callables handed to Analysis)

class Problem:
    """records every call (arguments and returned values, exactly) and keeps the array objects it
    was handed / returned so that they can be scribbled on after the run"""
    mode = "concrete"
    cap = 20000

    def __init__(self):
        self.calls = []
        self.arrays = []
        self.kept = []
        self.n = 0

    @staticmethod
    def _content(o):
        if hasattr(o, "toarray"):
            return np.array(o.toarray(), dtype=float)
        return np.array(o, dtype=float)

    def keep(self, o):
        """remember what was handed to the driver (object and content) -> untouched() after the run"""
        self.kept.append((o, self._content(o).copy()))
        return o

    def untouched(self):
        for o, c0 in self.kept:
            c1 = self._content(o)
            if c1.shape != c0.shape or not np.array_equal(c1, c0, equal_nan=True):
                return 0
        return 1

    def tick(self):
        self.n += 1
        if self.n > self.cap:
            raise CallCap("more than %d calls into the user callables" % self.cap)

    def rec(self, fn, inc=0.0, c=(), ret=(), carr=None, out=None, **kw):
        e = dict(fn=fn, inc=dy(0.0 if inc is None else inc), c=dyv(c), ret=ret, rmax=dy(0.0), lin=[])
        e.update(kw)
        self.calls.append(e)
        for a in (carr, out):
            if isinstance(a, np.ndarray):
                self.arrays.append(a)
        if out is not None:
            self.keep(out)

    def leftover(self):
        return 0

    def scribble(self):
        for a in self.arrays:
            try:
                a[...] = SCRIBBLE
            except Exception:
                pass


def diag(scale, n):
    from scipy.sparse import csr_matrix
    return csr_matrix(np.eye(n) * scale)


class Scripted(Problem):
    """the scripted environment of NewtonRaphson.tla: fext(l) = q(l) FLam, k0 = 4 I, kT = 2^(n mod 3 - 1) I
    for the n-th call, fint = fext(l) - (scripted residual); Env = "linear": fint = 4 c, kT = 4 I"""

    def __init__(self, script, tol, dim=2, linear=False):
        Problem.__init__(self)
        self.script = list(script)
        self.tol = Fraction(tol[0], tol[1]) if tol[0] else Fraction(1, 1024)     # residual unit (absTOL = 0: 2^-10)
        self.dim = dim
        self.linear = linear
        self.pos = 0
        self.pending = None
        self.rcur = [Fraction(0)] * dim
        self.nkt = 0
        self.overrun = 0
        self.memo = {}

    def Fext(self, inc):
        q = quant(inc)
        return np.array([float(q * f) for f in FLAM[:self.dim]])

    def fext(self, inc=None, silent=False, **kw):
        self.tick()
        out = self.Fext(inc)
        self.rec("fext", inc, ret=dyv(out), out=out)
        return out

    def k0(self, silent=False, **kw):
        self.tick()
        self.rec("k0", ret=dy(4.0))
        return self.keep(diag(4.0, self.dim))

    def kT(self, c=None, inc=None, silent=False, **kw):
        self.tick()
        scale = 4.0 if self.linear else 2.0 ** ((self.nkt % 3) - 1)
        self.nkt += 1
        self.rec("kT", inc, c=c, ret=dy(scale), carr=c)
        return self.keep(diag(scale, self.dim))

    def fint(self, c=None, inc=None, silent=False, **kw):
        self.tick()
        cc = np.array(c, dtype=float)
        if self.linear:
            out = 4.0 * cc
        else:
            if self.pending is not None:
                mult, self.pending = self.pending, None
                resid = [mult * x for x in self.rcur]
            else:
                if self.pos >= len(self.script):
                    # the behaviour this script was cut from has ended but the driver goes on (a driver that
                    # differs from the generating model, e.g. a repaired one): keep answering "equilibrium"
                    kind, val = "r", 0
                    self.overrun += 1
                else:
                    kind, val = self.script[self.pos]
                self.pos += 1
                if kind == "r":
                    r = Fraction(val, 2) * self.tol
                    self.rcur = [r * sh for sh in RSHAPE[:self.dim]]
                    resid = self.rcur
                else:
                    a, b = LS[val]
                    self.pending = b
                    resid = [a * x for x in self.rcur]
            out = self.Fext(inc) - np.array([float(x) for x in resid])
            if np.isnan(cc).any():
                out = np.full(self.dim, np.nan)
        self.memo[(cc.tobytes(), float(inc))] = out.copy()
        self.rec("fint", inc, c=cc, ret=dyv(out), carr=c, out=out)
        return out

    def leftover(self):
        if self.linear:
            return 0
        return abs(len(self.script) - self.pos) + (1 if self.pending is not None else 0)

    def reevaluate(self, incs, cs):
        """max|fext(lambda) - fint(c, lambda)| of the user's callables at each reported pair; the script is
        a partial function: a pair that was never evaluated has no value (NaN)"""
        out = []
        for lam, c in zip(incs, cs):
            if self.linear:
                out.append(float(np.abs(self.Fext(lam) - 4.0 * c).max()))
                continue
            v = self.memo.get((np.array(c, dtype=float).tobytes(), float(lam)))
            out.append(float("nan") if v is None else float(np.abs(self.Fext(lam) - v).max()))
        return out


class Spring(Problem):
    """a genuine 1-dof non-linear problem: fint(c) = K (c + a2 c^2 + a3 c^3), fext(l) = l F, K = 2^k; the tangent
    handed out is the power of two nearest (in log) to the true one, so that solve() is exact.  a2 < 0
    gives a limit point (divergence, bisection, stop at minInc), a3 > 0 stiffening."""

    def __init__(self, K, a2, a3, F):
        Problem.__init__(self)
        self.K, self.a2, self.a3, self.F = float(K), float(a2), float(a3), float(F)

    def g(self, c):
        return self.K * (c + self.a2 * c * c + self.a3 * c * c * c)

    def fext(self, inc=1.0, silent=False, **kw):
        self.tick()
        out = np.array([inc * self.F])
        self.rec("fext", inc, ret=dyv(out), out=out)
        return out

    def k0(self, silent=False, **kw):
        self.tick()
        self.rec("k0", ret=dy(self.K))
        return diag(self.K, 1)

    def kT(self, c=None, inc=None, silent=False, **kw):
        self.tick()
        x = float(c[0])
        t = self.K * (1 + 2 * self.a2 * x + 3 * self.a3 * x * x)
        scale = 2.0 ** round(math.log2(t)) if t > 2.0 ** -6 * self.K else 2.0 ** -6 * self.K
        self.rec("kT", inc, c=c, ret=dy(scale), carr=c)
        return diag(scale, 1)

    def fint(self, c=None, inc=None, silent=False, **kw):
        self.tick()
        cc = np.array(c, dtype=float)
        out = np.array([self.g(float(cc[0]))])
        self.rec("fint", inc, c=cc, ret=dyv(out), carr=c, out=out)
        return out

    def reevaluate(self, incs, cs):
        return [abs(lam * self.F - self.g(float(c[0]))) for lam, c in zip(incs, cs)]


class Wrapped(Problem):
    """recording wrappers around the callables of a real structural object (opaque mode): a state vector
    is logged as the id of its content, every calc_fint call with max|fext - fint| for the load vector
    the object returned last"""
    mode = "opaque"

    def __init__(self, analysis):
        Problem.__init__(self)
        self.f = dict(fext=analysis.calc_fext, k0=analysis.calc_k0, fint=analysis.calc_fint,
                      kT=analysis.calc_kT)
        self.ids = {}
        self.last_fext = None
        self.fexts = []
        self.k0mat = None

    def cid(self, a):
        return self.ids.setdefault(np.asarray(a, dtype=float).ravel().tobytes(), len(self.ids) + 1)

    def fext(self, inc=None, silent=False, **kw):
        self.tick()
        out = self.f["fext"](inc=inc, silent=True)
        self.last_fext = np.array(out, dtype=float)
        self.fexts.append((len(self.calls), self.last_fext.copy()))
        self.rec("fext", inc)
        return out

    def k0(self, silent=False, **kw):
        self.tick()
        out = self.f["k0"](silent=True)
        self.k0mat = out.copy()
        self.rec("k0")
        return out

    def kT(self, c=None, inc=None, silent=False, **kw):
        self.tick()
        self.rec("kT", inc, c=[self.cid(c)])
        return self.f["kT"](c=c, inc=inc, silent=True)

    def fint(self, c=None, inc=None, silent=False, **kw):
        self.tick()
        cid = self.cid(c)
        out = self.f["fint"](c=c, inc=inc, silent=True)
        self.rec("fint", inc, c=[cid], rmax=dy(np.abs(self.last_fext - out).max()))
        return out

    def finish(self):
        """id of the linear solution for every load vector handed out (what InitSolve /
        RestartFromLinear must start from)"""
        from compmech.sparse import solve
        for pos, f in self.fexts:
            self.calls[pos]["lin"] = [dy(self.cid(solve(self.k0mat, f, silent=True)))] if self.k0mat is not None else []

    def reevaluate(self, incs, cs):
        return [float(np.abs(self.f["fext"](inc=lam, silent=True) - self.f["fint"](c=c, inc=lam, silent=True)).max())
                for lam, c in zip(incs, cs)]



def _forms():
    from scipy.sparse import csr_matrix, csc_matrix, coo_matrix
    return {"csr": csr_matrix, "csc": csc_matrix, "coo": coo_matrix, "dense": np.asarray, "npmatrix": np.matrix,
            "lil": lambda m: csr_matrix(m).tolil(), "dia": lambda m: csr_matrix(m).todia(),
            "bsr": lambda m: csr_matrix(m).tobsr()}


class Spring2(Problem):
    """two uncoupled stiffening springs fint_i = K (c_i + a3 c_i^3), fext = l F; tangent = one power of two times I
    (so solve is exact and Trace_NewtonRaphson recomputes every vector).  The SAME values are handed to the
    driver in different containers: matrices as csr/csc/coo/lil/dia/bsr/dense/np.matrix, vectors 1-D or as a
    column; a view into a larger buffer is handed out for fext/fint (the driver must not write into it)."""

    def __init__(self, K, a3, F, kform="csr", vform="1d"):
        Problem.__init__(self)
        self.K, self.a3 = float(K), float(a3)
        self.F = np.array(F, dtype=float)
        self.kf = _forms()[kform]
        self.vform = vform
        self.buf = []

    def g(self, c):
        return self.K * (c + self.a3 * c * c * c)

    def vec(self, v):
        big = np.full(len(v) + 4, 9.5)          # hand out a VIEW into a larger buffer
        big[2:2 + len(v)] = v
        self.buf.append(big)
        out = big[2:2 + len(v)]
        return out.reshape(-1, 1) if self.vform == "col" else out

    def mat(self, scale):
        return self.keep(self.kf(np.eye(len(self.F)) * scale))

    def fext(self, inc=1.0, silent=False, **kw):
        self.tick()
        out = self.vec(inc * self.F)
        self.rec("fext", inc, ret=dyv(out), out=out)
        return out

    def k0(self, silent=False, **kw):
        self.tick()
        self.rec("k0", ret=dy(self.K))
        return self.mat(self.K)

    def kT(self, c=None, inc=None, silent=False, **kw):
        self.tick()
        x = np.asarray(c, dtype=float).ravel()
        t = float(np.mean(self.K * (1 + 3 * self.a3 * x * x)))
        scale = 2.0 ** round(math.log2(t))
        self.rec("kT", inc, c=x, ret=dy(scale), carr=c)
        return self.mat(scale)

    def fint(self, c=None, inc=None, silent=False, **kw):
        self.tick()
        x = np.array(c, dtype=float).ravel()
        out = self.vec(self.g(x))
        self.rec("fint", inc, c=x, ret=dyv(out), carr=c, out=out)
        return out

    def untouched(self):
        ok = Problem.untouched(self)
        for big in self.buf:                    # the surroundings of every view
            if not (big[:2] == 9.5).all() or not (big[-2:] == 9.5).all():
                return 0
        return ok

    def reevaluate(self, incs, cs):
        return [float(np.abs(lam * self.F - self.g(np.asarray(c, dtype=float).ravel())).max()) for lam, c in zip(incs, cs)]


class Holder:
    """minimal stand-in for an Analysis-like owner of four callables (Wrapped reads calc_*)"""

    def __init__(self, fext, k0, fint, kT):
        self.calc_fext, self.calc_k0, self.calc_fint, self.calc_kT = fext, k0, fint, kT


def float32_problem(K, a3, F):
    """the same springs with float32 vectors: outside the binary64 model, judged in opaque mode (content ids,
    logged residual maxima, re-evaluated equilibrium)"""
    from scipy.sparse import csr_matrix
    F = np.array(F, dtype=np.float32)

    def g(c):
        c = np.asarray(c, dtype=np.float32)
        return (np.float32(K) * (c + np.float32(a3) * c * c * c)).astype(np.float32)

    def fext(inc=1.0, silent=False):
        return (np.float32(inc) * F).astype(np.float32)

    def k0(silent=False):
        return csr_matrix(np.eye(len(F)) * K)

    def kT(c=None, inc=1.0, silent=False):
        return csr_matrix(np.diag(K * (1 + 3 * a3 * np.asarray(c, dtype=float) ** 2)))

    def fint(c=None, inc=1.0, silent=False):
        return g(c)
    return Wrapped(Holder(fext, k0, fint, kT))


# ----------------------------------------------------------------------------------------
# running the real driver

def analysis_module():
    import compmech.analysis as m
    return m


def run_driver(s, prob, rid, expect=None, analysis=None, static=None):
    """one run of the real Analysis.static(NLgeom=True) -> run record for Trace_NewtonRaphson"""
    if analysis is None:
        analysis = analysis_module().Analysis(prob.fext, prob.k0, prob.fint, prob.kT)
    configure(analysis, s)
    err = ""
    with warnings.catch_warnings():
        warnings.simplefilter("ignore")
        with np.errstate(all="ignore"):
            try:
                if static is not None:
                    static()
                else:
                    analysis.static(NLgeom=True, silent=True)
            except ScriptExhausted:
                err = "the driver asked for more residuals than the behaviour has"
            except CallCap as e:
                err = str(e)
            except Exception as e:       # the driver itself failed
                err = "exception %s: %s" % (type(e).__name__, str(e)[:200])
    return collect(prob, analysis, rid, err, expect)


def collect(prob, analysis, rid, err="", expect=None):
    """run record of what the analysis object holds after a run made through the recorder `prob`"""
    untouched = prob.untouched()        # before the scribbling: did the driver write into what the callables returned?
    prob.scribble()
    try:
        incs = [float(x) for x in (analysis.increments or [])]
        cs = [np.array(x, dtype=float).ravel().copy() for x in (analysis.cs or [])]
        if prob.mode == "opaque":
            prob.finish()
            csl = [[dy(prob.cid(c))] for c in cs]
        else:
            csl = [dyv(c) for c in cs]
        equil = prob.reevaluate(incs, cs[:len(incs)])
        ret = dict(error=err, increments=[dy(x) for x in incs], cs=csl, equil=[dy(x) for x in equil],
                   leftover=prob.leftover(), untouched=untouched)
    except Exception as e:
        ret = dict(error=(err + " / result unreadable: %s" % e)[:300], increments=[], cs=[], equil=[], leftover=0,
                   untouched=untouched)
        incs = []
    rec = dict(id=rid, mode=prob.mode, calls=prob.calls, ret=ret,
               expect=expect or dict(on=0, increments=[], acts=[]))
    return rec, incs


# ----------------------------------------------------------------------------------------
# the state graph printed by MC_NewtonRaphson -> edge cover by paths -> scripts

_E = re.compile(r'<<"E",<<(-?\d+),(-?\d+)>>,"(\w+)",<<("?\w*"?),?("?\w*"?)>>,<<(-?\d+),(-?\d+)>>>>')


def graph_from(out):
    flat = re.sub(r"\s+", "", out)
    edges = collections.defaultdict(list)
    nodes = set()
    root = None
    for m in _E.finditer(flat):
        src = (int(m.group(1)), int(m.group(2)))
        dst = (int(m.group(6)), int(m.group(7)))
        ch = None
        if m.group(4):
            kind = m.group(4).strip('"')
            ch = (kind, int(m.group(5)) if kind == "r" else m.group(5).strip('"'))
        if (m.group(3), ch, dst) not in edges[src]:       # liveness checking re-evaluates (and re-prints) transitions
            edges[src].append((m.group(3), ch, dst))
        nodes.add(src)
        nodes.add(dst)
        if m.group(3) == "InitSolve":
            root = src
    ends = {}
    for v in printed_values(out, "END"):
        ends[tuple(v[1])] = [from_rat(r) for r in v[2]]
    return root, edges, nodes, ends


def path_cover(root, edges, cap, rng):
    """paths root -> terminal such that every edge lies on one (until `cap` paths); returns
    (paths as lists of (act, choice, dst), number of edges covered)"""
    parent = {root: None}
    order = [root]
    i = 0
    while i < len(order):
        u = order[i]
        i += 1
        for j, (_, _, v) in enumerate(edges.get(u, ())):
            if v not in parent:
                parent[v] = (u, j)
                order.append(v)
    covered = set()
    paths = []
    todo = [(u, j) for u in order for j in range(len(edges.get(u, ())))]
    # rare actions first, so that a capped cover still contains every action
    freq = collections.Counter(edges[u][j][0] for u, j in todo)
    todo.sort(key=lambda e: freq[edges[e[0]][e[1]][0]])
    for (u, j) in todo:
        if (u, j) in covered:
            continue
        if len(paths) >= cap:
            break
        pre = []
        x = u
        while parent[x] is not None:
            pre.append(parent[x])
            x = parent[x][0]
        pre.reverse()
        path = pre + [(u, j)]
        v = edges[u][j][2]
        while edges.get(v):
            cand = [k for k in range(len(edges[v])) if (v, k) not in covered]
            k = cand[0] if cand else rng.randrange(len(edges[v]))
            path.append((v, k))
            covered.add((v, k))
            v = edges[v][k][2]
        covered.update(path)
        paths.append(([edges[a][b] for a, b in path], v))
    return paths, len(covered), len(todo)


def fix_counts(res):
    """TlcResult takes the first 'N states generated' of the output, which can be a progress line with
    thousands separators; the final summary line is the last plain one"""
    m = re.findall(r"^(\d+) states generated, (\d+) distinct states found", res.out, re.M)
    if m:
        res.generated, res.distinct = int(m[-1][0]), int(m[-1][1])
    return res


# ----------------------------------------------------------------------------------------
# trace validation in parallel groups (one TLC per (settings, chunk of runs))

def validate_groups(tag, groups, kf1, kf2, rep, chunk=40, timeout=1500, fast=False):
    """groups: list of (settings, [run records]) -> {run id: (verdict, detail)}.  fast: TSpecFast, i.e. runs
    that are not accepted get no verdict (to be re-validated under TSpec for the "fail" verdict and its place)"""
    tasks = []
    for s, runs in groups:
        for k in range(0, len(runs), chunk):
            tasks.append((s, runs[k:k + chunk]))
    verdicts = {}

    def one(i):
        s, runs = tasks[i]
        return validate_trace("%s-%d" % (tag, i), "Trace_NewtonRaphson", trace_cfg(s, kf1, kf2), runs,
                              nproc=1, timeout=timeout, spec_name="TSpecFast" if fast else "TSpec",
                              judged=(lambda e: False) if fast else None)

    with cf.ThreadPoolExecutor(max_workers=16) as ex:
        for v, results, problems in ex.map(one, range(len(tasks))):
            verdicts.update(v)
            for res in results:
                rep.add_tlc("Trace_NewtonRaphson[%s]" % tag, fix_counts(res))
            for p in problems:
                rep.machinery(p)
    return verdicts


def judge(tag, groups, rep, describe):
    """DESIGN 4.5: validate with all deviations off; re-validate what fails with the listed deviations on.
    groups: [(settings, runs)]; describe(run id) -> (witness string, replay dict)"""
    by_id = {r["id"]: (s, r) for s, runs in groups for r in runs}
    verdicts = validate_groups(tag, groups, False, False, rep, fast=True)
    pending = [i for i in by_id if verdicts.get(i, ("missing", ""))[0] != "ok"]
    first_fail = {i: verdicts.get(i, "not accepted with all deviations off") for i in pending}
    counts = collections.Counter(ok=len(by_id) - len(pending))
    def above(i):
        s = by_id[i][0]
        return Fraction(*s["init"]) > 1
    # a deviation is only tried where its signature can apply (KF2 needs initialInc > 1)
    for kf1, kf2 in ((True, False), (False, True), (True, True)):
        todo = [i for i in pending if (not kf2) or above(i)]
        if not todo:
            continue
        sub = collections.defaultdict(list)
        for i in todo:
            s, r = by_id[i]
            sub[skey(s)].append(r)
        v2 = validate_groups("%s-kf%d%d" % (tag, kf1, kf2), [(json.loads(k), rs) for k, rs in sub.items()],
                             kf1, kf2, rep, fast=True)
        for i in todo:
            v = v2.get(i)
            if v and v[0].startswith("kf:"):
                for name in v[0][3:].split("+"):
                    rep.known(name, describe(i)[0])
                    counts[name] += 1
                pending.remove(i)
            elif v:
                first_fail[i] = (first_fail[i], v)
    if pending:     # total verdicts: TLC's "fail" with the place, under the literal specification
        sub = collections.defaultdict(list)
        for i in pending:
            s, r = by_id[i]
            sub[skey(s)].append(r)
        v3 = validate_groups("%s-diag" % tag, [(json.loads(k), rs) for k, rs in sub.items()], False, False, rep)
        for i in pending:
            first_fail[i] = v3.get(i, first_fail[i])
            verdicts[i] = v3.get(i, ("missing", ""))
    for i in pending:
        w, replay = describe(i)
        counts["violations"] += 1
        rep.violation("real driver run rejected by Trace_NewtonRaphson (with and without the listed "
                      "deviations): %s; TLC said %s" % (w, str(first_fail[i])[:900]), replay)
    return verdicts, counts


def dy2float(d):
    m = 0
    for k in reversed(d[1]):
        m = m * 10000 + k
    return math.ldexp(m, d[2]) * d[0]


def nudge(d):
    """the neighbouring double"""
    x = dy2float(d)
    return dy(np.nextafter(x, x + 1.0))


def corruptions(run, base_id):
    """copies of an accepted run with ONE recorded field changed by the smallest possible amount; every
    one of them must be rejected, otherwise the trace specification does not bind that field"""
    out = []

    def variant(what, edit):
        r = json.loads(json.dumps(run))
        r["id"] = base_id + len(out)
        r["expect"] = dict(on=0, increments=[], acts=[])
        edit(r)
        out.append((what, r))
    kfint = [i for i, e in enumerate(run["calls"]) if e["fn"] == "fint"]
    kkt = [i for i, e in enumerate(run["calls"]) if e["fn"] == "kT"]
    mid = kfint[len(kfint) // 2]
    variant("reported load factor moved by one ulp", lambda r: r["ret"]["increments"].__setitem__(0, nudge(r["ret"]["increments"][0])))
    variant("reported state moved by one ulp", lambda r: r["ret"]["cs"][-1].__setitem__(0, nudge(r["ret"]["cs"][-1][0])))
    variant("load factor of one calc_fint call moved by one ulp", lambda r: r["calls"][mid].__setitem__("inc", nudge(r["calls"][mid]["inc"])))
    variant("state argument of one calc_fint call moved by one ulp", lambda r: r["calls"][mid]["c"].__setitem__(0, nudge(r["calls"][mid]["c"][0])))
    variant("one calc_fint call missing", lambda r: r["calls"].pop(mid))
    variant("one calc_fint call duplicated", lambda r: r["calls"].insert(mid, r["calls"][mid]))
    if kkt:
        variant("one calc_kT call missing", lambda r: r["calls"].pop(kkt[-1]))
        variant("state argument of one calc_kT call moved by one ulp", lambda r: r["calls"][kkt[-1]]["c"].__setitem__(0, nudge(r["calls"][kkt[-1]]["c"][0])))
    variant("re-evaluated residual of a reported pair equals absTOL",
            lambda r: r["ret"]["equil"].__setitem__(0, [1, [1], -10]))
    variant("one reported pair missing", lambda r: (r["ret"]["increments"].pop(0), r["ret"]["cs"].pop(0), r["ret"]["equil"].pop(0)))
    return out


# ----------------------------------------------------------------------------------------
# lattices

def mc_lattice(tier):
    """(name, settings, env, dim, resid alphabet, ls alphabet, emit edges, path cap)"""
    L = []
    R4 = (0, 1, 4, 8)           # residuals {0, 1/2, 2, 4} absTOL
    R5 = (0, 1, 2, 4, 8)
    if tier == "quick":
        L.append(("base", S(), "scripted", 0, (1, 2, 4, 8), (), True, 80))      # 2: Rmax = absTOL exactly (boundary of <)
        L.append(("fullNR", S(mod=False, kt0=False, every=1, maxNumIter=4, minInc=(1, 8)), "scripted", 0, R4, (), True, 80))
        L.append(("ls", S(ls=True, maxIterLS=2), "scripted", 0, (0, 1, 4), ("one", "two", "small"), True, 80))
        L.append(("ls3", S(ls=True, maxIterLS=3, mod=False, init=(1, 2), minInc=(1, 4)), "scripted", 0, (0, 4, 8),
                  ("one", "flat", "third"), True, 80))
        L.append(("full1", S(init=(1, 1), minInc=(1, 8), every=1), "scripted", 0, R4, (), True, 80))
        L.append(("above", S(init=(2, 1), minInc=(1, 8)), "scripted", 0, (1, 4, 8), (), True, 60))
        # too_slow_TOL = 1/2: 8 -> 4 is a change rate of exactly 1/2 (boundary of <), 8 -> 6 is too slow
        L.append(("slow", S(init=(1, 2), slow=(1, 2), maxNumIter=4, minInc=(1, 8), kt0=False), "scripted", 0, (1, 4, 6, 8), (), True, 60))
        # minInc = 0.09 = 0.3*0.3 in binary64: the first bisection lands exactly on minInc (boundary of inc < minInc)
        L.append(("edge", S(minInc=(9, 100)), "scripted", 0, (1, 4, 8), (), True, 40))
        # coincidences: initialInc = minInc; maxNumIter = 1 (nothing can converge); absTOL = 0; the first attempt
        # 1e-3 below / above full load (0.999: |total-1| is one ulp above 1e-3; 1.001: below it)
        L.append(("minEq", S(init=(1, 8), minInc=(1, 8)), "scripted", 0, (1, 4, 8), (), True, 25))
        L.append(("mni1", S(maxNumIter=1, minInc=(1, 8)), "scripted", 0, (0, 4), (), True, 10))
        L.append(("tol0", S(tol=(0, 1), minInc=(1, 8), maxNumIter=4), "scripted", 0, (0, 4), (), True, 15))
        L.append(("near+", S(init=(1001, 1000), minInc=(1, 8)), "scripted", 0, (1, 4), (), True, 15))
        L.append(("short", S(init=(119, 250), minInc=(1, 8)), "scripted", 0, (1, 4), (), True, 30))
    else:
        for init in ((3, 10), (1, 2), (1, 1)):
            for minInc in ((1, 20), (1, 8)):
                for mni in (3, 4):
                    for mod, every, kt0 in ((True, 2, True), (True, 1, False), (False, 1, False), (False, 2, True)):
                        L.append(("t-%s-%s-%d-%s%d" % (init, minInc, mni, mod, every),
                                  S(init=init, minInc=minInc, maxNumIter=mni, mod=mod, every=every, kt0=kt0),
                                  "scripted", 0, R5 if mni == 3 else R4, (), True, 30))
        for init in ((3, 10), (1, 1)):
            for mls in (1, 2, 3):
                for mod in (True, False):
                    L.append(("t-ls-%s-%d-%s" % (init, mls, mod),
                              S(init=init, ls=True, maxIterLS=mls, mod=mod, minInc=(1, 8)), "scripted", 0, (0, 1, 4, 8),
                              ("one", "two", "small", "flat", "third", "big"), True, 60))
        L.append(("t-above", S(init=(2, 1), minInc=(1, 8)), "scripted", 0, R4, (), True, 100))
        L.append(("t-above15", S(init=(3, 2), minInc=(1, 20), maxInc=(1, 4)), "scripted", 0, R4, (), True, 100))
        L.append(("t-slow", S(init=(1, 2), slow=(1, 2), maxNumIter=4, minInc=(1, 8)), "scripted", 0, (1, 4, 6, 8), (), True, 100))
        L.append(("t-slow35", S(init=(1, 2), slow=(3, 5), maxNumIter=5, minInc=(1, 8), every=3), "scripted", 0, (1, 4, 6, 8), (), True, 100))
        L.append(("t-edge", S(minInc=(9, 100)), "scripted", 0, (1, 2, 4, 8), (), True, 60))
        L.append(("t-minEq", S(init=(1, 20), minInc=(1, 20)), "scripted", 0, R5, (), True, 40))
        L.append(("t-mni1", S(maxNumIter=1), "scripted", 0, R4, (), True, 20))
        L.append(("t-mni2ls", S(maxNumIter=2, ls=True, minInc=(1, 8)), "scripted", 0, (0, 1, 4), ("one", "two", "flat"), True, 40))
        L.append(("t-tol0", S(tol=(0, 1), maxNumIter=4), "scripted", 0, (0, 1, 4), (), True, 30))
        L.append(("t-tol0ls", S(tol=(0, 1), maxNumIter=3, ls=True, minInc=(1, 8)), "scripted", 0, (0, 4), ("one", "third"), True, 30))
        L.append(("t-near", S(init=(999, 1000), minInc=(1, 20)), "scripted", 0, R4, (), True, 40))
        L.append(("t-near+", S(init=(1001, 1000), minInc=(1, 20)), "scripted", 0, R4, (), True, 40))
        L.append(("t-short", S(init=(119, 250), minInc=(1, 20)), "scripted", 0, R4, (), True, 60))
        L.append(("t-maxinc", S(init=(1, 8), maxInc=(1, 4), minInc=(1, 16)), "scripted", 0, (1, 4, 8), (), True, 60))
        L.append(("t-dim2", S(minInc=(1, 8), maxNumIter=3), "scripted", 2, (1, 4, 8), (), False, 0))
        L.append(("t-dim2ls", S(minInc=(1, 4), ls=True, init=(1, 2)), "scripted", 2, (0, 4), ("one", "two", "third"), False, 0))
        L.append(("t-deep", S(minInc=(1, 50)), "scripted", 0, R5, (), True, 150))
        L.append(("t-deep1", S(init=(1, 1), minInc=(1, 30)), "scripted", 0, R5, (), True, 150))
    # linear problems (deterministic, one behaviour each): the method switches
    if tier == "quick":
        lin = [((3, 10), False, True, 2, True), ((1, 1), True, False, 1, False), ((2, 1), False, True, 2, True),
               ((119, 250), True, True, 6, False), ((999, 1000), False, True, 2, True), ((1001, 1000), True, False, 1, False)]
    else:
        lin = [(init, ls, mod, every, kt0)
               for init in ((3, 10), (1, 1), (2, 1), (119, 250), (1, 8), (7, 10), (999, 1000), (1001, 1000)) for ls in (False, True)
               for mod, every, kt0 in ((True, 2, True), (True, 6, False), (False, 1, False), (False, 2, True))]
    for init, ls, mod, every, kt0 in lin:
        L.append(("lin-%s-%s-%s%d" % (init, ls, mod, every),
                  S(init=init, ls=ls, maxIterLS=3, mod=mod, every=every, kt0=kt0, maxNumIter=5), "linear", 2, (), (), True, 1))
    return L


def spring_lattice(tier, rng):
    """direction B: free runs of genuine 1-dof problems under settings outside the bounded models"""
    out = []
    sets = [S(init=(3, 10), minInc=(1, 1000), tol=(1, 1000), slow=(1, 100), maxNumIter=30, maxIterLS=20, every=6,
              ls=True, mod=True, kt0=True),                                   # the defaults of Analysis
            S(init=(3, 10), minInc=(1, 1000), tol=(1, 1000), maxNumIter=30, every=6, ls=False, mod=True, kt0=False),  # Panel.static
            S(init=(1, 5), minInc=(1, 100), tol=(1, 4096), maxNumIter=4, every=1, ls=False, mod=False, kt0=False),
            S(init=(1, 1), minInc=(1, 50), tol=(1, 512), maxNumIter=6, every=3, ls=True, maxIterLS=4, mod=True, kt0=True),
            S(init=(7, 10), minInc=(1, 200), maxInc=(1, 5), tol=(1, 100), maxNumIter=8, every=2, ls=False, mod=True),
            S(init=(5, 4), minInc=(1, 64), tol=(1, 256), maxNumIter=5, every=2, ls=True, maxIterLS=3, mod=False)]
    per = 4 if tier == "quick" else 16
    for s in sets:
        for _ in range(per):
            a2 = rng.choice([0, 0, -1.5, -1.0, -0.75, -2.0])
            a3 = rng.choice([0, 0.5, 1.0, 4.0, 0.25])
            F = rng.choice([0.125, 0.25, 0.5, 1.0, 2.0, 3.0]) * rng.choice([1, 1, -1])
            K = rng.choice([1.0, 2.0, 8.0])
            out.append((s, (K, a2, a3, F * K)))
    return out


# ----------------------------------------------------------------------------------------
# real structural models (opaque mode)

def panel_cases(tier):
    cases = [dict(model="plate_clt_donnell_bardell", m=4, n=4, P=1000., wload=0.001, init=(3, 10), maxNumIter=30),
             dict(model="plate_clt_donnell_bardell", m=4, n=4, P=30000., wload=5.0, init=(1, 1), maxNumIter=4)]
    if tier != "quick":
        cases += [dict(model="cpanel_clt_donnell_bardell", m=4, n=4, P=20000., wload=20.0, init=(1, 2), maxNumIter=5),
                  dict(model="plate_clt_donnell_bardell", m=5, n=5, P=3000., wload=1.0, init=(1, 2), maxNumIter=6)]
    return cases


def conecyl_cases(tier):
    cases = [dict(model="clpt_donnell_bc1", m1=6, m2=3, n2=4, spl=10, fc=-15., init=(1, 2), maxNumIter=30)]
    if tier != "quick":
        cases += [dict(model="clpt_donnell_bc1", m1=6, m2=3, n2=4, spl=300, fc=-3000., init=(1, 1), maxNumIter=3),
                  dict(model="fsdt_donnell_bc1", m1=5, m2=3, n2=3, spl=10, fc=-15., init=(3, 10), maxNumIter=30)]
    return cases


def assembly_cases(tier):
    cases = [dict(npanels=2, m=4, n=4, Nxx=-20000., spla=20., init=(1, 2), maxNumIter=8)]
    if tier != "quick":
        cases += [dict(npanels=3, m=4, n=4, Nxx=-200000., spla=200., init=(1, 1), maxNumIter=4)]
    return cases


def make_panel(case):
    from compmech.panel import Panel
    p = Panel()
    p.model = case["model"]
    p.w1tx = 0
    p.w1rx = 1
    p.u1tx = 1
    p.u1ty = 1
    p.u2ty = 1
    p.a = 2.
    p.b = 1.
    p.r = 10. if case["model"].startswith("cpanel") else 1.e5
    p.stack = [0, 90, -45, +45]
    p.plyt = 1e-3 * 0.125
    p.laminaprop = (142.5e9, 8.7e9, 0.28, 5.1e9, 5.1e9, 5.1e9)
    p.nx = p.m = case["m"]
    p.ny = p.n = case["n"]
    npts = 20
    p.forces_inc = []
    for y in np.linspace(0, p.b, npts):
        p.forces_inc.append([0., y, case["P"] / (npts - 1.), 0, 0])
    p.forces_inc[0][2] /= 2.
    p.forces_inc[-1][2] /= 2.
    p.forces_inc.append([p.a / 2., p.b / 2., 0, 0, case["wload"]])
    return p


def run_panel(case, rid):
    p = make_panel(case)
    s = S(init=case["init"], minInc=(1, 1000), tol=(1, 1000), slow=(1, 100), maxNumIter=case["maxNumIter"],
          maxIterLS=20, every=6, ls=False, mod=True, kt0=False)    # what Panel.static forces: no line search, no kT at start
    p._rebuild()
    a = p.analysis
    prob = Wrapped(a)
    a.calc_fext, a.calc_k0, a.calc_fint, a.calc_kT = prob.fext, prob.k0, prob.fint, prob.kT
    configure(a, s)

    def static():
        # Panel.static resets line_search / kT_initial_state / compute_every_n itself and calls analysis.static
        p.static(NLgeom=True, silent=True)
    rec, incs = run_driver(s, prob, rid, analysis=a, static=static)
    return s, rec, incs



def run_wrapped(analysis, s, rid, static=None):
    """wrap the four callables of an Analysis that belongs to a real structural object and run it"""
    prob = Wrapped(analysis)
    analysis.calc_fext, analysis.calc_k0, analysis.calc_fint, analysis.calc_kT = prob.fext, prob.k0, prob.fint, prob.kT
    return run_driver(s, prob, rid, analysis=analysis, static=static)


def run_conecyl(case, rid):
    """ConeCyl.static(NLgeom=True) (line search switched off: opaque runs do not model it)"""
    from compmech.conecyl import ConeCyl
    cc = ConeCyl()
    cc.model = case["model"]
    cc.m1, cc.m2, cc.n2 = case["m1"], case["m2"], case["n2"]
    cc.name = "Z33"
    cc.laminaprop = (123.55e3, 8.708e3, 0.319, 5.695e3, 5.695e3, 5.695e3)
    cc.stack = [0, 0, 19, -19, 37, -37, 45, -45, 51, -51]
    cc.plyt = 0.125
    cc.r2 = 250.
    cc.H = 510.
    cc.add_SPL(case["spl"], increment=False)
    for thetadeg in np.linspace(0, 360, 40, endpoint=False):
        cc.add_force(0., thetadeg, case["fc"], 0, 0, increment=True)
    s = S(init=case["init"], minInc=(1, 1000), tol=(1, 1000), slow=(1, 100), maxNumIter=case["maxNumIter"],
          maxIterLS=20, every=6, ls=False, mod=True, kt0=True)
    rec, incs = run_wrapped(cc.analysis, s, rid, static=lambda: cc.static(NLgeom=True, silent=True))
    return s, rec, incs


def run_assembly(case, rid):
    """a PanelAssembly (cylinder made of panels joined by penalty connections) driven through Analysis, as
    compmech.panel.assembly.cylinder.cylinder_spla does"""
    from compmech.panel.assembly.cylinder import create_cylinder_assy
    analysis_cls = analysis_module().Analysis
    assy, conns = create_cylinder_assy(height=0.5, r=0.25, stack=[0, 45, -45, 90, 90, -45, 45, 0], plyt=1.25e-4,
                                       laminaprop=(142.5e9, 8.7e9, 0.28, 5.1e9, 5.1e9, 5.1e9),
                                       npanels=case["npanels"], m=case["m"], n=case["n"])
    for p in assy.panels:
        p.u2tx = 1
        nf = 12
        fx = case["Nxx"] * p.b / (nf - 1.)
        for i in range(nf):
            p.add_force(p.a, i * p.b / (nf - 1.), fx / 2. if i in (0, nf - 1) else fx, 0, 0, cte=False)
    p0 = assy.panels[0]
    p0.add_force(p0.a / 2, p0.b / 2, 0, 0, -case["spla"], cte=True)
    assy.conn = conns
    a = analysis_cls(assy.calc_fext, assy.calc_k0, assy.calc_fint, assy.calc_kT)
    s = S(init=case["init"], minInc=(1, 1000), tol=(1, 1000), slow=(1, 100), maxNumIter=case["maxNumIter"],
          maxIterLS=20, every=6, ls=False, mod=False, kt0=False)
    rec, incs = run_wrapped(a, s, rid)
    return s, rec, incs


# ----------------------------------------------------------------------------------------
# histories on ONE Analysis object (spec/ctrl/AnalysisDispatch.tla, spec/trace/Trace_AnalysisDispatch.tla)

KF3 = "KF_C09_MaxIncRatchets"
DEFAULTS = dict(initialInc=(3, 10), minInc=(1, 1000), maxInc=(1, 1), absTOL=(1, 1000), too_slow_TOL=(1, 100),
                maxNumIter=30, max_iter_line_search=20, compute_every_n=6, line_search=True, modified_NR=True,
                kT_initial_state=True, NL_method="NR")
DISPATCH_SPRING = (1.0, 0.0, 1.0, 1.0)      # K, a2, a3, F: stiffening, converges, so the increment limits decide the history


def set_attr(a, name, val):
    setattr(a, name, fl(val) if isinstance(val, tuple) else val)


def fixed_histories():
    H = []
    H.append([("set", "initialInc", (3, 10)), ("set", "maxInc", (1, 10)), ("static", True),
              ("set", "initialInc", (1, 20)), ("static", True)])                       # the ratchet
    H.append([("static", False), ("static", True), ("static", False), ("static", True)])
    H.append([("set", "maxInc", (1, 4)), ("set", "initialInc", (1, 2)), ("static", False), ("static", True), ("static", False)])
    H.append([("set", "NL_method", "arc_length"), ("static", True), ("set", "NL_method", "NR"), ("static", True)])
    H.append([("set", "NL_method", "newton"), ("static", True), ("static", False), ("set", "NL_method", "NR"),
              ("set", "initialInc", (2, 1)), ("static", True), ("set", "initialInc", (1, 2)), ("static", True)])
    H.append([("set", "initialInc", (1, 1)), ("set", "minInc", (1, 1)), ("static", True),
              ("set", "maxNumIter", 1), ("static", True), ("set", "maxNumIter", 30), ("static", True)])
    H.append([("set", "line_search", False), ("set", "modified_NR", False), ("set", "kT_initial_state", False),
              ("static", True), ("set", "absTOL", (1, 64)), ("set", "line_search", True), ("static", True),
              ("static", False)])
    return H


def random_history(rng):
    ops = []
    n = rng.randint(4, 8)
    for _ in range(n):
        k = rng.random()
        if k < 0.4:
            ops.append(("static", rng.random() < 0.75))
        elif k < 0.6:
            ops.append(("set", "initialInc", rng.choice([(1, 20), (3, 10), (1, 2), (1, 1), (2, 1)])))
        elif k < 0.72:
            ops.append(("set", "maxInc", rng.choice([(1, 10), (1, 4), (1, 1)])))
        elif k < 0.8:
            ops.append(("set", "NL_method", rng.choice(["NR", "NR", "arc_length", "newton"])))
        else:
            name = rng.choice(["minInc", "maxNumIter", "absTOL", "line_search", "modified_NR", "kT_initial_state"])
            val = {"minInc": rng.choice([(1, 1000), (1, 50)]), "maxNumIter": rng.choice([3, 6, 30]),
                   "absTOL": rng.choice([(1, 1024), (1, 64), (1, 1000)])}.get(name)
            ops.append(("set", name, rng.random() < 0.5 if val is None else val))
    ops += [("static", True)] * max(0, 2 - sum(1 for o in ops if o[0] == "static"))
    return ops


def nl_call(a, nlgeom):
    prob = Spring(*DISPATCH_SPRING)
    a.calc_fext, a.calc_k0, a.calc_fint, a.calc_kT = prob.fext, prob.k0, prob.fint, prob.kT
    res = None
    with warnings.catch_warnings():
        warnings.simplefilter("ignore")
        with np.errstate(all="ignore"):
            try:
                res = a.static(NLgeom=nlgeom, silent=True)
                outcome = "ok"
            except Exception as e:
                outcome = type(e).__name__
    return prob, res, outcome


def observed(a, outcome):
    from compmech.sparse import solve
    ref = Spring(*DISPATCH_SPRING)          # the linear solution K^-1 fext() of the problem, from the callables
    with np.errstate(all="ignore"):
        lin = solve(ref.k0(), ref.fext(), silent=True)
    return dict(outcome=outcome, incs=[dy(x) for x in (a.increments or [])],
                cs=[dyv(c) for c in (a.cs or [])], maxIncAfter=dy(a.maxInc), last=str(a.last_analysis), lin=dyv(lin))


def play_history(ops, hid, rid0):
    """run the operations on one object; for every static() also on reference objects.  Returns the history
    record for Trace_AnalysisDispatch and the (effective settings, run record) of every successful non-linear
    call on the used object for Trace_NewtonRaphson"""
    Analysis = analysis_module().Analysis
    a = Analysis()
    assigned = dict(DEFAULTS)
    sets = []
    recs = []
    earlier = []
    out = []
    ops = [("set", "initialInc", DEFAULTS["initialInc"]), ("set", "maxInc", DEFAULTS["maxInc"])] + list(ops)
    for op in ops:
        if op[0] == "set":
            _, name, val = op
            set_attr(a, name, val)
            assigned[name] = val
            sets.append((name, val))
            out.append(dict(op="set", name=name, val=dy(fl(val)) if isinstance(val, tuple) else dy(float(val)) if not isinstance(val, str) else dy(0.0),
                            sval=val if isinstance(val, str) else ""))
            continue
        nlgeom = op[1]
        attr_before = a.maxInc
        prob, res, outcome = nl_call(a, nlgeom)
        obs = observed(a, outcome)
        obs["sameLists"] = 1 if (res is None or (res[0] is a.increments and res[1] is a.cs)) else 0
        obs["earlierIntact"] = 1 if all(list(li) == si and len(lc) == len(sc) and all(np.array_equal(x, y) for x, y in zip(lc, sc))
                                        and li is not a.increments and lc is not a.cs
                                        for li, lc, si, sc in earlier) else 0
        if res is not None:
            earlier.append((res[0], res[1], list(res[0]), [np.array(c).copy() for c in res[1]]))
        refs = {}
        for tag in ("fresh", "ratchet"):
            b = Analysis()
            for name, val in sets:
                set_attr(b, name, val)
            if tag == "ratchet":
                b.maxInc = attr_before
            _, _, oc = nl_call(b, nlgeom)
            refs[tag] = observed(b, oc)
        out.append(dict(op="static", nlgeom=1 if nlgeom else 0, obs=obs, fresh=refs["fresh"], ratchet=refs["ratchet"]))
        if nlgeom and outcome == "ok":
            fr = Fraction(attr_before).limit_denominator(10 ** 6)
            s_eff = S(init=assigned["initialInc"], minInc=assigned["minInc"], maxInc=(fr.numerator, fr.denominator),
                      tol=assigned["absTOL"], slow=assigned["too_slow_TOL"], maxNumIter=assigned["maxNumIter"],
                      maxIterLS=assigned["max_iter_line_search"], every=assigned["compute_every_n"],
                      ls=assigned["line_search"], mod=assigned["modified_NR"], kt0=assigned["kT_initial_state"])
            if fl(s_eff["maxInc"]) == attr_before:
                rec, incs = collect(prob, a, rid0 + len(recs))
                recs.append((s_eff, rec, incs))
    return dict(id=hid, ops=out), recs


def judge_histories(hist, rep, describe):
    """literal first (KF off), then the listed deviation"""
    cfg = "CONSTANTS KF_C09_MaxIncRatchets = %s\n IncValues = {}\n MaxIncValues = {}\n Methods = {}\n"
    v, results, problems = validate_trace("c09-disp", "Trace_AnalysisDispatch", cfg % "FALSE", hist, nproc=2, timeout=600)
    for r in results:
        rep.add_tlc("Trace_AnalysisDispatch", fix_counts(r))
    for p_ in problems:
        rep.machinery(p_)
    bad = [h for h in hist if v.get(h["id"], ("missing",))[0] != "ok"]
    counts = collections.Counter(ok=len(hist) - len(bad))
    if bad:
        v2, results, problems = validate_trace("c09-dispkf", "Trace_AnalysisDispatch", cfg % "TRUE", bad, nproc=2, timeout=600)
        for r in results:
            rep.add_tlc("Trace_AnalysisDispatch[kf]", fix_counts(r))
        for p_ in problems:
            rep.machinery(p_)
        for h in bad:
            w, replay = describe(h["id"])
            if v2.get(h["id"], ("missing",))[0] == "kf:" + KF3:
                rep.known(KF3, w)
                counts[KF3] += 1
            else:
                counts["violations"] += 1
                rep.violation("history on one Analysis object rejected by Trace_AnalysisDispatch: %s; literal: %s; with %s: %s"
                              % (w, str(v.get(h["id"]))[:500], KF3, str(v2.get(h["id"]))[:500]), replay)
    return counts

# ----------------------------------------------------------------------------------------

def settings_str(s):
    return ("initialInc=%s minInc=%s maxInc=%s absTOL=%s too_slow_TOL=%s maxNumIter=%d max_iter_line_search=%d "
            "compute_every_n=%d line_search=%s modified_NR=%s kT_initial_state=%s"
            % (fl(s["init"]), fl(s["minInc"]), fl(s["maxInc"]), fl(s["tol"]), fl(s["slow"]), s["maxNumIter"],
               s["maxIterLS"], s["every"], s["ls"], s["mod"], s["kt0"]))


def run(tier, seed, build):
    # ~150 short TLC runs: JIT level 1 and two GC threads halve their CPU cost (measured 12.8 -> 6.3 CPU-s for a
    # 5k-state model, 3.6 -> 1.1 for a 50-state one); inherited by every TLC started below
    saved = os.environ.get("JAVA_TOOL_OPTIONS")
    os.environ["JAVA_TOOL_OPTIONS"] = "-XX:TieredStopAtLevel=1 -XX:ParallelGCThreads=2 -XX:CICompilerCount=1"
    try:
        return _run(tier, seed, build)
    finally:
        if saved is None:
            os.environ.pop("JAVA_TOOL_OPTIONS", None)
        else:
            os.environ["JAVA_TOOL_OPTIONS"] = saved


def _run(tier, seed, build):
    rep = Report(PROP, tier, seed)
    rng = random.Random(seed)
    rep.assumptions += [
        "admissible settings: minInc > 0, initialInc > 0, absTOL > 0, maxNumIter >= 1, max_iter_line_search >= 1 "
        "(minInc = 0 can loop forever and is documented as terminating the analysis 'if achieved')",
        "binary64 arithmetic of the driver is modelled operation by operation (NewtonRaphson!Fl); magnitudes stay in 2^-200..2^200",
        "stub matrices are power-of-two multiples of the identity so that scipy's spsolve is exact",
        "residual vectors returned by the user callables are finite at residual evaluations (NaN only inside the line search)",
        "opaque (real model) runs: line search off (Panel.static forces it off); vectors compared by content identity",
    ]
    lattice = mc_lattice(tier)

    # 1. bounded models: code-as-is (deviations on, edges emitted) and literal property (deviations off)
    # per bounded model: "graph" = code as is, edges printed, safety only (liveness checking re-evaluates and
    # re-prints every transition several times); "on" = code as is, all properties; "off" = literal property.
    # The tiny linear models do graph and "on" in one run.
    def mc_one(job):
        k, kind = job
        name, s, env, dim, resid, lsn, emit, cap = lattice[k]
        kf = kind != "off"
        lin = env == "linear" or tier == "quick"      # small models: graph and properties in one run
        res = fix_counts(run_tlc("c09-mc%d%s" % (k, kind), "MC_NewtonRaphson",
                                 mc_cfg(s, kf, kf, env, dim, resid, lsn, emit=(kind == "graph" or (lin and kf)),
                                        live=(kind != "graph")),
                                 workers=(1 if env == "linear" else 4), timeout=3000))
        if res.ok and emit and (kind == "graph" or (lin and kf)):
            res.graph = graph_from(res.out)         # parsed here (while other TLC runs are busy); the text is dropped
            res.out = res.out[-4000:]
        return res

    t0 = time.time()
    jobs = []
    for k, (name, s, env, dim, resid, lsn, emit, cap) in enumerate(lattice):
        jobs += [(k, "on"), (k, "off")] + ([(k, "graph")] if emit and env != "linear" and tier != "quick" else [])
    jobs.sort(key=lambda j: lattice[j[0]][2] == "linear")        # long jobs first
    with cf.ThreadPoolExecutor(max_workers=8) as ex:
        done = dict(zip(jobs, ex.map(mc_one, jobs)))
    mcres = [(done[(k, "on")], done[(k, "off")], done.get((k, "graph"), done[(k, "on")])) for k in range(len(lattice))]
    seen_actions = collections.Counter()
    sig_reached = collections.Counter()
    groups = []           # direction A: (settings, runs)
    info = {}             # run id -> description
    rid = 0
    edges_total = edges_covered = 0
    for (name, s, env, dim, resid, lsn, emit, cap), (on, off, gr) in zip(lattice, mcres):
        rep.add_tlc("MC_NewtonRaphson[%s, code as is]" % name, on)
        rep.add_tlc("MC_NewtonRaphson[%s, literal]" % name, off)
        for res, what in ((on, "deviations on"), (off, "deviations off"), (gr, "graph")):
            if not res.ok:
                rep.machinery("TLC on MC_NewtonRaphson[%s, %s] failed: %s" % (name, what, res.errors() or res.out[-1500:]))
        if not (on.ok and gr.ok and emit):
            continue
        if gr.distinct != on.distinct:
            rep.machinery("graph run of %s found %d states, property run %d" % (name, gr.distinct, on.distinct))
        on = gr
        root, edges, nodes, ends = on.graph
        for incs_end in ends.values():
            if incs_end and incs_end[-1] != 1 and abs(incs_end[-1] - 1) < Fraction(1, 1000):
                sig_reached[KF1] += 1
            if incs_end and incs_end[0] > 1:
                sig_reached[KF2] += 1
        if root is None or len(nodes) != on.distinct:
            rep.machinery("state graph of %s: parsed %d nodes, TLC found %d states" % (name, len(nodes), on.distinct))
            continue
        for u in edges:
            for act, _, _ in edges[u]:
                seen_actions[act] += 1
        paths, ncov, nedges = path_cover(root, edges, cap, rng)
        edges_total += nedges
        edges_covered += ncov
        runs = []
        for path, last in paths:
            script = [ch for _, ch, _ in path if ch is not None]
            acts = [a for a, _, _ in path]
            if last not in ends:
                rep.machinery("path of %s does not end in a done state" % name)
                continue
            expect = dict(on=1, increments=[dy(float(x)) for x in ends[last]], acts=acts)
            prob = Scripted(script, s["tol"], dim=2, linear=(env == "linear"))
            rec, incs = run_driver(s, prob, rid, expect=expect)
            info[rid] = dict(kind="replay of TLC behaviour", model=name, settings=s, script=script,
                             linear=(env == "linear"), increments=incs)
            rep.nontrivial((name, tuple(sorted(set(acts))), len(incs)))
            runs.append(rec)
            rid += 1
        groups.append((s, runs))
    missing = [a for a in ACTIONS if not seen_actions[a]]
    if missing:
        rep.machinery("vacuity: actions never taken in the bounded models: %s" % missing)
    for kf in (KF1, KF2):
        if not sig_reached[kf]:
            rep.machinery("vacuity: the signature of %s is not reachable in any bounded model" % kf)
    rep.cov["deviation_signatures_reached_in_models"] = dict(sig_reached)
    if any(seen_actions[a] for a in DEAD_ACTIONS):
        rep.machinery("action expected to be unreachable was taken: %s" % DEAD_ACTIONS)
    if tier != "quick":
        # the defaults of Analysis (maxNumIter 30, line search 20, minInc 1e-3): random walks, safety only
        sdef = S(init=(3, 10), minInc=(1, 1000), tol=(1, 1024), slow=(1, 100), maxNumIter=30, maxIterLS=20, every=6,
                 ls=True, mod=True, kt0=True)
        sim = fix_counts(run_tlc("c09-sim", "MC_NewtonRaphson",
                                 mc_cfg(sdef, True, True, "scripted", 0, (0, 1, 2, 4, 6, 7, 8, 12), tuple(sorted(LS)),
                                        emit=False, live=False),
                                 workers=8, simulate="num=48", args=["-depth", "20000", "-seed", str(seed)], timeout=1500))
        rep.add_tlc("MC_NewtonRaphson[defaults, -simulate num=48 -depth 20000]", sim)
        if not sim.ok:
            rep.machinery("TLC -simulate on the default settings failed: %s" % (sim.errors() or sim.out[-1500:]))
    t_mc = time.time() - t0

    def describe(i):
        d = info[i]
        w = "%s [%s] %s -> increments %s" % (d["kind"], d.get("model", ""), settings_str(d["settings"]), d["increments"])
        return w, d

    nA = rid
    # 2. direction B: free runs
    groupsB = collections.defaultdict(list)
    for s, (K, a2, a3, F) in spring_lattice(tier, rng):
        rec, incs = run_driver(s, Spring(K, a2, a3, F), rid)
        info[rid] = dict(kind="1-dof spring fint = K(c + a2 c^2 + a3 c^3), fext = l F", spring=[K, a2, a3, F],
                         settings=s, increments=incs)
        rep.nontrivial(("spring", K, a2, a3, F, skey(s)))
        groupsB[skey(s)].append(rec)
        rid += 1
    for case in panel_cases(tier):
        try:
            s, rec, incs = run_panel(case, rid)
        except Exception as e:
            rep.machinery("panel run %s failed to execute: %r" % (case, e))
            continue
        info[rid] = dict(kind="Panel.static(NLgeom=True)", case=case, settings=s, increments=incs)
        rep.nontrivial(("panel", json.dumps(case, sort_keys=True)))
        groupsB[skey(s)].append(rec)
        rid += 1
    # the same values in every container the callables may use (matrix formats, column vectors, views); float32
    sf = S(init=(3, 10), minInc=(1, 100), tol=(1, 4096), maxNumIter=8, every=2, ls=False, mod=True, kt0=True)
    forms = [(k, "1d") for k in _forms()] + [("csc", "col")]
    if tier != "quick":
        forms = [(k, v) for k in _forms() for v in ("1d", "col")]
    for kform, vform in forms:
        rec, incs = run_driver(sf, Spring2(2.0, 1.0, [0.5, -0.75], kform, vform), rid)
        info[rid] = dict(kind="two stiffening springs, matrices as %s, vectors %s (views into larger buffers)" % (kform, vform),
                         forms=[kform, vform], settings=sf, increments=incs)
        rep.nontrivial(("forms", kform, vform))
        groupsB[skey(sf)].append(rec)
        rid += 1
    rec, incs = run_driver(sf, float32_problem(2.0, 1.0, [0.5, -0.75]), rid)
    info[rid] = dict(kind="two stiffening springs with float32 vectors (opaque)", float32=True, settings=sf, increments=incs)
    groupsB[skey(sf)].append(rec)
    rid += 1
    # real structural models besides Panel: ConeCyl.static(NLgeom=True), a PanelAssembly through Analysis
    for kind, fn, cases in (("ConeCyl.static(NLgeom=True)", run_conecyl, conecyl_cases(tier)),
                            ("PanelAssembly through Analysis", run_assembly, assembly_cases(tier))):
        for case in cases:
            try:
                s, rec, incs = fn(case, rid)
            except Exception as e:
                rep.machinery("%s %s failed to execute: %r" % (kind, case, e))
                continue
            info[rid] = dict(kind=kind, case=case, settings=s, increments=incs,
                             model="conecyl" if fn is run_conecyl else "assembly")
            rep.nontrivial((kind, json.dumps(case, sort_keys=True)))
            groupsB[skey(s)].append(rec)
            rid += 1
    # histories on one Analysis object (dispatch, what a run leaves behind)
    dcfg = ("SPECIFICATION MCSpec\nCONSTANTS KF_C09_MaxIncRatchets = %s\n IncValues <- MC_Inc\n MaxIncValues <- MC_MaxInc\n"
            " Methods <- MC_Meth\n MaxOps = 5\nINVARIANT HistoryIndependent\nINVARIANT LastAnalysisOK\n%s"
            "PROPERTY HandedKept\nPROPERTY LinearLeavesLimits\nCHECK_DEADLOCK FALSE\n")
    dvac = () if tier == "quick" else (("TRUE", "INVARIANT NeverRatcheted\n", "vacuity: ratchet reachable"),
                                       ("TRUE", "INVARIANT NeverRaises\n", "vacuity: raising call reachable"))
    for kf, extra, name in (("TRUE", "", "code as is"), ("FALSE", "", "literal")) + dvac:
        res = fix_counts(run_tlc("c09-dmc", "MC_AnalysisDispatch", dcfg % (kf, extra), workers=2, timeout=600))
        if extra:
            if res.ok or "is violated" not in res.out:
                rep.machinery("MC_AnalysisDispatch %s: expected a counterexample, got none" % name)
        else:
            rep.add_tlc("MC_AnalysisDispatch[%s]" % name, res)
            if not res.ok:
                rep.machinery("TLC on MC_AnalysisDispatch[%s] failed: %s" % (name, res.errors() or res.out[-1500:]))
    H = fixed_histories() + [random_history(rng) for _ in range(8 if tier == "quick" else 60)]
    hist = []
    hinfo = {}
    ngroups = 0
    for k, ops in enumerate(H):
        h, recs = play_history(ops, k, rid)
        hist.append(h)
        hinfo[k] = ops
        for s_eff, rec, incs in recs:
            if tier == "quick" and skey(s_eff) not in groupsB and ngroups >= 3:
                rec["id"] = -1      # id is reused below; this run is not validated against NewtonRaphson in the quick tier
                continue
            ngroups += skey(s_eff) not in groupsB
            rec["id"] = rid
            info[rid] = dict(kind="non-linear run number >= 1 on a used Analysis object, spring %s" % (DISPATCH_SPRING,),
                             history=[list(o) for o in ops], settings=s_eff, increments=incs)
            groupsB[skey(s_eff)].append(rec)
            rid += 1
    cH = judge_histories(hist, rep, lambda i: ("operations %s" % (hinfo[i],), dict(history=[list(o) for o in hinfo[i]])))
    rep.cov["histories_on_one_object"] = dict(cH)
    rep.cov["traces_validated_against_impl"] += len(hist)
    # binding of the dispatch trace: one-field corruptions of an accepted history must be rejected
    okh = [h for h in hist if sum(1 for o in h["ops"] if o["op"] == "static" and o["obs"]["outcome"] == "ok" and o["nlgeom"]) >= 2]
    if okh:
        cor = []
        for what, edit in (("one reported load factor", lambda o: o["obs"]["incs"].__setitem__(0, nudge(o["obs"]["incs"][0]))),
                           ("maxInc left behind", lambda o: o["obs"].__setitem__("maxIncAfter", nudge(o["obs"]["maxIncAfter"]))),
                           ("last_analysis", lambda o: o["obs"].__setitem__("last", "lb")),
                           ("outcome", lambda o: o["obs"].__setitem__("outcome", "ValueError")),
                           ("earlier lists", lambda o: o["obs"].__setitem__("earlierIntact", 0))):
            h = json.loads(json.dumps(okh[0]))
            h["id"] = 10 ** 6 + len(cor)
            edit([o for o in h["ops"] if o["op"] == "static" and o["nlgeom"] and o["obs"]["outcome"] == "ok"][-1])
            cor.append((what, h))
        cfgd = "CONSTANTS KF_C09_MaxIncRatchets = %s\n IncValues = {}\n MaxIncValues = {}\n Methods = {}\n"
        for kf in ("FALSE", "TRUE"):
            vc, results, problems = validate_trace("c09-dbind", "Trace_AnalysisDispatch", cfgd % kf, [h for _, h in cor], nproc=1)
            for p_ in problems:
                rep.machinery(p_)
            for what, h in cor:
                if vc.get(h["id"], ("missing",))[0] != "fail":
                    rep.machinery("dispatch trace specification does not bind %s: verdict %s" % (what, vc.get(h["id"])))
    t0 = time.time()
    idsA = set(range(nA))
    allv, call = judge("c09-tr", groups + [(json.loads(k), rs) for k, rs in groupsB.items()], rep, describe)
    rep.cov["traces_validated_against_impl"] += rid
    vA = allv
    # the trace specification binds: minimal corruptions of an accepted run must all be rejected
    cand = [(sg, r) for sg, runs in groups for r in runs
            if vA.get(r["id"], ("",))[0] == "ok" and len(r["ret"]["increments"]) >= 2 and sg["tol"] == (1, 1024)
            and any(e["fn"] == "kT" for e in r["calls"][3:])]
    if not cand:
        if not rep.violations:
            rep.machinery("no accepted run available for the binding self-test")
    else:
        sg, r0 = cand[len(cand) // 2]
        cor = corruptions(r0, 10 ** 6)
        for kf in ((False, False), (True, True)):
            vc = validate_groups("c09-bind%d" % kf[0], [(sg, [r for _, r in cor])], kf[0], kf[1], rep)
            for what, r in cor:
                if vc.get(r["id"], ("missing",))[0] != "fail":
                    rep.machinery("trace specification does not bind: corrupted run (%s) got verdict %s"
                                  % (what, vc.get(r["id"])))
        rep.cov["binding_selftest_corruptions_rejected"] = len(cor)

    t_tr = time.time() - t0
    acts_real = collections.Counter()
    for s, runs in groups:
        for r in runs:
            acts_real.update(r["expect"]["acts"])
    rep.cov["evaluations"] = sum(len(r["calls"]) for _, rs in groups for r in rs) + \
        sum(len(r["calls"]) for rs in groupsB.values() for r in rs)
    rep.cov["replayed_behaviours"] = nA
    rep.cov["free_runs"] = rid - nA
    rep.cov["graph_edges"] = edges_total
    rep.cov["graph_edges_on_replayed_paths"] = edges_covered
    rep.cov["actions_in_models"] = dict(seen_actions)
    rep.cov["actions_replayed_into_code"] = dict(acts_real)
    rep.cov["verdict_counts"] = dict(call)
    rep.cov["wall_split_s"] = dict(model_checking=round(t_mc, 1), trace_validation=round(t_tr, 1))
    rep.cov["exhaustive"] = False
    rep.cov["rule"] = ("distinct = distinct (bounded model, set of driver actions on the path, number of reported "
                       "increments) for replayed behaviours + distinct (problem, settings) for free runs; a run counts "
                       "only if TLC consumed its whole call history and judged the return")
    for i in sorted(info)[:3] + sorted(info)[-3:]:
        d = dict(info[i])
        d["verdict"] = allv.get(i, ("missing",))[0]
        rep.sample(d)
    not_replayed = [a for a in ACTIONS if not acts_real[a]]
    if not_replayed:
        rep.machinery("vacuity: actions never replayed into the real driver: %s" % not_replayed)
    return rep.finish()


def replay(path, build):
    """re-execute a stored replay (one run) and let TLC judge it again"""
    d = json.load(open(path))["replay"]
    if "history" in d:
        ops = [tuple(tuple(x) if isinstance(x, list) else x for x in o) for o in d["history"]]
        h, recs = play_history(ops, 0, 0)
        rep = Report(PROP, "replay", 0)
        counts = judge_histories([h], rep, lambda i: ("replayed %s" % path, d))
        for k, (s_eff, rec, incs) in enumerate(recs):
            rec["id"] = k
        _, c2 = judge("c09-replay", [(s_eff, [rec]) for s_eff, rec, incs in recs], rep, lambda i: ("replayed %s" % path, d))
        print("replay verdict:", dict(counts), dict(c2), dict(rep.kf_seen))
        return 2 if rep.machinery_errors else (1 if counts["violations"] + c2["violations"] else 0)
    if "settings" not in d:
        print("nothing to re-execute: %s records %s" % (path, d))
        return 1
    s = d["settings"]
    for k in ("init", "minInc", "maxInc", "tol", "slow"):
        s[k] = tuple(s[k])
    if "script" in d:
        prob = Scripted([tuple(x) for x in d["script"]], s["tol"], dim=2, linear=d.get("linear", False))
        rec, incs = run_driver(s, prob, 0)
    elif "spring" in d:
        rec, incs = run_driver(s, Spring(*d["spring"]), 0)
    elif "forms" in d:
        rec, incs = run_driver(s, Spring2(2.0, 1.0, [0.5, -0.75], *d["forms"]), 0)
    elif "float32" in d:
        rec, incs = run_driver(s, float32_problem(2.0, 1.0, [0.5, -0.75]), 0)
    elif d.get("model") == "conecyl":
        s, rec, incs = run_conecyl(d["case"], 0)
    elif d.get("model") == "assembly":
        s, rec, incs = run_assembly(d["case"], 0)
    else:
        s, rec, incs = run_panel(d["case"], 0)
    rep = Report(PROP, "replay", 0)
    verdicts, counts = judge("c09-replay", [(s, [rec])], rep, lambda i: ("replayed %s -> %s" % (path, incs), d))
    print("replay verdict:", verdicts.get(0), dict(counts))
    rc = 1 if counts["violations"] else 0
    for dev, what in sorted(rep.kf_seen.items()):
        print("deviation observed:", dev, what)
    return 2 if rep.machinery_errors else rc
