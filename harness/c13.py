"""C13 (DESIGN.md section 5): assembled matrices / vectors = sum of the stand-alone component quantities placed at the
components' amplitude ranges (+ connection matrices); reported size = sum of sizes; the skin of a bay may be cut anywhere;
stiffener contributions are symmetric positive semi-definite (observation).

Specification: spec/mech/Assembly.tla (placement algebra over PanelOps / ConnectionOps / PanelFieldOps / PanelNL),
bounded model spec/mc/MC_Assembly.tla, trace specification spec/trace/Trace_Assembly.tla (the verdicts are TLC's)."""
import contextlib
import gc
import io
import json
import os
import random

import numpy as np

import common
from common import Fraction, Report, dyadic, rat, run_tlc, printed_values, validate_trace
import c01
import panelmat
from panelmat import fr

TOL, TOL_NL, TOL_PLACE, TOL_PSD = 38, 34, 40, 30
OWN = ["KF_C13_AssemblyWithoutConnectionsRaises", "KF_C13_Blade2DWithoutFlangeRaises", "KF_C13_Blade1DMassCouplingDoubled",
       "KF_C13_TStiffBaseStripInBayCoordinates", "KF_C13_Blade1DTwistTermsNotLaminate"]
INHERITED = {"KF_C04_OffsetCouplingSign": "C04", "KF_C20_Assembly_calc_fint_sum": "C20",
             "KF_C20_Panel_calc_kM_model": "C20"}
INVS = ["RangesPartition", "RangesOrdered", "SizeIsSum", "PlacementsInside", "PlaceAgrees", "GlobalSymmetric",
        "ScaleDominatesGlobal", "ProbesNonNegativeGlobal", "OnlyJoinedBlocks", "SkinPartitionIndependent", "AsmAtRest",
        "FintConnLocal", "BeamMassPSD", "StiffenerSymmetricPSD", "GeoStateLinear"]


def quiet(f, *a, **k):
    """the stiffener classes print warnings on construction"""
    with contextlib.redirect_stdout(io.StringIO()):
        return f(*a, **k)


def dense(M):
    A = M.toarray() if hasattr(M, "toarray") else np.asarray(M, dtype=float)
    if not np.all(np.isfinite(A)):
        raise ValueError("non-finite entry")
    return A


def enc_mat(A):
    return [[dyadic(v) for v in row] for row in A]


def enc_vec(v):
    return [[dyadic(x)] for x in np.asarray(v, dtype=float).ravel()]


def flt(x):
    return float(fr(x))


# ---------------------------------------------------------------------------------------------------------------------
# PanelAssembly

def build_asm(ad):
    from compmech.panel.assembly import PanelAssembly
    panels = [panelmat.build_panel(pd) for pd in ad["pds"]]
    conn = []
    for c in ad["conns"]:
        e = dict(p1=panels[c["p1"] - 1], p2=panels[c["p2"] - 1], func=c["kind"])
        if c["kind"].endswith("ycte"):
            e.update(ycte1=flt(c["pos1"]), ycte2=flt(c["pos2"]))
        elif c["kind"].endswith("xcte"):
            e.update(xcte1=flt(c["pos1"]), xcte2=flt(c["pos2"]))
        conn.append(e)
    return PanelAssembly(panels, conn), panels


PRE_CALLS = {"k0": ["kT", "fint", "k0nf", "kM", "kG0"], "fint": ["kT", "k0nf", "kT+k0", "kM"], "kT": ["fint", "k0nf", "kM", "kT"],
             "kM": ["kT", "kG0"], "kG0": ["kT", "kM"], "fext": ["kT", "fint"], "kGc": ["kT", "kM", "kG0"]}


def warm_up(a, panels, ad, pre):
    """other public queries made on the same assembly BEFORE the observed one (they must not change its answer);
    a query that is refused on a fresh assembly is skipped - refusals are C20's subject"""
    for m in pre.split("+"):
        try:
            n = a.get_size()
            if m == "kT":
                for p, pd in zip(panels, ad["pds"]):
                    p.nx, p.ny = panelmat.gauss_orders(pd, {})
                a.calc_kT(c=np.zeros(n), silent=True)
            elif m == "fint":
                for p, pd in zip(panels, ad["pds"]):
                    p.nx, p.ny = panelmat.gauss_orders(pd, {})
                a.calc_fint(np.zeros(n), silent=True)
            elif m == "kM":
                a.calc_kM(silent=True)
            elif m == "kG0":
                a.calc_kG0(silent=True)
            elif m == "conn":
                a.get_k0_conn()
            elif m == "k0":
                a.calc_k0(silent=True)
            elif m == "k0nf":
                a.calc_k0(silent=True, finalize=False)      # the documented form "when assembling"
        except Exception:
            pass


def observe_asm(ad, r):
    """one request on a freshly built PanelAssembly -> list of trace-event bodies (req, obs | raised)"""
    a, panels = build_asm(ad)
    q = r["q"]
    if r.get("pre"):
        warm_up(a, panels, ad, r["pre"])
    if q == "size":
        return [dict(req=r, obs=int(a.get_size()))]
    if q == "k0":
        try:
            return [dict(req=r, obs=enc_mat(dense(a.calc_k0(silent=True))))]
        except AttributeError as ex:
            return [dict(req=r, raised="AttributeError", msg=str(ex)[:120])]
    if q == "kG0":
        for p, N in zip(panels, r["N"]):
            p.Nxx, p.Nyy, p.Nxy = (flt(x) for x in N)
        return [dict(req=r, obs=enc_mat(dense(a.calc_kG0(silent=True))))]
    if q == "kM":
        for p in panels:
            p.calc_k0(silent=True)           # documented order: a panel derives its laminate in calc_k0
        return [dict(req=r, obs=enc_mat(dense(a.calc_kM(silent=True))))]
    if q == "fext":
        for p, fs, fi in zip(panels, r["forces"], r["forcesInc"]):
            p.forces = [[flt(v) for v in f] for f in fs]
            p.forces_inc = [[flt(v) for v in f] for f in fi]
        return [dict(req=r, obs=enc_vec(a.calc_fext(inc=flt(r["inc"]), silent=True)))]
    # non-linear quantities at a global state: Gauss orders that integrate the quartic integrand exactly
    c = np.array([flt(v) for v in r["c"]])
    c0 = c.copy()
    for p, pd in zip(panels, ad["pds"]):
        p.nx, p.ny = panelmat.gauss_orders(pd, {})
    try:
        a.calc_k0(silent=True)               # documented order (laminates, connection matrix)
    except AttributeError as ex:
        return [dict(req=r, raised="AttributeError", msg=str(ex)[:120])]
    out = []
    if q == "kT":
        out.append(dict(req=r, obs=enc_mat(dense(a.calc_kT(c=c, silent=True)))))
    elif q == "kGc":
        out.append(dict(req=r, obs=enc_mat(dense(a.calc_kG0(c=c, silent=True)))))
    else:
        try:
            out.append(dict(req=r, obs=enc_vec(a.calc_fint(c, silent=True))))
        except TypeError as ex:
            out.append(dict(req=r, raised="TypeError", msg=str(ex)[:120]))
        # the component calls the assembly makes, each judged on its own (c-slicing, placement)
        size = a.get_size()
        for k, p in enumerate(panels):
            f = p.calc_fint(c=c, size=size, col0=p.col_start, silent=True)
            out.append(dict(req=dict(q="fint_part", k=k + 1, c=r["c"]), obs=enc_vec(f)))
    if not np.array_equal(c, c0):
        raise ValueError("the caller's state vector was modified")
    return out


def random_asm(rng):
    """2..4 random rational panels sharing the length a, consecutive ones joined along y in a random direction"""
    n = rng.randint(2, 4)
    pds = []
    for _ in range(n):
        pd = panelmat.random_pd(rng, ["plate", "plate", "cpanel"])
        pd["m"], pd["n"] = min(pd["m"], 3), min(pd["n"], 3)
        pd["y1"], pd["y2"] = rat(0), pd["b"]
        pd["Ncte"] = [rat(0)] * 3
        if pds:
            pd["a"] = pds[0]["a"]
        pds.append(pd)
    conns = []
    for k in range(1, n):
        if rng.random() < 0.8:
            p1, p2 = (k, k + 1) if rng.random() < 0.5 else (k + 1, k)
            kind = rng.choice(["SSycte", "SSycte", "BFycte"])
            conns.append(dict(kind=kind, p1=p1, p2=p2,
                              pos1=rat(Fraction(rng.randint(0, 8), 8) * fr(pds[p1 - 1]["b"])),
                              pos2=rat(Fraction(rng.randint(0, 8), 8) * fr(pds[p2 - 1]["b"]))))
    if not conns:
        conns.append(dict(kind="SSycte", p1=n, p2=1, pos1=rat(0), pos2=pds[0]["b"]))
    return dict(kind="asm", pds=pds, conns=conns)


def random_asm_req(rng, ad, q, shift=None, inc=None):
    r = dict(q=q)
    if q == "kG0":
        r["N"] = [[rat(Fraction(rng.randint(-12, 12), 4)) for _ in range(3)] for _ in ad["pds"]]
    if q in ("fint", "kT", "kGc"):
        n = sum(3 * pd["m"] * pd["n"] for pd in ad["pds"])
        r["c"] = [rat(Fraction(rng.randint(-8, 8), 16)) for _ in range(n)]
    if q == "fext":
        def forces(pd, n):
            a, b = fr(pd["a"]), fr(pd["b"])
            return [[rat(Fraction(rng.randint(0, 8), 8) * a), rat(Fraction(rng.randint(0, 8), 8) * b)] +
                    [rat(Fraction(rng.randint(-24, 24), 8)) for _ in range(3)] for _ in range(n)]
        # the four load patterns side by side: constant forces only / incrementable only / unloaded / both
        shift = rng.randint(0, 3) if shift is None else shift
        pat = [(k + shift) % 4 for k in range(len(ad["pds"]))]
        r["forces"] = [forces(pd, rng.randint(1, 2)) if t in (0, 3) else [] for pd, t in zip(ad["pds"], pat)]
        r["forcesInc"] = [forces(pd, rng.randint(1, 2)) if t in (1, 3) else [] for pd, t in zip(ad["pds"], pat)]
        r["inc"] = rat(Fraction(rng.randint(2, 16), 8) if inc is None else inc)      # never 1 unless asked
        if fr(r["inc"]) == 1 and inc is None:
            r["inc"] = rat(Fraction(3, 8))
    return r


# ---------------------------------------------------------------------------------------------------------------------
# StiffPanelBay

def lam_args(lam, prefix):
    plies = lam["stack"]
    return {prefix + "stack": [c01.angle(p["dir"]) for p in plies], prefix + "plyts": [flt(p["t"]) for p in plies],
            prefix + "laminaprops": [tuple(flt(x) for x in p["mat"]) for p in plies]}


def build_bay(bd, tile_loads=None, stiff_loads=False):
    """bd -> (bay, stiffener objects in order of insertion)"""
    from compmech.stiffpanelbay import StiffPanelBay
    pd = bd["skin"]
    b = StiffPanelBay()
    b.model = panelmat.MODELS[pd["model"]]
    b.a, b.b = flt(pd["a"]), flt(pd["b"])
    if pd["model"] == "cpanel":
        b.r = flt(pd["r"])
    b.m, b.n = pd["m"], pd["n"]
    for d in range(3):
        for ax, axn in ((0, "x"), (1, "y")):
            for k, nm in enumerate(("1t", "1r", "2t", "2r")):
                setattr(b, "%s%s%s" % (panelmat.DOFS[d], nm, axn), flt(pd["fl"][d][ax][k]))
    sk = lam_args(dict(stack=pd["stack"]), "")
    b.stack, b.plyts, b.laminaprops = sk["stack"], sk["plyts"], sk["laminaprops"]
    b.mu = flt(pd["mu"])
    edges = [0.0] + [flt(c) for c in bd["cuts"]] + [b.b]
    for t in range(len(edges) - 1):
        kw = dict(offset=flt(pd["off"]))
        if tile_loads is not None:
            kw.update(Nxx=tile_loads[t][0], Nyy=tile_loads[t][1], Nxy=tile_loads[t][2])
        b.add_panel(edges[t], edges[t + 1], **kw)
    stiffs = []
    for i, sd in enumerate(bd["stiffs"]):
        kw = dict(ys=flt(sd["ys"]))
        if "mu" in sd:
            kw["mu"] = flt(sd["mu"])
        if sd["base"]:
            kw.update(bb=flt(sd["bb"]), **lam_args(sd["blam"], "b"))
        if sd["flange"]:
            kw.update(bf=flt(sd["bf"]), **lam_args(sd["flam"], "f"))
        if sd["kind"] == "b1d":
            if not sd["flange"]:
                kw["bf"] = flt(sd["bf"])
            s = quiet(b.add_bladestiff1d, **kw)
            if stiff_loads:
                s.Fx = -1.5 - i
        elif sd["kind"] == "b2d":
            if sd["flange"]:
                kw.update(mf=sd["mf"], nf=sd["nf"])
            s = quiet(b.add_bladestiff2d, **kw)
            if stiff_loads and s.flange is not None:
                s.flange.Nxx, s.flange.Nxy = -2.0 - i, 0.5
        else:
            s = quiet(b.add_tstiff2d, mb=sd["mb"], nb=sd["nb"], mf=sd["mf"], nf=sd["nf"], **kw)
            if stiff_loads:
                s.base.Nxx, s.flange.Nxx, s.flange.Nyy = -1.0 - i, -3.0, 0.25 * (i + 1)
        stiffs.append(s)
    return b, stiffs


def n0_of(bd):
    return 3 * bd["skin"]["m"] * bd["skin"]["n"]


def own_size(sd):
    if sd["kind"] == "b2d":
        return 3 * sd["mf"] * sd["nf"] if sd["flange"] else 0
    if sd["kind"] == "t2d":
        return 3 * sd["mb"] * sd["nb"] + 3 * sd["mf"] * sd["nf"]
    return 0


def bay_call(b, q):
    b.calc_k0(silent=True)                   # documented order: stiffness first (derives models, laminates)
    if q == "k0":
        return b.k0
    return b.calc_kG0(silent=True) if q == "kG0" else b.calc_kM(silent=True)


def observe_skin_bay(bd, r):
    """stiffener-less bay: size / k0 / kG0 / kM of the tiled skin"""
    loads = None
    if r["q"] == "kG0":
        loads = [[flt(x) for x in r["N"]]] * (len(bd["cuts"]) + 1)
    b, _ = build_bay(bd, tile_loads=loads)
    if r["q"] == "size":
        b._rebuild()
        return dict(req=r, obs=int(b.get_size()))
    return dict(req=r, obs=enc_mat(dense(bay_call(b, r["q"]))))


def tile_loads_of(bd):
    return [[-3.0 + t, 0.5 * t - 1.0, 0.25 * (t + 1)] for t in range(len(bd["cuts"]) + 1)]


def observe_place(bd, q):
    """stiffened bay: the assembled matrix and the code's own stand-alone component matrices (on a twin bay)
    -> place event body + psd observations"""
    loads = tile_loads_of(bd) if q == "kG0" else None
    try:
        b, _ = build_bay(bd, tile_loads=loads, stiff_loads=True)
        K = dense(quiet(bay_call, b, q))
        size = int(b.get_size())
    except (AttributeError, KeyError) as ex:
        return dict(q=q, raised=type(ex).__name__, msg=str(ex)[:120]), [], []
    from compmech.sparse import finalize_symmetric_matrix
    twin, stiffs = build_bay(bd, tile_loads=loads, stiff_loads=True)
    quiet(twin.calc_k0, silent=True)
    n0 = n0_of(bd)
    meth = {"k0": "calc_k0", "kG0": "calc_kG0", "kM": "calc_kM"}[q]
    comps, psd, beams = [], [], []
    for p in twin.panels:
        if q == "kM":
            p.calc_k0(size=n0, row0=0, col0=0, silent=True)
        comps.append(dense(getattr(p, meth)(size=n0, row0=0, col0=0, silent=True)))
    for i, (s, sd) in enumerate(zip(stiffs, bd["stiffs"])):
        own = own_size(sd)
        # as the bay calls it (finalize=False: upper triangle), then mirrored by the package's own finalisation
        kw = dict(size=n0 + own, row0=n0 if own else 0, col0=n0 if own else 0, silent=True, finalize=False)
        if q != "k0":
            quiet(s.calc_k0, **kw)
        quiet(getattr(s, meth), **kw)
        M = getattr(s, q)
        A = dense(finalize_symmetric_matrix(M)) if hasattr(M, "toarray") else np.zeros((n0 + own, n0 + own))
        comps.append(A)
        if q in ("k0", "kM"):
            sym = bool(np.array_equal(A, A.T))
            ev = np.linalg.eigvalsh((A + A.T) / 2.0)
            psd.append(dict(stiff=i + 1, kind=sd["kind"], q=q, sym=sym, lmin=dyadic(ev[0]), norm=dyadic(max(abs(ev[0]), abs(ev[-1])))))
        if q == "kM" and sd["kind"] == "b1d" and sd["flange"] and not sd["base"]:
            w, V = np.linalg.eigh((A + A.T) / 2.0)       # the one derived stiffener internal; eigenvector as witness
            beams.append(dict(req=dict(q="b1dmass", k=i + 1), obs=enc_mat(A), wit=[dyadic(x) for x in V[:, 0]]))
    return dict(q=q, size=size, comps=[enc_mat(A) for A in comps], obs=enc_mat(K)), psd, beams


def stand_alone(b, s, sd, n0, mat, loads=None, own=None):
    """the stiffener's own matrix at its own size: as the bay calls it (finalize=False: upper triangle), then mirrored by
    the package's own finalisation"""
    from compmech.sparse import finalize_symmetric_matrix
    if loads is not None:
        if sd["kind"] == "b1d":
            s.Fx = loads["Nf"][0]
        elif s.flange is not None:
            s.flange.Nxx, s.flange.Nyy, s.flange.Nxy = loads["Nf"]
        if sd["kind"] == "t2d":
            s.base.Nxx, s.base.Nyy, s.base.Nxy = loads["Nb"]
    own = own_size(sd) if own is None else own
    kw = dict(size=n0 + own, row0=n0 if own else 0, col0=n0 if own else 0, silent=True, finalize=False)
    if mat != "k0":
        quiet(s.calc_k0, **kw)
    quiet(getattr(s, "calc_" + mat), **kw)
    M = getattr(s, mat)
    return dense(finalize_symmetric_matrix(M)) if hasattr(M, "toarray") else np.zeros((n0 + own, n0 + own))


def observe_stiff(bd, r):
    """stand-alone matrix (own size) of stiffener r.k with the part loads of r, on a fresh bay after the bay's calc_k0
    (documented order); for a 1-D blade the axial load Fx is r.Nf[0]"""
    b, stiffs = build_bay(bd)
    quiet(b.calc_k0, silent=True)
    s, sd = stiffs[r["k"] - 1], bd["stiffs"][r["k"] - 1]
    loads = dict(Nf=[flt(x) for x in r["Nf"]], Nb=[flt(x) for x in r["Nb"]])
    try:
        return dict(req=r, obs=enc_mat(stand_alone(b, s, sd, n0_of(bd), r["mat"], loads)))
    except KeyError as ex:
        return dict(req=r, raised="KeyError", msg=str(ex)[:120])


def observe_parts(bd, k, mat):
    """the relational law of optional parts on the code's own matrices: stiffener k with padup AND flange against a twin
    with the padup only plus a twin with the flange only.  The twins are built so that the law is exact for the package's
    own composition: the flange-only twin of a 1-D blade stands on a skin thickened by 2*hb (its centroid distance counts
    the padup thickness), the flange-only twin of a 2-D blade on a skin that IS the padup laminate at the padup's offset
    (its connection constants are derived from the panel it stands on).  -> place-like event body or None"""
    sd = bd["stiffs"][k]
    if not (sd["base"] and sd["flange"]) or sd["kind"] == "t2d":
        return None
    if sd["kind"] == "b1d" and mat == "kM":
        return None                      # refused with a padup (C20's listed finding)
    n0 = n0_of(bd)
    loads = dict(Nf=[-2.5, 0.75, 0.5], Nb=[0.0, 0.0, 0.0])
    h = sum(flt(p["t"]) for p in bd["skin"]["stack"])
    hb = sum(flt(p["t"]) for p in sd["blam"]["stack"])

    def one(skin, sdx):
        b, st = build_bay(dict(kind="bay", skin=skin, cuts=bd["cuts"], stiffs=[sdx]))
        quiet(b.calc_k0, silent=True)
        return stand_alone(b, st[0], sdx, n0, mat, loads, own=own_size(sd))

    both = one(bd["skin"], sd)
    base_only = one(bd["skin"], dict(sd, flange=False))
    if sd["kind"] == "b1d":
        f = Fraction(h + 2 * hb) / Fraction(h)
        skin2 = dict(bd["skin"], stack=[dict(p, t=rat(fr(p["t"]) * f)) for p in bd["skin"]["stack"]])
    else:
        skin2 = dict(bd["skin"], stack=sd["blam"]["stack"], off=rat(-(Fraction(h) / 2 + Fraction(hb) / 2)))
    flange_only = one(skin2, dict(sd, base=False))
    n = both.shape[0]
    return dict(q=mat, k=k + 1, size=n, comps=[enc_mat(base_only), enc_mat(flange_only)], obs=enc_mat(both))


def observe_bay_fext(bd, r):
    try:
        b, stiffs = build_bay(bd)
        quiet(b.calc_k0, silent=True)
        b.forces_skin = [[flt(v) for v in f] for f in r["skin"]]
        for s, sd, fs in zip(stiffs, bd["stiffs"], r["forces"]):
            if fs["flange"]:
                s.flange.forces = [[flt(v) for v in f] for f in fs["flange"]]
            if fs["base"]:
                s.base.forces = [[flt(v) for v in f] for f in fs["base"]]
        return dict(req=r, obs=enc_vec(b.calc_fext(silent=True)))
    except AttributeError as ex:
        return dict(req=r, raised="AttributeError", msg=str(ex)[:120])


def observe_bay_size(bd, r):
    try:
        b, _ = build_bay(bd)
        b._rebuild()
        return dict(req=r, obs=int(b.get_size()))
    except AttributeError as ex:
        return dict(req=r, raised="AttributeError", msg=str(ex)[:120])


def random_skin_bay(rng):
    pd = panelmat.random_pd(rng, ["plate", "plate", "cpanel"])
    pd.pop("ortho", None)               # StiffPanelBay offers no force_orthotropic_laminate switch
    pd["m"], pd["n"] = min(pd["m"], 3), min(pd["n"], 3)
    pd["y1"], pd["y2"] = rat(0), pd["b"]
    pd["Ncte"] = [rat(0)] * 3
    if rng.random() < 0.7:
        pd["off"] = rat(0)              # keep most literal (the offset sign of the mass matrix is C04's finding)
    b = fr(pd["b"])
    k = rng.randint(0, 4)
    fracs = sorted(rng.sample(range(1, 64), k))
    return dict(kind="bay", skin=pd, cuts=[rat(Fraction(f, 64) * b) for f in fracs], stiffs=[])


LAMS = [dict(stack=[dict(dir=[0, 1], t=rat(Fraction(1, 8)), mat=[rat(10), rat(2), rat(Fraction(1, 4)), rat(1), rat(1), rat(Fraction(1, 2))]),
                   dict(dir=[1, 0], t=rat(Fraction(1, 8)), mat=[rat(10), rat(2), rat(Fraction(1, 4)), rat(1), rat(1), rat(Fraction(1, 2))])],
             off=rat(0)),
        dict(stack=[dict(dir=[1, 1], t=rat(Fraction(1, 4)), mat=[rat(7), rat(7), rat(Fraction(1, 4))])], off=rat(0))]


def random_lam(rng):
    """a laminate of the stiffener parts: one of two fixed ones or a seeded random rational one (reference surface at mid-plane)"""
    if rng.random() < 0.5:
        return rng.choice(LAMS)
    stack, _ = c01.random_def(rng)
    return dict(stack=c01.enc_stack(stack[:3]), off=rat(0))


def random_stiff_bay(rng):
    """random skin (flat / curved, sometimes with a laminate offset), 1..3 dyadic cuts, 1..4 stiffeners of random kinds /
    compositions at random tile edges (off-centre), narrow and wide bases, own laminates, sometimes an own density"""
    bd = random_skin_bay(rng)
    pd = bd["skin"]
    pd["m"], pd["n"] = rng.randint(2, 3), rng.randint(2, 3)
    if rng.random() < 0.7:
        pd["off"] = rat(0)
    b = fr(pd["b"])
    fracs = sorted(rng.sample(range(8, 56), rng.randint(1, 3)))
    bd["cuts"] = [rat(Fraction(f, 64) * b) for f in fracs]
    stiffs = []
    for _ in range(rng.randint(1, 4)):
        kind = rng.choice(["b1d", "b2d", "b2d", "t2d", "t2d"])
        base, flange = True, True
        if kind == "b1d":
            base, flange = rng.choice([(False, True), (False, True), (True, True), (True, False)])
        elif kind == "b2d":
            base, flange = rng.choice([(True, True), (False, True), (False, True), (True, False)])
        ys = rng.choice(bd["cuts"])
        room = 2 * min(fr(ys), b - fr(ys))          # the base strip stays inside the bay
        sd = dict(kind=kind, ys=ys, base=base, flange=flange,
                  bb=rat(room * Fraction(rng.choice([1, 2, 4, 8, 12, 16]), 16)), bf=rat(Fraction(rng.randint(1, 6), 8)),
                  mb=rng.randint(1, 2), nb=rng.randint(1, 3), mf=rng.randint(2, 3), nf=rng.randint(1, 2),
                  blam=random_lam(rng), flam=random_lam(rng))
        if rng.random() < 0.5:
            sd["mu"] = rat(Fraction(rng.randint(1, 40), 8))
        stiffs.append(sd)
    bd["stiffs"] = stiffs
    return bd


def stiff_reqs(rng, bd, nmat):
    """requests for the derived stand-alone matrices of the 2-D stiffeners of a bay, with random part loads"""
    out = []
    for i, sd in enumerate(bd["stiffs"]):
        for mat in rng.sample(["k0", "kG0", "kM"], nmat):
            out.append(dict(q="stiff", k=i + 1, mat=mat, Nf=[rat(Fraction(rng.randint(-12, 12), 4)) for _ in range(3)],
                            Nb=[rat(Fraction(rng.randint(-12, 12), 4)) for _ in range(3)]))
    return out


# ---------------------------------------------------------------------------------------------------------------------

def describe(d, r):
    if d["kind"] == "asm":
        return "assembly of %s, connections %s: %s" % (
            [(pd["model"], pd["m"], pd["n"]) for pd in d["pds"]],
            [(c["kind"], c["p1"], c["p2"]) for c in d["conns"]], r.get("q"))
    return "bay skin %s %dx%d, cuts at %s, stiffeners %s: %s" % (
        d["skin"]["model"], d["skin"]["m"], d["skin"]["n"], [str(fr(c)) for c in d["cuts"]],
        [s["kind"] + ("+base" if s["base"] else "") + ("+flange" if s["flange"] else "") for s in d["stiffs"]], r.get("q"))


def listed_open(name):
    return any(f.get("deviation") == name and f["status"] == "open" for f in common.known_findings())


MATS = ("k0", "kG0", "kM")


def tokens_of(d, r):
    """the kinds of judged events a request can produce (the vocabulary of phase(only=...)):
    plain request kinds  size k0 kG0 kM fext fint kT kGc  (assembly or bay),
    place:<mat>  the bay's assembled matrix against its placed components (+ the stiffeners' symmetry / definiteness),
    parts:<mat>  padup + flange law,  stiff:<mat>  derived stand-alone stiffener matrix,  b1dmass  1-D flange beam mass"""
    if r["q"] == "place":
        return {"place:" + m for m in MATS} | {"parts:" + m for m in MATS} | {"b1dmass"}
    if r["q"] == "stiff":
        return {"stiff:" + r["mat"]}
    if r["q"] == "b1dmass":
        return set()                     # produced by the place request of the same bay
    return {r["q"]}


def record(events, meta, d, r, only=None):
    """run request r of description d on freshly built real objects and append the trace events; only: set of event
    kinds (tokens_of) to keep, None = all"""
    def want(tok):
        return only is None or tok in only

    def emit(ev, body, label, tok):
        e = dict(ev=ev, id=len(events), d=d)
        e.update(body)
        meta[e["id"]] = (d, body.get("req", dict(q=body.get("q"))), label, tok)
        events.append(e)
        gc.freeze()      # recorded observations are permanent: keeps the package's gc.collect() calls cheap

    if d["kind"] == "asm":
        if want(r["q"]):
            for body in observe_asm(d, r):
                emit("asm", body, "PanelAssembly", r["q"])
    elif r["q"] == "fext":
        if want("fext"):
            emit("bay", observe_bay_fext(d, r), "StiffPanelBay.calc_fext", "fext")
    elif r["q"] == "stiff":
        if want("stiff:" + r["mat"]):
            sd = d["stiffs"][r["k"] - 1]
            emit("bay", observe_stiff(d, r), "%s.calc_%s (derived stand-alone matrix of stiffener %d)"
                 % (dict(b1d="BladeStiff1D", b2d="BladeStiff2D", t2d="TStiff2D")[sd["kind"]], r["mat"], r["k"]), "stiff:" + r["mat"])
    elif not d["stiffs"]:
        if want(r["q"]):
            emit("bay", observe_skin_bay(d, r), "StiffPanelBay (skin tiles)", r["q"])
    elif r["q"] == "size":
        if want("size"):
            emit("bay", observe_bay_size(d, r), "StiffPanelBay.get_size", "size")
    elif r["q"] == "place":
        for q in MATS:
            wp, wb = want("place:" + q), q == "kM" and want("b1dmass")
            if wp or wb:
                body, psd, beams = observe_place(d, q)
                if wp:
                    emit("place", body, "StiffPanelBay.calc_%s vs placed components" % q, "place:" + q)
                    for o in psd:
                        e = dict(ev="psd", id=len(events), sym=o["sym"], lmin=o["lmin"], norm=o["norm"], kind=o["kind"], q=o["q"])
                        meta[e["id"]] = (d, dict(q="place", psd=o["q"], stiffener=o["stiff"], kind=o["kind"]),
                                         "contribution of stiffener %d (%s) to %s: symmetric, positive semi-definite"
                                         % (o["stiff"], o["kind"], o["q"]), "place:" + q)
                        events.append(e)
                if wb:
                    for bm in beams:
                        emit("bay", bm, "BladeStiff1D.calc_kM (flange as a beam)", "b1dmass")
            if want("parts:" + q):
                for k in range(len(d["stiffs"])):
                    pb = observe_parts(d, k, q)
                    if pb is not None:
                        emit("parts", pb, "stiffener %d (%s) with padup and flange = padup-only twin + flange-only twin, calc_%s"
                             % (k + 1, d["stiffs"][k]["kind"], q), "parts:" + q)


def judge(rep, events, meta, tag):
    """trace validation by TLC; returns the set of other properties' listed findings that were met"""
    cand = OWN + sorted(INHERITED)
    tcfg = ("CONSTANTS\nNFun = 8\nADeviations = {}\nTol = %d\nTolNL = %d\nTolPlace = %d\nTolPsd = %d\nOpenKF = {%s}\n"
            % (TOL, TOL_NL, TOL_PLACE, TOL_PSD, ", ".join('"%s"' % k for k in cand)))
    verdicts, results, problems = validate_trace(tag, "Trace_Assembly", tcfg, events, timeout=6000)
    for res in results:
        rep.add_tlc("Trace_Assembly", res)
    for p in problems:
        rep.machinery(p)
    inherited_seen = set()
    for e in events:
        v = verdicts.get(e["id"])
        if not v or v[0] == "ok":
            continue
        d, r, label = meta[e["id"]][:3]
        desc = "%s: %s" % (label, describe(d, r))
        if v[0].startswith("kf:"):
            name = v[0][3:]
            if name in OWN and rep.prop == "C13":
                how = (" -> " + e["raised"]) if "raised" in e else ""
                if e["ev"] == "bay" and r.get("q") == "b1dmass":
                    how = (" equals the exact beam mass with doubled coupling; %s entries differ from the literal one; negative "
                           "quadratic form along the observed eigenvector certified exactly: %s" % (v[1][0], v[1][1]))
                elif e["ev"] == "bay" and r.get("q") == "stiff":
                    how = (" (%s of stiffener %d) equals the derived matrix only under this deviation; %s entries differ from the "
                           "literal one" % (r["mat"], r["k"], v[1][0]))
                rep.known(name, desc + how)          # not listed as open -> VIOLATION by Report.finish
            elif listed_open(name):
                inherited_seen.add(name)           # a listed finding of another check (in a restriction run for another
                                                   # property: also C13's own), printed by the check that owns it
            else:
                rep.violation("%s is explained only by deviation %s (owned by %s), which known_findings.json does not list as open: %s"
                              % (desc, name, INHERITED.get(name, "C13"), e.get("msg", v[1])),
                              dict(d=d, req=r, ev=e["ev"], deviation=name))
        else:
            rep.violation("%s is not the sum of the placed components / not what the specification gives: %s"
                          % (desc, str(v[1])[:300]), dict(d=d, req=r, ev=e["ev"], bad=str(v[1]),
                                                           raised=e.get("raised"), msg=e.get("msg")))
    return inherited_seen


def replay(path, build):
    """re-execute a stored violation: the description and request are run again on the real code and judged by TLC"""
    rp = json.load(open(path))["replay"]
    if "d" not in rp or "req" not in rp:
        print("replay file has no <<description, request>> pair; re-run the check with the same VERIF_SEED instead")
        return 2
    rep = Report("C13", "replay", int(os.environ.get("VERIF_SEED", "20261003")))
    d, r = rp["d"], rp["req"]
    events, meta = [], {}
    try:
        if rp.get("ev") in ("place", "parts") or r.get("q") == "place":
            mat = r.get("psd", r.get("q")) if r.get("q") != "place" or "psd" in r else None
            record(events, meta, d, dict(q="place"), only={"place:" + mat, "parts:" + mat, "b1dmass"} if mat else None)
        else:
            if r.get("q") == "fint_part":
                r = dict(q="fint", c=r["c"])
            if r.get("q") == "b1dmass":
                record(events, meta, d, dict(q="place"), only={"b1dmass"})
            else:
                record(events, meta, d, r)
    except Exception as ex:
        rep.violation("%s raised %s: %s" % (describe(d, r), type(ex).__name__, str(ex)[:200]), dict(d=d, req=r))
        return rep.finish()
    judge(rep, events, meta, "c13-rp")
    rep.cov["traces_validated_against_impl"] = len(events)
    return rep.finish()


def run(tier, seed, build):
    rep = Report("C13", tier, seed)
    phase(rep, tier, seed)
    # the assembly builder functions (which panels, where, joined how): Layout.tla
    import layout
    layout.phase(rep, tier, seed)
    return rep.finish()


def phase(rep, tier, seed, only=None, tag="c13"):
    """the whole C13 procedure on `rep`; with only = {event kinds} (see tokens_of) it is the restriction to those events:
    C07 passes {"fext"}; C08 {"fint", "kT"}; C03 (geometric stiffness) {"kG0", "kGc", "place:kG0", "stiff:kG0", "parts:kG0"};
    C04 (mass) {"kM", "place:kM", "stiff:kM", "parts:kM", "b1dmass"}.  A filtered run is vacuous (machinery error) unless
    every requested kind was exercised by the bounded model AND produced at least one judged event."""
    rng = random.Random(seed)
    only = set(only) if only else None
    # 1. bounded model: placement algebra, partition independence, symmetry, probes ... as TLC invariants
    cfg = ("SPECIFICATION EmitSpec\nCONSTANTS\nNFun = 8\nADeviations = {}\nTier = \"%s\"\nPart = \"all\"\n%s\nCHECK_DEADLOCK FALSE\n"
           % (tier, "\n".join("INVARIANT " + i for i in INVS)))
    mc = run_tlc(tag + "-mc", "MC_Assembly", cfg, workers=16, timeout=6000, heap="8g")
    rep.add_tlc("MC_Assembly", mc)
    if not mc.ok:
        rep.machinery("TLC on MC_Assembly failed: " + mc.errors())
        return
    lattice = [(v[1], v[2]) for v in printed_values(mc.out, "REQ")]
    # vacuity: every clause of the property must have been exercised by the bounded model
    seen = set()
    for d, r in lattice:
        seen.add((d["kind"], r["q"]))
        if d["kind"] == "bay":
            seen.add(("cuts", len(d["cuts"]), bool(d["stiffs"])))
            if r["q"] == "place":
                kinds = [s["kind"] for s in d["stiffs"]]
                own = [own_size(s) for s in d["stiffs"]]
                for kd in ("b2d", "t2d"):      # two of a kind with different own sizes, in this insertion order
                    o = [x for x, k2 in zip(own, kinds) if k2 == kd]
                    if len(o) == 2 and o[0] != o[1]:
                        seen.add(("two", kd, o[0] < o[1]))
        else:
            seen.add(("panels", len(d["pds"]), len(d["conns"])))
            if r["q"] == "fext":
                pats = set((bool(f), bool(g)) for f, g in zip(r["forces"], r["forcesInc"]))
                seen.add(("fext-patterns", len(pats) if len(d["pds"]) >= 4 else 0, fr(r["inc"]) == 0))
    need = [("asm", q) for q in ("size", "k0", "kG0", "kM", "fext", "fint", "kT", "kGc")] + \
           [("bay", q) for q in ("size", "k0", "kG0", "kM", "place", "fext", "b1dmass", "stiff")] + \
           [("cuts", k, False) for k in range(5)] + [("panels", 1, 0), ("panels", 4, 2)] + \
           [("two", kd, o) for kd in ("b2d", "t2d") for o in (True, False)] + \
           [("fext-patterns", 4, True), ("fext-patterns", 4, False)]
    missing = [x for x in need if x not in seen]
    if missing:
        rep.machinery("bounded model is vacuous for " + str(missing))
        return
    pairs = [(d, r) for d, r in lattice if only is None or tokens_of(d, r) & only]

    def add(d, r):
        if only is None or tokens_of(d, r) & only:
            pairs.append((d, r))

    # 2. replay into the real code + seeded random definitions
    nrand = 8 if tier == "quick" else 240
    for _ in range(nrand):
        ad = random_asm(rng)
        for q in (["size", "k0"] + rng.sample(["kG0", "kM"], 1 if tier == "quick" else 2)):
            add(ad, random_asm_req(rng, ad, q))
        # load vectors: the four panel load patterns side by side, two shifts, load factor != 1 and = 0
        sh = rng.randint(0, 3)
        add(ad, random_asm_req(rng, ad, "fext", shift=sh))
        add(ad, random_asm_req(rng, ad, "fext", shift=sh + 1, inc=rng.choice([0, 0, Fraction(5, 2)])))
        bd = random_skin_bay(rng)
        for q in (["size"] + rng.sample(["k0", "kG0", "kM"], 1 if tier == "quick" else 3)):
            add(bd, dict(q=q, N=[rat(Fraction(rng.randint(-12, 12), 4)) for _ in range(3)]) if q == "kG0" else dict(q=q))
    # small random assemblies at random states for the non-linear quantities (fint, kT) and the geometric stiffness
    # from a state (kGc): amplitudes up to 1/2, so that the squares of the slopes are of the order of the membrane strains
    for _ in range(6 if tier == "quick" else 80):
        ad = random_asm(rng)
        ad["pds"] = ad["pds"][:2]
        for pd in ad["pds"]:
            pd["m"], pd["n"] = rng.choice([(1, 2), (2, 2), (2, 1), (1, 1)])
        ad["conns"] = [c for c in ad["conns"] if max(c["p1"], c["p2"]) <= 2] or \
                      [dict(kind="SSycte", p1=2, p2=1, pos1=rat(0), pos2=ad["pds"][0]["b"])]
        for q in ("fint", "kT", "kGc"):
            add(ad, random_asm_req(rng, ad, q))
    for _ in range(nrand // 3):
        bd = random_stiff_bay(rng)
        add(bd, dict(q="size"))
        add(bd, dict(q="place"))
        for r in stiff_reqs(rng, bd, 2 if tier == "quick" else 3):
            add(bd, r)
    events, meta = [], {}
    gc.collect()
    gc.freeze()          # the package calls gc.collect() in every method: keep the parsed lattice out of its way
    turn = {}
    for k, (d, r) in enumerate(pairs):
        if d["kind"] == "asm" and r["q"] in PRE_CALLS:
            t = turn[r["q"]] = turn.get(r["q"], 0) + 1
            if t % 2 == 0:          # every second request of a kind is made after another query on the same object
                r = dict(r, pre=PRE_CALLS[r["q"]][(t // 2) % len(PRE_CALLS[r["q"]])])
        try:
            record(events, meta, d, r, only=only)
        except Exception as ex:
            rep.violation("%s raised %s: %s" % (describe(d, r), type(ex).__name__, str(ex)[:200]), dict(d=d, req=r))
            continue
        rep.nontrivial(common._hashable((d["kind"], repr(d.get("pds", d.get("skin"))), repr(d.get("conns", d.get("cuts"))),
                                         repr([(s["kind"], s["base"], s["flange"]) for s in d.get("stiffs", [])]), r["q"],
                                         r.get("mat"), repr(r.get("inc")))))
    if only:
        got = set(m[3] for m in meta.values())
        unexercised = sorted(only - got)
        if unexercised:
            rep.machinery("no judged event of kind %s in the restriction %s" % (unexercised, sorted(only)))
            return
    if os.environ.get("C13_DUMP"):
        with open(os.environ["C13_DUMP"], "w") as f:
            json.dump(events, f)
    inherited_seen = judge(rep, events, meta, tag + "-tr")
    rep.cov["traces_validated_against_impl"] += len(events)
    rep.cov["evaluations"] += len(events)
    if only:
        rep.cov["assembly_and_bay_events"] = len(events)
        return
    rep.cov["inherited_findings_met"] = sorted(inherited_seen)
    rep.sample(dict(d=pairs[0][0], req=pairs[0][1]))
    rep.sample(dict(d=pairs[-1][0], req=pairs[-1][1]))
    rep.cov["rule"] = ("TLC-enumerated lattice (assemblies of 1..4 (thorough: 1..6) unequal panels, both orders, 0..2 connections of kinds SSycte/"
                       "SSxcte/BFycte/SB; bays cut at 0..4 arbitrary positions, flat and curved; bays with 0..2 stiffeners of each "
                       "kind in several insertion orders) replayed on freshly built PanelAssembly / StiffPanelBay objects + %d seeded "
                       "random assemblies, %d random skin bays, %d random stiffened bays; distinct = distinct (description, request)"
                       % (nrand, nrand, nrand // 3))
    rep.assumptions += [
        "panels, skins, connections, load vectors: judged entry by entry against the specification's exact values, tolerance "
        "2^-%d of the term-magnitude scale (2^-%d for the Gauss-integrated fint / kT)" % (TOL, TOL_NL),
        "stiffened bays, where things land: the code's own stand-alone component matrices (twin bay, own size) are placed by "
        "the specification's placement map and must reproduce the assembled matrix within 2^-%d of the summed entry magnitudes; "
        "stiffener k0 / kM contributions: exact symmetry, observed smallest eigenvalue >= -2^-%d * norm" % (TOL_PLACE, TOL_PSD),
        "stiffened bays, what lands: k0 / kG0 / kM of BladeStiff2D (padup strip in the bay's series, flange plate, skin-flange "
        "BFycte connection) and TStiff2D (base and flange panels, skin-base face-to-face connection over the base strip with "
        "mapped-argument integrals, base-flange BFycte connection, penalty constants) are derived in Assembly.tla from PanelOps / "
        "ConnectionOps / Bardell and the observed stand-alone matrices are judged entry by entry at 2^-%d of the term-magnitude "
        "scale; BladeStiff1D likewise: padup strip + flange as a laminated strip on the line y = ys (stiffness from the "
        "reduced A11, B16, D66 of the flange laminate, geometric stiffness of the axial load Fx, beam mass)" % TOL,
        "optional parts: for every blade stiffener with padup and flange the code's own matrix equals padup-only twin + flange-only "
        "twin (twins built so that the law is exact for the package's composition: thicker skin under the 1-D flange-only twin, "
        "padup laminate as skin under the 2-D one), within 2^-%d of the summed magnitudes" % TOL_PLACE,
        "findings owned by other properties (%s) are accepted here only while known_findings.json lists them as open"
        % ", ".join(sorted(INHERITED)),
        "assemblies use the 3-dof CLT models",
        "documented call order: calc_k0 before calc_kM / calc_kT / calc_fint; every second assembly request is made after another "
        "public query (calc_kT, calc_fint, calc_kM, calc_kG0, get_k0_conn) on the same object, which must not change its answer "
        "(refusals of such queries on fresh objects are C20's subject)"]
