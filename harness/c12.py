"""C12 (DESIGN.md section 5): penalty connection matrices = Hessian of the interface mismatch energy."""
import random

import numpy as np

from common import (Fraction, Report, dyadic, rat, run_tlc, printed_values, validate_trace, from_rat,
                    open_deviations)
import panelmat
from panelmat import fr

TOL = 38
KERNELS = {"SSycte": ("kCSSycte", "fkCSSycte"), "SSxcte": ("kCSSxcte", "fkCSSxcte"),
           "BFycte": ("kCBFycte", "fkCBFycte"), "BFxcte": ("kCBFxcte", "fkCBFxcte"), "SB": ("kCSB", "fkCSB")}
CTYPE = {"SSycte": "ycte", "BFycte": "ycte", "SSxcte": "xcte", "BFxcte": "xcte", "SB": "bot-top"}


def dummy(n3):
    from compmech.panel import Panel
    p = Panel()
    p.a, p.b, p.m, p.n = 1., 1., 1, n3
    p.stack, p.plyt, p.laminaprop = [0], 0.1, (1., 1., 0.3)
    return p


def sizes(cd):
    n = lambda pd: (1 if pd["model"] == "plate_w" else 3) * pd["m"] * pd["n"]
    n1, n2 = n(cd["pd1"]), n(cd["pd2"])
    pad = cd["pad"]
    off1 = pad if cd["first"] == 1 else pad + n2
    off2 = pad + n1 if cd["first"] == 1 else pad
    return n1, n2, off1, off2, 2 * pad + n1 + n2


def observe_conn(cd):
    import compmech.panel.connections as connections
    from compmech.panel.assembly import PanelAssembly
    from compmech.sparse import make_symmetric
    p1 = panelmat.build_panel(cd["pd1"])
    p2 = panelmat.build_panel(cd["pd2"])
    if not cd.get("fresh"):
        for p in (p1, p2):
            p.calc_k0(silent=True)          # documented order: panels' own matrices (and laminates) first
    n1, n2, off1, off2, size = sizes(cd)
    pos1, pos2 = float(fr(cd["pos1"])), float(fr(cd["pos2"]))
    kind = cd["kind"]
    if cd["auto"]:
        order = [p1, p2] if cd["first"] == 1 else [p2, p1]
        pads = [dummy(cd["pad"] // 3)] if cd["pad"] else []
        ass = PanelAssembly(pads + order + ([dummy(cd["pad"] // 3)] if cd["pad"] else []))
        c = dict(p1=p1, p2=p2, func=kind)
        if kind.endswith("ycte"):
            c.update(ycte1=pos1, ycte2=pos2)
        elif kind.endswith("xcte"):
            c.update(xcte1=pos1, xcte2=pos2)
        if ass.get_size() != size or p1.row_start != off1 or p2.row_start != off2:
            raise AssertionError("assembly layout differs from the specification's placement")
        if cd.get("prek0nf"):
            ass.calc_k0(conn=[c], silent=True, finalize=False)      # an un-finalised global stiffness was asked for before
        K = ass.get_k0_conn([c]).toarray()
    else:
        modname, fn = KERNELS[kind]
        mod = getattr(connections, modname)
        kt, kr = float(fr(cd["kt"])), float(fr(cd["kr"]))
        if kind == "SB":
            dsb = sum(p1.plyts) / 2. + sum(p2.plyts) / 2.
            k11 = mod.fkCSB11(kt, dsb, p1, size, off1, col0=off1)
            k12 = mod.fkCSB12(kt, dsb, p1, p2, size, off1, col0=off2)
            k22 = mod.fkCSB22(kt, p1, p2, size, off2, col0=off2)
        else:
            k11 = getattr(mod, fn + "11")(kt, kr, p1, pos1, size, off1, col0=off1)
            k12 = getattr(mod, fn + "12")(kt, kr, p1, p2, pos1, pos2, size, off1, col0=off2)
            k22 = getattr(mod, fn + "22")(kt, kr, p1, p2, pos2, size, off2, col0=off2)
        # diagonal blocks come as upper triangles (mirrored with the package's own make_symmetric);
        # the coupling block is full and enters with its transpose
        K = (make_symmetric(k11).toarray() + make_symmetric(k22).toarray() + k12.toarray() + k12.toarray().T)
    if not np.all(np.isfinite(K)):
        raise ValueError("non-finite entry")
    return [[dyadic(v) for v in row] for row in K]


def observe_ktkr(cd):
    from compmech.panel.connections import calc_kt_kr
    p1 = panelmat.build_panel(cd["pd1"])
    p2 = panelmat.build_panel(cd["pd2"])
    if not cd.get("fresh"):
        for p in (p1, p2):
            p.calc_k0(silent=True)
    kt, kr = calc_kt_kr(p1, p2, CTYPE[cd["kind"]])
    return [dyadic(kt), dyadic(kr if kr is not None else 0.0)]


def random_cd(rng):
    kind = rng.choice(sorted(KERNELS))
    pd1 = panelmat.random_pd(rng, ["plate", "plate", "cpanel"])
    pd2 = panelmat.random_pd(rng, ["plate"])
    for pd in (pd1, pd2):
        pd["y1"], pd["y2"] = rat(0), pd["b"]
        pd["m"], pd["n"] = min(pd["m"], 3), min(pd["n"], 3)
        pd["Ncte"] = [rat(0)] * 3
    if kind in ("SSycte", "BFycte"):
        if rng.random() < 0.5:
            pd2["a"] = pd1["a"]            # else: panels of different length joined along y = const (the kernels take
    elif kind in ("SSxcte", "BFxcte"):     # the interface measure from panel 1 for all three blocks)
        if rng.random() < 0.5:
            pd2["b"] = pd1["b"]
        pd2["y2"] = pd2["b"]
    else:
        pd2["a"], pd2["b"] = pd1["a"], pd1["b"]
        pd2["y2"] = pd2["b"]
    L1 = fr(pd1["a"] if kind.endswith("xcte") else pd1["b"])
    L2 = fr(pd2["a"] if kind.endswith("xcte") else pd2["b"])
    auto = rng.random() < 0.4
    return dict(kind=kind, pd1=pd1, pd2=pd2,
                pos1=rat(Fraction(rng.randint(0, 8), 8) * L1), pos2=rat(Fraction(rng.randint(0, 8), 8) * L2),
                kt=rat(Fraction(rng.randint(1, 64), 8)), kr=rat(Fraction(rng.randint(0, 64), 8)),
                auto=auto, first=rng.choice([1, 2]), pad=rng.choice([0, 0, 3, 6]) if auto else rng.choice([0, 2, 5]))


def material_study(cd, factor):
    """the same connection between FRESH panels about their mid-planes (penalty constants and connection matrix asked
    before any stiffness call), for the given materials and for materials with all moduli scaled by `factor`:
    every answer must follow the panels' own materials, whatever was evaluated before in the same process"""
    import copy
    out = []
    for f in (1, factor):
        c = copy.deepcopy(cd)
        for pd in (c["pd1"], c["pd2"]):
            pd["off"] = rat(0)
            pd.pop("ortho", None)
            for ply in pd["stack"]:
                ply["mat"] = [rat(fr(v) * f) if k in (0, 1, 3, 4, 5, 6) else v for k, v in enumerate(ply["mat"])]
        c.update(fresh=True, auto=True, pad=0)
        out.append(c)
    return out


def run(tier, seed, build):
    rep = Report("C12", tier, seed)
    rng = random.Random(seed)
    kfs = open_deviations("C12")
    invs = ["SymmetricConn", "ScaleDominatesConn", "ProbesNonNegativeConn", "LinearInConstants", "ZeroOnContinuous",
            "ConstantsLaws"]
    cfg = ("SPECIFICATION EmitSpec\nCONSTANTS\nNFun = 8\nCDeviations = {}\nTier = \"%s\"\n%s\nCHECK_DEADLOCK FALSE\n"
           % (tier, "\n".join("INVARIANT " + i for i in invs)))
    mc = run_tlc("c12-mc", "MC_ConnModel", cfg, workers=16, timeout=6000, heap="8g")
    rep.add_tlc("MC_ConnModel", mc)
    if not mc.ok:
        rep.machinery("TLC on MC_ConnModel failed: " + mc.errors())
        return rep.finish()
    cds = [v[1] for v in printed_values(mc.out, "CONN")]
    nrand = 24 if tier == "quick" else 400
    cds += [random_cd(rng) for _ in range(nrand)]
    for k, cd in enumerate(cds):
        if cd["auto"] and k % 2 == 0:
            cd["prek0nf"] = True
    studies = []
    for k, cd in enumerate(list(cds)):
        if k % (6 if tier == "quick" else 3) == 1:
            studies += material_study(cd, Fraction(3) if k % 2 else Fraction(1, 2))
    cds += studies
    events, meta = [], {}
    for cd in cds:
        try:
            obs = observe_conn(cd)
        except Exception as ex:
            rep.violation("connection %s raised %s: %s" % (cd["kind"], type(ex).__name__, str(ex)[:200]), dict(cd=cd))
            continue
        e = dict(ev="conn", id=len(events), cd=cd, obs=obs)
        meta[e["id"]] = cd
        events.append(e)
        rep.nontrivial((cd["kind"], repr(cd["pd1"]), repr(cd["pd2"]), repr(cd["pos1"]), repr(cd["pos2"]), cd["auto"],
                        cd["first"], cd["pad"]))
        if cd["auto"] or cd.get("fresh"):
            e2 = dict(ev="ktkr", id=len(events), cd=cd, obs=observe_ktkr(cd))
            meta[e2["id"]] = cd
            events.append(e2)
    tcfg = ("CONSTANTS\nNFun = 8\nCDeviations = {}\nTol = %d\nOpenKF = {%s}\n" % (TOL, ", ".join('"%s"' % k for k in kfs)))
    verdicts, results, problems = validate_trace("c12-tr", "Trace_ConnModel", tcfg, events, timeout=6000)
    for res in results:
        rep.add_tlc("Trace_ConnModel", res)
    for p in problems:
        rep.machinery(p)
    for e in events:
        v = verdicts.get(e["id"])
        cd = e["cd"]
        if not v:
            continue
        desc = "%s %s first=%d pad=%d auto=%s" % (e["ev"], cd["kind"], cd["first"], cd["pad"], cd["auto"])
        if v[0].startswith("kf:"):
            rep.known(v[0][3:], desc)
        elif v[0] != "ok":
            rep.violation("%s differs from the Hessian of the interface mismatch energy: %s" % (desc, str(v[1])[:300]),
                          dict(cd=cd, ev=e["ev"], bad=str(v[1])))
    rep.cov["traces_validated_against_impl"] = len(events)
    rep.cov["evaluations"] = len(events)
    rep.sample(cds[0])
    rep.sample(cds[-1])
    rep.cov["rule"] = ("connection descriptions: TLC-enumerated lattice (5 kinds x unequal panels x edge/interior interface "
                       "positions x both orders in the global vector x explicit/derived constants) through the fkC* kernels "
                       "and PanelAssembly.get_k0_conn + %d seeded random ones; distinct = distinct description" % nrand)
    rep.assumptions += ["explicit-constant cases sum the three kernel blocks as a correct assembly would (diagonal blocks "
                        "mirrored with the package's make_symmetric, coupling block plus its transpose); derived-constant cases "
                        "go through PanelAssembly.get_k0_conn after each panel's calc_k0 (documented order); material studies ask "
                        "calc_kt_kr / get_k0_conn on fresh mid-plane panels before any stiffness call, for two materials in a row",
                        "tolerance 2^-%d of the term-magnitude scale" % TOL]
    return rep.finish()


def replay(path, build):
    """the stored replay file holds the failing definition/behaviour; the check is deterministic in VERIF_SEED, so the
    violation is re-decided by re-running the tier that found it with the same seed"""
    import json
    import os
    rp = json.load(open(path))
    print("replaying %s: %s" % (rp.get("property"), str(rp.get("what"))[:300]))
    return run(os.environ.get("VERIF_TIER", "quick"), int(os.environ.get("VERIF_SEED", "20261003")), build)
