"""C14 (DESIGN.md section 5): equivalent descriptions give identical matrices and eigenvalues."""
import copy
import random

import numpy as np

from common import (Fraction, Report, dyadic, rat, run_tlc, printed_values, validate_trace, from_rat)
import panelmat
from panelmat import fr

TOL = 38
INVS = ["ConeZeroIsCylinder", "LargeRadiusLaw", "WOnlyIsWBlock", "AxisExchange", "SimilarityLaw"]


def mulr(x, f):
    return rat(fr(x) * f)


def cone0(pd):
    q = copy.deepcopy(pd)
    q.update(model="kpanel", sina=rat(0), cosa=rat(1))
    return q


def as_model(pd, model):
    q = copy.deepcopy(pd)
    q["model"] = model
    if model == "plate":
        q["r"] = rat(0)
    return q


def swap_pd(pd):
    q = copy.deepcopy(pd)
    q["a"], q["b"] = pd["b"], pd["a"]
    q["m"], q["n"] = pd["n"], pd["m"]
    sw = [1, 0, 2]
    q["fl"] = [[pd["fl"][sw[d]][1], pd["fl"][sw[d]][0]] for d in range(3)]
    q["stack"] = [dict(p, dir=[p["dir"][1], p["dir"][0]]) for p in pd["stack"]]
    q["y1"], q["y2"] = rat(0), q["b"]
    q["Ncte"] = [pd["Ncte"][1], pd["Ncte"][0], pd["Ncte"][2]]
    return q


def swap_req(r):
    r = dict(r)
    if r["q"] == "kG0":
        r["N"] = [r["N"][1], r["N"][0], r["N"][2]]
    return r


def scale_pd(pd, s, e, q):
    o = copy.deepcopy(pd)
    for k in ("a", "b", "r", "y1", "y2", "off"):
        o[k] = mulr(pd[k], s)
    o["mu"] = mulr(pd["mu"], q)
    st = []
    for p in pd["stack"]:
        mat = [mulr(v, e) if k in (0, 1, 3, 4, 5, 6) else v for k, v in enumerate(p["mat"])]
        st.append(dict(p, t=mulr(p["t"], s), mat=mat))
    o["stack"] = st
    return o


def matrices(pd, N):
    p = panelmat.build_panel(pd)
    k0 = p.calc_k0(silent=True)
    p.Nxx, p.Nyy, p.Nxy = N
    kG = p.calc_kG0(silent=True)
    kM = p.calc_kM(silent=True)
    return k0, kG, kM


def eig_lists(pd, N):
    from compmech.analysis import lb, freq
    k0, kG, kM = matrices(pd, N)
    lam, _ = lb(k0, kG, sparse_solver=False, silent=True, num_eigvalues=4)
    om, _ = freq(k0, kM, sparse_solver=False, silent=True, num_eigvalues=4)
    lam = np.asarray(lam, dtype=float)[:3]
    om = np.asarray(np.real(om), dtype=float)[:3]
    # amplitudes that carry stiffness but no load have infinite multipliers, which the solver returns as +-1e16 noise:
    # only the finite positive multipliers are physical quantities that equivalent descriptions share
    pos = lam[(lam > 0) & np.isfinite(lam)]
    if len(pos):
        lam = lam[(lam > 0) & (lam < 1e9 * pos.min())]
    return [dyadic(v) for v in lam], [dyadic(v) for v in om]


def run(tier, seed, build):
    rep = Report("C14", tier, seed)
    rng = random.Random(seed)
    cfg = ("SPECIFICATION EmitSpec\nCONSTANTS\nNFun = 8\nDeviations = {}\nTier = \"%s\"\n%s\nCHECK_DEADLOCK FALSE\n"
           % (tier, "\n".join("INVARIANT " + i for i in INVS)))
    mc = run_tlc("c14-mc", "MC_PanelEquiv", cfg, workers=16, timeout=6000, heap="8g")
    rep.add_tlc("MC_PanelEquiv", mc)
    if not mc.ok:
        rep.machinery("TLC on MC_PanelEquiv failed: " + mc.errors())
        return rep.finish()
    pairs = [(v[1], panelmat.jreq(v[2])) for v in printed_values(mc.out, "REQ")]
    groups, meta = [], {}
    eid = [0]
    npre = [0]
    nnum = [0]

    def ev(pd, r, label, tol=None):
        obs, ok = panelmat.observe(pd, r)
        e = dict(ev="eval", id=eid[0] + 1, req=r, obs=obs, flags_ok=ok)
        if tol:
            e["tol"] = tol
        groups.append([dict(ev="define", id=eid[0], pd=pd), e])
        meta[eid[0] + 1] = (label, pd, r)
        eid[0] += 2

    for pd, r in pairs:
        rep.nontrivial((pd["model"], pd["m"], pd["n"], repr(pd["fl"]), repr(pd["y1"]), r["q"]))
        ev(pd, r, "base")
        if pd["model"] == "cpanel":
            ev(cone0(pd), r, "cone(0deg) partner of the cylindrical panel")
            ev(as_model(pd, "plate"), r, "flat partner")
            for k in (2, 3):
                q = copy.deepcopy(pd)
                q["r"] = mulr(pd["r"], k)
                ev(q, r, "radius x%d partner" % k)
        if pd["model"] == "plate_w":
            ev(as_model(pd, "plate"), r, "full-plate partner of the w-only model")
        if pd["model"] in ("plate", "plate_w") and fr(pd["y1"]) == 0 and fr(pd["y2"]) == fr(pd["b"]):
            ev(swap_pd(pd), swap_req(r), "axis-exchanged partner")
            if r["q"] == "k0" and npre[0] < (6 if tier == "quick" else 60):
                # the same pair under a constant pre-load with a single non-zero component (exchanged: Nxx <-> Nyy)
                comp = npre[0] % 3
                npre[0] += 1
                pn = copy.deepcopy(pd)
                pn["Ncte"] = [rat(Fraction(-3, 2)) if k == comp else rat(0) for k in range(3)]
                ev(pn, r, "base under a single-component pre-load")
                ev(swap_pd(pn), swap_req(r), "axis-exchanged partner under the exchanged pre-load")
        ev(scale_pd(pd, Fraction(2), Fraction(3), Fraction(5)), r, "similar partner (s=2, e=3, q=5)")
        # another consistent unit system (mm / GPa-like, masses far down): every entry far from 1 (nothing in the code may depend on absolute size)
        for qk in sorted({"k0", "kM", r["q"]}):     # stiffness and mass always, besides the kind the enumerated request asked for
            ev(scale_pd(pd, Fraction(1000), Fraction(1, 10 ** 9), Fraction(1, 10 ** 29)), dict(r, q=qk),
               "similar partner in a far unit system (s=1e3, e=1e-9, q=1e-29)")
        if r["q"] == "k0" and pd["model"] in ("plate", "cpanel") and fr(pd["y1"]) == 0 and fr(pd["y2"]) == fr(pd["b"]):
            rn = dict(r, num=[pd["m"] + 3, pd["n"] + 3])
            ev(pd, rn, "numerically integrated kernel at the undeformed state", tol=34)
            if nnum[0] < (2 if tier == "quick" else 12):
                # unequal series orders with the smallest rule that is exact in each direction (an n-point rule integrates
                # the quadratic integrand of degree 2 max(3, m-1) exactly from n = max(4, m) on): nx < n <= ny
                nnum[0] += 1
                px = dict(copy.deepcopy(pd), m=3, n=6)
                ev(px, r, "analytic kernel, orders (3, 6)")
                ev(px, dict(r, num=[4, 6]), "numerically integrated kernel, orders (3, 6), rule (4, 6)", tol=34)
            # the same pair with the laminate forced orthotropic (the flag must reach both kernel families)
            po = dict(copy.deepcopy(pd), ortho=True)
            ev(po, r, "analytic kernel, laminate forced orthotropic")
            ev(po, rn, "numerically integrated kernel, laminate forced orthotropic", tol=34)
    # eigenvalue observations: axis exchange and similarity (dense solver paths)
    s, e, q = Fraction(2), Fraction(9), Fraction(4)
    for pd, r in pairs:
        if r["q"] != "kG0" or pd["model"] != "plate" or fr(pd["y1"]) != 0 or fr(pd["y2"]) != fr(pd["b"]):
            continue
        pe = copy.deepcopy(pd)
        # eigenvalue problems need a stiffness that is positive definite on the active amplitudes
        pe["fl"] = [[[rat(0), rat(0), rat(0), rat(1)], [rat(0), rat(1), rat(0), rat(0)]],
                    [[rat(0), rat(1), rat(0), rat(0)], [rat(0), rat(0), rat(0), rat(1)]],
                    [[rat(0), rat(1), rat(0), rat(1)], [rat(0), rat(1), rat(0), rat(0)]]]
        N = [-1.0, -0.5, 0.0]
        if 3 * pe["m"] * pe["n"] < 16:
            continue          # too few active amplitudes for the four eigenpairs requested (the wrappers' limits are C05/C06's subject)
        try:
            la, oa = eig_lists(pe, N)
            lb_, ob = eig_lists(swap_pd(pe), [N[1], N[0], N[2]])
            lc, oc = eig_lists(scale_pd(pe, s, e, q), N)
            ld, od = eig_lists(scale_pd(pe, Fraction(1000), Fraction(1, 10 ** 9), Fraction(1, 10 ** 29)), N)
        except ValueError:
            continue          # fewer active amplitudes than eigenpairs requested: the dense wrapper's limit is C05's finding
        for nm, a, b, f in (("buckling, axis exchange", la, lb_, Fraction(1)), ("frequency, axis exchange", oa, ob, Fraction(1)),
                            ("buckling, similarity e*s", lc, la, e * s), ("frequency, similarity sqrt(e/q)/s", oc, oa, Fraction(3, 4)),
                            ("buckling, far unit system", ld, la, Fraction(1, 10 ** 6)), ("frequency, far unit system", od, oa, Fraction(10 ** 7))):
            if len(a) != len(b) or not a:
                if nm.startswith("buckling") and len(a) != len(b):
                    rep.violation("eigenvalues: %s: the two descriptions have different numbers of finite positive multipliers"
                                  % nm, dict(pd=pe, a=len(a), b=len(b)))
                continue
            groups.append([dict(ev="obs_equal", id=eid[0], a=a, b=b, factor=rat(f), tol=30)])
            meta[eid[0]] = ("eigenvalues: " + nm, pe, dict(q="eig"))
            eid[0] += 1
    tcfg = "CONSTANTS\nNFun = 8\nDeviations = {}\nTol = %d\nTolSolve = 30\nOpenKF = {\"KF_C04_OffsetCouplingSign\"}\n" % TOL
    verdicts, results, problems = validate_trace("c14-tr", "Trace_PanelModel", tcfg, groups, timeout=6000,
                                                 judged=lambda e: e["ev"] != "define")
    for res in results:
        rep.add_tlc("Trace_PanelModel", res)
    for p in problems:
        rep.machinery(p)
    for i, (label, pd, r) in meta.items():
        v = verdicts.get(i)
        if not v or v[0] == "ok":
            continue
        if v[0].startswith("kf:"):
            continue          # the mass-matrix coupling sign is C04's finding, reported there
        rep.violation("%s: %s of a %s panel (m=%d,n=%d) is not what the equivalent description gives: %s"
                      % (label, r["q"], pd["model"], pd["m"], pd["n"], str(v[1])[:300]), dict(pd=pd, req=r, label=label))
    rep.cov["traces_validated_against_impl"] = len(groups)
    rep.cov["evaluations"] = len(groups)
    rep.sample(dict(label=meta[1][0], pd=meta[1][1], req=meta[1][2]))
    rep.sample(dict(label=meta[3][0], req=meta[3][2], model=meta[3][1]["model"]))
    rep.cov["rule"] = ("for every TLC-enumerated <<definition, request>>: the definition and each equivalent partner "
                       "(cone at 0 deg, flat / larger-radius partner, w-only vs full plate, axis-exchanged, similar (s,e,q), "
                       "numerically integrated kernel) are evaluated by the real code and each judged against the exact value; "
                       "the laws tying the partners together are TLC invariants; eigenvalues of lb/freq observed for the "
                       "exchanged and similar partners; distinct = distinct (definition, request)")
    rep.assumptions += ["matrix congruence / scaling => equal / scaled eigenvalues (cited, not mechanised); additionally observed",
                        "numerically integrated kernels judged at 2^-34 of the term magnitude (Gauss quadrature sums)"]
    return rep.finish()


def replay(path, build):
    """the stored replay file holds the failing definition/behaviour; the check is deterministic in VERIF_SEED, so the
    violation is re-decided by re-running the tier that found it with the same seed"""
    import json
    import os
    rp = json.load(open(path))
    print("replaying %s: %s" % (rp.get("property"), str(rp.get("what"))[:300]))
    return run(os.environ.get("VERIF_TIER", "quick"), int(os.environ.get("VERIF_SEED", "20261003")), build)
