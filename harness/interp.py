"""compmech/interpolate.py (interp) against Interp.tla.  Not a property check: `bin/extra interp` runs it and prints
a summary; it never prints a VIOLATION line for a listed property (nothing in properties.jsonl depends on interp)."""
import random
import sys

from common import dyadic, run_tlc, validate_trace

INVS = ["Deterministic", "Bounded", "HitsData", "PeriodicInX", "PeriodicInXp", "SignOfPeriod", "OrderFree",
        "ConstantData", "RefusesZero"]


def observe(e):
    from compmech.interpolate import interp
    kw = {}
    if e["kind"] == "periodic":
        kw["period"] = e["period"]
    if e["left"]:
        kw["left"] = float(e["left"][0])
    if e["right"]:
        kw["right"] = float(e["right"][0])
    form = e["id"] % 3                      # scalar x, list x, array x among other abscissae
    try:
        if form == 0:
            y = interp(float(e["x"]), [float(v) for v in e["xp"]], [float(v) for v in e["fp"]], **kw)
            y = float(y[0]) if hasattr(y, "__len__") else float(y)
        else:
            import numpy as np
            xs = [e["x"] + 1.0, float(e["x"]), e["x"] - 2.5]
            y = interp(xs if form == 1 else np.array(xs), e["xp"], np.array(e["fp"], dtype=float), **kw)
            y = float(y[1])
    except ValueError:
        return dyadic(0.0), "ValueError"
    return dyadic(y), ""


def events(tier, rng):
    evs = []
    for _ in range(600 if tier == "quick" else 6000):
        n = rng.randint(1, 5)
        period = rng.choice([0, 3, -4, 5, 7, 360, -360, 12])
        kind = "periodic" if rng.random() < 0.75 else "plain"
        span = 3 * max(abs(period), 4)
        xp = [rng.randint(-span, span) for _ in range(n)]
        if kind == "plain":
            xp = sorted(set(xp))
            n = len(xp)
        elif rng.random() < 0.6 and period:
            seen, out = set(), []           # mostly without ties modulo the period; ties stay in for the rest
            for v in xp:
                if v % abs(period) not in seen:
                    seen.add(v % abs(period))
                    out.append(v)
            xp, n = out, len(out)
        fp = [rng.randint(-20, 20) * rng.choice([1, 1, 1000]) for _ in range(n)]
        x = rng.choice(xp) + rng.choice([0, 0, 1, -1, 2]) * rng.choice([1, abs(period) or 1]) if rng.random() < 0.5 \
            else rng.randint(-2 * span, 2 * span)
        e = dict(id=len(evs), x=x, xp=xp, fp=fp, period=period if kind == "periodic" else 1, kind=kind,
                 left=[rng.randint(-9, 9)] if kind == "plain" and rng.random() < 0.4 else [],
                 right=[rng.randint(-9, 9)] if kind == "plain" and rng.random() < 0.4 else [])
        e["obs"], e["exc"] = observe(e)
        evs.append(e)
    return evs


def run(tier="quick", seed=1, mutate=None):
    rng = random.Random(seed + 4242)
    cfg = ("SPECIFICATION ISpec\nCONSTANTS\nXs <- MCXs\nFv <- MCFv\nNp = 2\nPeriods <- MCPeriods\n%s\nCHECK_DEADLOCK FALSE\n"
           % "\n".join("INVARIANT " + i for i in INVS))
    mc = run_tlc("interp-mc", "MC_Interp", cfg, workers=16, timeout=400)
    print("MC_Interp: ok=%s generated=%d distinct=%d wall=%.1fs" % (mc.ok, mc.generated, mc.distinct, mc.wall))
    if not mc.ok:
        print(mc.errors()[:3000])
        return 2
    evs = events(tier, rng)
    if mutate:
        mutate(evs)
    verdicts, results, problems = validate_trace("interp-tr", "Trace_Interp",
                                                 "CONSTANTS\nXs = {0}\nFv = {0}\nNp = 1\nPeriods = {1}\n", evs, timeout=400)
    bad = [e for e in evs if verdicts.get(e["id"], ("missing",))[0] != "ok"]
    print("Trace_Interp: events=%d rejected=%d problems=%d" % (len(evs), len(bad), len(problems)))
    for p in problems[:3]:
        print("MACHINERY", p[:500])
    for e in bad[:5]:
        print("REJECTED (no listed property involved):", {k: e[k] for k in ("x", "xp", "fp", "period", "kind", "left", "right", "exc")})
    return 2 if problems else (1 if bad else 0)


if __name__ == "__main__":
    sys.exit(run(*sys.argv[1:2]))
