"""C05 - buckling solver wrapper (DESIGN.md section 5, C05): compmech.analysis.lb, Panel.lb, ConeCyl.lb
against spec/ctrl/EigWrap.tla (family "lb").  See eigwrap_common.py."""
import eigwrap_common as ew


def run(tier, seed, build):
    return ew.run_family("C05", "lb", tier, seed, build)


def replay(path, build):
    return ew.replay_file("C05", path, build)
