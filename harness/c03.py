"""C03 (DESIGN.md section 5): decided through PanelModel.tla / Trace_PanelModel.tla."""
import panelmat


def run(tier, seed, build):
    return panelmat.run_prop("C03", ["kG0", "kGc"], tier, seed, build, what=WHAT)


WHAT = "the Hessian the specification derives"


def replay(path, build):
    return panelmat.replay_file("C03", path, build)
