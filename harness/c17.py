"""C17 (PARTIAL) - complete-shell NON-LINEAR tangent and internal force of compmech/conecyl.

Key fact (ShellLaws Part A, model-checked exactly): whatever the (fixed, linear) integration rule, the internal force of a
von-Karman shell is a CUBIC map of the amplitudes; for every polynomial map of degree <= 4 the 4-point central formula
    R4(f, c, d) = (8 (f(c+d) - f(c-d)) - (f(c+2d) - f(c-2d))) / 12
IS the directional derivative J(c) d, for any step d.  So "the tangent is the Jacobian of the internal force" is decided on
recorded doubles with steps of the size of the state itself: no small-step cancellation, tolerance = rounding of the compared
sums (2^-38 of the row's term magnitudes; the clean-tree margin is reported in the evidence as `jacobian_min_bits`).

Decided on the FREE amplitudes (what the property speaks of), for the prescribed sets the API produces, zero and non-zero
prescribed values, load factors inc: tangent symmetric; kTuu/kTuk = partition of kL + kG; kL, kG, fint = the composition of the
planned kernel calls (k0 + k0L + k0L^T + Sym(kLL), Sym(calc_kG), calc_fint_0L_L0_LL + k0 c); tangent = Jacobian of fint (both
flags on); fint is a gradient (two directions); internal force of the undeformed shell is zero (also with a stress-free initial
imperfection); linear limit R4(f, 0, c) = k0uu c for the perfect shell; return_u=True = deletion of return_u=False; 1..8
integration threads agree within rounding (the partial sums are added in another order: not bitwise); trapz2d and simps2d
separately; same request => same answer whatever the object's history and the container form of c; c is not modified.
NOT decided: any absolute value of a kernel integral; convergence of the integration rule (grids 'fine enough' are not needed:
the law holds exactly for any fixed rule)."""
import copy
import json
import random
import time
import warnings

import numpy as np

import shelllaws_common as sl
from shelllaws_common import (Study, Report, base_def, build_cc, linear_event, nl_event, fint_event, load_plans, judge, quiet, dy,
                              short_def, LAMS, LAMINA, LAMINA2)

PROP = "C17"
_TIER = ["quick"]


def vadd(a, b, k=1.):
    return [x + k * y for x, y in zip(a, b)]


def study_nl(rc, plans, nlplans, rng):
    d = rc["d"]
    cu, du, eu, inc = rc["cu"], rc["du"], rc["eu"], rc["inc"]
    st = Study(rc)
    cc = build_cc(d)
    # documented order: the linear matrices first (Analysis: calc_fext, calc_k0, then calc_kT / calc_fint)
    iL = st.add(linear_event(cc, d, 0, "fresh", plans, rng, via="calc_k0", with_kern=False))
    both = d["with_k0L"] and d["with_kLL"]
    iN = st.add(nl_event(cc, d, cu, inc, "fresh", nlplans, form=rc["forms"][0]))
    if not both:
        # an approximation by design: only symmetry and composition are claimed; ask again after another state
        st.add(nl_event(cc, d, vadd(cu, du), inc, "requery", nlplans, with_kern=False))
        st.add(nl_event(cc, d, cu, inc, "requery", nlplans, form=rc["forms"][1], with_kern=False))
        return st
    # internal force: full vector (with the planned kernel) and its free part at c + d, then the stencil
    iF0 = st.add(fint_event(cc, d, vadd(cu, du), inc, False, "fresh", nlplans, with_kern=True))
    ip1 = st.add(fint_event(cc, d, vadd(cu, du), inc, True, "fresh", nlplans, form=rc["forms"][1]), rel=[dict(law="FintOfFreeIsDeletion", refs=[iF0])])
    im1 = st.add(fint_event(cc, d, vadd(cu, du, -1), inc, True, "fresh", nlplans))
    ip2 = st.add(fint_event(cc, d, vadd(cu, du, 2), inc, True, "fresh", nlplans, form=rc["forms"][2]))
    im2 = st.add(fint_event(cc, d, vadd(cu, du, -2), inc, True, "fresh", nlplans), rel=[dict(law="TangentIsJacobian", refs=[iN, ip1, im1, ip2])])
    if rc["gradient"]:
        ie1 = st.add(fint_event(cc, d, vadd(cu, eu), inc, True, "fresh", nlplans))
        ie2 = st.add(fint_event(cc, d, vadd(cu, eu, -1), inc, True, "fresh", nlplans))
        ie3 = st.add(fint_event(cc, d, vadd(cu, eu, 2), inc, True, "fresh", nlplans))
        st.add(fint_event(cc, d, vadd(cu, eu, -2), inc, True, "fresh", nlplans),
               rel=[dict(law="FintIsGradient", refs=[iN, ip1, im1, ip2, im2, ie1, ie2, ie3]), dict(law="TangentIsJacobian", refs=[iN, ie1, ie2, ie3])])
    # other thread counts on the SAME object (single-aspect change), then back
    for nc in rc["cores"]:
        dn = dict(d, ni_num_cores=nc)
        cc.ni_num_cores = nc
        st.add(fint_event(cc, dn, vadd(cu, du), inc, True, "changed:ni_num_cores", nlplans), rel=[dict(law="ThreadsAgree", refs=[ip1, iN])])
        st.add(nl_event(cc, dn, cu, inc, "changed:ni_num_cores", nlplans, with_kern=False), rel=[dict(law="ThreadsAgree", refs=[iN])])
    cc.ni_num_cores = d["ni_num_cores"]
    # the same requests again after all of that (and after a displacement query): same answers
    with quiet():
        cc.uvw(np.array(vadd(cu, eu)), xs=np.array([0.25 * d["L"]]), ts=np.array([0.5]), inc=inc)
    st.add(fint_event(cc, d, vadd(cu, du, -1), inc, True, "requery", nlplans, form="view"))
    st.add(nl_event(cc, d, cu, inc, "requery", nlplans, form="readonly", with_kern=False))
    # a fresh identical object asked for the tangent only (no force asked before)
    c2 = build_cc(d)
    with quiet():
        c2.calc_k0(silent=True)
    st.add(nl_event(c2, d, cu, inc, "fresh", nlplans, with_kern=False))
    # a fresh object with ONE aspect different answers first; then that aspect of the first object is re-defined and the same
    # requests are made on it: same definition => same answers
    asp = rc.get("aspect")
    if asp:
        dn = copy.deepcopy(d)
        if asp == "c0":
            dn.update(c0=None, m0=0, n0=0) if d["c0"] is not None else dn.update(rc["imp2"])
        else:
            dn[asp] = rc["aspect_value"]
        c3 = build_cc(dn)
        with quiet():
            c3.calc_k0(silent=True)
        st.add(fint_event(c3, dn, cu, inc, True, "fresh", nlplans))
        st.add(nl_event(c3, dn, cu, inc, "fresh", nlplans, with_kern=False))
        if asp == "c0":
            cc.c0 = None if dn["c0"] is None else np.array(dn["c0"], dtype=float)
            cc.m0, cc.n0 = dn["m0"], dn["n0"]
        else:
            sl.set_aspect(cc, asp, dn)
        st.add(fint_event(cc, dn, cu, inc, True, "changed:" + asp, nlplans))
        st.add(nl_event(cc, dn, cu, inc, "changed:" + asp, nlplans, with_kern=False))
    return st


def study_origin(rc, plans, nlplans, rng):
    """the undeformed shell: force-free (perfect and stress-free imperfect); linear limit of the perfect shell; with an
    imperfection the same formula is the Jacobian law at the origin"""
    d, cu = rc["d"], rc["cu"]
    st = Study(rc)
    cc = build_cc(d)
    iL = st.add(linear_event(cc, d, 0, "fresh", plans, rng, via="calc_k0", with_kern=False))
    n = len(cu)
    zero = [0.] * n
    st.add(fint_event(cc, d, zero, 1., True, "fresh", nlplans))
    st.add(fint_event(cc, d, zero, 1., False, "fresh", nlplans, with_kern=True))
    law = "LinearLimitIsK0c" if d["c0"] is None else "TangentIsJacobian"
    first = iL
    if d["c0"] is not None:
        first = st.add(nl_event(cc, d, zero, 1., "fresh", nlplans))
    a = st.add(fint_event(cc, d, cu, 1., True, "fresh", nlplans))
    b = st.add(fint_event(cc, d, vadd(zero, cu, -1), 1., True, "fresh", nlplans))
    c = st.add(fint_event(cc, d, vadd(zero, cu, 2), 1., True, "fresh", nlplans))
    st.add(fint_event(cc, d, vadd(zero, cu, -2), 1., True, "fresh", nlplans), rel=[dict(law=law, refs=[first, a, b, c])])
    if rc.get("m2"):
        # the multiplier m of the integration grid: its own fixed rule, same laws
        st.add(fint_event(cc, d, cu, 1., False, "fresh", nlplans, with_kern=True, m=2))
    return st


BUILDERS = dict(nl=study_nl, origin=study_origin)


def nfree(d):
    _, modelDB, _ = sl.package()
    md = modelDB.db[d["model"]]
    size = md["num0"] + md["num1"] * d["m1"] + md["num2"] * d["m2"] * d["n2"]
    return size - (1 + int(d["pdT"]) + int(d["pdC"]))


def imperfection(rng, d):
    m0, n0 = rng.choice([(1, 2), (2, 2), (2, 3)])
    return dict(c0=[dy(rng, -0.25, 0.25, 6) for _ in range(m0 * n0 * 2 if d.get("funcnum", 2) == 2 else m0 * n0)], m0=m0, n0=n0, funcnum=2)


def mk_recipe(rng, d, kind="nl"):
    n = nfree(d)
    forms = [rng.choice(sl.FORMS) for _ in range(3)]
    if kind == "origin":
        return dict(kind="origin", d=d, cu=sl.rand_vec(rng, n), m2=rng.random() < 0.3)
    rc = dict(kind="nl", d=d, cu=sl.rand_vec(rng, n), du=sl.rand_vec(rng, n), eu=sl.rand_vec(rng, n),
              inc=rng.choice([1., 1., 0.5, 0.75]), forms=forms, gradient=rng.random() < 0.5,
              cores=sorted(rng.sample([2, 3, 4, 5, 6, 7, 8], 2)))
    if d["with_k0L"] and d["with_kLL"] and rng.random() < 0.6:
        asp = rng.choice(["ni_method", "nx", "nt", "with_kLL", "with_k0L", "c0", "r2", "stack"])
        val = {"ni_method": "simps2d" if d["ni_method"] == "trapz2d" else "trapz2d", "nx": d["nx"] + 3, "nt": d["nt"] + 5, "with_kLL": False,
               "with_k0L": False, "r2": d["r2"] + 32., "c0": None, "stack": None}[asp]
        if asp == "stack":
            if "stack" not in d["lam"]:
                return rc
            asp, val = "lam", dict(d["lam"], stack=[a + 15. for a in d["lam"]["stack"]])
        rc.update(aspect=asp, aspect_value=val, imp2=imperfection(rng, d))
    return rc


def recipes(tier, seed, reqs):
    rng = random.Random(seed * 17 + 3)
    out = []
    lat = [q for q in reqs if q["study"] == "nl"]
    cap = 110 if tier == "quick" else 900
    if len(lat) > cap:
        # keep every (model, rule, imperfection) and every (model, angle, prescribed set) at least once, then sample
        lat.sort(key=lambda q: json.dumps(q, sort_keys=True))
        rng.shuffle(lat)
        seen, keep, rest = set(), [], []
        for q in lat:
            ks = [(q["model"], q["rule"], q["imp"]), (q["model"], q["alpha"], json.dumps(q["pre"], sort_keys=True))]
            if any(k not in seen for k in ks):
                keep.append(q)
                seen.update(ks)
            else:
                rest.append(q)
        lat = keep[:cap] + rest[:max(0, cap - len(keep))]
    for q in lat:
        m = q["model"]
        iso = m.startswith("iso_")
        o = q["ord"]
        pre = q["pre"]
        d = base_def(m, m1=o[0], m2=o[1], n2=o[2], alphadeg=float(q["alpha"]),
                     lam=dict(E11=71.5e3, nu=0.25, h=0.5) if iso else dict(stack=list(LAMS[q["lam"]]), plyt=0.125, laminaprop=list(LAMINA)),
                     r2=float(rng.choice([128., 256.])), L=float(rng.choice([192., 384.])), ni_method=q["rule"], pdC=pre["pdC"], pdT=pre["pdT"],
                     uTM=0.125 if (pre["nz"] and pre["pdC"]) else 0., thetaTdeg=1.5 if (pre["nz"] and pre["pdT"]) else 0.,
                     betadeg=0.25 if pre["nz"] else 0., nx=rng.choice([7, 9, 20, 22]), nt=rng.choice([26, 28, 30]))
        # (a coarse grid is as good as a fine one for the laws; with fewer points than 4 n2 the rule is not even exact in theta, which
        #  is what makes a grid mix-up in the package visible)
        if q["imp"]:
            d.update(imperfection(rng, d))
        out.append(mk_recipe(rng, d))
    # the undeformed shell / linear limit
    models = sorted({q["model"] for q in lat})
    for mi, m in enumerate(models):
        for imp in (False, True):
            for al in ((0., 20.) if tier != "quick" else ((0.,) if (mi + imp) % 2 else (20.,))):
                iso = m.startswith("iso_")
                d = base_def(m, alphadeg=al, lam=dict(E11=71.5e3, nu=0.25, h=0.5) if iso else dict(stack=list(LAMS["unsym"]), plyt=0.125, laminaprop=list(LAMINA)),
                             ni_method=rng.choice(["trapz2d", "simps2d"]), pdT=rng.random() < 0.6, nx=19, nt=27)
                if imp:
                    d.update(imperfection(rng, d))
                out.append(mk_recipe(rng, d, "origin"))
    # flags off: the tangent is an approximation by design; symmetry / composition only
    for m in (["clpt_donnell_bc1", "fsdt_donnell_bc1", "iso_clpt_donnell_bc2"] if tier == "quick" else models):
        for fl in ((False, True), (True, False)):
            iso = m.startswith("iso_")
            d = base_def(m, alphadeg=float(rng.choice([0., 20.])), with_k0L=fl[0], with_kLL=fl[1],
                         lam=dict(E11=71.5e3, nu=0.25, h=0.5) if iso else dict(stack=list(LAMS["unsym"]), plyt=0.125, laminaprop=list(LAMINA)))
            out.append(mk_recipe(rng, d))
    # seeded definitions off the lattice
    _, modelDB, _ = sl.package()
    nlm = sorted(m for m in modelDB.db if modelDB.db[m]["non-linear"] is not None)
    for k in range(16 if tier == "quick" else 260):
        m = rng.choice(nlm)
        iso = m.startswith("iso_")
        big = (k % 16 == 5)
        o = (5, 3, 4) if big else (rng.randint(1, 3), rng.randint(1, 3), rng.randint(1, 3))
        lam = dict(E11=71.5e3, nu=0.25, h=0.5) if iso else \
            dict(stack=[float(rng.choice([0, 15, 30, 45, 60, 90, -45, -30])) for _ in range(rng.randint(1, 5))],
                 plyt=rng.choice([0.125, 0.25]), laminaprop=list(rng.choice([LAMINA, LAMINA2])))
        pdC, pdT = rng.random() < 0.25, rng.random() < 0.6
        d = base_def(m, m1=o[0], m2=o[1], n2=o[2], alphadeg=float(rng.choice([0, 0, 5, 15, 30, 45, 60])), lam=lam,
                     r2=float(rng.choice([100., 128., 256., 400.])), L=float(rng.choice([96., 192., 384., 512.])),
                     ni_method=rng.choice(["trapz2d", "simps2d"]), pdC=pdC, pdT=pdT, uTM=dy(rng, -0.25, 0.25, 4) if pdC else 0.,
                     thetaTdeg=dy(rng, -3, 3, 2) if pdT else 0., betadeg=rng.choice([0., 0., 0.5]), nx=rng.randint(4 * o[1] + 3, 4 * o[1] + 12),
                     geo_via=rng.choice(["r2,L", "r2,H", "r1,L"]),
                     nt=rng.randint(4 * o[2] + 5, 4 * o[2] + 16), K=rng.choice([5 / 6., 1.]), ortho=rng.random() < 0.2 and not iso)
        if rng.random() < 0.4:
            d.update(imperfection(rng, d))
        rc = mk_recipe(rng, d, "origin" if k % 5 == 4 and not (pdC or pdT and d["thetaTdeg"]) and d["betadeg"] == 0 else "nl")
        if big:
            rc["gradient"] = False
            rc["cores"] = rc.get("cores", [])[:1]
        out.append(rc)
    return out


def describe(s, k, e, laws, v):
    rc = s.recipe
    d = rc["d"]
    extra = "pdC=%s pdT=%s uTM=%g thetaTdeg=%g betadeg=%g %s nx=%d nt=%d%s" % (d["pdC"], d["pdT"], d["uTM"], d["thetaTdeg"], d["betadeg"], d["ni_method"],
                                                                          d["nx"], d["nt"], " with imperfection c0 (m0=%d, n0=%d)" % (d["m0"], d["n0"]) if d["c0"] else "")
    return ("%s study, step %d (%s, route %s) on %s %s: law(s) %s violated: %s"
            % (rc["kind"], k + 1, e["op"], e.get("route"), short_def(d), extra, ", ".join(laws), str(v[1])[:300]))


def build_all(rcs, plans, nlplans, rep, seed, i0=0):
    studies = []
    for i, rc in enumerate(rcs):
        rng = random.Random(seed * 1000003 + i0 + i)
        try:
            st = BUILDERS[rc["kind"]](rc, plans, nlplans, rng)
        except Exception as ex:
            import traceback
            rep.violation("%s study on %s: the package raised %s: %s" % (rc["kind"], short_def(rc["d"]), type(ex).__name__, str(ex)[:300]),
                          dict(recipe=rc, raised=traceback.format_exc()[-1200:]))
            continue
        studies.append(st)
        d = rc["d"]
        rep.nontrivial((rc["kind"], d["model"], d["alphadeg"], d["m1"], d["m2"], d["n2"], d["ni_method"], d["pdC"], d["pdT"], d["c0"] is not None,
                        d["with_k0L"], d["with_kLL"], rc.get("inc")))
    return studies


def run(tier, seed, build):
    warnings.filterwarnings("ignore")
    _TIER[0] = tier
    rep = Report(PROP, tier, seed, level="other")
    timer = {}
    t0 = time.time()
    sl.package()
    try:
        reqs, plans, nlplans, res = load_plans(tier)
    except Exception as ex:
        rep.machinery(str(ex)[:2000])
        return rep.finish()
    rep.add_tlc("MC_ShellLaws/EmitSpec", res)
    import concurrent.futures as cf
    with cf.ThreadPoolExecutor(max_workers=2) as ex:
        f1 = ex.submit(sl.model_check, rep, tier, ["alg", "toy"])
        f2 = ex.submit(sl.toy_mutants, rep, tier, ["dropK0LT", "fintNoK0c"])
        rcs = recipes(tier, seed, reqs)
        nst, kinds, bits = sl.replay_and_judge(rep, PROP, rcs, lambda part, b0: build_all(part, plans, nlplans, rep, seed, b0), "c17-tr", tier,
                                               describe, batch=160)
        timer["replay_and_judge_s"] = round(time.time() - t0, 1)
        f1.result()
        f2.result()
    timer["total_s"] = round(time.time() - t0, 1)
    rep.cov["studies"] = kinds
    rep.cov["jacobian_min_bits"] = bits
    rep.cov["jacobian_tolerance_bits"] = 38
    rep.cov["section_wall_s"] = timer
    rep.cov["exhaustive"] = False
    rep.cov["rule"] = ("distinct = distinct (study kind, model, angle, series orders, rule, prescribed flags, imperfection, flags, load factor) tuples "
                       "executed on real ConeCyl objects; studies of the TLC-enumerated lattice (sub-sampled with the seed above the cap, every "
                       "(model, rule, imperfection) and (model, angle, prescribed set) kept) plus seeded definitions off the lattice")
    rep.sample(dict(recipe={k: (v if k != "d" else short_def(v)) for k, v in rcs[0].items()}))
    rep.assumptions += [
        "PARTIAL CLAIM. Not decided: absolute values of the kernel integrals; adequacy of the integration grid (the laws hold for any fixed rule, "
        "so coarse grids are as good as fine ones for them)",
        "level: observation-level relational laws judged by TLC on recorded doubles + model-checked algebra (Richardson formula exact for "
        "degree <= 4, symmetric Jacobian iff gradient, closed-path work) + the same laws model-checked on an exact toy von-Karman shell",
        "the Jacobian law is judged on the FREE amplitudes (kTuu against calc_fint(return_u=True)), as the property says; the derivative with "
        "respect to amplitudes the API always prescribes (load asymmetry, index 2) is not asked for",
        "jacobian_min_bits = the smallest number of bits of the row scale (|kTuu|.(|c|+2|d|) + |k0uu|.(|c|+2|d|) + prescribed terms + the four "
        "|f|) that any accepted stencil kept; the law asks for 38",
        "threads: integratev adds the per-thread partial sums in another order, so 1..8 threads agree within rounding (2^-44 of the term "
        "scale), not bitwise; OMP_NUM_THREADS is set to 1 by bin/check, ni_num_cores is what the package passes to prange",
        "linear matrices are computed first (calc_k0), as Analysis does; calc_fint / calc_kT on an object without them is C20's subject; "
        "re-definition of geometry / laminate before calc_kT (stale cached k0) is not asked here",
        "the internal force of the undeformed shell is exactly zero also with initial imperfection coefficients (the package measures the strain "
        "from the imperfect shape: castro = 0), and is required so"]
    return rep.finish()


def replay(path, build):
    warnings.filterwarnings("ignore")
    rp = json.load(open(path))["replay"]
    if "recipe" not in rp:
        print("replay: nothing executable in", path)
        return 2
    sl.package()
    reqs, plans, nlplans, _ = load_plans("quick")
    rep = Report(PROP, "replay", 0)
    st = BUILDERS[rp["recipe"]["kind"]](rp["recipe"], plans, nlplans, random.Random(1))
    verdicts, _ = judge(rep, PROP, [st], "c17-replay", "quick", describe)
    for e in st.events:
        print("step %s %s: %s" % (e["op"], e.get("route"), str(verdicts.get(e["id"]))[:300]))
    if rep.machinery_errors:
        print("MACHINERY-ERROR", rep.machinery_errors[0][:1500])
        return 2
    if any(v[0] == "fail" for v in verdicts.values()):
        print("VIOLATION property=%s replay=%s" % (PROP, path))
        return 1
    for v in verdicts.values():
        if v[0].startswith("kf:"):
            print("KNOWN-FINDING: property=%s [%s]" % (PROP, v[0][3:]))
    return 0


# ----------------------------------------------------------------------------------------------------
# binding self-test:  /venv/bin/python /verif/harness/c17.py --selftest

MUTANTS = [
    ("drop + k0L.T from the tangent", "_calc_NL_matrices",
     [("kT = coo_matrix(self.k0 + k0L + kL0 + kLL + kG)", "kT = coo_matrix(self.k0 + k0L + kLL + kG)"),
      ("self.kL = csr_matrix(self.k0 + k0L + kL0 + kLL)", "self.kL = csr_matrix(self.k0 + k0L + kLL)")]),
    ("use nx for nt in calc_fint", "calc_fint", [("nt = self.nt*m", "nt = self.nx*m")]),
    ("fint without + k0*c", "calc_fint", [("fint += self.k0*c", "pass")]),
    ("kLL not mirrored", "_calc_NL_matrices", [("kLL = make_symmetric(kLL)", "pass")]),
    ("return_u deletes the leading rows", "calc_fint",
     [("fint = np.delete(fint, self.excluded_dofs)", "fint = np.delete(fint, list(range(len(self.excluded_dofs))))")]),
    ("tangent ignores the load factor of the prescribed amplitudes", "_calc_NL_matrices",
     [("c = self.calc_full_c(c, inc=inc)", "c = self.calc_full_c(c, inc=1.)")]),
    ("kTuu built without kG", "_calc_NL_matrices", [("kT = coo_matrix(self.k0 + k0L + kL0 + kLL + kG)", "kT = coo_matrix(self.k0 + k0L + kL0 + kLL)")]),
    ("kG integrated with nt points along x", "_calc_NL_matrices",
     [("kG = calc_kG(c, alpharad, r2, L, tLArad, F, m1, m2, n2, nx=nx,", "kG = calc_kG(c, alpharad, r2, L, tLArad, F, m1, m2, n2, nx=nt,")]),
]


def selftest():
    sl.bootstrap()
    ConeCyl, modelDB, _ = sl.package()
    reqs, plans, nlplans, _ = load_plans("quick")
    rng = random.Random(11)
    rcs = []
    for m, al, pre in (("clpt_donnell_bc1", 0., (False, True)), ("clpt_donnell_bc3", 20., (True, True)), ("clpt_sanders_bc4", 20., (False, False)),
                       ("iso_clpt_donnell_bc2", 0., (False, True)), ("clpt_donnell_bc4", 30., (True, True))):
        iso = m.startswith("iso_")
        d = base_def(m, alphadeg=al, pdC=pre[0], pdT=pre[1], uTM=0.125 if pre[0] else 0., thetaTdeg=1.5 if pre[1] else 0., betadeg=0.25, nx=7, nt=29,
                     lam=dict(E11=71.5e3, nu=0.25, h=0.5) if iso else dict(stack=list(LAMS["unsym"]), plyt=0.125, laminaprop=list(LAMINA)))
        d.update(imperfection(rng, d))
        rc = mk_recipe(rng, d)
        rc["inc"] = 0.5
        if rc.get("aspect") in ("r2", "lam"):       # (the listed history dependence of cached linear matrices is not the subject here)
            rc["aspect"], rc["aspect_value"] = "nt", d["nt"] + 5
        rcs.append(rc)
        rcs.append(mk_recipe(rng, dict(d, c0=None, m0=0, n0=0, pdC=False, uTM=0., thetaTdeg=0., betadeg=0.), "origin"))
    results = []
    for name, meth, repl in [("none (control)", None, [])] + MUTANTS:
        rep = Report(PROP, "selftest", 0)
        ctx = sl.mutated(ConeCyl, meth, repl) if meth else sl.contextlib.nullcontext()
        with ctx:
            studies = build_all(rcs, plans, nlplans, rep, 5)
        verdicts, _ = judge(rep, PROP, studies, "c17-self", "quick", describe)
        fails = [v for v in verdicts.values() if v[0] == "fail"]
        laws = sorted({f[0] for v in fails for f in (v[1] if isinstance(v[1], list) else [])})
        crashed = [w for w, _ in rep.violations if "raised" in w]
        if name.startswith("none"):
            results.append((name, not fails and not crashed and not rep.machinery_errors, ["control run must be clean"] if fails else [], len(fails)))
        else:
            results.append((name, bool(fails or crashed), laws + (["raised"] if crashed else []), len(fails)))
    return sl.selftest_report(PROP, results)


if __name__ == "__main__":
    import sys
    if "--selftest" in sys.argv:
        sys.exit(selftest())
    print(__doc__)
