--------------------------- MODULE Trace_FieldChunks ---------------------------
(***************************************************************************)
(* Trace validation of the thread-count clause of C20.                     *)
(* kind "field": a field recovery call (uvw / strain / stress) on S points *)
(*   with P cores; eqSerial = bit-identical to the one-core result,        *)
(*   eqPointwise = every output slot i is bit-identical to the evaluation  *)
(*   of point i alone.  FieldChunks says Result(S,P) = Result(S,1) and     *)
(*   slot i carries Kernel(i), so both flags must be TRUE.                 *)
(* kind "integ": a numerically integrated vector (internal force, tangent  *)
(*   row sums / diagonal) with P integration threads, obs vs. the          *)
(*   one-thread values ref; the partition of IntegratePartition only       *)
(*   re-associates the sum, so obs must be Close to ref at 2^-Tol of the   *)
(*   largest reference magnitude (summation order legitimately differs).   *)
(***************************************************************************)
EXTENDS FieldChunks, TraceLib
CONSTANT Tol
VARIABLE l
tvars == <<S, P, out, phase, l>>

RECURSIVE MaxAbs(_, _)
MaxAbs(s, k) == IF k > Len(s) THEN RZero ELSE RMax(RAbs(Obs(s[k])), MaxAbs(s, k + 1))

FieldVerdict(e) ==
    LET res == Result(e.S, e.P)
        specSerial == res = Result(e.S, 1)
        specSlots == \A i \in 0..(e.S - 1) : res[i] = Kernel(i)
        bad == (IF specSerial /\ ~e.eqSerial THEN {"differs from one core"} ELSE {})
               \cup (IF specSlots /\ e.checkedPointwise /\ ~e.eqPointwise THEN {"slot i does not carry point i"} ELSE {})
               \cup (IF ~specSerial \/ ~specSlots THEN {"specification broken"} ELSE {})
    IN Verdict(e.id, IF bad = {} THEN "ok" ELSE "fail", bad)

IntegVerdict(e) ==
    LET scale == MaxAbs(e.ref, 1)
        bad == {i \in 1..Len(e.obs) : ~RClose(Obs(e.obs[i]), Obs(e.ref[i]), scale, Tol)}
    IN Verdict(e.id, IF Len(e.obs) = Len(e.ref) /\ bad = {} THEN "ok" ELSE "fail", bad)

TInit == S = 1 /\ P = 1 /\ out = <<>> /\ phase = "defined" /\ l = 1
TStep == /\ l <= Len(Trace)
         /\ l' = l + 1
         /\ LET e == Trace[l]
            IN IF e.kind = "field"
               THEN /\ S' = e.S /\ P' = e.P /\ out' = Result(e.S, e.P) /\ phase' = "done"
                    /\ FieldVerdict(e)
               ELSE /\ UNCHANGED <<S, P, out, phase>>
                    /\ IntegVerdict(e)
TSpec == TInit /\ [][TStep]_tvars
Done == TLCGet("stats").diameter - 1 = Len(Trace)
=============================================================================
