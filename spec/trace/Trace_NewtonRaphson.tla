------------------------ MODULE Trace_NewtonRaphson ------------------------
(***************************************************************************)
(* Trace validation for C09.  trace.json is an array of RUNS of the real   *)
(* driver (Analysis.static(NLgeom=True)) under the settings given by the   *)
(* constants of this configuration; every run is one behaviour of this     *)
(* specification (initial states = runs) and gets exactly one verdict.     *)
(*                                                                         *)
(* A run record:                                                           *)
(*   id, mode ("concrete" | "opaque"),                                     *)
(*   calls  : the calls the driver made into the user callables, in order: *)
(*            [fn, inc, c, ret, rmax, lin]                                 *)
(*   ret    : [error, increments, cs, equil, leftover, untouched]           *)
(*            what static()                                                *)
(*            returned (read after the harness scribbled on every array a  *)
(*            callable was handed or returned) and, per reported pair, the *)
(*            re-evaluated max|fext(lambda) - fint(c)| of the USER's       *)
(*            callables,                                                   *)
(*   expect : [on, increments, acts] the TLC-generated behaviour that was  *)
(*            replayed (direction A), on = 0 for free runs (direction B).  *)
(* Doubles arrive as exact dyadics <<s, limbs, e>>; s = 2 encodes NaN.     *)
(*                                                                         *)
(* concrete mode: vectors are the real vectors (stub problems, Dim 1..3);  *)
(*   every vector the driver forms (solve, c + eta*delta, R, the slopes)   *)
(*   is recomputed here in modelled binary64 from the values the callables *)
(*   returned, so call arguments, increments and states must match with =. *)
(* opaque mode: real structural models; a state vector is the integer id   *)
(*   of its content (equal content <=> equal id), the residual maximum of  *)
(*   each calc_fint call is logged, vectors the driver computes itself are *)
(*   unlogged and inferred from the next call that shows them (lookahead). *)
(*   Line search is not supported in this mode.                            *)
(*                                                                         *)
(* The step relation re-uses the actions of NewtonRaphson.  The run is     *)
(* deterministic given the events, so "no action matches the next event"   *)
(* is ~ENABLED Proper and yields the verdict "fail" with the place.        *)
(* Verdict "ok" is only printed when both KF_ constants are FALSE (the     *)
(* literal property); with a deviation switched on the verdict reads       *)
(* "kf:<names>".                                                           *)
(***************************************************************************)
EXTENDS NewtonRaphson, TraceLib
CONSTANTS InitIncN, InitIncD, MinIncN, MinIncD, MaxIncN, MaxIncD, AbsTolN, AbsTolD, SlowN, SlowD
VARIABLES l, p, acts, viol, st
tvars == <<vars, l, p, acts, viol, st>>

T_initialInc == Fl(RFrac(InitIncN, InitIncD))
T_minInc     == Fl(RFrac(MinIncN, MinIncD))
T_maxInc     == Fl(RFrac(MaxIncN, MaxIncD))
T_absTOL     == Fl(RFrac(AbsTolN, AbsTolD))
T_tooSlow    == Fl(RFrac(SlowN, SlowD))

Run  == Trace[l]
NEv  == Len(Run.calls)
E(i) == Run.calls[i]
Has(i) == i <= NEv
Opaque == Run.mode = "opaque"

DecR(d) == IF d[1] = 2 THEN NaN ELSE Obs(d)
DecV(v) == Fn([i \in 1..Len(v) |-> DecR(v[i])])
IsFn(i, f) == Has(i) /\ E(i).fn = f

(* opaque mode: the state vector the next call will show *)
RECURSIVE NextC(_)
NextC(i) == IF ~Has(i) THEN <<RFromInt(-1)>>
            ELSE IF E(i).fn \in {"kT", "fint"} THEN DecV(E(i).c) ELSE NextC(i + 1)

-----------------------------------------------------------------------------
(* driver actions fed with the recorded answers *)

TInitSolve ==
    /\ IsFn(p, "fext") /\ IsFn(p + 1, "k0")
    /\ IF Opaque THEN InitSolve(<<>>, ROne, DecV(E(p).lin))
       ELSE LET f == DecV(E(p).ret)
                k == DecR(E(p + 1).ret)
            IN InitSolve(f, k, Solve(k, f))
TBeginStep == IsFn(p, "fext") /\ BeginStep(IF Opaque THEN <<>> ELSE DecV(E(p).ret))
TRefreshKT == IsFn(p, "kT") /\ RefreshKT(IF Opaque THEN ROne ELSE DecR(E(p).ret))
TEvalResidual ==
    /\ IsFn(p, "fint")
    /\ IF Opaque THEN EvalResidual(<<>>, DecR(E(p).rmax))
       ELSE LET Rv == XSub(fext, DecV(E(p).ret)) IN EvalResidual(Rv, MaxAbs(Rv))
TSolveDelta == SolveDelta(IF Opaque THEN <<>> ELSE Solve(kT, R))
TLS(A(_,_,_,_)) ==
    /\ ~Opaque /\ IsFn(p, "fint") /\ IsFn(p + 1, "fint")
    /\ LET c1 == XAxpy(c, eta1, delta)
           c2 == XAxpy(c, eta2, delta)
           s1 == XDot(delta, XSub(fext, DecV(E(p).ret)))
           s2 == XDot(delta, XSub(fext, DecV(E(p + 1).ret)))
       IN A(c1, c2, s1, s2)
TUpdateC == UpdateC(IF Opaque THEN NextC(p) ELSE VAxpy(c, eta2, delta))
TPostStepKT == IsFn(p, "kT") /\ PostStepKT(IF Opaque THEN ROne ELSE DecR(E(p).ret))
TRestartFromLinear ==
    /\ IsFn(p, "fext")
    /\ IF Opaque THEN RestartFromLinear(<<>>, DecV(E(p).lin))
       ELSE LET f == DecV(E(p).ret) IN RestartFromLinear(f, Solve(k0, f))

(* the calls the action made are the next recorded calls, argument by argument *)
CallsMatch ==
    /\ p + Len(calls') - 1 <= NEv
    /\ \A j \in 1..Len(calls') :
         LET e == E(p + j - 1)
             k == calls'[j]
         IN /\ e.fn = k.fn
            /\ DecR(e.inc) = k.inc
            /\ DecV(e.c) = k.c

(* literal clauses that are about a single step *)
StepViol ==
    IF Len(increments') > Len(increments)
    THEN (IF ReportStepOK THEN <<>> ELSE <<"ReportedEquilibrated">>)
         \o (IF IncreasingAt(increments') THEN <<>> ELSE <<"IncrementsIncreasing">>)
    ELSE <<>>

Named(n, A) ==
    /\ st = "run"
    /\ A
    /\ CallsMatch
    /\ p' = p + Len(calls')
    /\ acts' = Append(acts, n)
    /\ viol' = viol \o StepViol
    /\ UNCHANGED <<l, st>>

Proper ==
    \/ Named("InitSolve", TInitSolve) \/ Named("BeginStep", TBeginStep)
    \/ Named("MaxIter", MaxIter) \/ Named("RefreshKT", TRefreshKT) \/ Named("SkipKT", SkipKT)
    \/ Named("EvalResidual", TEvalResidual)
    \/ Named("Converged", Converged) \/ Named("Diverged", Diverged)
    \/ Named("TooSlow", TooSlow) \/ Named("Continue", Continue)
    \/ Named("SolveDelta", TSolveDelta)
    \/ Named("LineSearchDone", TLS(LineSearchDone))
    \/ Named("LineSearchGiveUp", TLS(LineSearchGiveUp))
    \/ Named("LineSearchIter", TLS(LineSearchIter))
    \/ Named("UpdateC", TUpdateC) \/ Named("Report", Report)
    \/ Named("Finish", Finish) \/ Named("Grow", Grow)
    \/ Named("PostStepKT", TPostStepKT) \/ Named("PostStepNoKT", PostStepNoKT)
    \/ Named("StopMinInc", StopMinInc) \/ Named("Bisect", Bisect) \/ Named("BisectAgain", BisectAgain)
    \/ Named("RestartFromLast", RestartFromLast) \/ Named("RestartFromLinear", TRestartFromLinear)

-----------------------------------------------------------------------------
(* the return of static() *)

AtReturn == pc = "done" /\ p = NEv + 1
SeqEqR(obs, xs) == Len(obs) = Len(xs) /\ \A i \in 1..Len(xs) : DecR(obs[i]) = xs[i]
SeqEqV(obs, xs) == Len(obs) = Len(xs) /\ \A i \in 1..Len(xs) : DecV(obs[i]) = xs[i]
ObsIncs == Fn([i \in 1..Len(Run.ret.increments) |-> DecR(Run.ret.increments[i])])

(* a replayed behaviour was generated by the bounded model with both deviations on (the code as it  *)
(* is); its outcome and action sequence are compared only under that same configuration - under    *)
(* the literal specification the run is judged on its own (a repaired driver follows other paths). *)
SameModel == Run.expect.on = 1 /\ KF_C09_StopsShortOfFullLoad /\ KF_C09_InitialIncAboveOne
Clauses ==  \* <<name, holds>>; judged on what was RETURNED (and the inferred inc for the stop clause)
    << <<"Return.noError", Run.ret.error = "">>,
       <<"Return.increments", SeqEqR(Run.ret.increments, increments)>>,
       <<"Return.cs(Snapshots)", SeqEqV(Run.ret.cs, cs)>>,
       <<"Callables.returnValuesUntouched", Run.ret.untouched = 1>>,
       <<"Replay.scriptConsumed", ~SameModel \/ Run.ret.leftover = 0>>,
       <<"ReportedEquilibrated.reevaluated",
            /\ Len(Run.ret.equil) = Len(Run.ret.increments)
            /\ \A i \in 1..Len(Run.ret.equil) :
                 /\ Run.ret.equil[i][1] # 2
                 /\ RLt(DecR(Run.ret.equil[i]), absTOL)>>,
       <<"IncrementsIncreasing", IncreasingAll>>,
       <<"Termination.lastIsOneOrBelowMinInc", DoneOK>>,
       <<"Replay.increments", ~SameModel \/ SeqEqR(Run.expect.increments, increments)>>,
       <<"Replay.actions", ~SameModel \/ Run.expect.acts = acts>> >>
Failed == {Clauses[j][1] : j \in {k \in 1..Len(Clauses) : ~Clauses[k][2]}}
KFName == IF KF_C09_StopsShortOfFullLoad /\ KF_C09_InitialIncAboveOne
          THEN "kf:KF_C09_StopsShortOfFullLoad+KF_C09_InitialIncAboveOne"
          ELSE IF KF_C09_StopsShortOfFullLoad THEN "kf:KF_C09_StopsShortOfFullLoad"
          ELSE IF KF_C09_InitialIncAboveOne THEN "kf:KF_C09_InitialIncAboveOne"
          ELSE "ok"

Judge ==
    /\ st = "run" /\ AtReturn
    /\ st' = "judged"
    /\ IF Failed = {} /\ viol = <<>>
       THEN Verdict(Run.id, KFName, <<"actions", Len(acts), "reports", Len(increments)>>)
       ELSE Verdict(Run.id, "fail", <<"clause", Failed, viol>>)
    /\ UNCHANGED <<vars, l, p, acts, viol>>

Stuck ==
    /\ st = "run" /\ ~AtReturn /\ ~ENABLED Proper
    /\ st' = "judged"
    /\ Verdict(Run.id, "fail",
               <<"stuck", [event |-> p, of |-> NEv, pc |-> pc, step |-> stepNum, iter |-> iter,
                           next |-> IF Has(p) THEN E(p).fn ELSE "return",
                           lastActions |-> SubSeq(acts, IF Len(acts) > 6 THEN Len(acts) - 5 ELSE 1, Len(acts))]>>)
    /\ UNCHANGED <<vars, l, p, acts, viol>>

TInit == /\ Init
         /\ l \in 1..Len(Trace) /\ p = 1 /\ acts = <<>> /\ viol = <<>> /\ st = "run"
         /\ (Opaque /\ lineSearch => Assert(FALSE, "opaque runs with line search are not supported"))
TNext == Proper \/ Judge \/ Stuck
TSpec == TInit /\ [][TNext]_tvars
(* the same without the (twice as expensive) ~ENABLED test: a run that is not accepted simply gets *)
(* no verdict; the harness re-validates exactly those runs under TSpec to obtain the "fail" verdict  *)
(* with its place.                                                                                   *)
TSpecFast == TInit /\ [][Proper \/ Judge]_tvars
Done == TLCGet("stats").distinct >= Len(Trace)
=============================================================================
