--------------------------- MODULE Trace_Quadrature ---------------------------
(* Trace validation for C10 (quadrature tables and point sets).             *)
(*  gauss : the observed n-point table must satisfy the exactness statement *)
(*          (all moments up to 2n-1) -- evaluated exactly on the doubles.   *)
(*  trapz / simps : the observed <<x, y, weight>> list must be the point set*)
(*          the specification generates (as a multiset, matched in sorted   *)
(*          order) and must itself integrate low-degree monomials exactly.  *)
EXTENDS Quadrature, TraceLib
CONSTANT Tol
VARIABLE l
tvars == <<ask, pts, l>>

ObsSeq(s) == Fn([k \in 1..Len(s) |-> Obs(s[k])])
Grid(e) == [xmin |-> InRat(e.xmin), xmax |-> InRat(e.xmax), nx |-> e.nx,
            ymin |-> InRat(e.ymin), ymax |-> InRat(e.ymax), ny |-> e.ny]

(* observed points arrive sorted by (x, y) as the harness sorted the doubles;
   the spec's points are sorted the same way by SortPts *)
LessPt(p, q) == RLt(p[1], q[1]) \/ (p[1] = q[1] /\ RLt(p[2], q[2]))
SortPts(S) == SortSeq(SetToSeq(S), LessPt)

AbsMono(g, a, b) ==   \* scale of a monomial sum on the rectangle
    RMul(MonoInt([g EXCEPT !.xmin = RZero, !.xmax = RMax(RAbs(g.xmin), RAbs(g.xmax)),
                           !.ymin = RZero, !.ymax = RMax(RAbs(g.ymin), RAbs(g.ymax))], 0, 0),
         RMul(RPow(RMax(RAbs(g.xmin), RAbs(g.xmax)), a), RPow(RMax(RAbs(g.ymin), RAbs(g.ymax)), b)))

JudgePts(e, exp) ==
    LET g == Grid(e)
        E == SortPts(exp)
        n == Len(e.pts)
        sx == RMax(RAbs(g.xmin), RAbs(g.xmax))
        sy == RMax(RAbs(g.ymin), RAbs(g.ymax))
        area == RMul(RSub(g.xmax, g.xmin), RSub(g.ymax, g.ymin))
        badpts == IF n # Len(E) THEN {0}
                  ELSE { k \in 1..n : ~( /\ Close(e.pts[k][1], E[k][1], sx, Tol)
                                        /\ Close(e.pts[k][2], E[k][2], sy, Tol)
                                        /\ Close(e.pts[k][3], E[k][3], E[k][3], Tol) ) }
        ox == Fn([k \in 1..n |-> Obs(e.pts[k][1])])
        oy == Fn([k \in 1..n |-> Obs(e.pts[k][2])])
        ow == Fn([k \in 1..n |-> Obs(e.pts[k][3])])
        mom(a, b) == RDot(ow, Fn([k \in 1..n |-> RMul(RPow(ox[k], a), RPow(oy[k], b))]))
        deg == ExactDegree(e.kind)
        badmom == { ab \in (0..deg) \X (0..deg) :
                      ~RClose(mom(ab[1], ab[2]), MonoInt(g, ab[1], ab[2]), AbsMono(g, ab[1], ab[2]), Tol) }
    IN <<badpts, badmom>>

TInit == QInit /\ l = 1
TGauss(e) == /\ UNCHANGED <<ask, pts>>
             /\ LET xs == ObsSeq(e.xs)
                    ws == ObsSeq(e.ws)
                    bad == IF GaussShapeOk(xs, ws, e.n) THEN GaussFailures(xs, ws, e.n, Tol) ELSE {-1}
                IN Verdict(e.id, IF bad = {} THEN "ok" ELSE "fail", bad)
TPoints(e) == /\ QAsk(e.kind, Grid(e))
              /\ LET bad == JudgePts(e, pts')
                 IN Verdict(e.id, IF bad = <<{}, {}>> THEN "ok" ELSE "fail", bad)
TStep == /\ l <= Len(Trace)
         /\ l' = l + 1
         /\ LET e == Trace[l]
            IN IF e.kind = "gauss" THEN TGauss(e) ELSE TPoints(e)
TSpec == TInit /\ [][TStep]_tvars
Done == TLCGet("stats").diameter - 1 = Len(Trace)
=============================================================================
