----------------------------- MODULE Trace_Interp -----------------------------
(* events: [id, x, xp, fp, period (0 = refused, "none" branch has kind "plain"), kind, left, right,  *)
(*          obs: the answer as a dyadic double, exc: name of the exception or ""]                                       *)
EXTENDS Interp, TraceLib
VARIABLE l
tvars == <<ivars, l>>
S(v) == [i \in 1..Len(v) |-> v[i]]
TInit == IInit /\ l = 1
Scale(e) == RFromInt(1 + MaxF([i \in 1..Len(e.fp) |-> Abs(e.fp[i])]))
Expected(e) == IF e.kind = "plain" THEN {Plain(e.x, S(e.xp), S(e.fp), S(e.left), S(e.right))}
               ELSE IF e.period = 0 THEN {"ValueError"}
               ELSE Periodic(e.x, S(e.xp), S(e.fp), e.period)
Same(e, E) == IF e.kind = "periodic" /\ e.period = 0 THEN e.exc = "ValueError"
              ELSE e.exc = "" /\ \E y \in E : Close(e.obs, y, Scale(e), 44)
TStep == /\ l <= Len(Trace) /\ l' = l + 1
         /\ LET e == Trace[l]
                E == Expected(e)
            IN /\ req' = [x |-> e.x, xp |-> S(e.xp), fp |-> S(e.fp), period |-> e.period]
               /\ ans' = E /\ phase' = "asked"
               /\ Verdict(e.id, IF Same(e, E) THEN "ok" ELSE "fail", e.kind)
TSpec == TInit /\ [][TStep]_tvars
Done == TLCGet("stats").diameter - 1 = Len(Trace)
=============================================================================
