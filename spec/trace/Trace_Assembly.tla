----------------------------- MODULE Trace_Assembly -----------------------------
(* Trace validation for C13.  Events (each judged, one verdict per event):          *)
(*   asm    ad, req, obs | raised    a PanelAssembly was built from ad and asked for *)
(*                                   req; obs = dense matrix / vector / size         *)
(*   bay    bd, req, obs | raised    a StiffPanelBay was built from bd and asked for  *)
(*                                   size, k0, kG0, kM (stiffener-less: exact, against *)
(*                                   the tiles' sum = the uncut skin), fext, b1dmass    *)
(*                                   (flange mass of a 1-D stiffener) or stiff: the     *)
(*                                   stand-alone k0 / kG0 / kM of 2-D stiffener req.k    *)
(*                                   against the matrix DERIVED in Assembly.tla          *)
(*   place  bd, q, size, comps, obs  stiffened bay: comps = the code's stand-alone     *)
(*                                   component matrices (tiles, then stiffeners in     *)
(*                                   order of insertion), obs = the assembled matrix;  *)
(*                                   the specification's placement map decides where   *)
(*                                   each component must land                          *)
(*   parts  bd, q, k, comps, obs     the code's matrix of stiffener k with padup and flange (obs) *)
(*                                   against its padup-only and flange-only twins (comps)      *)
(*   psd    lmin, norm, sym          observation: smallest eigenvalue of a stiffener's *)
(*                                   stand-alone k0 / kM, its norm, exact symmetry     *)
(* Verdict "ok", "kf:<deviation>" (explained by exactly that listed deviation) or      *)
(* "fail".                                                                             *)
EXTENDS Assembly, TraceLib, FiniteSets
CONSTANTS Tol, TolNL, TolPlace, TolPsd, OpenKF
VARIABLE l
tvars == <<avars, l>>

RatSeq(s) == Fn([k \in 1..Len(s) |-> InRat(s[k])])
DecPly(p) == [dir |-> <<p.dir[1], p.dir[2]>>, t |-> InRat(p.t), mat |-> RatSeq(p.mat)]
DecPd(j) ==
    [model |-> j.model, a |-> InRat(j.a), b |-> InRat(j.b), r |-> InRat(j.r), sina |-> InRat(j.sina),
     cosa |-> InRat(j.cosa), m |-> j.m, n |-> j.n,
     fl |-> Fn([dof \in 1..3 |-> <<RatSeq(j.fl[dof][1]), RatSeq(j.fl[dof][2])>>]),
     stack |-> Fn([k \in 1..Len(j.stack) |-> DecPly(j.stack[k])]), off |-> InRat(j.off),
     y1 |-> InRat(j.y1), y2 |-> InRat(j.y2), mu |-> InRat(j.mu), Ncte |-> RatSeq(j.Ncte),
     ortho |-> IF "ortho" \in DOMAIN j THEN j.ortho ELSE FALSE]
DecAd(j) == [kind |-> "asm", pds |-> Fn([k \in 1..Len(j.pds) |-> DecPd(j.pds[k])]),
             conns |-> Fn([k \in 1..Len(j.conns) |->
                 [kind |-> j.conns[k].kind, p1 |-> j.conns[k].p1, p2 |-> j.conns[k].p2,
                  pos1 |-> InRat(j.conns[k].pos1), pos2 |-> InRat(j.conns[k].pos2)]])]
DecLam(x) == [stack |-> Fn([k \in 1..Len(x.stack) |-> DecPly(x.stack[k])])]
DecSd(s) == LET core == [kind |-> s.kind, ys |-> InRat(s.ys), base |-> s.base, flange |-> s.flange, bb |-> InRat(s.bb), bf |-> InRat(s.bf),
                         mb |-> s.mb, nb |-> s.nb, mf |-> s.mf, nf |-> s.nf, flam |-> DecLam(s.flam), blam |-> DecLam(s.blam)]
            IN IF "mu" \in DOMAIN s THEN core @@ [mu |-> InRat(s.mu)] ELSE core
DecBd(j) == [kind |-> "bay", skin |-> DecPd(j.skin), cuts |-> RatSeq(j.cuts),
             stiffs |-> Fn([k \in 1..Len(j.stiffs) |-> DecSd(j.stiffs[k])])]
DecDef(j) == IF j.kind = "asm" THEN DecAd(j) ELSE DecBd(j)
Forces(s) == Fn([k \in 1..Len(s) |-> RatSeq(s[k])])
DecReq(d, j) ==
    CASE j.q \in {"size", "k0", "kM", "place"} -> [q |-> j.q]
      [] j.q = "kG0" -> [q |-> "kG0", N |-> IF d.kind = "asm" THEN Fn([k \in 1..Len(j.N) |-> RatSeq(j.N[k])]) ELSE RatSeq(j.N)]
      [] j.q \in {"fint", "kT", "kGc"} -> [q |-> j.q, c |-> RatSeq(j.c)]
      [] j.q = "b1dmass" -> [q |-> "b1dmass", k |-> j.k]
      [] j.q = "stiff" -> [q |-> "stiff", k |-> j.k, mat |-> j.mat, Nf |-> RatSeq(j.Nf), Nb |-> RatSeq(j.Nb)]
      [] j.q = "fint_part" -> [q |-> "fint_part", k |-> j.k, c |-> RatSeq(j.c)]
      [] j.q = "fext" ->
           IF d.kind = "asm"
           THEN [q |-> "fext", forces |-> Fn([k \in 1..Len(j.forces) |-> Forces(j.forces[k])]),
                 forcesInc |-> Fn([k \in 1..Len(j.forcesInc) |-> Forces(j.forcesInc[k])]), inc |-> InRat(j.inc)]
           ELSE [q |-> "fext", skin |-> Forces(j.skin), forces |-> Fn([k \in 1..Len(j.forces) |->
                     [base |-> Forces(j.forces[k].base), flange |-> Forces(j.forces[k].flange)]])]

IsVecQ(q) == q \in {"fext", "fint", "fint_part"}
Shape(q, M) == IF IsVecQ(q) THEN Fn([k \in 1..Len(M) |-> <<M[k]>>]) ELSE M
TolOf(q) == IF q \in {"fint", "kT", "kGc", "fint_part"} THEN TolNL ELSE Tol
(* E: rows of <<value, scale>>; obs: rows of doubles *)
BadEntries(obs, E, t) ==
    IF Len(obs) # Len(E) THEN {<<0, 0>>}
    ELSE IF Len(E) = 0 THEN {}
    ELSE IF \E r \in 1..Len(E) : Len(obs[r]) # Len(E[r]) THEN {<<0, 1>>}
    ELSE { rc \in (1..Len(E)) \X (1..Len(E[1])) : ~Close(obs[rc[1]][rc[2]], E[rc[1]][rc[2]][1], E[rc[1]][rc[2]][2], t) }
Short(bad) == IF Cardinality(bad) > 12 THEN <<Cardinality(bad), CHOOSE x \in bad : TRUE>> ELSE bad
Raised(e) == IF "raised" \in DOMAIN e THEN e.raised ELSE ""

(* what the specification expects for a request: exact global quantity; for a stiffener-less bay the
   tiles' sum, which must coincide with the uncut skin's (partition independence, re-checked here) *)
Expected(d, r, dev) == AQuantity(d, r, dev)
SpecConsistent(d, r) == (d.kind = "bay" /\ r.q \in {"k0", "kG0", "kM"}) => Vals(SkinSum(d, r, {})) = Vals(SkinUncut(d, r, {}))
ValueDeviations == { k \in OpenKF : k \in {"KF_C04_OffsetCouplingSign", "KF_C13_Blade1DMassCouplingDoubled", "KF_C13_TStiffBaseStripInBayCoordinates",
                                            "KF_C13_Blade1DTwistTermsNotLaminate"} }
RECURSIVE FirstValueKF(_,_,_,_)
FirstValueKF(kfs, obs, d, r) ==
    IF kfs = {} THEN "none"
    ELSE LET k == CHOOSE x \in kfs : TRUE
         IN IF BadEntries(obs, Shape(r.q, Expected(d, r, {k})), TolOf(r.q)) = {} THEN k ELSE FirstValueKF(kfs \ {k}, obs, d, r)

TInit == AInit /\ l = 1
TEval(e) ==
    LET d == DecDef(e.d)
        r == DecReq(d, e.req)
    IN /\ adef' = d /\ areq' = r /\ aout' = <<>>
       /\ IF Raised(e) # ""
          THEN LET ks == { k \in OpenKF : AOutcome(d, r, {k}) = Raised(e) }
               IN IF ks # {} THEN Verdict(e.id, "kf:" \o (CHOOSE k \in ks : TRUE), Raised(e))
                  ELSE Verdict(e.id, "fail", <<"raised", Raised(e)>>)
          ELSE IF r.q = "size"
          THEN Verdict(e.id, IF e.obs = Expected(d, r, {}) THEN "ok" ELSE "fail", <<e.obs, Expected(d, r, {})>>)
          ELSE IF ~SpecConsistent(d, r) THEN Verdict(e.id, "fail", "specification: tiles do not add up")
          ELSE LET bad == BadEntries(e.obs, Shape(r.q, Expected(d, r, {})), TolOf(r.q))
               IN IF bad = {} THEN Verdict(e.id, "ok", {})
                  ELSE LET k == FirstValueKF(ValueDeviations, e.obs, d, r)
                           (* an observed direction along which the deviation's own matrix has a negative quadratic form *)
                           neg == IF k # "none" /\ "wit" \in DOMAIN e
                                  THEN RSign(Quad(Vals(Expected(d, r, {k})), Fn([i \in 1..Len(e.wit) |-> Obs(e.wit[i])]))) < 0
                                  ELSE FALSE
                       IN IF k # "none" THEN Verdict(e.id, "kf:" \o k, <<Cardinality(bad), neg>>)
                          ELSE Verdict(e.id, "fail", Short(bad))

(* placement of the code's own stand-alone component matrices by the specification's placement map:
   <<SUM_k placed component_k, SUM_k |placed component_k|>> per global entry, in exact arithmetic on the observed doubles *)
DecMat(M) == Fn([i \in 1..Len(M) |-> Fn([j \in 1..Len(M[i]) |-> Obs(M[i][j])])])
PlacedObserved(pl, size, comps) ==
    LET K == Len(pl)
        loc == Fn([k \in 1..K |-> LocTable(pl[k].segs, size)])
        cr == Fn([k \in 1..K |-> DecMat(comps[k])])
    IN Fn([r \in 1..size |-> Fn([c \in 1..size |->
          LET t == Fn([k \in 1..K |-> IF loc[k][r] = 0 \/ loc[k][c] = 0 THEN RZero ELSE cr[k][loc[k][r]][loc[k][c]]])
          IN <<RSum(t), RAbsSum(t)>>])])
SymmetricObserved(M) == \A i \in 1..Len(M) : \A j \in (i+1)..Len(M) : M[i][j] = M[j][i]
TPlace(e) ==
    LET bd == DecBd(e.d)
        pl == BayPlacement(bd)
        size == BaySize(bd)
        K == Len(pl)
    IN /\ adef' = bd /\ areq' = [q |-> "place"]
       /\ IF Raised(e) # ""
          THEN /\ aout' = pl
               /\ LET ks == { k \in OpenKF : AOutcome(bd, [q |-> e.q], {k}) = Raised(e) }
                  IN IF ks # {} THEN Verdict(e.id, "kf:" \o (CHOOSE k \in ks : TRUE), Raised(e))
                     ELSE Verdict(e.id, "fail", <<"raised", Raised(e)>>)
          ELSE IF ~(/\ e.size = size /\ Len(e.obs) = size /\ Len(e.comps) = K
                    /\ \A k \in 1..K : Len(e.comps[k]) = pl[k].size)
          THEN aout' = pl /\ Verdict(e.id, "fail", <<"size", e.size, size>>)
          ELSE /\ aout' = PlacedObserved(pl, size, e.comps)
               /\ LET asym == { k \in (NTiles(bd) + 1)..K : ~SymmetricObserved(e.comps[k]) }
                      bad == BadEntries(e.obs, aout', TolPlace)
                  IN IF asym # {} THEN Verdict(e.id, "fail", <<"asymmetric stiffener contribution", asym>>)
                     ELSE Verdict(e.id, IF bad = {} THEN "ok" ELSE "fail", Short(bad))

(* optional parts: the code's matrix of a stiffener with padup and flange = padup-only twin + flange-only twin *)
TParts(e) ==
    LET n == e.size
        whole == [size |-> n, segs |-> << Seg(0, 0, n) >>]
    IN /\ adef' = DecBd(e.d) /\ areq' = [q |-> "parts"]
       /\ IF ~(Len(e.obs) = n /\ \A k \in 1..Len(e.comps) : Len(e.comps[k]) = n)
          THEN aout' = <<>> /\ Verdict(e.id, "fail", <<"size", n>>)
          ELSE /\ aout' = PlacedObserved(Fn([k \in 1..Len(e.comps) |-> whole]), n, e.comps)
               /\ LET bad == BadEntries(e.obs, aout', TolPlace)
                  IN Verdict(e.id, IF bad = {} THEN "ok" ELSE "fail", Short(bad))

(* observation: a stiffener's stiffness / mass contribution is symmetric positive semi-definite *)
TPsd(e) ==
    /\ UNCHANGED avars
    /\ LET ok == e.sym /\ RLe(RNeg(RMul(RTwoPow(-TolPsd), Obs(e.norm))), Obs(e.lmin))
           sig == e.sym /\ e.kind = "b1d" /\ e.q = "kM" /\ "KF_C13_Blade1DMassCouplingDoubled" \in OpenKF
           sigK == e.sym /\ e.kind = "b1d" /\ e.q = "k0" /\ "KF_C13_Blade1DTwistTermsNotLaminate" \in OpenKF
       IN Verdict(e.id, IF ok THEN "ok" ELSE IF sig THEN "kf:KF_C13_Blade1DMassCouplingDoubled"
                        ELSE IF sigK THEN "kf:KF_C13_Blade1DTwistTermsNotLaminate" ELSE "fail", <<e.sym, e.lmin, e.norm>>)

TStep == /\ l <= Len(Trace)
         /\ l' = l + 1
         /\ LET e == Trace[l] IN CASE e.ev = "place" -> TPlace(e) [] e.ev = "parts" -> TParts(e) [] e.ev = "psd" -> TPsd(e) [] OTHER -> TEval(e)
TSpec == TInit /\ [][TStep]_tvars
Done == TLCGet("stats").diameter - 1 = Len(Trace)
=============================================================================
