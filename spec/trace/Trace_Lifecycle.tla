--------------------------- MODULE Trace_Lifecycle ---------------------------
(***************************************************************************)
(* Trace validation for C20.  One trace event = one replayed call path on  *)
(* a real object of kind e.kind:                                           *)
(*   [id, kind, mode, steps : Seq([m, rep, out, etype, emsg, eqRef,        *)
(*         eqPrev, argsSame, rbw, writes, eig]), refs : [method -> lists]] *)
(* out = "ok" | "exc"; eqRef: result bit-identical to the same call on a   *)
(* freshly defined object; rep/eqPrev: this step repeats the previous call *)
(* and returned the bit-identical result; argsSame: the caller arrays hash *)
(* the same before and after; rbw/writes: attributes read before being     *)
(* written / written, as logged by the run-time recorder; eig/refeig:      *)
(* eigenvalues (exact dyadics) of results that pass through ARPACK and of  *)
(* the reference runs (event field refs) - compared here, see EigClose.    *)
(*                                                                         *)
(* Each call is stepped with Lifecycle!Call; the judgement of a step:      *)
(*   caller array modified                     -> fail                     *)
(*   twinSame = FALSE: the same call sequence, run after the same sequence *)
(*        on a twin object (other material) in the same process, gave      *)
(*        another outcome / result / derived values   -> fail             *)
(*   an attribute that is Def after the step holds another value than the  *)
(*        one the definition determines (vals)  -> fail                    *)
(*   correct result (ok, = reference, = its repetition) -> ok  (always)    *)
(*   spec outcome "fails"(m,a): the exception listed for (class,m,a) by a  *)
(*        deviation that is switched on        -> kf, anything else fail   *)
(*   spec outcome "wrong": a result different from the reference, all      *)
(*        stale reads / cache re-uses explained by deviations -> kf        *)
(*   spec outcome "ok" and the result is not correct -> fail               *)
(* A call that succeeds although the script has an always-broken step or   *)
(* assertion there (pseudo attribute) is judged and stepped with the       *)
(* script continued past that step (Lifecycle!ExecRepaired).               *)
(* mode "concrete" (fall-back after model drift: exhaustive call sequences *)
(* of length <= 3): the correct result is ok whatever the specification    *)
(* predicted; an exception is kf iff it is listed for (class, m) in any    *)
(* state; a different result is kf only if the specification predicts      *)
(* "wrong" there and deviations explain it - any other inequality fails.   *)
(* drift: rbw \subseteq MayRead(m) and writes \subseteq MayWrite(m) must   *)
(* hold, otherwise the path gets the overall verdict "drift".              *)
(***************************************************************************)
EXTENDS Lifecycle, TraceLib
CONSTANTS Tol, SpreadMult
VARIABLES l, j, acc
tvars == <<kind, derived, ckey, defn, n, last, l, j, acc>>

Ev == Trace[l]
Pair(x) == <<x[1], x[2]>>
AttrSet(s) == {Pair(s[i]) : i \in 1..Len(s)}

(* eigenvalue lists: <<re, im>> dyadic pairs, sorted by the harness.  Results that pass through *)
(* ARPACK (random start vector) cannot be bit-identical; they are compared with the first of the *)
(* NREF reference runs (same definition, same reference history, fresh objects) at               *)
(*     |x - ref| <= 2^-Tol * |eigenvalue| + SpreadMult * (max - min of the reference runs),      *)
(* i.e. at the precision the solver itself shows for identical inputs.                           *)
RefLists(m) == IF m \in DOMAIN Ev.refs THEN Ev.refs[m] ELSE <<>>
RECURSIVE RMaxOver(_, _, _, _)
RMaxOver(lists, i, c, k) == IF k > Len(lists) THEN Obs(lists[1][i][c])
                            ELSE RMax(Obs(lists[k][i][c]), RMaxOver(lists, i, c, k + 1))
RECURSIVE RMinOver(_, _, _, _)
RMinOver(lists, i, c, k) == IF k > Len(lists) THEN Obs(lists[1][i][c])
                            ELSE RMin(Obs(lists[k][i][c]), RMinOver(lists, i, c, k + 1))
Slack(lists, i, c) == RMul(RFromInt(SpreadMult), RSub(RMaxOver(lists, i, c, 1), RMinOver(lists, i, c, 1)))
(* the scale of a complex eigenvalue is its larger component, in either operand *)
Scale(u, v) == RMax(RMax(RAbs(Obs(u[1])), RAbs(Obs(u[2]))), RMax(RAbs(Obs(v[1])), RAbs(Obs(v[2]))))
ValClose(x, y, scale, slack) ==
    RLe(RAbs(RSub(Obs(x), Obs(y))), RAdd(RMul(scale, RTwoPow(-Tol)), slack))
EigClose(u, v, lists) ==
    /\ Len(u) = Len(v)
    /\ \A i \in 1..Len(u) : \A c \in 1..2 :
           ValClose(u[i][c], v[i][c], Scale(u[i], v[i]), Slack(lists, i, c))
HasRef(s) == Len(s.eig) > 0 /\ Len(RefLists(s.m)) > 0
SameRef(s) == IF HasRef(s) THEN EigClose(s.eig, RefLists(s.m)[1], RefLists(s.m)) ELSE s.eqRef
SamePrev(s, prev) == IF ~s.rep THEN TRUE
                     ELSE IF HasRef(s) THEN prev.out = "ok" /\ Len(prev.eig) > 0
                                            /\ EigClose(s.eig, prev.eig, RefLists(s.m))
                     ELSE s.eqPrev
(* prevOk: the previous step was judged "ok"; after a listed finding (kf) the repetition is only compared *)
(* with the reference, not with the deviating first call                                                 *)
Good(s, prev, prevOk) == s.out = "ok" /\ SameRef(s) /\ (~prevOk \/ SamePrev(s, prev)) /\ s.argsSame

ClassFailDevs(k, s) == {f.dev : f \in {g \in FailTable : g.dev \in Deviations /\ g.cls = Class(k) /\ g.m \in {s.m, "*"}
                                                       /\ g.et = s.etype /\ g.em = s.emsg}}

(* judgement of step s of the current event; o = outcome of Lifecycle!Call on the abstract state *)
(* attributes the state says are Def after the step but that do not hold the value the definition *)
(* determines (s.vals: <<role, name, holds-the-canonical-value>>, the value being the one the       *)
(* attribute has the first time a first call on a fresh object derives it)                          *)
BadValues(s, dAfter) == {Pair(s.vals[i]) : i \in {q \in 1..Len(s.vals) :
                            /\ Pair(s.vals[q]) \in DOMAIN dAfter
                            /\ dAfter[Pair(s.vals[q])] = "Def"
                            /\ ~s.vals[q][3]}}
Judge(k, mode, s, prev, o, dAfter, prevOk) ==
    LET drift == ~(AttrSet(s.rbw) \subseteq MayRead(k, s.m) /\ AttrSet(s.writes) \subseteq MayWrite(k, s.m))
        driftWhat == <<AttrSet(s.rbw) \ MayRead(k, s.m), AttrSet(s.writes) \ MayWrite(k, s.m)>>
        mk(v, devs, why) == [m |-> s.m, v |-> v, devs |-> devs, why |-> why, spec |-> <<o.out, o.attr>>,
                             drift |-> IF drift THEN driftWhat ELSE <<>>]
    IN IF ~s.argsSame THEN mk("fail", {}, "caller array modified")
       ELSE IF ~s.twinSame
       THEN mk("fail", {}, "outcome depends on another object evaluated earlier in the same process")
       ELSE IF mode = "abstract" /\ ~drift /\ BadValues(s, dAfter) # {}
       THEN mk("fail", {}, <<"derived attribute holds a value that depends on the call history", BadValues(s, dAfter)>>)
       ELSE IF Good(s, prev, prevOk) THEN mk("ok", {}, "")
       ELSE IF mode = "concrete"
       THEN IF s.out = "exc"
            THEN IF ClassFailDevs(k, s) # {} THEN mk("kf", ClassFailDevs(k, s), "listed failure")
                 ELSE mk("fail", {}, "unlisted failure")
            ELSE IF s.out = "ok" /\ ~SameRef(s) /\ o.out = "wrong" /\ Explains(k, s.m, o, Deviations) # {}
                 THEN mk("kf", Explains(k, s.m, o, Deviations), "result differs from the fresh object (predicted)")
                 ELSE mk("fail", {}, "result differs from fresh object or repetition")
       ELSE CASE o.out = "ok" -> mk("fail", {}, IF s.out = "exc" THEN "unexpected failure"
                                                ELSE "result differs from fresh object or repetition")
              [] o.out = "fails" ->
                    LET fs == {f \in FailEntries(k, s.m, o.attr, Deviations) : f.et = s.etype /\ f.em = s.emsg}
                    IN IF s.out = "exc" /\ fs # {} THEN mk("kf", {f.dev : f \in fs}, "predicted failure")
                       ELSE mk("fail", {}, "neither the predicted failure nor the correct result")
              [] o.out = "wrong" ->
                    LET ds == Explains(k, s.m, o, Deviations)
                    IN IF s.out = "ok" /\ ~SameRef(s) /\ ds # {} THEN mk("kf", ds, "predicted history dependence")
                       ELSE mk("fail", {}, "neither the predicted wrong result nor the correct one")

Overall(a, mode) ==
    LET idx == 1..Len(a)
        devs == UNION {a[i].devs : i \in idx}
    IN IF mode = "abstract" /\ \E i \in idx : a[i].drift # <<>> THEN "drift"
       ELSE IF \E i \in idx : a[i].v = "fail" THEN "fail"
       ELSE IF devs # {} THEN "kf:" \o (CHOOSE d \in devs : TRUE)
       ELSE "ok"

TInit == /\ l = 1 /\ j = 0 /\ acc = <<>>
         /\ kind = "Plate" /\ derived = InitDerived(kind) /\ ckey = InitKey(kind) /\ defn = {} /\ n = 0
         /\ last = NoCall
Begin == /\ l <= Len(Trace) /\ j = 0
         /\ kind' = Ev.kind
         /\ derived' = InitDerived(kind') /\ ckey' = InitKey(kind') /\ defn' = {} /\ last' = NoCall
         /\ j' = 1 /\ acc' = <<>> /\ UNCHANGED <<l, n>>
Step == /\ l <= Len(Trace) /\ j >= 1 /\ j <= Len(Ev.steps)
        /\ LET s == Ev.steps[j]
               prev == IF j > 1 THEN Ev.steps[j-1] ELSE s
               o == Exec(kind, s.m, derived, ckey, defn)
               repaired == s.out = "ok" /\ o.out = "fails" /\ Pseudo(kind, o.attr)
           IN /\ IF repaired THEN CallRepaired(s.m) ELSE Call(s.m)
              /\ acc' = Append(acc, Judge(kind, Ev.mode, s, prev, AsState(last'), derived', j = 1 \/ acc[j-1].v = "ok"))
        /\ j' = j + 1 /\ UNCHANGED <<l, n>>
End == /\ l <= Len(Trace) /\ j = Len(Ev.steps) + 1
       /\ Verdict(Ev.id, Overall(acc, Ev.mode), acc)
       /\ l' = l + 1 /\ j' = 0 /\ UNCHANGED <<kind, derived, ckey, defn, n, last, acc>>
TNext == Begin \/ Step \/ End
TSpec == TInit /\ [][TNext]_tvars

RECURSIVE Total(_)
Total(i) == IF i > Len(Trace) THEN 0 ELSE Len(Trace[i].steps) + 2 + Total(i + 1)
Done == TLCGet("stats").diameter - 1 = Total(1)
=============================================================================
