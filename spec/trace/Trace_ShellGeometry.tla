------------------------- MODULE Trace_ShellGeometry -------------------------
(* Trace validation for the derived data of C18: every event is a fresh real   *)
(* ConeCyl whose inputs were set as recorded, on which _rebuild() was called   *)
(* nreb times; obs are the attributes afterwards as exact doubles.  The step   *)
(* re-uses ShellGeometry!RebuildObj; lengths are judged within 2^-Tol of the   *)
(* shell's length scale, pi-valued quantities inside a 1e-40 enclosure of pi.  *)
EXTENDS ShellGeometry, TraceLib
CONSTANT Tol
VARIABLE l
tvars == <<obj, phase, nreb, given, l>>

Opt(o) == IF Len(o) = 0 THEN NoneV ELSE Some(InRat(o[1]))
NxxOpt(o) == IF Len(o) = 0 THEN NoneV
             ELSE IF o[1].kind = "scalar" THEN Some([kind |-> "scalar", v |-> InRat(o[1].v)])
             ELSE Some([kind |-> "array", v |-> [k \in 1..Len(o[1].v) |-> InRat(o[1].v[k])]])
ObjOf(e) == [Fresh EXCEPT !.geo = [r1 |-> Opt(e.geo.r1), r2 |-> Opt(e.geo.r2), H |-> Opt(e.geo.H), L |-> Opt(e.geo.L)],
                          !.ang = [s |-> InRat(e.ang.s), c |-> InRat(e.ang.c)], !.n2 = e.n2,
                          !.Fc = Opt(e.Fc), !.nxxIn = NxxOpt(e.nxxIn), !.xiLA = Opt(e.xiLA),
                          !.uTM = InRat(e.uTM), !.thetaTdeg = InRat(e.thetaTdeg), !.tanBeta = InRat(e.tanBeta),
                          !.pdC = e.pdC, !.pdT = e.pdT, !.pdLA = e.pdLA]
RECURSIVE Times(_,_)
Times(o, k) == IF k = 0 THEN o ELSE Times(RebuildObj(o), k-1)

BadOf(e, o) ==
    LET g == o.geo
        S == RAdd(RAdd(RAbs(Val(g.r1)), RAbs(Val(g.r2))), RAdd(RAbs(Val(g.H)), RAbs(Val(g.L))))
        nx == Val(o.nxx)
    IN  (IF Close(e.obs.r1, Val(g.r1), S, Tol) THEN {} ELSE {"r1"})
   \cup (IF Close(e.obs.r2, Val(g.r2), S, Tol) THEN {} ELSE {"r2"})
   \cup (IF Close(e.obs.H, Val(g.H), S, Tol) THEN {} ELSE {"H"})
   \cup (IF Close(e.obs.L, Val(g.L), S, Tol) THEN {} ELSE {"L"})
   \cup (IF Close(e.obs.sina, o.ang.s, ROne, Tol) THEN {} ELSE {"sina"})
   \cup (IF Close(e.obs.cosa, o.ang.c, ROne, Tol) THEN {} ELSE {"cosa"})
   \cup (IF e.obs.is_cylinder = o.isCyl THEN {} ELSE {"is_cylinder"})
   \cup (IF Len(e.obs.nxx) = Len(nx) /\ \A k \in 1..Len(nx) : PClose(Obs(e.obs.nxx[k]), nx[k], PAbs(nx[k]), Tol)
         THEN {} ELSE {"Nxxtop"})
   \cup (IF Close(e.obs.LA, Val(o.LA), RAbs(Val(o.LA)), Tol) THEN {} ELSE {"LA"})
   \cup (IF PClose(Obs(e.obs.thetaTrad), o.thetaT, PAbs(o.thetaT), Tol) THEN {} ELSE {"thetaTrad"})
   \cup (IF [k \in 1..Len(e.obs.xs) |-> e.obs.xs[k]] = o.xs THEN {} ELSE {"excluded_dofs"})
   \cup (IF Len(e.obs.cks) = Len(o.cks) /\ \A k \in 1..Len(o.cks) : PClose(Obs(e.obs.cks[k]), o.cks[k], PAbs(o.cks[k]), Tol)
         THEN {} ELSE {"excluded_dofs_ck"})
   \cup (IF ~IsNone(o.Fc) /\ ~PClose(Obs(e.obs.FcBack), PRat(Val(o.Fc)), PRat(RAbs(Val(o.Fc))), Tol) THEN {"FcBack"} ELSE {})

TInit == GInit /\ l = 1
TStep == /\ l <= Len(Trace)
         /\ l' = l + 1
         /\ LET e  == Trace[l]
                o0 == ObjOf(e)
            IN IF e.expect = "built"
               THEN /\ obj' = Times(o0, e.nreb)
                    /\ phase' = "built" /\ nreb' = e.nreb /\ UNCHANGED given
                    /\ LET bad == (IF Admissible(o0.geo, o0.ang) /\ Raises(o0) = "no" THEN {} ELSE {"spec-says-inadmissible"})
                                  \cup (IF e.raised = "no" THEN BadOf(e, obj') ELSE {"raised:" \o e.raised})
                       IN Verdict(e.id, IF bad = {} THEN "ok" ELSE "fail", bad)
               ELSE /\ UNCHANGED <<obj, phase, nreb, given>>      \* the module says the call raises
                    /\ Verdict(e.id, IF Raises(o0) = e.raised THEN "ok" ELSE "fail", {Raises(o0), e.raised})
TSpec == TInit /\ [][TStep]_tvars
Done == TLCGet("stats").diameter - 1 = Len(Trace)
=============================================================================
