--------------------------- MODULE Trace_ShellLoads ---------------------------
(* Trace validation for the load vector of C18.                                 *)
(*  fext    one real ConeCyl.calc_fext(inc[, kuk]) call: the definition of the   *)
(*          shell and of its loads, the k0uk the object held (or the `kuk`       *)
(*          argument), the returned vector as exact doubles.  Forces on the      *)
(*          quarter-turn lattice are evaluated with the module's exact shape     *)
(*          functions (decided by the specification); forces elsewhere carry the *)
(*          values ConeCyl.uvw returned for unit amplitudes (G) and, for a       *)
(*          force-controlled torque, samples of v around the top edge (ring):    *)
(*          that part is an OBSERVATION, the structure around it is the module's.*)
(*  static  K_uu, c_u, f_u of a real ConeCyl.static(): residual judged at 2^-30  *)
(*          of the row's term scale or 2^-44 of the system's norm scale           *)
(*          (OBSERVATION).                                                       *)
(* Each event is judged with no deviation first, then with each named deviation  *)
(* alone ("kf:<name>").                                                          *)
EXTENDS ShellLoads, TraceLib
CONSTANTS Tol, TolStatic, TolNorm
VARIABLE l
tvars == <<obj, phase, nreb, given, shell, loads, kukm, out, lastInc, l>>

Opt(o) == IF Len(o) = 0 THEN NoneV ELSE Some(InRat(o[1]))
NxxOpt(o) == IF Len(o) = 0 THEN NoneV
             ELSE IF o[1].kind = "scalar" THEN Some([kind |-> "scalar", v |-> InRat(o[1].v)])
             ELSE Some([kind |-> "array", v |-> [k \in 1..Len(o[1].v) |-> InRat(o[1].v[k])]])
ObjOf(e) == [Fresh EXCEPT !.geo = [r1 |-> Opt(e.geo.r1), r2 |-> Opt(e.geo.r2), H |-> Opt(e.geo.H), L |-> Opt(e.geo.L)],
                          !.ang = [s |-> InRat(e.ang.s), c |-> InRat(e.ang.c)], !.n2 = e.n2,
                          !.Fc = Opt(e.Fc), !.nxxIn = NxxOpt(e.nxxIn), !.xiLA = Opt(e.xiLA),
                          !.uTM = InRat(e.uTM), !.thetaTdeg = InRat(e.thetaTdeg), !.tanBeta = InRat(e.tanBeta),
                          !.pdC = e.pdC, !.pdT = e.pdT, !.pdLA = e.pdLA]
ShOf(e) == [model |-> e.model, m1 |-> e.m1, m2 |-> e.m2, n2 |-> e.n2]
R3(x) == <<InRat(x[1]), InRat(x[2]), InRat(x[3])>>
O3(x) == <<Obs(x[1]), Obs(x[2]), Obs(x[3])>>
ForceOf(sh, o, f) ==
    IF "p" \in DOMAIN f THEN [F |-> R3(f.F), p |-> f.p, q |-> f.q]
    ELSE LET G == Ev([k \in 1..Len(f.G) |-> O3(f.G[k])])
         IN [F |-> R3(f.F), G |-> G,
             B |-> Ev([k \in 1..Len(f.G) |-> IF k <= 3 THEN Abs3(G[k]) ELSE BoundAt(sh, o, k-1, 0)])]
Mean(s) == RDiv(RSum([q \in 1..Len(s) |-> Obs(s[q])]), RFromInt(Len(s)))
LoadsOf(e, sh, o) ==
    LET base == [forces |-> Ev([n \in 1..Len(e.forces) |-> ForceOf(sh, o, e.forces[n])]),
                 forcesInc |-> Ev([n \in 1..Len(e.forcesInc) |-> ForceOf(sh, o, e.forcesInc[n])]),
                 P |-> InRat(e.P), Pinc |-> InRat(e.Pinc), T |-> InRat(e.T), Tinc |-> InRat(e.Tinc)]
    IN IF Len(e.ring) = 0 THEN base
       ELSE [forces |-> base.forces, forcesInc |-> base.forcesInc, P |-> base.P, Pinc |-> base.Pinc, T |-> base.T,
             Tinc |-> base.Tinc, ring |-> Ev([k \in 1..Len(e.ring) |-> Mean(e.ring[k])])]
KukOf(e) == Ev([a \in 1..Len(e.kuk) |-> <<Obs(e.kuk[a][1]), Obs(e.kuk[a][2]), Obs(e.kuk[a][3])>>])

BadFext(e, v) ==
    IF Len(v) # Len(e.obs) THEN {-2}
    ELSE { a \in 1..Len(v) : ~PClose(Obs(e.obs[a]), v[a][1], v[a][2], Tol) }
JudgeFext(e, o, sh, ld, kuk, inc, lit) ==
    IF LoadRaises(sh, ld, inc) # "no" \/ e.raised # "no"
    THEN <<IF LoadRaises(sh, ld, inc) = e.raised THEN "ok" ELSE "fail", {LoadRaises(sh, ld, inc), e.raised}>>
    ELSE LET b0 == BadFext(e, lit)
         IN IF b0 = {} THEN <<"ok", {}>>
            ELSE LET hits == { d \in LoadDeviations : BadFext(e, Ev(FExtCode(o, sh, ld, kuk, inc, {d}))) = {} }
                 IN IF hits # {} THEN <<"kf:" \o (CHOOSE d \in hits : TRUE), b0>> ELSE <<"fail", b0>>

RowsOf(m) == Ev([a \in 1..Len(m) |-> Ev([b \in 1..Len(m[a]) |-> Obs(m[a][b])])])
VecOf(s) == Ev([a \in 1..Len(s) |-> Obs(s[a])])
JudgeStatic(e) ==
    LET K == RowsOf(e.kuu)  c == VecOf(e.cu)  f == VecOf(e.f)
        b0 == StaticBadRows(K, c, f, TolStatic, TolNorm, {})
    IN IF Len(c) # Len(f) \/ Len(K) # Len(f) THEN <<"fail", {-2}>>
       ELSE IF b0 = {} THEN <<"ok", {}>>
       ELSE LET hits == { d \in StaticDeviations : StaticBadRows(K, c, f, TolStatic, TolNorm, {d}) = {} }
            IN IF hits # {} THEN <<"kf:" \o (CHOOSE d \in hits : TRUE), b0>> ELSE <<"fail", b0>>

TInit == LInit /\ l = 1
TStep == /\ l <= Len(Trace)
         /\ l' = l + 1
         /\ LET e == Trace[l]
            IN IF e.kind = "static"
               THEN /\ UNCHANGED <<obj, phase, nreb, given, shell, loads, kukm, out, lastInc>>
                    /\ LET j == JudgeStatic(e) IN Verdict(e.id, j[1], j[2])
               ELSE LET o0 == ObjOf(e)
                        sh == ShOf(e)
                        inc == InRat(e.inc)
                    IN /\ obj' = RebuildObj(o0)                    \* DefineLoads; CalcFext(inc) of the module
                       /\ shell' = sh
                       /\ loads' = LoadsOf(e, sh, obj')
                       /\ kukm' = KukOf(e)
                       /\ lastInc' = inc
                       /\ phase' = "built" /\ nreb' = 1 /\ UNCHANGED given
                       /\ out' = IF LoadRaises(sh, loads', inc) = "no" /\ e.raised = "no"
                                 THEN Ev(FExtCode(obj', sh, loads', kukm', inc, {})) ELSE <<>>
                       /\ LET j == JudgeFext(e, obj', sh, loads', kukm', inc, out')
                          IN Verdict(e.id, j[1], j[2])
TSpec == TInit /\ [][TStep]_tvars
Done == TLCGet("stats").diameter - 1 = Len(Trace)
=============================================================================
