----------------------- MODULE Trace_AnalysisDispatch -----------------------
(***************************************************************************)
(* Trace validation of histories on ONE Analysis object (C09, dispatch).   *)
(* trace.json: array of histories [id, ops]; an op is                      *)
(*   [op |-> "set", name, val (dyadic), sval]   an attribute assignment    *)
(*   [op |-> "static", nlgeom (0|1), obs, fresh, ratchet]                  *)
(*     obs     = what the USED object did: outcome ("ok" or the exception  *)
(*               class), incs, cs (exact doubles), maxIncAfter, last,      *)
(*               lin (the linear solution computed from the callables),     *)
(*               sameLists (the returned lists are the attributes),        *)
(*               earlierIntact (lists returned by earlier calls unchanged) *)
(*     fresh   = the same call on a fresh object that was given the same   *)
(*               assignments and made no earlier run                        *)
(*     ratchet = the same call on a fresh object whose maxInc was set to   *)
(*               the value the used object's attribute had before the call  *)
(* The literal property (KF off) demands obs = fresh; the deviation        *)
(* KF_C09_MaxIncRatchets predicts obs = ratchet and the attribute values.  *)
(* Results are compared as exact encodings (same machine, same arithmetic).*)
(***************************************************************************)
EXTENDS AnalysisDispatch, TraceLib
VARIABLES l, p, viol
tvars == <<vars, l, p, viol>>
Run   == Trace[l]
Op(i) == Run.ops[i]

TSet ==
    /\ Op(p).op = "set"
    /\ CASE Op(p).name = "initialInc" -> SetInitialInc(Obs(Op(p).val))
         [] Op(p).name = "maxInc"     -> SetMaxInc(Obs(Op(p).val))
         [] Op(p).name = "NL_method"  -> SetMethod(Op(p).sval)
         [] OTHER                     -> UNCHANGED vars     \* read by the driver directly
    /\ viol' = viol

Check(e) ==     \* evaluated on the step that models the call
    LET exp == IF e.nlgeom = 1 /\ KF_C09_MaxIncRatchets THEN e.ratchet ELSE e.fresh
        cl  == << <<"outcome", e.obs.outcome = outcome'>>,
                  \* (literal: only equality with the fresh object is demanded, see below - a repair may keep or restore it)
                  <<"maxInc attribute afterwards", ~KF_C09_MaxIncRatchets \/ Obs(e.obs.maxIncAfter) = maxIncAttr'>>,
                  <<"last_analysis", e.obs.last = lastAnalysis'>>,
                  <<"result equals the reference object's",
                      IF outcome' = "ok" THEN e.obs.incs = exp.incs /\ e.obs.cs = exp.cs /\ Len(e.obs.incs) = Len(e.obs.cs)
                      ELSE e.obs.incs = <<>> /\ e.obs.cs = <<>> >>,
                  <<"linear result: increments [1.0], cs [solve(k0, fext())]",
                      result' # Linear \/ (/\ Len(e.obs.incs) = 1 /\ Obs(e.obs.incs[1]) = ROne
                                            /\ e.obs.cs = <<e.obs.lin>>)>>,
                  <<"attributes left behind equal the fresh object's",
                      KF_C09_MaxIncRatchets \/ outcome' # "ok"
                      \/ (e.fresh.outcome = "ok" /\ e.fresh.maxIncAfter = e.obs.maxIncAfter /\ e.fresh.last = e.obs.last)>>,
                  <<"returned lists are the attributes, earlier lists intact",
                      e.obs.sameLists = 1 /\ e.obs.earlierIntact = 1>> >>
    IN {cl[j][1] : j \in {k \in 1..Len(cl) : ~cl[k][2]}}

TStatic ==
    /\ Op(p).op = "static"
    /\ IF Op(p).nlgeom = 0 THEN StaticLinear ELSE (StaticNR \/ StaticRaises)
    /\ LET bad == Check(Op(p))
       IN viol' = IF bad = {} THEN viol ELSE Append(viol, <<p, bad>>)

TInit == Init /\ l \in 1..Len(Trace) /\ p = 1 /\ viol = <<>>
TStep == /\ p <= Len(Run.ops)
         /\ (TSet \/ TStatic)
         /\ p' = p + 1 /\ l' = l
         /\ (p' = Len(Run.ops) + 1 =>
               IF viol' = <<>>
               THEN Verdict(Run.id, IF KF_C09_MaxIncRatchets THEN "kf:KF_C09_MaxIncRatchets" ELSE "ok", Len(Run.ops))
               ELSE Verdict(Run.id, "fail", viol'))
TSpec == TInit /\ [][TStep]_tvars
Done == TLCGet("stats").distinct >= Len(Trace)
=============================================================================
