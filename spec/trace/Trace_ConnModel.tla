----------------------------- MODULE Trace_ConnModel -----------------------------
(* Trace validation for C12: events                                                *)
(*   conn  cd, obs     a connection matrix was requested (PanelAssembly.get_k0_conn *)
(*                     or the fkC* kernels summed and symmetrised); obs dense       *)
(*   ktkr  cd, obs     calc_kt_kr(p1, p2, type) -> <<kt, kr>>                        *)
EXTENDS ConnModel, TraceLib, FiniteSets
CONSTANTS Tol, OpenKF
VARIABLE l
tvars == <<cvars, l>>

RatSeq(s) == Fn([k \in 1..Len(s) |-> InRat(s[k])])
DecPly(p) == [dir |-> <<p.dir[1], p.dir[2]>>, t |-> InRat(p.t), mat |-> RatSeq(p.mat)]
DecPd(j) ==
    [model |-> j.model, a |-> InRat(j.a), b |-> InRat(j.b), r |-> InRat(j.r), sina |-> InRat(j.sina),
     cosa |-> InRat(j.cosa), m |-> j.m, n |-> j.n,
     fl |-> Fn([dof \in 1..3 |-> <<RatSeq(j.fl[dof][1]), RatSeq(j.fl[dof][2])>>]),
     stack |-> Fn([k \in 1..Len(j.stack) |-> DecPly(j.stack[k])]), off |-> InRat(j.off),
     y1 |-> InRat(j.y1), y2 |-> InRat(j.y2), mu |-> InRat(j.mu), Ncte |-> RatSeq(j.Ncte),
     ortho |-> IF "ortho" \in DOMAIN j THEN j.ortho ELSE FALSE]
DecCd(j) == [kind |-> j.kind, pd1 |-> DecPd(j.pd1), pd2 |-> DecPd(j.pd2), pos1 |-> InRat(j.pos1), pos2 |-> InRat(j.pos2),
             kt |-> InRat(j.kt), kr |-> InRat(j.kr), auto |-> j.auto, first |-> j.first, pad |-> j.pad]

BadEntries(obs, E) ==
    IF Len(obs) # Len(E) THEN {<<0, 0>>}
    ELSE { rc \in (1..Len(E)) \X (1..Len(E)) : ~Close(obs[rc[1]][rc[2]], E[rc[1]][rc[2]][1], E[rc[1]][rc[2]][2], Tol) }
RECURSIVE FirstKF(_,_,_)
FirstKF(kfs, obs, cd) ==
    IF kfs = {} THEN "none"
    ELSE LET k == CHOOSE x \in kfs : TRUE
         IN IF BadEntries(obs, ConnOf(cd, {k})) = {} THEN k ELSE FirstKF(kfs \ {k}, obs, cd)

TInit == CInit /\ l = 1
TConn(e) ==
    LET cd == DecCd(e.cd)
    IN /\ cdef' = cd /\ cout' = ConnOf(cd, CDeviations)
       /\ LET bad == BadEntries(e.obs, cout')
          IN IF bad = {} THEN Verdict(e.id, "ok", {})
             ELSE LET k == FirstKF(OpenKF, e.obs, cd)
                  IN IF k # "none" THEN Verdict(e.id, "kf:" \o k, Cardinality(bad))
                     ELSE Verdict(e.id, "fail", IF Cardinality(bad) > 12 THEN <<Cardinality(bad), CHOOSE x \in bad : TRUE>> ELSE bad)
TKtKr(e) ==
    LET cd == DecCd(e.cd)
        k == KtKr(CompleteDef(cd.pd1), CompleteDef(cd.pd2), CType(cd.kind))
        okt == Close(e.obs[1], k[1], k[1], Tol)
        okr == CType(cd.kind) = "bot-top" \/ Close(e.obs[2], k[2], k[2], Tol)
    IN /\ cdef' = cd /\ cout' = <<>>
       /\ Verdict(e.id, IF okt /\ okr THEN "ok" ELSE "fail", <<okt, okr>>)
TStep == /\ l <= Len(Trace)
         /\ l' = l + 1
         /\ LET e == Trace[l] IN IF e.ev = "conn" THEN TConn(e) ELSE TKtKr(e)
TSpec == TInit /\ [][TStep]_tvars
Done == TLCGet("stats").diameter - 1 = Len(Trace)
=============================================================================
