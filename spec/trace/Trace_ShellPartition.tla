------------------------- MODULE Trace_ShellPartition -------------------------
(* Trace validation for the book-keeping part of C18.  Every event is one call *)
(* of the real ConeCyl.exclude_dofs_matrix / calc_full_c (or the k0uu / k0uk   *)
(* that _calc_linear_matrices stored for a real k0) with its arguments and the *)
(* returned arrays as exact doubles.  The step re-uses ShellPartition's        *)
(* operators; equality is exact (entrywise identical doubles).                 *)
EXTENDS ShellPartition, TraceLib
VARIABLE l
tvars == <<def, vec, kind, parts, hist, l>>

ZeroD == <<0, <<>>, 0>>
Seq2(m) == [a \in 1..Len(m) |-> [b \in 1..Len(m[a]) |-> <<m[a][b][1], m[a][b][2], m[a][b][3]>>]]
Ints(s) == [k \in 1..Len(s) |-> s[k]]

(* exclude: which of the judged parts differ under deviation set dv *)
BadParts(e, dv) ==
    LET p == ExcludeAlgo(Seq2(e.K), Ints(e.xs), ZeroD, dv)
    IN { nm \in Range(e.judge) :
           CASE nm = "kuu" -> Seq2(e.obs.kuu) # p.kuu
             [] nm = "kuk" -> Seq2(e.obs.kuk) # p.kuk
             [] nm = "kku" -> Seq2(e.obs.kku) # p.kku
             [] nm = "kkk" -> Seq2(e.obs.kkk) # p.kkk }
(* and the index-free definition must agree with the mirrored algorithm on this very input *)
AlgoAgrees(e) == LET K == Seq2(e.K)
                     Xs == Range(Ints(e.xs))
                     p == ExcludeAlgo(K, Ints(e.xs), ZeroD, {})
                 IN p.kuu = Kuu(K, Xs) /\ p.kuk = KukSlab(K, Xs) /\ p.kku = KkuSlab(K, Xs)

BadFull(e) ==
    LET cu  == [k \in 1..Len(e.cu) |-> InRat(e.cu[k])]
        cks == [k \in 1..Len(e.cks) |-> InRat(e.cks[k])]
        c   == FullC(cu, Ints(e.xs), cks, InRat(e.inc), e.size, RMul)
    IN IF Len(c) # Len(e.obs) THEN {-1}
       ELSE { k \in 1..Len(c) : Obs(e.obs[k]) # c[k] }

Judge(e) ==
    IF ~e.inputs_unchanged THEN <<"fail", {"the caller's matrix / vector was modified"}>>
    ELSE IF e.kind = "exclude"
    THEN LET b0 == BadParts(e, {})
         IN IF b0 = {} /\ AlgoAgrees(e) THEN <<"ok", {}>>
            ELSE LET hits == { d \in PartitionDeviations : BadParts(e, {d}) = {} }
                 IN IF hits # {} /\ AlgoAgrees(e) THEN <<"kf:" \o (CHOOSE d \in hits : TRUE), b0>>
                    ELSE <<"fail", b0>>
    ELSE LET b == BadFull(e) IN <<IF b = {} THEN "ok" ELSE "fail", b>>

TInit == /\ def = <<>> /\ vec = <<>> /\ kind = "trace" /\ parts = NoParts /\ hist = <<>> /\ l = 1
TStep == /\ l <= Len(Trace)
         /\ l' = l + 1
         /\ LET e == Trace[l]
                j == Judge(e)
            IN Verdict(e.id, j[1], j[2])
         /\ UNCHANGED <<def, vec, kind, parts, hist>>
TSpec == TInit /\ [][TStep]_tvars
Done == TLCGet("stats").diameter - 1 = Len(Trace)
=============================================================================
