----------------------------- MODULE Trace_Layout -----------------------------
(* Trace validation of the assembly builders: each event is the finished layout a  *)
(* real builder function returned (panels with group and global position, the      *)
(* connection list); the step replays it through Layout's actions and judges the   *)
(* laws; with a `ref` the layout must also be the one the specification's builder  *)
(* draws for the same arguments (same connections, same order and orientation).    *)
EXTENDS Layout, TraceLib
VARIABLE l
tvars == <<yvars, l>>

DecP(p) == Pn(p.grp, Obs(p.x0), Obs(p.y0), Obs(p.a), Obs(p.b))
DecC(c) == Cn(c.p1, c.p2, c.kind, Obs(c.pos1), Obs(c.pos2))
DecPs(e) == [k \in 1..Len(e.panels) |-> DecP(e.panels[k])]
DecCs(e) == [k \in 1..Len(e.conns) |-> DecC(e.conns[k])]
SameConn(ps, a, b) == a.p1 = b.p1 /\ a.p2 = b.p2 /\ a.kind = b.kind /\ Near(ps, a.pos1, b.pos1) /\ Near(ps, a.pos2, b.pos2)
RefConns(e, ps) ==
    CASE e.ref.kind = "ring" -> RingConns(e.ref.n, ps[1].b)
      [] e.ref.kind = "ringblades" -> RingBladeConns(e.ref.n, ps[1].b)
      [] e.ref.kind = "tpanel" -> TConns(ps)
MatchesRef(e, ps, cs) ==
    LET rc == RefConns(e, ps)
    IN Len(rc) = Len(cs) /\ \A k \in 1..Len(cs) : SameConn(ps, cs[k], rc[k])
TInit == YInit /\ l = 1
TStep == /\ l <= Len(Trace)
         /\ l' = l + 1
         /\ LET e == Trace[l]
                ps == DecPs(e)   cs0 == DecCs(e)   P == Obs(e.perim)
                (* a debonding defect drops the bond of the middle base tile on purpose: the layout is judged with it put back *)
                cs == IF e.defect /\ Len(cs0) >= 13
                      THEN SubSeq(cs0, 1, 13) \o <<Cn(5, 12, "SB", RZero, RZero)>> \o SubSeq(cs0, 14, Len(cs0)) ELSE cs0
                bad == Failing(ps, P, cs) \cup (IF "ref" \in DOMAIN e /\ ~MatchesRef(e, ps, cs) THEN {"MatchesRef"} ELSE {})
            IN /\ panels' = ps /\ conns' = cs /\ perim' = P /\ done' = TRUE
               /\ Verdict(e.id, IF bad = {} THEN "ok" ELSE "fail", bad)
TSpec == TInit /\ [][TStep]_tvars
Done == TLCGet("stats").diameter - 1 = Len(Trace)
=============================================================================
