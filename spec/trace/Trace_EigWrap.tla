---------------------------- MODULE Trace_EigWrap ----------------------------
(* Trace validation for C05 / C06.  Every event is one call of a real wrapper            *)
(* (compmech.analysis.lb / freq, Panel.lb / freq, ConeCyl.lb) on matrices that realise   *)
(* the abstract problem e.p (lattice spectra: exact; package / random matrices: the      *)
(* spectrum measured by an independent LAPACK route), with what the call did: the        *)
(* exception class, or shapes, exact values, the rows holding a non-zero, and the        *)
(* observed residuals.  The event is stepped through EigWrap's actions (StepWith); the   *)
(* only nondeterministic choice, the order in which the scipy routine returned the       *)
(* pairs, is taken from the certificate e.cert (ids matched by the harness) and is       *)
(* admitted only if SolverOK accepts it.  The final state is compared with the           *)
(* observation: first with all deviations off ("ok"), then with exactly one listed       *)
(* deviation on ("kf:<name>"), else "fail".                                              *)
EXTENDS EigWrap, TraceLib
VARIABLES l, dv, why
tvars == <<st, l, dv, why>>

(* deviation sets tried in this order after the literal run: each listed deviation alone, then the one pair of
   independent findings that can show in the same call (close frequencies sorted by rounded keys AND unpurified
   modes of a singular mass matrix); a pair is reported as both findings *)
DevOrder == <<{KF_C05_NonPositiveTail}, {KF_C05_DenseNumExceedsSize}, {KF_C05_FallbackNumExceedsSize},
              {KF_C05_PanelNumNotCapped}, {KF_C05_ConeCylBucklingMode}, {KF_C05_LoadOnStiffnessless},
              {KF_C06_RoundedSort}, {KF_C06_SparseNumExceedsSize}, {KF_C06_ReducedDofScatter},
              {KF_C06_DenseColumnSum}, {KF_C06_SingularMassModes},
              {KF_C06_RoundedSort, KF_C06_SingularMassModes}>>
KfVerdict == <<"kf:KF_C05_NonPositiveTail", "kf:KF_C05_DenseNumExceedsSize", "kf:KF_C05_FallbackNumExceedsSize",
               "kf:KF_C05_PanelNumNotCapped", "kf:KF_C05_ConeCylBucklingMode", "kf:KF_C05_LoadOnStiffnessless",
               "kf:KF_C06_RoundedSort", "kf:KF_C06_SparseNumExceedsSize",
               "kf:KF_C06_ReducedDofScatter", "kf:KF_C06_DenseColumnSum", "kf:KF_C06_SingularMassModes",
               "kf:KF_C06_RoundedSort+KF_C06_SingularMassModes">>
Relevant(api, i) == IF IsLb(api) THEN i <= 6 ELSE i >= 7
DevSet(i) == IF i = 0 THEN {} ELSE DevOrder[i]

Prob(e) == [n |-> e.p.n, cls |-> e.p.cls, s |-> InRat(e.p.s), zs |-> { e.p.zs[j] : j \in 1..Len(e.p.zs) },
            sp |-> Ev([i \in 1..Len(e.p.sp) |-> InRat(e.p.sp[i])])]
Opts(e) == [api |-> e.o.api, sparse |-> e.o.sparse, num |-> e.o.num, sort |-> e.o.sort,
            reduced |-> e.o.reduced, pos |-> e.o.pos]
Start(e, i) == [InitState(Prob(e), Opts(e), DevSet(i)) EXCEPT !.kobs = IF e.obs.exc = "" THEN e.obs.nvals ELSE 0]

(* ---- observed numbers.  A double is <<s, limbs, e>>; s = 9 / -9 / 7 encodes +inf / -inf / nan ---- *)
IsFin(d) == d[1] \in {-1, 0, 1}
Tau == RTwoPow(-TolBits)
Sq(x) == RMul(x, x)
(* lb: lambda real; compared in mu-space: | -1/lambda - mu | <= tau * max|mu|   (lambda = +-inf <-> mu = 0) *)
LamClose(z, mu, scale) ==
    /\ z[2][1] = 0
    /\ IF IsFin(z[1])
       THEN /\ z[1][1] # 0
            /\ RLe(RAbs(RSub(RNeg(RInv(Obs(z[1]))), mu)), RMul(Tau, scale))
       ELSE z[1][1] \in {9, -9} /\ RLe(RAbs(mu), RMul(Tau, scale))
(* freq: omega = re + i im, principal root; compared in mu-space: | 1/omega^2 - mu | <= tau * max mu *)
OmClose(z, mu, scale) ==
    /\ IsFin(z[1]) /\ IsFin(z[2])
    /\ LET re == Obs(z[1])
           im == Obs(z[2])
           a == RSub(Sq(re), Sq(im))
           b == RMul(RFromInt(2), RMul(re, im))
           N == RAdd(Sq(a), Sq(b))
       IN /\ RSign(re) > 0
          /\ RLe(RAdd(Sq(RSub(RDiv(a, N), mu)), Sq(RDiv(b, N))), Sq(RMul(Tau, scale)))
(* "To solver precision" for the iterative paths is precision in the variable ARPACK iterates on (tol = 0:
   Ritz values converged to machine precision relative to the transformed spectrum, times the conditioning of
   the factorised shift matrix), not in mu: a fixed 2^-30 max|mu| asks for 7e-13 in nu when max|mu| = 4e-4
   (lambda of some thousands, K of condition 4e11: cylindrical panels, r = 2) and was a false alarm there.
   eigsh, sigma = 1, Cayley: nu = (mu+1)/(mu-1) = (1-lambda)/(1+lambda):  |nu_obs - nu| <= f tau (1 + |nu|);
   eigs, sigma = -1, shift-invert: nu = 1/(omega^2+1) = mu/(1+mu):        |nu_obs - nu| <= f tau nu(max mu).
   The dense paths (LAPACK on (B, K) itself) stay in mu-space: f tau max|mu|. *)
CayleyClose(z, mu, f) ==
    /\ z[2][1] = 0
    /\ LET nu == RDiv(RAdd(mu, ROne), RSub(mu, ROne))
           tol == RMul(RMul(f, Tau), RAdd(ROne, RAbs(nu)))
       IN IF IsFin(z[1])
          THEN LET lam == Obs(z[1])
               IN /\ RAdd(ROne, lam) # RZero
                  /\ RLe(RAbs(RSub(RDiv(RSub(ROne, lam), RAdd(ROne, lam)), nu)), tol)
          ELSE z[1][1] \in {9, -9} /\ RLe(RAbs(RSub(RNeg(ROne), nu)), tol)
ShiftInvertClose(z, mu, scale, f) ==
    /\ IsFin(z[1]) /\ IsFin(z[2])
    /\ LET re == Obs(z[1])
           im == Obs(z[2])
           a1 == RAdd(RSub(Sq(re), Sq(im)), ROne)            \* omega^2 + 1 = a1 + i b
           b == RMul(RFromInt(2), RMul(re, im))
           N == RAdd(Sq(a1), Sq(b))
           nu == RDiv(mu, RAdd(ROne, mu))
           numax == RDiv(scale, RAdd(ROne, scale))
       IN /\ RSign(re) > 0
          /\ RLe(RAdd(Sq(RSub(RDiv(a1, N), nu)), Sq(RDiv(b, N))), Sq(RMul(RMul(f, Tau), numax)))
ValCloseF(s, z, v, scale, arpack, f) ==
    IF v.id = 0 THEN TRUE          \* unspecified by the model (reduced_dof subsystem, or a listed deviation: s.unspec)
    ELSE IF v.form = "lam" THEN (IF arpack THEN CayleyClose(z, Mu(s.p, v.id), f) ELSE LamClose(z, Mu(s.p, v.id), RMul(f, scale)))
    ELSE IF v.form = "om" THEN (IF arpack THEN ShiftInvertClose(z, Mu(s.p, v.id), scale, f)
                                ELSE OmClose(z, Mu(s.p, v.id), RMul(f, scale)))
    ELSE FALSE
ValClose(s, z, v, scale) == ValCloseF(s, z, v, scale, s.o.sparse, ROne)
(* dense frequency path (QZ): next to 2^-30 max mu the logged normwise forward bound q of the pair is admitted *)
ValCloseQ(s, z, v, scale, q) ==
    IF v.id # 0 /\ v.form = "om" /\ ~s.o.sparse /\ RLt(RMul(Tau, scale), q)
    THEN OmClose(z, Mu(s.p, v.id), RDiv(q, Tau))
    ELSE ValClose(s, z, v, scale)
QzBound(o, c) == IF c <= Len(o.res) /\ ~o.res[c].skip /\ IsFin(o.res[c].q) THEN Obs(o.res[c].q) ELSE RZero
(* the observed residual of pair c: || (K + lambda KG) v || <= 2^-30 (||K|| + |lambda| ||KG||) ||v||, v # 0
   (an observation, not an oracle); not defined for an infinite multiplier *)
ResOK(r, z) == IF r.skip THEN ~IsFin(z[1])
               ELSE /\ IsFin(r.v) /\ IsFin(r.r) /\ IsFin(r.b)
                    /\ RSign(Obs(r.v)) > 0 /\ RLe(Obs(r.r), Obs(r.b))

(* An infinite multiplier (mu = 0 exactly: a mode in the null space of KG, returned as +-1e15..inf) has no
   residual in the lambda form: || K v + lambda KG v || ~ ||K v|| stays finite while the admissible error
   2^-30 |lambda| ||KG|| ||v|| depends on how large the stand-in for infinity came out.  Its value clause
   (|-1/lambda| <= 2^-30 max|mu|) is what is demanded. *)
InfiniteMultiplier(s, c) == s.vals[c].id # 0 /\ RIsZero(Mu(s.p, s.vals[c].id))

(* ordering on the observed numbers themselves (the claimed part of the list) *)
ObsRe(z) == Obs(z[1])
LbObsOrder(s, o) ==
    (IsLb(s.o.api) /\ Regime(s.p) /\ Known(s)) =>
        LET L == Len(Claimed(s))
        IN /\ \A c \in 1..L : IsFin(o.vals[c][1]) /\ RSign(ObsRe(o.vals[c])) > 0
           /\ \A c \in 1..(L-1) : RLe(ObsRe(o.vals[c]), RMul(OnePlusSlack, ObsRe(o.vals[c+1])))
FreqObsOrder(s, o) ==
    (~IsLb(s.o.api) /\ s.o.sort /\ Known(s) /\ ~D(s, KF_C06_RoundedSort)) =>
        \A c \in 1..(Len(o.vals)-1) : RLe(ObsRe(o.vals[c]), RMul(OnePlusSlack, ObsRe(o.vals[c+1])))
(* the other path on the same matrices (sparse <-> dense): agreement on the claimed common prefix *)
PeerOK(s, o, scale) ==
    (o.peer # <<>> /\ Known(s)
       /\ ~(~IsLb(s.o.api) /\ D(s, KF_C06_DenseColumnSum) /\ BAct(s.p) \ s.p.zs # Act(s.p))    \* dense peer unspecified
       /\ (IF IsLb(s.o.api) THEN Regime(s.p) ELSE s.o.sort /\ ~Collision(s.p))) =>
        LET L == Min2(Len(Claimed(s)), IF IsLb(s.o.api) THEN Min2(Len(o.peer), NPos(s.p)) ELSE Len(o.peer))
        IN \A c \in 1..L : ValCloseF(s, o.peer[c], s.vals[c], scale, TRUE, RFromInt(2))   \* one of the two is ARPACK's

(* first clause that separates the model's final state from the observation ("" = none) *)
Mismatch(s, e) ==
    LET o == e.obs
        scale == MuMax(s.p)
        nc == Len(s.vec.colid)
        support == { r \in 1..s.vec.nr : s.vec.src[r] # 0 }
    IN IF ~o.intact THEN "inputs-modified"       \* the matrices handed over (csr / csc / coo) must come back unchanged
       ELSE IF ~o.kept THEN "earlier-result-modified"   \* arrays handed out by earlier calls on the object: bitwise unchanged
       ELSE IF o.exc # "" THEN (IF s.pc = "raised" /\ s.exc = o.exc THEN ""
                          ELSE IF s.pc = "raised" THEN "exception-class" ELSE "unexpected-exception")
       ELSE IF s.pc = "done" /\ s.unspec
       THEN \* a listed deviation makes the returned pairs unspecified (how many survive the sort included)
            (IF o.nr = s.vec.nr THEN "" ELSE "shape-of-modes")
       ELSE IF s.pc # "done" THEN (IF s.exc = "solver-contract" THEN "solver-return(count/selection/order)"
                                  ELSE "expected-exception")
       ELSE IF o.nvals # Len(s.vals) THEN "number-of-values"
       ELSE IF o.nr # s.vec.nr \/ o.nc # nc THEN "shape-of-modes"
       ELSE IF ~(\A j \in 1..Len(o.nzrows) : o.nzrows[j] \in support) THEN "zero-pattern"
       ELSE IF \E c \in 1..o.nvals : ~ValCloseQ(s, o.vals[c], s.vals[c], scale, QzBound(o, c)) THEN "values"
       ELSE IF \E c \in 1..Min2(o.nvals, nc) :
                    ~s.unspec /\ ~ModesUnspecified(s) /\ ~InfiniteMultiplier(s, c) /\ ~ResOK(o.res[c], o.vals[c])
            THEN "residual"
       ELSE IF ~LbObsOrder(s, o) \/ ~FreqObsOrder(s, o) THEN "ordering"
       ELSE IF ~PeerOK(s, o, scale) THEN "path-agreement"
       ELSE ""

(* one model step; the solver's return is the certificate, admitted only by the contract *)
TraceStep(s, e) ==
    IF s.pc # "solve" THEN StepWith(s, <<>>)
    ELSE IF e.obs.exc # ""
    THEN \* the call raised: the solver's return was not observed and only its shape matters downstream
         LET len == IF Solver(s) \in {"eigsh", "eigs"} THEN AskK(s) ELSE Len(s.rrows)
         IN StepWith(s, AscSeq(1..Min2(IF len < 0 THEN 0 ELSE len, NSp(s.p)), NSp(s.p)))
    ELSE LET s2 == StepWith(s, e.cert)
         IN IF s2.pc = "raised" THEN s2
            ELSE IF SpectrumKnown(s) /\ (\A j \in 1..Len(s2.ret) : s2.ret[j] # 0) /\ ~SolverOK(s, e.cert)
                 THEN Raise(s, "solver-contract", "SolveReduced")
            ELSE s2

Idle == InitState([n |-> 3, cls |-> <<"both", "both", "both">>, sp |-> <<ROne, ROne, ROne>>, s |-> ROne, zs |-> {}],
                  [api |-> "lb", sparse |-> TRUE, num |-> 1, sort |-> FALSE, reduced |-> FALSE, pos |-> 0], {})
Begin(k, i) == IF k <= Len(Trace) THEN Start(Trace[k], i) ELSE Idle

TInit == /\ l = 1 /\ dv = 0 /\ why = "" /\ st = Begin(1, 0) /\ TLCSet(42, 0)
Advance(e, v, detail) == /\ Verdict(e.id, v, detail)
                         /\ TLCSet(42, l)
                         /\ l' = l + 1 /\ dv' = 0 /\ why' = "" /\ st' = Begin(l + 1, 0)
NextDev(api, i) == IF \E j \in (i+1)..Len(DevOrder) : Relevant(api, j)
                   THEN CHOOSE j \in (i+1)..Len(DevOrder) : Relevant(api, j) /\ \A q \in (i+1)..(j-1) : ~Relevant(api, q)
                   ELSE 0
TStep == /\ l <= Len(Trace)
         /\ LET e == Trace[l]
            IN IF ~Terminal(st)
               THEN st' = TraceStep(st, e) /\ UNCHANGED <<l, dv, why>>
               ELSE LET m == Mismatch(st, e)
                        nd == NextDev(e.o.api, dv)
                    IN IF m = "" THEN Advance(e, IF dv = 0 THEN "ok" ELSE KfVerdict[dv], why)
                       ELSE IF nd # 0
                       THEN /\ dv' = nd /\ st' = Start(e, nd) /\ l' = l
                            /\ why' = IF dv = 0 THEN m ELSE why
                       ELSE Advance(e, "fail", IF dv = 0 THEN m ELSE why)
TSpec == TInit /\ [][TStep]_tvars
Done == TLCGet(42) = Len(Trace)
=============================================================================
