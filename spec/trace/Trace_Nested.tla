------------------------------ MODULE Trace_Nested ------------------------------
(* Trace validation for C15.  Events:                                             *)
(*  nested  pd, q, m2, n2, diff, scale   the (m,n) matrix of the real code compared  *)
(*          with the embedded sub-matrix of the (m2,n2) one: max |difference| and    *)
(*          max |entry| as exact doubles; accepted iff diff <= 2^-40 scale           *)
(*  seq     pd, kind ("buckling"|"freq"), N, orders, vals, eps                      *)
(*          first eigenvalue for increasing series orders (observed through lb/freq *)
(*          dense paths); accepted iff non-increasing (2^-30 relative), never below *)
(*          the closed-form lower bracket, and within (1+eps) of the upper bracket  *)
(*          at the highest order (eps: calibrated constant from the harness table)  *)
EXTENDS Nested, TraceLib, FiniteSets
VARIABLE l
tvars == <<pvars, l>>
RatSeq(s) == Fn([k \in 1..Len(s) |-> InRat(s[k])])
DecPly(p) == [dir |-> <<p.dir[1], p.dir[2]>>, t |-> InRat(p.t), mat |-> RatSeq(p.mat)]
DecPd(j) ==
    [model |-> j.model, a |-> InRat(j.a), b |-> InRat(j.b), r |-> InRat(j.r), sina |-> InRat(j.sina),
     cosa |-> InRat(j.cosa), m |-> j.m, n |-> j.n,
     fl |-> Fn([dof \in 1..3 |-> <<RatSeq(j.fl[dof][1]), RatSeq(j.fl[dof][2])>>]),
     stack |-> Fn([k \in 1..Len(j.stack) |-> DecPly(j.stack[k])]), off |-> InRat(j.off),
     y1 |-> InRat(j.y1), y2 |-> InRat(j.y2), mu |-> InRat(j.mu), Ncte |-> RatSeq(j.Ncte),
     ortho |-> IF "ortho" \in DOMAIN j THEN j.ortho ELSE FALSE]

Rel30 == RTwoPow(-30)
TNested(e) ==
    /\ Define(DecPd(e.pd))
    /\ Verdict(e.id, IF RLe(Obs(e.diff), RMul(RTwoPow(-40), Obs(e.scale))) /\ e.m2 >= e.pd.m /\ e.n2 >= e.pd.n
                     THEN "ok" ELSE "fail", <<e.q, e.pd.m, e.pd.n, e.m2, e.n2>>)
TSeq(e) ==
    /\ Define(DecPd(e.pd))
    /\ LET d == def'
           N == RatSeq(e.N)
           v == Fn([k \in 1..Len(e.vals) |-> IF e.kind = "freq" THEN RMul(Obs(e.vals[k]), Obs(e.vals[k])) ELSE Obs(e.vals[k])])
           br == IF e.kind = "freq" THEN ClosedFreq2(d) ELSE ClosedBuckling(d, RNeg(N[1]), RNeg(N[2]))
           one == ROne
           increasing == \A k \in 1..(Len(e.orders) - 1) :
                             e.orders[k+1][1] >= e.orders[k][1] /\ e.orders[k+1][2] >= e.orders[k][2]
           monotone == \A k \in 1..(Len(v) - 1) : RLe(v[k+1], RMul(v[k], RAdd(one, Rel30)))
           above == \A k \in 1..Len(v) : RLe(RMul(br[1], RSub(one, Rel30)), v[k])
           conv == RLe(v[Len(v)], RMul(br[2], RAdd(one, InRat(e.eps))))
           admissible == SpeciallyOrthotropic(d) /\ SimplySupportedW(d)
       IN Verdict(e.id, IF increasing /\ monotone /\ above /\ conv /\ admissible THEN "ok" ELSE "fail",
                  [increasing |-> increasing, monotone |-> monotone, above |-> above, converged |-> conv,
                   admissible |-> admissible])
TInit == PInit /\ l = 1
TStep == /\ l <= Len(Trace) /\ l' = l + 1
         /\ LET e == Trace[l] IN IF e.ev = "nested" THEN TNested(e) ELSE TSeq(e)
TSpec == TInit /\ [][TStep]_tvars
Done == TLCGet("stats").diameter - 1 = Len(Trace)
=============================================================================
