---------------------------- MODULE Trace_ShellLaws ----------------------------
(* Trace validation for C16 / C17 (partial): every event is ONE public step on a   *)
(* real ConeCyl object (or one direct call of a model kernel), recorded with its   *)
(* arguments and everything it left behind as exact IEEE doubles.  The step is the *)
(* corresponding action of ShellLaws (the observation is appended to `hist`, the   *)
(* study so far); the verdict is the set of laws of ShellLaws that the extended     *)
(* history violates:                                                               *)
(*   - the laws of the observation itself (symmetry, partition, composition from   *)
(*     the planned kernel calls, probes, undeformed shell force-free, plan         *)
(*     followed, inputs untouched),                                                *)
(*   - SameAnswer against every earlier observation of the study with an equal     *)
(*     stamp (fresh object / same object after a single-aspect change / after      *)
(*     other queries / other container forms of the arguments),                    *)
(*   - the relational laws the event names in `rel` with the ids of the earlier    *)
(*     observations they relate (TLC re-checks on the recorded arguments that the  *)
(*     references really form the stencil / the load relation the law speaks of).  *)
(* Numbers are dyadic triples <<s, limbs, e>>, an exact zero is <<>>.              *)
EXTENDS ShellLaws, TraceLib
VARIABLES l
tvars == <<hist, l>>

DNum(x) == IF x = <<>> THEN RZero ELSE Obs(x)
DVec(v) == Fn([k \in 1..Len(v) |-> DNum(v[k])])
DMat(m) == Fn([i \in 1..Len(m) |-> DVec(m[i])])
DMats(ms) == Fn([k \in 1..Len(ms) |-> DMat(ms[k])])
DOpt(m) == IF m = <<>> THEN <<>> ELSE DMat(m)
Ints(s) == [k \in 1..Len(s) |-> s[k]]
DD(e) == [model |-> e.model, cyl |-> e.cyl, route |-> e.route]

DecLinear(e) ==
    [op |-> "linear", id |-> e.id, d |-> DD(e), stamp |-> e.stamp, answer |-> [k0 |-> <<e.k0, e.k0uu, e.k0uk, e.F>>, kg |-> e.kG],
     base |-> e.base, base0 |-> e.base0, alphadeg |-> DNum(e.alphadeg), loads |-> DVec(e.loads), ek |-> DNum(e.ek), clc |-> e.clc,
     k0 |-> DMat(e.k0), kG |-> DMats(e.kG), k0uu |-> DMat(e.k0uu), k0uk |-> DMat(e.k0uk), xs |-> Ints(e.xs),
     kern |-> [k0 |-> DOpt(e.kern.k0), edges |-> DOpt(e.kern.edges), kG |-> DMats(e.kern.kG)],
     probes |-> Fn([p \in 1..Len(e.probes) |-> DVec(e.probes[p])]),
     extra |-> (IF e.plan = LinearPlan(e.plankey.model, e.plankey.cyl, e.plankey.clc, e.plankey.freuse, e.plankey.hasstack)
                   /\ e.plankey.model = e.model /\ e.plankey.cyl = e.cyl /\ e.plankey.clc = e.clc
                THEN {} ELSE {<<"PlanFollowed", {"the harness did not execute the specified plan"}>>})
               \cup (IF e.Fplan = <<>> \/ e.Fplan = e.F THEN {} ELSE {<<"FIsPlanned", {"cc.F is not the planned constitutive matrix"}>>})
               \cup (IF e.inputs_before = e.inputs_after THEN {} ELSE {<<"InputsUntouched", {"an argument array was modified"}>>})]
DecKernel(e) ==
    [op |-> "kernel", id |-> e.id, d |-> DD(e), stamp |-> e.stamp, answer |-> e.K, fn |-> e.fn, args |-> e.args, K |-> DMat(e.K), extra |-> {}]
FullCBad(e, c, cfull, xs, cks, inc) ==
    LET want == FullOf(c, xs, cks, inc, e.size)
    IN IF Len(want) # Len(cfull) THEN {"length"}
       ELSE { k \in 1..Len(want) : ~RLe(RAbs(RSub(cfull[k], want[k])), RMul(Eps(52), RAbs(want[k]))) }
DecNL(e) ==
    LET k0 == DMat(e.k0)  xs == Ints(e.xs)  cks == DVec(e.cks)  inc == DNum(e.inc)  c == DVec(e.c)
    IN [op |-> "nl", id |-> e.id, d |-> DD(e), stamp |-> e.stamp, answer |-> <<e.kL, e.kG, e.kTuu, e.kTuk>>, defn |-> e.defn,
        nocores |-> e.nocores, c |-> c, inc |-> inc, kL |-> DMat(e.kL), kG |-> DMat(e.kG), kTuu |-> DMat(e.kTuu), kTuk |-> DMat(e.kTuk),
        k0 |-> k0, xs |-> xs, cks |-> cks, flags |-> [k0L |-> e.flags.k0L, kLL |-> e.flags.kLL], pres |-> PresOf(k0, xs, cks, inc),
        kern |-> IF e.kern.kG = <<>> THEN [k0L |-> <<>>, kLL |-> <<>>, kG |-> <<>>]
                 ELSE [k0L |-> DOpt(e.kern.k0L), kLL |-> DOpt(e.kern.kLL), kG |-> DMat(e.kern.kG)],
        extra |-> Tag("FullCIsInsertion", FullCBad(e, c, DVec(e.cfull), xs, cks, inc))
                  \cup (IF e.inputs_before = e.inputs_after THEN {} ELSE {<<"InputsUntouched", {"the amplitude array was modified"}>>})]
DecFint(e) ==
    LET xs == Ints(e.xs)  cks == DVec(e.cks)  inc == DNum(e.inc)  c == DVec(e.c)  cf == DVec(e.cfull)
    IN [op |-> "fint", id |-> e.id, d |-> DD(e), stamp |-> e.stamp, answer |-> e.f, defn |-> e.defn, nocores |-> e.nocores,
        c |-> c, cfull |-> cf, inc |-> inc, ru |-> e.ru, f |-> DVec(e.f), xs |-> xs, cks |-> cks, size |-> e.size,
        k0 |-> DOpt(e.k0), kern |-> IF e.kern = <<>> THEN <<>> ELSE DVec(e.kern), perfect |-> e.perfect,
        undeformed |-> IsZeroVec(cf),
        extra |-> Tag("FullCIsInsertion", FullCBad(e, c, cf, xs, cks, inc))
                  \cup (IF e.inputs_before = e.inputs_after THEN {} ELSE {<<"InputsUntouched", {"the amplitude array was modified"}>>})]
Dec(e) == CASE e.op = "linear" -> DecLinear(e)
            [] e.op = "kernel" -> DecKernel(e)
            [] e.op = "nl" -> DecNL(e)
            [] e.op = "fint" -> DecFint(e)

(* ---- relational laws ------------------------------------------------------------------------------- *)
ById(h, id) == h[CHOOSE k \in 1..Len(h) : h[k].id = id]
Known(h, ids) == \A q \in 1..Len(ids) : \E k \in 1..Len(h) : h[k].id = ids[q]
Broken(law, why) == {<<law, {why}>>}
MatsAgree(law, As, Bs, t) == UNION { Tag(law, AgreeBad(As[k], Bs[k], t)) : k \in 1..Len(As) }
StencilOK(n, q) ==      \* q: four fint observations at c+d, c-d, c+2d, c-2d of the tangent observation n
    /\ \A s \in 1..4 : q[s].op = "fint" /\ q[s].ru /\ q[s].defn = n.defn /\ q[s].inc = n.inc
    /\ ~IsZeroVec(VSubR(q[1].c, n.c))
    /\ IsStencil(n.c, VSubR(q[1].c, n.c), q[1].c, q[2].c, q[3].c, q[4].c)
Rel(r, o, h) ==
    IF ~Known(h, r.refs) THEN Broken(r.law, "unknown reference")
    ELSE LET a == ById(h, r.refs[1]) IN
    CASE r.law = "CylinderIsConeAtZero" ->
            IF o.op = "kernel"
            THEN (IF a.args = o.args /\ a.fn # o.fn THEN Tag(r.law, AgreeBad(SymUp(a.K), SymUp(o.K), TolAgree))
                  ELSE Broken(r.law, "not the same kernel arguments"))
            ELSE (IF a.base0 = o.base0 /\ a.clc = o.clc /\ RIsZero(a.alphadeg) /\ RSign(o.alphadeg) > 0 /\ RLe(o.alphadeg, RTwoPow(-900))
                  THEN MatsAgree(r.law, <<a.k0>> \o a.kG, <<o.k0>> \o o.kG, TolAgree) ELSE Broken(r.law, "not the same definition"))
      [] r.law = "IsoIsGeneral" -> Tag(r.law, AgreeBad(a.k0, o.k0, TolAgree))
      [] r.law = "KG0LinearInLoads" ->
            IF Len(r.refs) = 2
            THEN LET b == ById(h, r.refs[2])
                 IN IF a.base = o.base /\ b.base = o.base /\ a.ek = o.ek /\ b.ek = o.ek /\ a.clc = 0 /\ b.clc = 0 /\ o.clc = 0
                       /\ o.loads = VAddR(a.loads, b.loads)
                    THEN Tag(r.law, CombBad(<<o.kG[1], a.kG[1], b.kG[1]>>, <<ROne, RFromInt(-1), RFromInt(-1)>>, TolComb))
                    ELSE Broken(r.law, "loads do not add up")
            ELSE IF a.base = o.base /\ a.ek = o.ek /\ a.clc = 0 /\ o.clc = 0 /\ o.loads = VScaleR(RFromInt(r.factor), a.loads)
                 THEN Tag(r.law, CombBad(<<o.kG[1], a.kG[1]>>, <<ROne, RFromInt(-r.factor)>>, TolComb))
                 ELSE Broken(r.law, "loads are not the multiple")
      [] r.law = "LoadSplitAddsUp" ->
            IF a.base = o.base /\ a.ek = o.ek /\ a.loads = o.loads /\ a.clc = 0 /\ o.clc # 0
            THEN Tag(r.law, CombBad(<<a.kG[1], o.kG[1], o.kG[2], o.kG[3]>>, <<ROne, RFromInt(-1), RFromInt(-1), RFromInt(-1)>>, TolComb))
            ELSE Broken(r.law, "not the same loads")
      [] r.law = "EdgeRestraintsAffine" ->
            LET b == ById(h, r.refs[2])
            IN IF a.base = o.base /\ b.base = o.base /\ RSub(o.ek, b.ek) = RSub(b.ek, a.ek) /\ a.ek # b.ek
               THEN Tag(r.law, CombBad(<<o.k0, b.k0, a.k0>>, <<ROne, RFromInt(-2), ROne>>, TolComb))
               ELSE Broken(r.law, "restraints are not in arithmetic progression")
      [] r.law = "TangentIsJacobian" ->       \* refs: tangent, f(c+d), f(c-d), f(c+2d); o = f(c-2d)
            LET q == <<ById(h, r.refs[2]), ById(h, r.refs[3]), ById(h, r.refs[4]), o>>
            IN IF a.op = "nl" /\ a.flags.k0L /\ a.flags.kLL /\ StencilOK(a, q)
               THEN Tag(r.law, JacobianBad(a.kTuu, FreePart(a.k0, a.xs), a.c, VSubR(q[1].c, a.c), q[1].f, q[2].f, q[3].f, q[4].f, a.pres, TolJac))
               ELSE Broken(r.law, "not a stencil")
      [] r.law = "LinearLimitIsK0c" ->        \* refs: linear, f(d), f(-d), f(2d); o = f(-2d); perfect shell, nothing prescribed # 0
            LET q == <<ById(h, r.refs[2]), ById(h, r.refs[3]), ById(h, r.refs[4]), o>>
                n == Len(o.c)
                K == FreePart(a.k0, o.xs)
            IN IF a.op = "linear" /\ o.perfect /\ IsZeroVec(o.cks) /\ (\A s \in 1..4 : q[s].op = "fint" /\ q[s].ru /\ q[s].defn = o.defn)
                  /\ ~IsZeroVec(q[1].c) /\ IsStencil(ZeroVec(n), q[1].c, q[1].c, q[2].c, q[3].c, q[4].c)
               THEN Tag(r.law, JacobianBad(K, K, ZeroVec(n), q[1].c, q[1].f, q[2].f, q[3].f, q[4].f, ZeroVec(n), TolJac))
               ELSE Broken(r.law, "not a stencil about the undeformed perfect shell")
      [] r.law = "FintOfFreeIsDeletion" ->
            IF a.op = "fint" /\ ~a.ru /\ o.ru /\ a.defn = o.defn /\ a.cfull = o.cfull
            THEN (IF o.f = FreeVec(a.f, o.xs) THEN {} ELSE Broken(r.law, "return_u=True is not the deletion of return_u=False"))
            ELSE Broken(r.law, "not the same state")
      [] r.law = "ThreadsAgree" ->
            IF a.nocores # o.nocores \/ a.op # o.op THEN Broken(r.law, "not the same request")
            ELSE IF o.op = "nl"
                 THEN MatsAgree(r.law, <<a.kL, a.kG, a.kTuu>>, <<o.kL, o.kG, o.kTuu>>, TolThread)
                 ELSE LET n == ById(h, r.refs[2])        \* a tangent of the same shell at a state of the study gives the term scale
                          K0 == FreePart(n.k0, n.xs)
                          S == JacScale(n.kTuu, K0, o.c, ZeroVec(Len(o.c)), <<o.f, a.f>>, n.pres)
                      IN IF n.op = "nl" /\ Len(n.c) = Len(o.c) /\ o.ru /\ a.ru THEN Tag(r.law, VecCloseBad(o.f, a.f, S, TolThread))
                         ELSE Broken(r.law, "no tangent of this shell")
      [] r.law = "FintIsGradient" ->          \* refs: tangent, f(c+d), f(c-d), f(c+2d), f(c-2d), f(c+e), f(c-e), f(c+2e); o = f(c-2e)
            LET qd == <<ById(h, r.refs[2]), ById(h, r.refs[3]), ById(h, r.refs[4]), ById(h, r.refs[5])>>
                qe == <<ById(h, r.refs[6]), ById(h, r.refs[7]), ById(h, r.refs[8]), o>>
                K0 == FreePart(a.k0, a.xs)
                d == VSubR(qd[1].c, a.c)   e == VSubR(qe[1].c, a.c)
            IN IF a.op = "nl" /\ StencilOK(a, qd) /\ StencilOK(a, qe)
               THEN GradientBadTag(r.law, R4(qd[1].f, qd[2].f, qd[3].f, qd[4].f), R4(qe[1].f, qe[2].f, qe[3].f, qe[4].f), d, e,
                                   JacScale(a.kTuu, K0, a.c, d, <<qd[1].f, qd[2].f, qd[3].f, qd[4].f>>, a.pres),
                                   JacScale(a.kTuu, K0, a.c, e, <<qe[1].f, qe[2].f, qe[3].f, qe[4].f>>, a.pres))
               ELSE Broken(r.law, "not two stencils")
      [] OTHER -> Broken(r.law, "unknown law")
RelBits(r, o, h) ==       \* evidence: bits kept by the Jacobian law on this stencil (0 if it fails at 2^-20)
    IF r.law = "TangentIsJacobian" /\ Known(h, r.refs)
    THEN LET a == ById(h, r.refs[1])
             q == <<ById(h, r.refs[2]), ById(h, r.refs[3]), ById(h, r.refs[4]), o>>
         IN IF a.op = "nl" /\ StencilOK(a, q)
            THEN {JacobianBits(a.kTuu, FreePart(a.k0, a.xs), a.c, VSubR(q[1].c, a.c), q[1].f, q[2].f, q[3].f, q[4].f, a.pres)}
            ELSE {}
    ELSE {}

SelfLaws(o) == CASE o.op = "linear" -> LinearLaws(o)
                 [] o.op = "nl" -> NLLaws(o)
                 [] o.op = "fint" -> FintLaws(o)
                 [] OTHER -> {}
Earlier(o, h) == { k \in 1..(Len(h) - 1) : h[k].op = o.op /\ h[k].stamp = o.stamp }
SameLaw(o, h) ==
    IF o.op = "linear"
    THEN Tag("SameK0", { h[k].id : k \in { k \in Earlier(o, h) : h[k].answer.k0 # o.answer.k0 } })
         \cup Tag("SameKG0", { h[k].id : k \in { k \in Earlier(o, h) : h[k].answer.kg # o.answer.kg } })
    ELSE Tag("SameAnswer", { h[k].id : k \in { k \in Earlier(o, h) : h[k].answer # o.answer } })
Judge(e, h) ==
    LET o == h[Len(h)]
        rels == { e.rel[k] : k \in 1..Len(e.rel) }
        failing == SelfLaws(o) \cup o.extra \cup SameLaw(o, h) \cup UNION { Rel(r, o, h) : r \in rels }
        v == VerdictOf(failing, o.d, Deviations)
        bits == UNION { RelBits(r, o, h) : r \in rels }
    IN <<v[1], IF v[1] = "ok" THEN bits ELSE v[2]>>

TInit == LInit /\ l = 1
TStep == /\ l <= Len(Trace)
         /\ l' = l + 1
         /\ LET e == Trace[l]
                o == Dec(e)
            IN /\ CASE e.op = "linear" -> CalcLinear(o, e.first)
                    [] e.op = "kernel" -> KernelCall(o, e.first)
                    [] e.op = "nl" -> CalcNL(o, e.first)
                    [] e.op = "fint" -> CalcFint(o, e.first)
               /\ LET v == Judge(e, hist') IN Verdict(e.id, v[1], v[2])
TSpec == TInit /\ [][TStep]_tvars
Done == TLCGet("stats").diameter - 1 = Len(Trace)
=============================================================================
