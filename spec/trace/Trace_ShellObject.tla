--------------------------- MODULE Trace_ShellObject ---------------------------
(* Trace validation of object histories (C18): every event is ONE real ConeCyl on  *)
(* which the recorded definition steps, then the history (a query, a change of one *)
(* aspect, calls on other objects ...) and finally one query were executed, with   *)
(* what the query returned.  The judged answer is that of the fresh identical      *)
(* object (ShellObject!FreshOf).  If the observation differs from it but is what   *)
(* the module's mirror of the code produces, the verdict names the signatures      *)
(* (named deviations) that hold in that state.  Stiffness data cannot be computed  *)
(* by the specification: the event carries the k0uk / k0uu of the fresh identical  *)
(* object and of the object under study; the module decides which one is used.     *)
EXTENDS ShellObject, TraceLib
CONSTANTS Tol, TolStatic, TolNorm
VARIABLE l
tvars == <<obj, phase, nreb, given, shell, loads, kukm, out, lastInc, l>>

RatSeq(s) == [k \in 1..Len(s) |-> InRat(s[k])]
ForceIn(f) == [x |-> InRat(f.x), thetadeg |-> InRat(f.thetadeg), F |-> <<InRat(f.F[1]), InRat(f.F[2]), InRat(f.F[3])>>]
ValOf(x) == CASE x.t = "rat" -> InRat(x.v)
              [] x.t = "rats" -> RatSeq(x.v)
              [] x.t = "ang" -> [s |-> InRat(x.v.s), c |-> InRat(x.v.c)]
              [] x.t = "forces" -> [n \in 1..Len(x.v) |-> ForceIn(x.v[n])]
              [] OTHER -> x.v                                         \* int, bool, str
StepOf(s) == CASE s.op = "set" -> [op |-> "set", attr |-> s.attr, val |-> ValOf(s.val)]
               [] s.op = "add_force" -> [op |-> "add_force", x |-> InRat(s.x), thetadeg |-> InRat(s.thetadeg),
                                         F |-> <<InRat(s.F[1]), InRat(s.F[2]), InRat(s.F[3])>>, increment |-> s.increment]
               [] s.op = "add_SPL" -> [op |-> "add_SPL", PL |-> InRat(s.PL), pt |-> InRat(s.pt), thetadeg |-> InRat(s.thetadeg),
                                       increment |-> s.increment]
               [] s.op = "SPLA" -> [op |-> "SPLA", PLs |-> RatSeq(s.PLs)]
               [] s.op = "calc_fext" -> [op |-> "calc_fext", inc |-> InRat(s.inc)]
               [] s.op = "from_DB" -> [op |-> "from_DB", entry |-> [k \in DOMAIN s.entry |-> ValOf(s.entry[k])]]
               [] OTHER -> [op |-> s.op]
RECURSIVE Run(_,_,_,_)
Run(st, steps, k, dev) == IF k > Len(steps) THEN st ELSE Run(Advance(st, StepOf(steps[k]), dev), steps, k+1, dev)

RowsOf(m) == Ev([a \in 1..Len(m) |-> Ev([b \in 1..Len(m[a]) |-> Obs(m[a][b])])])
VecOf(s) == Ev([a \in 1..Len(s) |-> Obs(s[a])])
Kuk3(m) == Ev([a \in 1..200 |-> IF a <= Len(m) THEN <<Obs(m[a][1]), Obs(m[a][2]), Obs(m[a][3])>> ELSE Z3])     \* no data: the answer is a refusal anyway
PMid(p) == RMul(RFrac(1, 2), RAdd(PLo(p), PHi(p)))

(* does the observation fit answer a?  (data: which matrices belong to the fresh definition) *)
Fits(e, a, freshKey) ==
    IF a[1] = "unspecified" THEN TRUE
    ELSE IF e.obs.raised # "no" THEN a[1] = "raise"
    ELSE IF a[1] = "raise" THEN FALSE
    ELSE CASE a[1] = "size" -> e.obs.size = a[2]
           [] a[1] = "fext" -> /\ Len(e.obs.vec) = Len(a[2])
                               /\ \A k \in 1..Len(a[2]) : PClose(Obs(e.obs.vec[k]), a[2][k][1], a[2][k][2], Tol)
           [] a[1] = "static" ->
                  LET K == RowsOf(IF a[2] = freshKey THEN e.kuu_fresh ELSE e.kuu_used)
                      f == Ev([k \in 1..Len(a[3]) |-> PMid(a[3][k][1])])
                  IN /\ Len(e.obs.vec) = Len(f) /\ Len(K) = Len(f)
                     /\ StaticBadRows(K, VecOf(e.obs.vec), f, TolStatic, TolNorm, {KF_Null}) = {}
           [] a[1] \in {"k0", "lb"} -> (IF a[2] = freshKey THEN e.kuu_fresh ELSE e.kuu_used) = e.obs.kuu
           [] a[1] = "derived" ->
                  LET d == a[2]
                      S == RAdd(RAdd(RAbs(Val(d.geo.r1)), RAbs(Val(d.geo.r2))), RAdd(RAbs(Val(d.geo.H)), RAbs(Val(d.geo.L))))
                      nx == Val(d.nxx)
                  IN /\ Close(e.obs.r1, Val(d.geo.r1), S, Tol) /\ Close(e.obs.r2, Val(d.geo.r2), S, Tol)
                     /\ Close(e.obs.H, Val(d.geo.H), S, Tol) /\ Close(e.obs.L, Val(d.geo.L), S, Tol)
                     /\ Len(e.obs.nxx) = Len(nx) /\ \A k \in 1..Len(nx) : PClose(Obs(e.obs.nxx[k]), nx[k], PAbs(nx[k]), Tol)
                     /\ [k \in 1..Len(e.obs.xs) |-> e.obs.xs[k]] = d.xs
                     /\ Len(e.obs.cks) = Len(d.cks) /\ \A k \in 1..Len(d.cks) : PClose(Obs(e.obs.cks[k]), d.cks[k], PAbs(d.cks[k]), Tol)
           [] a[1] = "forces" ->
                  LET ok(obsl, want) ==
                        /\ Len(obsl) = Len(want)
                        /\ \A n \in 1..Len(want) :
                              /\ Close(obsl[n][1], want[n].x, RAbs(want[n].x), Tol)
                              /\ PClose(Obs(obsl[n][2]), Deg2Rad(want[n].thetadeg), PAbs(Deg2Rad(want[n].thetadeg)), Tol)
                              /\ <<Obs(obsl[n][3]), Obs(obsl[n][4]), Obs(obsl[n][5])>> = want[n].F
                  IN ok(e.obs.forces, a[2]) /\ ok(e.obs.forcesInc, a[3])

(* The history is run with the mirror of the code; SPLA is a call that re-defines the object (it replaces the point
   forces), so the fresh identical object is defined by what SPLA leaves when it does what the module says without
   deviation.  Only if that fails is the history run again with the SPLA deviation (a regression is then named). *)
JudgeWith(e, D, extra) ==
    LET st0 == Run(StFresh, e.steps0, 1, D)
        stc == Run(st0, e.steps, 1, D)                                \* the object as the code keeps it
        q == StepOf(e.query)
        fr == FreshOf(stc)
        frq == IF CanRebuild(fr, {}) THEN RebuildSeq(fr, {}) ELSE fr
        freshKey == KeyOf(frq.o)
        kukOf(key) == Kuk3(IF key = freshKey THEN e.kuk_fresh ELSE e.kuk_used)
        lit(ld) == Ans(fr, q, ld, kukOf)
        cod(ld) == Ans(stc, q, D \cup ld, kukOf)
        c0 == cod({})
        after == IF c0[1] \in {"raise", "offgrid", "unspecified"} THEN stc ELSE Advance(stc, q, D)
        sig == Sigs(after) \cup extra
        LDs == (SUBSET LoadDeviations) \ {{}}
        litKF == { ld \in LDs : Fits(e, lit(ld), freshKey) }
        codKF == { ld \in SUBSET LoadDeviations : sig # {} /\ Fits(e, cod(ld), freshKey) }
    IN IF lit({})[1] = "offgrid" \/ c0[1] = "offgrid" THEN <<"na", {}>>
       ELSE IF extra = {} /\ Fits(e, lit({}), freshKey) THEN <<"ok", {}>>
       ELSE IF extra = {} /\ litKF # {} THEN <<"kf", CHOOSE ld \in litKF : TRUE>>
       ELSE IF codKF # {} THEN <<"kf", sig \cup (CHOOSE ld \in codKF : \A o2 \in codKF : Cardinality(ld) <= Cardinality(o2))>>
       ELSE <<"fail", {lit({})[1], c0[1], e.obs.raised}>>
Judge(e) ==
    IF Len(e.containers_changed) > 0 THEN <<"fail", {"caller's containers modified"}>>
    ELSE LET j == JudgeWith(e, ObjectDeviations \ {KF_SPLA}, {})
         IN IF j[1] # "fail" \/ ~(\E k \in 1..Len(e.steps) : e.steps[k].op = "SPLA") THEN j
            ELSE LET j2 == JudgeWith(e, ObjectDeviations, {KF_SPLA}) IN IF j2[1] = "kf" THEN j2 ELSE j

(* series size of every model family the package registers: get_size() against the module's table *)
JudgeSize(e) == IF e.obs = SizeOfFamily(e.model, e.m1, e.m2, e.n2) THEN <<"ok", {}>>
                ELSE <<"fail", {SizeOfFamily(e.model, e.m1, e.m2, e.n2)}>>
(* SPLA run to the end: the loop's book-keeping *)
JudgeSPLA(e) ==
    LET st0 == Run(StFresh, e.steps0, 1, ObjectDeviations)
        PLs == RatSeq(e.PLs)
        fin == Do(st0, [op |-> "SPLA", PLs |-> PLs], ObjectDeviations \ {KF_SPLA})
        fake == [obs |-> [raised |-> "no", forces |-> e.obs.forces, forcesInc |-> e.obs.forcesInc]]
        bad ==  (IF e.obs.raised = "no" THEN {} ELSE {"raised"})
           \cup (IF e.obs.ncurves = Len(PLs) /\ e.obs.stored THEN {} ELSE {"curves"})
           \cup (IF e.obs.raised = "no" /\ Fits(fake, <<"forces", fin.o.forces, fin.o.forcesInc>>, <<>>) THEN {} ELSE {"forces after"})
           \cup (IF \A k \in 1..Len(e.obs.Fcs) :
                       /\ Len(e.obs.Fcs[k]) = 1 /\ Close(e.obs.Fcs[k][1], RDiv(Val(st0.o.Fc), I(1000)), RAbs(Val(st0.o.Fc)), Tol)
                       /\ e.obs.uTMs[k] = <<e.obs.c0s[k]>> /\ e.obs.incs[k] = <<<<1, <<1>>, 0>>>>
                 THEN {} ELSE {"curve data"})
    IN <<IF bad = {} THEN "ok" ELSE "fail", bad>>

TInit == LInit /\ l = 1
TStep == /\ l <= Len(Trace)
         /\ l' = l + 1
         /\ LET e == Trace[l]
                j == CASE e.kind = "size" -> JudgeSize(e) [] e.kind = "spla" -> JudgeSPLA(e) [] OTHER -> Judge(e)
            IN Verdict(e.id, j[1], j[2])
         /\ UNCHANGED <<obj, phase, nreb, given, shell, loads, kukm, out, lastInc>>
TSpec == TInit /\ [][TStep]_tvars
Done == TLCGet("stats").diameter - 1 = Len(Trace)
=============================================================================
