---------------------------- MODULE Trace_PanelModel ----------------------------
(* Trace validation for the panel matrices (C02 C03 C04 C19 and users): events   *)
(*   define  pd                       a Panel object was defined                 *)
(*   eval    req, obs                 a matrix was requested; obs = dense matrix *)
(*                                    returned by the real code (exact doubles)  *)
(* Verdict per eval: "ok" if every entry is Close to the literal quantity,       *)
(* "kf:<name>" if it is Close only under one listed open deviation, else "fail". *)
EXTENDS PanelModel, TraceLib, FiniteSets
CONSTANTS Tol, TolSolve, OpenKF
VARIABLE l
tvars == <<pvars, l>>

RatSeq(s) == Fn([k \in 1..Len(s) |-> InRat(s[k])])
DecPly(p) == [dir |-> <<p.dir[1], p.dir[2]>>, t |-> InRat(p.t), mat |-> RatSeq(p.mat)]
DecPd(j) ==
    [model |-> j.model, a |-> InRat(j.a), b |-> InRat(j.b), r |-> InRat(j.r), sina |-> InRat(j.sina),
     cosa |-> InRat(j.cosa), m |-> j.m, n |-> j.n,
     fl |-> Fn([dof \in 1..3 |-> <<RatSeq(j.fl[dof][1]), RatSeq(j.fl[dof][2])>>]),
     stack |-> Fn([k \in 1..Len(j.stack) |-> DecPly(j.stack[k])]), off |-> InRat(j.off),
     y1 |-> InRat(j.y1), y2 |-> InRat(j.y2), mu |-> InRat(j.mu), Ncte |-> RatSeq(j.Ncte),
     ortho |-> IF "ortho" \in DOMAIN j THEN j.ortho ELSE FALSE]
Pts(s) == Fn([k \in 1..Len(s) |-> <<InRat(s[k][1]), InRat(s[k][2])>>])
Forces(s) == Fn([k \in 1..Len(s) |-> RatSeq(s[k])])
Taper(j) == IF "taper" \in DOMAIN j THEN RatSeq(j.taper) ELSE Uniform
DecReq(j) ==
    LET pl == [size |-> j.size, row0 |-> j.row0, col0 |-> j.col0]
    IN CASE j.q = "k0"  -> [q |-> IF "num" \in DOMAIN j THEN "k0num" ELSE "k0"] @@ pl
         [] j.q = "kG0" -> [q |-> "kG0", N |-> RatSeq(j.N)] @@ pl
         [] j.q = "kM"  -> [q |-> "kM"] @@ pl
         [] j.q = "kA"  -> [q |-> "kA", flow |-> j.flow, beta |-> InRat(j.beta), gamma |-> InRat(j.gamma)] @@ pl
         [] j.q = "cA"  -> [q |-> "cA", aeromu |-> InRat(j.aeromu)] @@ pl
         [] j.q = "kAmach" -> [q |-> "kAmach", flow |-> j.flow, mach |-> InRat(j.mach), root |-> InRat(j.root),
                               rho |-> InRat(j.rho), V |-> InRat(j.V), ainf |-> InRat(j.ainf)] @@ pl
         [] j.q = "uvw" -> [q |-> "uvw", c |-> RatSeq(j.c), pts |-> Pts(j.pts)] @@ pl
         [] j.q \in {"strain", "stress"} -> [q |-> j.q, c |-> RatSeq(j.c), pts |-> Pts(j.pts), NL |-> j.NL] @@ pl
         [] j.q \in {"fint", "kT"} -> [q |-> j.q, c |-> RatSeq(j.c), taper |-> Taper(j)] @@ pl
         [] j.q = "kGc" -> [q |-> "kGc", c |-> RatSeq(j.c), NL |-> j.NL, taper |-> Taper(j)] @@ pl
         [] j.q \in {"fext", "static"} -> [q |-> "fext", forces |-> Forces(j.forces), forcesInc |-> Forces(j.forcesInc),
                                            inc |-> InRat(j.inc)] @@ pl

(* E: rows of <<value, scale>>; obs: rows of doubles *)
BadEntriesT(obs, E, t) ==
    IF Len(obs) # Len(E) THEN {<<0, 0>>}
    ELSE IF Len(E) = 0 THEN {}
    ELSE { rc \in (1..Len(E)) \X (1..Len(E[1])) : ~Close(obs[rc[1]][rc[2]], E[rc[1]][rc[2]][1], E[rc[1]][rc[2]][2], t) }
BadEntries(obs, E) == BadEntriesT(obs, E, Tol)
Shape(r, M) == IF r.q \in {"fext", "fint"} THEN Fn([k \in 1..Len(M) |-> <<M[k]>>]) ELSE M
(* the smallest set of listed open deviations (at most two) under which the observation is explained *)
RECURSIVE FirstKF(_,_,_,_)
FirstKF(cands, obs, d, r) ==
    IF cands = {} THEN {}
    ELSE LET k == CHOOSE x \in cands : \A y \in cands : Cardinality(x) <= Cardinality(y)
         IN IF BadEntries(obs, Shape(r, Placed(QuantityDev(d, r, k), r))) = {} THEN k
            ELSE FirstKF(cands \ {k}, obs, d, r)
KFCands == { S \in SUBSET OpenKF : S # {} /\ Cardinality(S) <= 2 }
RECURSIVE JoinNames(_)
JoinNames(S) == IF S = {} THEN ""
                ELSE LET k == CHOOSE x \in S : TRUE
                     IN IF S = {k} THEN k ELSE k \o "+" \o JoinNames(S \ {k})

(* static solution: backward-error criterion evaluated exactly.  For every amplitude r:
   rows of K without any stiffness must carry c_r = 0 exactly; otherwise
   |SUM_j K[r][j] c_j - f_r| <= 2^-TolSolve (SUM_j |K[r][j]||c_j| + |f_r|) *)
StaticBad(cobs, d, f) ==
    LET K == K0(d)
        n == Len(K)
        c == Fn([k \in 1..n |-> Obs(cobs[k][1])])
        ca == Fn([k \in 1..n |-> RAbs(c[k])])
    IN IF Len(cobs) # n THEN {0}
       ELSE { r \in 1..n :
               LET row == Fn([j \in 1..n |-> K[r][j][1]])
                   rowa == Fn([j \in 1..n |-> K[r][j][2]])
               IN IF \A j \in 1..n : RIsZero(K[r][j][1]) /\ RIsZero(K[j][r][1])
                  THEN ~RIsZero(c[r])
                  ELSE ~RLe(RAbs(RSub(RDot(row, c), f[r][1])),
                            RMul(RTwoPow(-TolSolve), RAdd(RDot(rowa, ca), f[r][2]))) }

TInit == PInit /\ l = 1
TDefine(e) == Define(DecPd(e.pd))
(* a field request made through an assembly carries the GLOBAL amplitude vector and the panel's offset:
   the panel must be evaluated with its own slice c[coff+1 .. coff+Size(panel)] *)
Sliced(r, e) == IF "coff" \in DOMAIN e.req THEN [r EXCEPT !.c = SubSeq(r.c, e.req.coff + 1, e.req.coff + Size(def))] ELSE r
TEval(e) ==
    LET r == Sliced(DecReq(e.req), e)
    IN /\ Eval(r)
       /\ IF e.req.q = "static"
          THEN LET bad == StaticBad(e.obs, def, out')
               IN Verdict(e.id, IF bad = {} /\ e.flags_ok THEN "ok" ELSE "fail", bad)
          ELSE LET bad == BadEntriesT(e.obs, Shape(r, out'), IF "tol" \in DOMAIN e THEN e.tol ELSE Tol)
               IN IF bad = {} /\ e.flags_ok THEN Verdict(e.id, "ok", {})
                  ELSE LET k == IF e.flags_ok THEN FirstKF(KFCands, e.obs, def, r) ELSE {}
                       IN IF k # {} THEN Verdict(e.id, "kf:" \o JoinNames(k), Cardinality(bad))
                          ELSE Verdict(e.id, "fail", IF Cardinality(bad) > 12 THEN <<Cardinality(bad), CHOOSE x \in bad : TRUE>> ELSE bad)
(* two observed lists (e.g. eigenvalues of two equivalent descriptions) related by an exact factor:
   |a_i - factor * b_i| <= 2^-tol |a_i| *)
TObsEqual(e) ==
    /\ UNCHANGED pvars
    /\ LET f == InRat(e.factor)
           bad == IF Len(e.a) # Len(e.b) THEN {0}
                  ELSE { i \in 1..Len(e.a) : ~RClose(Obs(e.a[i]), RMul(f, Obs(e.b[i])), RAbs(Obs(e.a[i])), e.tol) }
       IN Verdict(e.id, IF bad = {} THEN "ok" ELSE "fail", bad)
(* a stiffener-less bay: its skin panels (tiles with their OWN laminate, density, offset) share the skin amplitudes,
   so the bay matrix is the sum of the tiles' matrices *)
RECURSIVE SumParts(_,_,_)
SumParts(parts, r, k) == IF k > Len(parts) THEN <<>>
                         ELSE LET M == QuantityDev(CompleteDef(DecPd(parts[k])), r, Deviations)
                                  rest == SumParts(parts, r, k+1)
                              IN IF rest = <<>> THEN M ELSE PAddM(M, rest)
RECURSIVE FirstKFSum(_,_,_,_)
FirstKFSum(cands, obs, parts, r) ==
    IF cands = {} THEN {}
    ELSE LET k == CHOOSE x \in cands : \A y \in cands : Cardinality(x) <= Cardinality(y)
             RECURSIVE S(_)
             S(i) == IF i > Len(parts) THEN <<>>
                     ELSE LET M == QuantityDev(CompleteDef(DecPd(parts[i])), r, k)  rest == S(i+1)
                          IN IF rest = <<>> THEN M ELSE PAddM(M, rest)
         IN IF BadEntries(obs, S(1)) = {} THEN k ELSE FirstKFSum(cands \ {k}, obs, parts, r)
TSum(e) ==
    LET r == DecReq(e.req)
        E == SumParts(e.parts, r, 1)
    IN /\ def' = CompleteDef(DecPd(e.parts[1])) /\ req' = r /\ out' = E
       /\ LET bad == BadEntries(e.obs, E)
          IN IF bad = {} /\ e.flags_ok THEN Verdict(e.id, "ok", {})
             ELSE LET k == IF e.flags_ok THEN FirstKFSum(KFCands, e.obs, e.parts, r) ELSE {}
                  IN IF k # {} THEN Verdict(e.id, "kf:" \o JoinNames(k), Cardinality(bad))
                     ELSE Verdict(e.id, "fail", IF Cardinality(bad) > 12 THEN <<Cardinality(bad), CHOOSE x \in bad : TRUE>> ELSE bad)
TStep == /\ l <= Len(Trace)
         /\ l' = l + 1
         /\ LET e == Trace[l] IN IF e.ev = "define" THEN TDefine(e)
                                 ELSE IF e.ev = "sum" THEN TSum(e)
                                 ELSE IF e.ev = "obs_equal" THEN TObsEqual(e) ELSE TEval(e)
TSpec == TInit /\ [][TStep]_tvars
Done == TLCGet("stats").diameter - 1 = Len(Trace)
=============================================================================
