---------------------------- MODULE Trace_PanelModel ----------------------------
(* Trace validation for the panel matrices (C02 C03 C04 C19 and users): events   *)
(*   define  pd                       a Panel object was defined                 *)
(*   eval    req, obs                 a matrix was requested; obs = dense matrix *)
(*                                    returned by the real code (exact doubles)  *)
(* Verdict per eval: "ok" if every entry is Close to the literal quantity,       *)
(* "kf:<name>" if it is Close only under one listed open deviation, else "fail". *)
EXTENDS PanelModel, TraceLib, FiniteSets
CONSTANTS Tol, OpenKF
VARIABLE l
tvars == <<pvars, l>>

RatSeq(s) == Fn([k \in 1..Len(s) |-> InRat(s[k])])
DecPly(p) == [dir |-> <<p.dir[1], p.dir[2]>>, t |-> InRat(p.t), mat |-> RatSeq(p.mat)]
DecPd(j) ==
    [model |-> j.model, a |-> InRat(j.a), b |-> InRat(j.b), r |-> InRat(j.r), sina |-> InRat(j.sina),
     cosa |-> InRat(j.cosa), m |-> j.m, n |-> j.n,
     fl |-> Fn([dof \in 1..3 |-> <<RatSeq(j.fl[dof][1]), RatSeq(j.fl[dof][2])>>]),
     stack |-> Fn([k \in 1..Len(j.stack) |-> DecPly(j.stack[k])]), off |-> InRat(j.off),
     y1 |-> InRat(j.y1), y2 |-> InRat(j.y2), mu |-> InRat(j.mu), Ncte |-> RatSeq(j.Ncte)]
DecReq(j) ==
    LET pl == [size |-> j.size, row0 |-> j.row0, col0 |-> j.col0]
    IN CASE j.q = "k0"  -> [q |-> "k0"] @@ pl
         [] j.q = "kG0" -> [q |-> "kG0", N |-> RatSeq(j.N)] @@ pl
         [] j.q = "kM"  -> [q |-> "kM"] @@ pl
         [] j.q = "kA"  -> [q |-> "kA", flow |-> j.flow, beta |-> InRat(j.beta), gamma |-> InRat(j.gamma)] @@ pl
         [] j.q = "cA"  -> [q |-> "cA", aeromu |-> InRat(j.aeromu)] @@ pl

BadEntries(obs, E) ==
    IF Len(obs) # Len(E) THEN {<<0, 0>>}
    ELSE { rc \in (1..Len(E)) \X (1..Len(E)) : ~Close(obs[rc[1]][rc[2]], E[rc[1]][rc[2]][1], E[rc[1]][rc[2]][2], Tol) }
RECURSIVE FirstKF(_,_,_,_)
FirstKF(kfs, obs, d, r) ==
    IF kfs = {} THEN "none"
    ELSE LET k == CHOOSE x \in kfs : TRUE
         IN IF BadEntries(obs, Placed(QuantityDev(d, r, {k}), r)) = {} THEN k
            ELSE FirstKF(kfs \ {k}, obs, d, r)

TInit == PInit /\ l = 1
TDefine(e) == Define(DecPd(e.pd))
TEval(e) ==
    LET r == DecReq(e.req)
    IN /\ Eval(r)
       /\ LET bad == BadEntries(e.obs, out')
          IN IF bad = {} /\ e.flags_ok THEN Verdict(e.id, "ok", {})
             ELSE LET k == IF e.flags_ok THEN FirstKF(OpenKF, e.obs, def, r) ELSE "none"
                  IN IF k # "none" THEN Verdict(e.id, "kf:" \o k, Cardinality(bad))
                     ELSE Verdict(e.id, "fail", IF Cardinality(bad) > 12 THEN <<Cardinality(bad), CHOOSE x \in bad : TRUE>> ELSE bad)
TStep == /\ l <= Len(Trace)
         /\ l' = l + 1
         /\ LET e == Trace[l] IN IF e.ev = "define" THEN TDefine(e) ELSE TEval(e)
TSpec == TInit /\ [][TStep]_tvars
Done == TLCGet("stats").diameter - 1 = Len(Trace)
=============================================================================
