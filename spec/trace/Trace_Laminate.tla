----------------------------- MODULE Trace_Laminate -----------------------------
(* Trace validation for C01: each event is a definition or a transformation of  *)
(* the current stack together with the A, B, D, E matrices the real code        *)
(* returned for it (read_stack, both argument forms, or Panel.lam); the step    *)
(* re-uses Laminate's actions and compares entrywise: |x - E| <= 2^-Tol * S.    *)
EXTENDS Laminate, TraceLib
CONSTANT Tol
VARIABLE l
tvars == <<vars, l>>

Seq2(s) == Fn([k \in 1..Len(s) |-> s[k]])
DecPly(p) == [dir |-> <<p.dir[1], p.dir[2]>>, t |-> InRat(p.t),
              mat |-> Fn([k \in 1..Len(p.mat) |-> InRat(p.mat[k])])]
DecStack(s) == Fn([k \in 1..Len(s) |-> DecPly(s[k])])

BadIn(obs, E, S, n) == { ij \in (1..n) \X (1..n) : ~Close(obs[ij[1]][ij[2]], E[ij[1]][ij[2]], S[ij[1]][ij[2]], Tol) }
Judge(e, E, S) ==
    LET bad == [A |-> BadIn(e.obs.A, E.A, S.A, 3), B |-> BadIn(e.obs.B, E.B, S.B, 3),
                D |-> BadIn(e.obs.D, E.D, S.D, 3), E |-> BadIn(e.obs.E, E.E, S.E, 2)]
    IN IF bad.A = {} /\ bad.B = {} /\ bad.D = {} /\ bad.E = {} THEN <<"ok", {}>> ELSE <<"fail", bad>>

TInit == /\ stack = <<>> /\ offset = RZero /\ out = [A |-> <<>>, B |-> <<>>, D |-> <<>>, E |-> <<>>]
         /\ last = "none" /\ l = 1
Step(e) ==
    CASE e.ev = "define"     -> Set(DecStack(e.stack), InRat(e.offset), "define")
      [] e.ev = "mirror"     -> Mirror
      [] e.ev = "rot90"      -> Rotate90
      [] e.ev = "symmetrize" -> Set(stack \o Reverse(stack), RZero, "symmetrize")
      [] e.ev = "swap"       -> Swap(e.i, e.j)
      [] e.ev = "shift"      -> Shift(InRat(e.d))
TStep == /\ l <= Len(Trace)
         /\ l' = l + 1
         /\ LET e == Trace[l]
            IN /\ Step(e)
               /\ LET v == Judge(e, out', ABDEScale(stack', offset'))
                  IN Verdict(e.id, v[1], v[2])
TSpec == TInit /\ [][TStep]_tvars
Done == TLCGet("stats").diameter - 1 = Len(Trace)
=============================================================================
