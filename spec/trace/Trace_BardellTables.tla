------------------------- MODULE Trace_BardellTables -------------------------
(* Trace validation for C10 (functions and integral tables): every event is *)
(* a request made to the real C library (through ctypes on a shared object  *)
(* built from the working tree) with the values it returned.  The step      *)
(* re-uses BardellTables!Ask; the verdict compares entrywise with the       *)
(* tolerance rule |x - E| <= 2^-Tol * S.                                    *)
EXTENDS BardellTables, TraceLib
CONSTANT Tol, TolFull   \* 2^-Tol of the term-magnitude scale; 2^-TolFull of the value for literal tables
VARIABLE l
tvars == <<req, out, l>>

RatSeq(s) == Fn([k \in 1..Len(s) |-> InRat(s[k])])
Decode(e) ==
    CASE e.kind = "fun"  -> [kind |-> "fun", d |-> e.d, xi |-> InRat(e.xi), xf |-> RatSeq(e.xf)]
      [] e.kind = "full" -> [kind |-> "full", fam |-> <<e.fam[1], e.fam[2]>>,
                             fl |-> <<RatSeq(e.fl[1]), RatSeq(e.fl[2])>>]
      [] e.kind = "sub"  -> [kind |-> "sub", fam |-> <<e.fam[1], e.fam[2]>>,
                             iv |-> <<InRat(e.iv[1]), InRat(e.iv[2])>>,
                             fl |-> <<RatSeq(e.fl[1]), RatSeq(e.fl[2])>>]
      [] e.kind = "map"  -> [kind |-> "map", fam |-> <<e.fam[1], e.fam[2]>>,
                             cc |-> <<InRat(e.cc[1]), InRat(e.cc[2])>>,
                             fl |-> <<RatSeq(e.fl[1]), RatSeq(e.fl[2])>>]

Bad(e, ans) ==
    IF e.kind = "fun"
    THEN { i \in Idx : ~Close(e.obs[i+1], ans[i][1], ans[i][2], Tol) }
    ELSE LET t == IF e.kind = "full" THEN TolFull ELSE Tol
         IN { ij \in Idx \X Idx : ~Close(e.obs[ij[1]+1][ij[2]+1], ans[ij[1]][ij[2]][1], ans[ij[1]][ij[2]][2], t) }

TInit == Init /\ l = 1
TStep == /\ l <= Len(Trace)
         /\ l' = l + 1
         /\ LET e == Trace[l]
                r == Decode(e)
            IN /\ Ask(r)
               /\ LET bad == Bad(e, out')
                  IN Verdict(e.id, IF bad = {} THEN "ok" ELSE "fail", bad)
TSpec == TInit /\ [][TStep]_tvars
Done == TLCGet("stats").diameter - 1 = Len(Trace)
=============================================================================
