---------------------------- MODULE Trace_LamObject ----------------------------
(* Trace validation of the Laminate object's methods (extension of C01): each    *)
(* event is one method call on a real Laminate object with the matrices (or      *)
(* lamination parameters / moduli / the refusal) observed after it; the step     *)
(* re-uses LamObject's actions.  `ideal` carries the matrices of the definition  *)
(* without deviations next to `out` (with the listed ones): an observation       *)
(* explained only by the latter is reported as those known findings.             *)
EXTENDS LamObject, TraceLib
CONSTANTS Tol, TolMod
VARIABLES l, ideal
tvars == <<lvars, l, ideal>>

DecPly(p) == [dir |-> <<p.dir[1], p.dir[2]>>, t |-> InRat(p.t),
              mat |-> Fn([k \in 1..Len(p.mat) |-> InRat(p.mat[k])])]
DecStack(s) == Fn([k \in 1..Len(s) |-> DecPly(s[k])])
RSeq(s) == Fn([k \in 1..Len(s) |-> InRat(s[k])])
DecLP(p) == [A |-> RSeq(p.A), B |-> RSeq(p.B), D |-> RSeq(p.D), E |-> RSeq(p.E), h |-> InRat(p.h), mat |-> RSeq(p.mat)]

BadIn(obs, E, S, n) == { ij \in (1..n) \X (1..n) : ~Close(obs[ij[1]][ij[2]], E[ij[1]][ij[2]], S[ij[1]][ij[2]], Tol) }
BadOf(o, E, S) == [A |-> BadIn(o.A, E.A, S.A, 3), B |-> BadIn(o.B, E.B, S.B, 3),
                   D |-> BadIn(o.D, E.D, S.D, 3), E |-> BadIn(o.E, E.E, S.E, 2)]
Clean(b) == b.A = {} /\ b.B = {} /\ b.D = {} /\ b.E = {}
ScaleNow == IF src' = "stack" THEN ABDEScale(stk', off') ELSE FromLPScale(lp')
Names(a, b) == (IF a.A # b.A \/ a.B # b.B \/ a.D # b.D THEN {"KF_C01_LPUses3DStiffness"} ELSE {})
               \cup (IF a.E # b.E THEN {"KF_C01_LPShearSwapped"} ELSE {})
RECURSIVE JoinNames(_)
JoinNames(S) == IF S = {} THEN "" ELSE LET k == CHOOSE x \in S : TRUE
                                       IN IF S = {k} THEN k ELSE k \o "+" \o JoinNames(S \ {k})
(* matrices: ok under the definition; kf if only the listed deviations explain them; else fail *)
JudgeMat(e) ==
    LET bi == BadOf(e.obs, ideal', ScaleNow)   bd == BadOf(e.obs, out', ScaleNow)
    IN IF ~e.blocks_ok THEN <<"fail", "blocks">>
       ELSE IF Clean(bi) THEN <<"ok", {}>>
       ELSE IF Clean(bd) /\ (Names(out', ideal') \cap Deviations) # {} THEN <<"kf:" \o JoinNames(Names(out', ideal')), bi>>
       ELSE <<"fail", bd>>
CloseRel(d, E, t) == RClose(Obs(d), E, RAbs(E), t)
JudgeMod(e) ==
    LET mi == Moduli(ideal', Thick)
        okI == \A k \in 1..5 : CloseRel(e.mod[k], mi[k], TolMod)
        okD == \A k \in 1..5 : CloseRel(e.mod[k], mod'[k], TolMod)
    IN IF okI THEN <<"ok", {}>>
       ELSE IF okD /\ Names(out', ideal') \cap Deviations # {} THEN <<"kf:" \o JoinNames(Names(out', ideal')), {}>>
       ELSE <<"fail", "moduli">>
JudgeLP(e) ==
    IF e.raised THEN (IF "KF_C01_CalcLPRaises" \in Deviations THEN <<"kf:KF_C01_CalcLPRaises", {}>> ELSE <<"fail", "raised">>)
    ELSE LET x == e.xi
             ok(o, E) == \A i \in 1..4 : RClose(Obs(o[i]), E[i], ROne, Tol)
         IN IF ok(x.A, lp'.A) /\ ok(x.B, lp'.B) /\ ok(x.D, lp'.D) /\ ok(x.E, lp'.E) THEN <<"ok", {}>> ELSE <<"fail", "xi">>
JudgeRefusal(e) == IF (last' = "refused") = e.raised THEN JudgeMat(e) ELSE <<"fail", "refusal">>

TInit == LInit /\ l = 1 /\ ideal = NoOut
IdealNext(e) ==
    CASE e.ev = "read_stack" -> ABDE(stk', off')
      [] e.ev = "recalc" -> ABDE(stk', off')
      [] e.ev \in {"read_lp", "force_balanced_lp", "force_symmetric_lp"} -> FromLP(lp', {})
      [] e.ev = "force_orthotropic" -> IF off = RZero THEN ForcedOrtho(ideal) ELSE ideal
      [] e.ev = "force_symmetric" -> IF off = RZero THEN ForcedSym(ideal) ELSE ideal
      [] OTHER -> ideal
Step(e) ==
    CASE e.ev = "read_stack" -> ReadStack(DecStack(e.stack), InRat(e.offset))
      [] e.ev = "read_lp" -> ReadLP(DecLP(e.lp))
      [] e.ev = "recalc" -> Recalc
      [] e.ev = "calc_lp" -> CalcLP
      [] e.ev = "force_balanced_lp" -> ForceBalancedLP
      [] e.ev = "force_symmetric_lp" -> ForceSymmetricLP
      [] e.ev = "force_orthotropic" -> ForceOrthotropic
      [] e.ev = "force_symmetric" -> ForceSymmetric
      [] e.ev = "equivalent_modulus" -> EquivModulus
TStep == /\ l <= Len(Trace)
         /\ l' = l + 1
         /\ LET e == Trace[l]
            IN /\ Step(e)
               /\ ideal' = IdealNext(e)
               /\ LET v == CASE e.ev = "calc_lp" -> JudgeLP(e)
                             [] e.ev = "equivalent_modulus" -> JudgeMod(e)
                             [] e.ev \in {"force_orthotropic", "force_symmetric"} -> JudgeRefusal(e)
                             [] OTHER -> JudgeMat(e)
                  IN Verdict(e.id, v[1], v[2])
TSpec == TInit /\ [][TStep]_tvars
Done == TLCGet("stats").diameter - 1 = Len(Trace)
=============================================================================
