---------------------------- MODULE Trace_SparseOps ----------------------------
(* events: [id, op, m (integer matrix), m2 (second matrix for remove_null_cols / solve),          *)
(*          obs (result as integers: matrix, [matrices.., used], boolean, or solve: [x, residual flags])] *)
EXTENDS SparseOps, TraceLib
VARIABLE l
tvars == <<svars, l>>
Sq(M) == [i \in 1..Len(M) |-> [j \in 1..Len(M) |-> M[i][j]]]
Vec(v) == [i \in 1..Len(v) |-> v[i]]
TInit == mat = <<>> /\ op = "none" /\ res = <<>> /\ l = 1
Expected(e) ==
    CASE e.op = "make_symmetric" -> MakeSymmetric(Sq(e.m))
      [] e.op = "finalize_symmetric_matrix" -> MakeSymmetric(Sq(e.m))
      [] e.op = "make_skew_symmetric" -> MakeSkew(Sq(e.m))
      [] e.op = "is_symmetric" -> IsSymmetric(Sq(e.m))
      [] e.op = "remove_null_cols" -> RemoveNullCols(Sq(e.m), <<Sq(e.m2)>>)
      [] e.op = "solve_pattern" -> SetToSortedSeq(UsedCols(Sq(e.m)))
Same(e, E) ==
    CASE e.op \in {"make_symmetric", "finalize_symmetric_matrix", "make_skew_symmetric"} -> Sq(e.obs) = E
      [] e.op = "is_symmetric" -> e.obs = E
      [] e.op = "remove_null_cols" -> /\ Sq(e.obs.m1) = E.mats[1] /\ Sq(e.obs.m2) = E.mats[2]
                                      /\ [a \in 1..Len(e.obs.used) |-> e.obs.used[a] + 1] = E.used
      (* solve: exact zeros exactly on the removed amplitudes; the values on the used ones are judged by C07 *)
      [] e.op = "solve_pattern" -> { i \in 1..Len(e.obs) : e.obs[i] # 0 } \subseteq { E[a] : a \in 1..Len(E) }
                                   /\ e.zero_off_used
TStep == /\ l <= Len(Trace) /\ l' = l + 1
         /\ LET e == Trace[l]
                E == Expected(e)
            IN /\ mat' = Sq(e.m) /\ op' = e.op /\ res' = E
               /\ Verdict(e.id, IF Same(e, E) THEN "ok" ELSE "fail", e.op)
TSpec == TInit /\ [][TStep]_tvars
Done == TLCGet("stats").diameter - 1 = Len(Trace)
=============================================================================
