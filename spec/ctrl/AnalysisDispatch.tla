--------------------------- MODULE AnalysisDispatch ---------------------------
(***************************************************************************)
(* compmech/analysis/analysis.py : class Analysis, method static() - what  *)
(* one Analysis OBJECT does over a history of attribute assignments and    *)
(* static() calls (C09: "a second run on an object that already ran equals *)
(* a fresh object's run").  The Newton-Raphson driver itself is the module *)
(* NewtonRaphson; here a non-linear run is the token                       *)
(*     <<"NR", initialInc, effective maxInc>>                              *)
(* i.e. "the driver ran with these increment limits" (every other setting  *)
(* is read by the driver directly from the attribute the user assigned).   *)
(*                                                                         *)
(* analysis.py:132-158                                                     *)
(*   self.increments = []; self.cs = []          new lists on every call   *)
(*   NLgeom: self.maxInc = max(self.initialInc, self.maxInc)   <- persists *)
(*           NL_method 'NR' -> _solver_NR ; 'arc_length' -> NameError      *)
(*           (arc_length.py has no imports: `log`, `solve`, `np` undefined)*)
(*           anything else -> ValueError                                   *)
(*   linear: c = solve(k0, fext()); cs = [c]; increments = [1.]            *)
(*   self.last_analysis = 'static'   (only reached without an exception)   *)
(* The class has no freq/lb methods (compmech.analysis.freq / lb are free  *)
(* functions that take matrices), so there is no other dispatch.           *)
(*                                                                         *)
(* KF_C09_MaxIncRatchets = TRUE is the code: the maximum increment a run   *)
(* uses is max(initialInc, ATTRIBUTE maxInc) and the attribute keeps that  *)
(* value, so an earlier run with a large initialInc changes later runs.    *)
(* FALSE is the literal property: a run uses max(initialInc, the maxInc    *)
(* the user ASSIGNED) - what a fresh object given the same assignments     *)
(* does.                                                                   *)
(***************************************************************************)
EXTENDS Rat, TLC
CONSTANTS KF_C09_MaxIncRatchets,
          IncValues, MaxIncValues, Methods      \* alphabets of Next (sets of Rat / strings)

VARIABLES method, initialInc,
          maxIncAttr,        \* the attribute maxInc as it stands
          maxIncSet,         \* the value the user assigned last (default 1.0)
          lastAnalysis,      \* attribute last_analysis
          result,            \* content of (increments, cs) as a token
          gen,               \* number of (increments, cs) list pairs created so far
          handed,            \* tokens of the list pairs returned by earlier calls, by generation
          outcome            \* of the last operation: "ok" | "NameError" | "ValueError" | "set" | "new"
vars == <<method, initialInc, maxIncAttr, maxIncSet, lastAnalysis, result, gen, handed, outcome>>

None   == <<"None">>
Empty  == <<"empty">>
Linear == <<"linear">>          \* increments [1.0], cs [solve(k0, fext())]
NR(i, m) == <<"NR", i, m>>

Init == /\ method = "NR" /\ initialInc = RFrac(3, 10)      \* Analysis.__init__ (binary64 of 0.3 in the trace)
        /\ maxIncAttr = ROne /\ maxIncSet = ROne
        /\ lastAnalysis = "" /\ result = None /\ gen = 0 /\ handed = <<>> /\ outcome = "new"

SetInitialInc(v) == /\ initialInc' = v /\ outcome' = "set"
                    /\ UNCHANGED <<method, maxIncAttr, maxIncSet, lastAnalysis, result, gen, handed>>
SetMaxInc(v)     == /\ maxIncAttr' = v /\ maxIncSet' = v /\ outcome' = "set"
                    /\ UNCHANGED <<method, initialInc, lastAnalysis, result, gen, handed>>
SetMethod(m)     == /\ method' = m /\ outcome' = "set"
                    /\ UNCHANGED <<initialInc, maxIncAttr, maxIncSet, lastAnalysis, result, gen, handed>>

NewLists(tok) == /\ gen' = gen + 1                          \* :132-133
                 /\ result' = tok
                 /\ handed' = Append(handed, tok)

StaticLinear ==                                             \* :145-154
    /\ NewLists(Linear)
    /\ lastAnalysis' = "static" /\ outcome' = "ok"
    /\ UNCHANGED <<method, initialInc, maxIncAttr, maxIncSet>>

EffMaxInc == RMax(initialInc, IF KF_C09_MaxIncRatchets THEN maxIncAttr ELSE maxIncSet)    \* :136

StaticNR ==                                                 \* :135-139
    /\ method = "NR"
    /\ maxIncAttr' = EffMaxInc
    /\ NewLists(NR(initialInc, EffMaxInc))
    /\ lastAnalysis' = "static" /\ outcome' = "ok"
    /\ UNCHANGED <<method, initialInc, maxIncSet>>

StaticRaises ==                                             \* :140-143: the lists are already reset, maxInc already changed
    /\ method # "NR"
    /\ maxIncAttr' = EffMaxInc
    /\ NewLists(Empty)
    /\ outcome' = IF method = "arc_length" THEN "NameError" ELSE "ValueError"
    /\ UNCHANGED <<method, initialInc, maxIncSet, lastAnalysis>>

Next == \/ \E v \in IncValues : SetInitialInc(v)
        \/ \E v \in MaxIncValues : SetMaxInc(v)
        \/ \E m \in Methods : SetMethod(m)
        \/ StaticLinear \/ StaticNR \/ StaticRaises
Spec == Init /\ [][Next]_vars

-----------------------------------------------------------------------------
(* what a FRESH object given the same assignments would do next *)
FreshEff == RMax(initialInc, maxIncSet)
Ratcheted == KF_C09_MaxIncRatchets /\ RLt(maxIncSet, maxIncAttr)     \* signature of the finding

(* the next non-linear run does not depend on the runs made before *)
HistoryIndependent == (EffMaxInc = FreshEff) \/ (Ratcheted /\ RLt(FreshEff, EffMaxInc))
(* a successful call leaves last_analysis = 'static'; a failing one leaves it alone *)
LastAnalysisOK == (outcome = "ok" => lastAnalysis = "static")
(* lists handed out by earlier calls are never touched again: every call makes new ones *)
HandedKept == [][/\ Len(handed') >= Len(handed)
                 /\ \A g \in 1..Len(handed) : handed'[g] = handed[g]
                 /\ (gen' # gen => gen' = gen + 1 /\ Len(handed') = gen')]_vars
(* linear runs neither read nor write the increment limits *)
LinearLeavesLimits == [][(result' = Linear /\ gen' # gen) => maxIncAttr' = maxIncAttr]_vars
=============================================================================
