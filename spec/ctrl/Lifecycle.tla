------------------------------ MODULE Lifecycle ------------------------------
(***************************************************************************)
(* C20 - lazily derived attributes of the compmech objects and the public  *)
(* evaluation calls, as a state machine.                                   *)
(*                                                                         *)
(* State: derived : Attr -> {"Unset","Def","Stale"}.  "Def" = the          *)
(* attribute holds the value determined by the definition of the object;   *)
(* "Stale" = it holds a value that is NOT the one the definition           *)
(* determines (derived from incomplete inputs, e.g. a laminate built       *)
(* without its offset, or alpharad = 0 of a cone before _rebuild).         *)
(* ckey : cached attribute -> which argument it was computed for.          *)
(*                                                                         *)
(* Every public method is a *script*: the sequence of steps the code       *)
(* performs on the derived attributes, transcribed by hand from the        *)
(* sources (file:line given at each script).  Steps:                       *)
(*   R a   consume a (fails if Unset, taints the result if Stale)          *)
(*   D a   derive a unconditionally            -> Def                      *)
(*   L a   derive a lazily (only if Unset)     -> Def                      *)
(*   S a   derive a lazily from incomplete inputs (only if Unset) -> Stale *)
(*   X a   reset a                             -> Unset                    *)
(*   Z a   overwrite a with a value other than the definition's -> Stale   *)
(*   Y a   the definition changed under a: if a is not Unset   -> Stale    *)
(*   V a deps  derive a from deps: Def if all deps are Def, else Stale     *)
(*   E t   the call re-defines aspect t of the object (defn' = defn + t)   *)
(*   W a   write an output attribute (no status) / P a  peek (no effect)   *)
(*   B t   the call is broken at this point in every state (pseudo attr t); *)
(*         the steps after it say what the call does once that is repaired *)
(*   A a b t  assert a == b: fails (pseudo attr t) if exactly one is Unset *)
(*   I a s if a is Unset run sub-script s / J a s  if a is not Unset run s *)
(*   C a deps key s   cached: if a is Unset run s and fill a (Def if all   *)
(*         deps are Def else Stale) for argument `key`; otherwise REUSE it *)
(* Reads(M), Derives(M), Writes(M) are the sets of attributes under the    *)
(* R / D,L,S,X,C / W steps of Script(M); Touches(M) the caller arrays.     *)
(*                                                                         *)
(* Call(M) is always enabled.  Outcome: "fails"(M, a) at the first R of an *)
(* Unset attribute (the steps before it have taken effect), "wrong" if a   *)
(* Stale attribute was consumed or a cache was reused for another          *)
(* argument, else "ok" with result Result(kind, M) - a function of the     *)
(* definition only.                                                        *)
(*                                                                         *)
(* The literal property (Deviations = {}): NoFailure, HistoryIndependent,  *)
(* CacheCoherent.  Known findings are named deviations: each lists the     *)
(* exact (class, method, attribute) signatures it explains, and for        *)
(* failures the exception the code raises today.                           *)
(***************************************************************************)
EXTENDS Naturals, Sequences, FiniteSets, TLC

CONSTANTS Kinds,       \* object kinds explored
          MaxLen,      \* bound on the number of calls of a behaviour
          Deviations   \* names of the deviations switched on ({} = the literal property)

VARIABLES kind, derived, ckey, defn, n, last
vars == <<kind, derived, ckey, defn, n, last>>
(* defn: the redefinitions (tags) applied to the object since it was created; the reference of a call *)
(* is the same call on a fresh object to which the same redefinitions were applied first             *)

AllKinds == {"Plate", "PlateRedef", "CPanel", "KPanel", "Assembly", "BayPlain", "BayBeta", "BayB1", "BayB1b",
             "BayB2", "BayT2", "Cyl", "Cone"}
Class(k) == IF k \in {"Plate", "PlateRedef", "CPanel", "KPanel"} THEN "Panel"
            ELSE IF k = "Assembly" THEN "Assembly"
            ELSE IF k \in {"Cyl", "Cone"} THEN "ConeCyl" ELSE "Bay"

(* ------------------------------- steps -------------------------------- *)
StR(ro, a) == <<"R", <<ro, a>>>>
StD(ro, a) == <<"D", <<ro, a>>>>
StL(ro, a) == <<"L", <<ro, a>>>>
StS(ro, a) == <<"S", <<ro, a>>>>
StX(ro, a) == <<"X", <<ro, a>>>>
StZ(ro, a) == <<"Z", <<ro, a>>>>
StY(ro, a) == <<"Y", <<ro, a>>>>
StV(ro, a, deps) == <<"V", <<ro, a>>, deps>>
StE(t) == <<"E", <<"", t>>>>
StW(ro, a) == <<"W", <<ro, a>>>>
StP(ro, a) == <<"P", <<ro, a>>>>
StB(t)     == <<"B", <<"", t>>>>
StA(ro, a, ro2, b, t) == <<"A", <<ro, a>>, <<ro2, b>>, <<"", t>>>>
StI(ro, a, sub) == <<"I", <<ro, a>>, sub>>
StJ(ro, a, sub) == <<"J", <<ro, a>>, sub>>
StC(ro, a, deps, key, sub) == <<"C", <<ro, a>>, deps, key, sub>>
StWs(ro, names) == [i \in 1..Len(names) |-> StW(ro, names[i])]
StXs(ro, names) == [i \in 1..Len(names) |-> StX(ro, names[i])]
StPs(ro, names) == [i \in 1..Len(names) |-> StP(ro, names[i])]

(* ----------------- Panel (compmech/panel/_panel.py) ------------------- *)
(* ro = role of the panel: "" (the object itself), "p1"/"p2" (panels of an *)
(* assembly or bay), "base"/"flange" (panels of a stiffener).  sized: the  *)
(* caller passes size=..., so get_size() is not called.                    *)
PRebuild(ro) == <<StP(ro, "r"), StL(ro, "model"), StP(ro, "laminaprop"), StL(ro, "laminaprops"), StP(ro, "plyt"),
                  StL(ro, "plyts")>>   \* :216-242 (r, alphadeg select the model)
PGetSize(ro) == <<StR(ro, "model"), StD(ro, "size")>>                                   \* :259-261
PSize(ro, sized) == IF sized THEN <<>> ELSE PGetSize(ro)
PGeom(ro) == <<StD(ro, "alpharad"), StL(ro, "r")>>                                      \* :376-378 (r: None -> 0.)
PLam(ro)  == <<StP(ro, "Nxx_cte"), StR(ro, "plyts"), StR(ro, "laminaprops"),
               StV(ro, "lam", {<<ro, "plyts">>, <<ro, "laminaprops">>}), StV(ro, "F", {<<ro, "lam">>})>>   \* :380-385
PK0(ro, sized)  == PRebuild(ro) \o PSize(ro, sized) \o <<StR(ro, "model")>> \o PGeom(ro) \o PLam(ro)
                   \o <<StW(ro, "k0")>>                                                 \* calc_k0 :365-435
PK0c(ro, sized) == PRebuild(ro) \o PSize(ro, sized) \o <<StR(ro, "model")>> \o PGeom(ro) \o PLam(ro)
                   \o <<StR(ro, "F"), StW(ro, "k0")>>                                     \* :396-408 (Fnxny = self.F)
PKG0(ro, sized) == PRebuild(ro) \o PSize(ro, sized) \o <<StR(ro, "model")>> \o PGeom(ro)
                   \o <<StW(ro, "kG0")>>                                                \* calc_kG0 :445-492
PKG0c(ro, sized) == PRebuild(ro) \o PSize(ro, sized) \o <<StR(ro, "model")>> \o PGeom(ro)
                   \o <<StR(ro, "lam"), StW(ro, "kG0")>>                                  \* :478-479 _get_lam_F
PKT(ro, sized)  == PK0c(ro, sized) \o PKG0c(ro, sized) \o <<StW(ro, "kT")>>             \* calc_kT :497-504
PKM(ro, sized)  == <<StR(ro, "model")>> \o PGeom(ro) \o PSize(ro, sized)
                   \o <<StR(ro, "plyts"), StW(ro, "kM")>>                                 \* calc_kM :510-541 (no _rebuild)
PKA(ro)   == <<StR(ro, "model")>> \o PGetSize(ro) \o <<StL(ro, "r"), StW(ro, "kA")>>         \* calc_kA :549-597 (no _rebuild)
PCA(ro)   == <<StR(ro, "model"), StR(ro, "size"), StW(ro, "cA")>>                           \* calc_cA :605-611
PFext(ro) == PRebuild(ro) \o <<StR(ro, "model")>> \o PGetSize(ro)                       \* calc_fext :1135-1172
PFint(ro, sized) == <<StR(ro, "model")>> \o PSize(ro, sized) \o PGeom(ro) \o <<StR(ro, "F")>>   \* calc_fint :1210-1240
PUvw(ro)    == <<StW(ro, "Xs"), StW(ro, "Ys"), StR(ro, "model")>>
               \o StWs(ro, <<"u", "v", "w", "phix", "phiy">>)                           \* uvw :964-976
PStrain(ro) == <<StW(ro, "Xs"), StW(ro, "Ys"), StR(ro, "model"), StR(ro, "r"), StR(ro, "alpharad")>>  \* strain :1008-1021 + fstrain
PStress(ro) == PStrain(ro) \o <<StR(ro, "F")>>                                          \* stress :1056-1068
PPlot(ro)   == StPs(ro, <<"u", "v", "w", "phix", "phiy">>) \o PUvw(ro)                  \* plot :1391-1402, 1506-1515
AnW == StWs("an", <<"line_search", "kT_initial_state", "compute_every_n", "increments", "cs",
                  "last_analysis", "maxInc">>)
PLbAn(ro, an) == PK0(ro, FALSE) \o PKG0(ro, FALSE) \o StWs(ro, <<"eigvals", "eigvecs">>)
                 \o <<StW(an, "last_analysis")>>                                       \* lb :674-733
PLb(ro)   == PLbAn(ro, "an")
PFreq(ro) == PK0(ro, FALSE) \o PKM(ro, FALSE) \o StWs(ro, <<"eigvals", "eigvecs">>)
             \o <<StW("an", "last_analysis")>>                                          \* freq :792-925
PStatic(ro) == PRebuild(ro) \o AnW \o PFext(ro) \o PK0(ro, FALSE) \o <<StW(ro, "increments")>>    \* static :1275-1301
PStaticNL(ro) == PRebuild(ro) \o <<StP("an", "maxInc")>> \o AnW \o PFext(ro) \o PK0(ro, FALSE)
                 \o PKT(ro, FALSE) \o PFint(ro, FALSE) \o <<StW(ro, "increments")>>      \* + newton_raphson.py

PanelScript(m) ==
    CASE m = "calc_k0"    -> PK0("", FALSE)
      [] m = "calc_k0_c"  -> PK0c("", FALSE)
      [] m = "calc_kG0"   -> PKG0("", FALSE)
      [] m = "calc_kG0_c" -> PKG0c("", FALSE)
      [] m = "calc_kT_c"  -> PKT("", FALSE)
      [] m = "calc_kM"    -> PKM("", FALSE)
      [] m = "calc_kA"    -> PKA("")
      [] m = "calc_cA"    -> PCA("")
      [] m = "calc_fext"  -> PFext("")
      [] m = "calc_fint"  -> PFint("", FALSE)
      [] m \in {"lb", "lb_dense"}     -> PLb("")
      [] m \in {"freq", "freq_dense"} -> PFreq("")
      [] m = "static"     -> PStatic("")
      [] m = "static_NL"  -> PStaticNL("")
      [] m = "uvw"        -> PUvw("")
      [] m = "strain"     -> PStrain("")
      [] m = "stress"     -> PStress("")
      [] m = "plot"       -> PPlot("")
      \* re-definitions between evaluation calls (kind PlateRedef): a constant pre-load, and ply thickness + material
      [] m = "redef_preload" -> <<StE("preload"), StW("", "Nxx_cte")>>                       \* Nxx_cte is read by calc_k0 directly (:412-422)
      [] m = "redef_lam"  -> <<StE("lam"), StW("", "plyt"), StW("", "laminaprop"), StY("", "plyts"), StY("", "laminaprops"), StY("", "lam"), StY("", "F")>>
                             \* plyt / laminaprop changed: the per-ply lists are only built when empty (:234-242)

KPanelMethods == {"calc_k0", "calc_kG0", "calc_kM", "calc_fext", "lb", "lb_dense", "freq",
                  "freq_dense", "static", "uvw", "plot"}
RedefMethods == {"calc_k0", "calc_k0_c", "calc_kG0", "calc_kG0_c", "calc_kT_c", "calc_kM", "lb_dense", "freq_dense",
                 "static", "stress", "redef_preload", "redef_lam"}
PanelMethods == KPanelMethods \cup {"calc_k0_c", "calc_kG0_c", "calc_kT_c", "calc_kA", "calc_cA",
                                    "calc_fint", "static_NL", "strain", "stress"}

(* -------- PanelAssembly (compmech/panel/assembly/assembly.py) --------- *)
(* calc_kt_kr (connections/penalty_constants.py:40-55): panel._rebuild(),  *)
(* and if lam is unset a laminate WITHOUT the panel's offset is stored.    *)
KtKr(x, y) == PRebuild(x) \o <<StS(x, "lam")>> \o PRebuild(y) \o <<StS(y, "lam")>>
              \o <<StR(x, "lam"), StR(y, "lam")>>
ASize == <<StD("", "size")>>                                                            \* get_size :91-93
AConn(key) == <<StC("", "k0_conn", {<<"p1", "lam">>, <<"p2", "lam">>}, key,
                  ASize \o KtKr("p1", "p2"))>>                                        \* get_k0_conn :490-578
AStrain1(ro) == <<StR(ro, "model"), StR(ro, "r"), StR(ro, "alpharad")>>
AssemblyScript(m) ==
    CASE m = "calc_k0"    -> ASize \o PK0("p1", TRUE) \o PK0("p2", TRUE) \o AConn("self") \o <<StW("", "k0")>>
      [] m = "calc_k0_c"  -> ASize \o PK0c("p1", TRUE) \o PK0c("p2", TRUE) \o AConn("self") \o <<StW("", "k0")>>
      [] m = "calc_kG0"   -> ASize \o PKG0("p1", TRUE) \o PKG0("p2", TRUE) \o <<StW("", "kG0")>>
      [] m = "calc_kG0_c" -> ASize \o PKG0c("p1", TRUE) \o PKG0c("p2", TRUE) \o <<StW("", "kG0")>>
      [] m = "calc_kM"    -> ASize \o PKM("p1", TRUE) \o PKM("p2", TRUE) \o <<StW("", "kM")>>
      [] m = "calc_kT_c"  -> ASize \o PK0c("p1", TRUE) \o PKG0c("p1", TRUE) \o PK0c("p2", TRUE)
                             \o PKG0c("p2", TRUE) \o AConn("self") \o <<StW("", "kT")>>
      [] m = "calc_fint"  -> ASize \o PFint("p1", TRUE) \o PFint("p2", TRUE) \o AConn("self")
                             \o <<StW("", "fint")>>                                     \* :697-710  sum of the panels + k0_conn*c
      [] m = "calc_fext"  -> ASize \o PFext("p1") \o PFext("p2") \o <<StW("", "fext")>>
      [] m = "get_k0_conn"     -> AConn("self")
      [] m = "get_k0_conn_arg" -> AConn("arg")
      [] m \in {"uvw", "plot"} -> <<StR("p1", "model"), StR("p2", "model")>>              \* :352-369
      [] m = "p1_lb_dense" -> PLbAn("p1", "p1.an")          \* a member panel used on its own after / before the assembly
      [] m = "strain"     -> AStrain1("p1") \o AStrain1("p2")
      [] m = "stress"     -> AStrain1("p1") \o <<StR("p1", "F")>> \o AStrain1("p2") \o <<StR("p2", "F")>>
AssemblyMethods == {"calc_k0", "calc_k0_c", "calc_kG0", "calc_kG0_c", "calc_kM", "calc_kT_c", "calc_fint",
                    "calc_fext", "get_k0_conn", "get_k0_conn_arg", "uvw", "strain", "stress", "plot",
                    "p1_lb_dense"}

(* ---- StiffPanelBay (stiffpanelbay.py) + stiffeners (stiffener/*.py) --- *)
BaseReset == StXs("base", <<"model", "alpharad", "r", "lam", "F", "size">>)
S1W == StPs("s", <<"Asb", "Asf">>)           \* Asb / Asf are tested for None before they are (re)computed
       \o StWs("s", <<"hf", "Asf", "flam", "Asb", "dbf", "Iyy", "Jxx", "As", "E1", "S1", "F1">>)
RAssert == <<StA("p1", "r", "p2", "r", "r_mismatch")>>      \* assert self.panel1.r == self.panel2.r
SReb(k) ==   \* stiffener._rebuild
    CASE k = "BayB1"  -> RAssert \o S1W                                                          \* bladestiff1d.py:62-113
      [] k = "BayB1b" -> RAssert \o S1W \o BaseReset \o <<StW("s", "base")>>                       \* :78-100 a NEW base Panel every time
      [] k = "BayB2"  -> RAssert \o <<StR("flange", "plyts"), StR("flange", "laminaprops"), StD("flange", "lam"),
                                       StW("s", "dpb"), StZ("base", "lam")>>          \* bladestiff2d.py:80-96
                         \* base.lam is rebuilt here with offset -(h+hb)/2 from the CURRENT skin thickness h, whereas
                         \* base.offset (used by base.calc_k0) was fixed at construction, when the skin panels of a bay
                         \* defined through plyt still have plyts = [] (h = 0): two different laminates alternate in
                         \* base.lam.  No call consumes the one written here (calc_k0 re-derives it first).
      [] k = "BayT2"  -> RAssert \o <<StR("flange", "plyts"), StR("flange", "laminaprops"), StD("flange", "lam"),
                                       StW("s", "dpb"), StR("base", "plyts"), StR("base", "laminaprops"),
                                       StD("base", "lam")>>                            \* tstiff2d.py:89-118
      [] OTHER -> <<>>
BReb(k) == PRebuild("p1") \o <<StL("", "model")>> \o PRebuild("p2") \o <<StP("", "model")>> \o SReb(k)   \* :157-178
StiffSizes(k) == CASE k = "BayB2" -> PGetSize("flange")
                   [] k = "BayT2" -> PGetSize("base") \o PGetSize("flange")
                   [] OTHER -> <<>>
BSize(k) == <<StR("", "model"), StD("", "size")>> \o StiffSizes(k)                        \* get_size :217-226
SK0(k) ==
    CASE k = "BayB1"  -> SReb(k) \o <<StW("s", "k0")>>
      [] k = "BayB1b" -> SReb(k) \o PK0("base", TRUE) \o <<StW("s", "k0")>>
      [] k = "BayB2"  -> SReb(k) \o PK0("base", TRUE) \o PK0("flange", TRUE) \o KtKr("base", "flange")
                         \o <<StW("s", "k0")>> \o PGetSize("flange")
      [] k = "BayT2"  -> SReb(k) \o PGetSize("base") \o PK0("base", TRUE) \o PK0("flange", TRUE)
                         \o KtKr("p1", "base") \o KtKr("base", "flange") \o <<StW("s", "k0")>>
                         \o PGetSize("base") \o PGetSize("flange")
      [] OTHER -> <<>>
SKG0(k) ==
    CASE k \in {"BayB1", "BayB1b"} -> SReb(k) \o <<StW("s", "kG0")>>
      [] k = "BayB2"  -> SReb(k) \o PKG0("flange", TRUE) \o <<StW("s", "kG0")>> \o PGetSize("flange")
      [] k = "BayT2"  -> SReb(k) \o PGetSize("base") \o PKG0("base", TRUE) \o PKG0("flange", TRUE)
                         \o <<StW("s", "kG0")>> \o PGetSize("base") \o PGetSize("flange")
      [] OTHER -> <<>>
SKM(k) ==
    CASE k = "BayB1"  -> SReb(k) \o <<StR("p1", "plyts"), StR("p2", "plyts"), StW("s", "kM")>>
      [] k = "BayB1b" -> SReb(k) \o PKM("base", TRUE) \o <<StW("s", "kM")>>             \* bladestiff1d.py:196-197
      [] k = "BayB2"  -> SReb(k) \o PKM("base", TRUE) \o PKM("flange", TRUE) \o <<StW("s", "kM")>>
                         \o PGetSize("flange")
      [] k = "BayT2"  -> SReb(k) \o PGetSize("base") \o PKM("base", TRUE) \o PKM("flange", TRUE)
                         \o <<StW("s", "kM")>> \o PGetSize("base") \o PGetSize("flange")
      [] OTHER -> <<>>
Is1D(k) == k \in {"BayB1", "BayB1b"}
BK0(k)  == BReb(k) \o BSize(k) \o PK0("p1", TRUE) \o PK0("p2", TRUE)
           \o (IF Is1D(k) THEN SK0(k) ELSE <<>>) \o <<StR("", "model")>>
           \o (IF Is1D(k) THEN <<>> ELSE SK0(k)) \o <<StW("", "k0")>>                   \* calc_k0 :638-693
BKG0(k) == BReb(k) \o BSize(k) \o PKG0("p1", TRUE) \o PKG0("p2", TRUE)
           \o (IF Is1D(k) THEN SKG0(k) ELSE <<>>) \o <<StR("", "model")>>
           \o (IF Is1D(k) THEN <<>> ELSE SKG0(k)) \o <<StW("", "kG0")>>                 \* calc_kG0 :696-753
BKM(k)  == BReb(k) \o BSize(k) \o PKM("p1", TRUE) \o PKM("p2", TRUE)
           \o (IF Is1D(k) THEN SKM(k) ELSE <<>>) \o <<StR("", "model")>>
           \o (IF Is1D(k) THEN <<>> ELSE SKM(k)) \o <<StW("", "kM")>>                   \* calc_kM :756-813
BKA(k)  == BReb(k) \o StWs("p1", <<"flow", "Mach", "rho_air", "speed_sound">>) \o BSize(k)
           \o <<StW("p1", "size"), StW("p1", "V"), StX("p1", "r")>>                  \* calc_kA :817-863  p.size = self.get_size(); p.r = self.r
           \o StWs("p1", <<"beta", "gamma", "aeromu">>) \o PKA("p1") \o <<StW("", "kA")>>
BCA(k)  == BReb(k) \o BSize(k)                                                       \* calc_cA :882-922
           \o (IF k = "BayBeta" THEN <<>> ELSE <<StB("r_none")>>)   \* Mach given on a flat bay: 2.*self.r with r None
           \o <<StD("p1", "size")>> \o PCA("p1") \o <<StW("", "cA")>>
BFext(k) == <<StR("", "model")>>                                                        \* calc_fext :1575-1633 (no _rebuild)
            \o (CASE k = "BayB2" -> <<StR("flange", "model")>> \o PGetSize("flange")
                  [] k = "BayT2" -> PGetSize("base") \o <<StR("base", "model")>> \o PGetSize("flange")
                                    \o <<StR("flange", "model")>>
                  [] OTHER -> <<>>)
BUvwSkin(k) == BSize(k) \o <<StR("", "model")>> \o StWs("", <<"u", "v", "w", "phix", "phiy">>)   \* uvw_skin :959-986 (no _rebuild)
BUvwStiff(k) == <<StR("", "model")>> \o StiffSizes(k) \o BSize(k) \o StWs("", <<"Xs", "Ys">>)
                \o <<StR("flange", "model")>> \o StWs("", <<"u", "v", "w", "phix", "phiy">>)      \* uvw_stiffener :1032-1096
BayScript(k, m) ==
    CASE m = "calc_k0"   -> BK0(k)
      [] m = "calc_kG0"  -> BKG0(k)
      [] m = "calc_kM"   -> BKM(k)
      [] m = "calc_kA"   -> BKA(k)
      [] m = "calc_cA"   -> BCA(k)
      [] m = "calc_fext" -> BFext(k)
      [] m = "uvw_skin"  -> BUvwSkin(k)
      [] m = "uvw_stiffener" -> BUvwStiff(k)
      [] m = "an_lb"     -> BK0(k) \o BKG0(k)       \* compmech.analysis.lb(bay.calc_k0(), bay.calc_kG0())
      [] m = "an_freq"   -> BK0(k) \o BKM(k)
      [] m = "an_static" -> BK0(k) \o BFext(k)
BayMethods(k) == IF k = "BayBeta" THEN {"calc_k0", "calc_kM", "calc_kA", "calc_cA"}
                 ELSE {"calc_k0", "calc_kG0", "calc_kM", "calc_kA", "calc_cA", "calc_fext", "uvw_skin",
                       "an_lb", "an_freq", "an_static"}
                      \cup (IF k \in {"BayB2", "BayT2"} THEN {"uvw_stiffener"} ELSE {})

(* ---------------- ConeCyl (compmech/conecyl/conecyl.py) ---------------- *)
CReb == <<StJ("", "k0", <<StW("", "size")>>)>>                                            \* _rebuild :216-434
        \o <<StD("", "model"), StD("", "alpharad"), StD("", "sina"), StD("", "cosa"), StL("", "L"), StL("", "H"),
             StD("", "r1")>> \o StWs("", <<"thetaTrad", "tLArad", "betarad", "LA">>)
        \o <<StL("", "laminaprops"), StL("", "plyts"), StD("", "is_cylinder"), StD("", "excluded_dofs"),
             StW("", "excluded_dofs_ck")>>
        \o <<StI("", "_load_rebuilt", <<StD("", "Nxxtop"), StD("", "_load_rebuilt")>>)>>    \* :401-434
CLin == CReb \o <<StR("", "Nxxtop"), StR("", "plyts"), StR("", "laminaprops"), StD("", "lam"), StD("", "F"),
                  StD("", "kG0"), StR("", "excluded_dofs"), StD("", "k0"), StD("", "k0uk"), StD("", "k0uu")>>   \* :640-782
CFullC1 == <<StW("", "size"), StP("", "excluded_dofs"), StR("", "model"), StP("", "tLArad")>>                                   \* calc_full_c :606-618 (full-size c)
ConeBase(m) == CASE m = "uvw_inc" -> "uvw" [] m = "strain_inc" -> "strain" [] m = "calc_fint_inc" -> "calc_fint"
                 [] m = "calc_kT_inc" -> "calc_kT" [] OTHER -> m      \* the same query with inc = 0.5 (calc_full_c :606-618)
ConeScript(mm) ==
  LET m == ConeBase(mm)
      \* with inc # 1 calc_full_c scales the entries listed in excluded_dofs: the list is consumed ([] before _rebuild)
      CFullC == IF m = mm THEN CFullC1 ELSE CFullC1 \o <<StR("", "excluded_dofs")>>
  IN
    CASE m = "calc_k0"   -> <<StC("", "k0uu", {}, "def", CLin)>>                         \* :785-788
      [] m = "calc_kT"   -> CFullC \o <<StI("", "k0", CLin)>>
                            \o <<StR("", "alpharad"), StR("", "L"), StR("", "F"), StR("", "k0"), StR("", "excluded_dofs")>>
                            \o StWs("", <<"kTuk", "kTuu", "kL", "kG">>)                   \* :1084-1180
      [] m = "calc_fint" -> CFullC \o <<StR("", "alpharad"), StR("", "L"), StR("", "F"), StR("", "k0"),
                                        StR("", "excluded_dofs")>>                         \* :1415-1431
      [] m = "calc_fext" -> CReb \o <<StI("", "k0", CLin)>>
                            \o <<StR("", "Nxxtop"), StR("", "sina"), StR("", "cosa"), StR("", "L"), StW("", "size"),
                                 StR("", "excluded_dofs"), StR("", "k0uk")>>                 \* :1530-1654
      [] m = "lb"        -> CLin \o StWs("", <<"eigvals", "eigvecs">>) \o <<StW("an", "last_analysis")>>   \* :864-941
      [] m = "static"    -> StWs("", <<"cs", "increments">>) \o StWs("an", <<"increments", "cs", "last_analysis">>)
                            \o CReb \o <<StI("", "k0", CLin)>>
                            \o <<StR("", "Nxxtop"), StR("", "sina"), StR("", "cosa"), StR("", "L"), StW("", "size"),
                                 StR("", "excluded_dofs"), StR("", "k0uk")>>
                            \o <<StC("", "k0uu", {}, "def", CLin)>>                        \* :1687-1717 + analysis.py:125-129
      [] m = "uvw"       -> StWs("", <<"Xs", "Ts">>) \o <<StR("", "alpharad"), StR("", "L")>> \o CFullC
                            \o StWs("", <<"u", "v", "w", "phix", "phit">>)                \* :1224-1246
      [] m = "strain"    -> StWs("", <<"Xs", "Ts">>) \o CFullC \o <<StR("", "sina"), StR("", "cosa"), StR("", "L")>>   \* :1273-1308
      [] m = "stress"    -> StWs("", <<"Xs", "Ts">>) \o CFullC
                            \o <<StR("", "sina"), StR("", "cosa"), StR("", "L"), StR("", "F")>>  \* :1335-1370
ConeMethods == {"calc_k0", "calc_kT", "calc_fint", "calc_fext", "lb", "static", "uvw", "strain", "stress",
                "uvw_inc", "strain_inc", "calc_fint_inc", "calc_kT_inc"}

(* ------------------------------ dispatch ------------------------------ *)
Methods(k) == CASE k \in {"Plate", "CPanel"} -> PanelMethods
                [] k = "PlateRedef" -> RedefMethods
                [] k = "KPanel"   -> KPanelMethods       \* the conical model has no kA/cA/strain/non-linear kernels
                [] k = "Assembly" -> AssemblyMethods
                [] k \in {"Cyl", "Cone"} -> ConeMethods
                [] OTHER -> BayMethods(k)
Script(k, m) == CASE Class(k) = "Panel"    -> PanelScript(m)
                  [] Class(k) = "Assembly" -> AssemblyScript(m)
                  [] Class(k) = "ConeCyl"  -> ConeScript(m)
                  [] OTHER -> BayScript(k, m)

(* caller-supplied arrays of each call (hashed before/after by the replay) *)
Touches(k, m) ==
    CASE m \in {"calc_k0_c", "calc_kG0_c", "calc_kT_c", "calc_kT", "calc_fint", "plot", "uvw_stiffener",
                "calc_fint_inc", "calc_kT_inc"} -> {"c"}
      [] m \in {"uvw", "strain", "stress", "uvw_skin", "uvw_inc", "strain_inc"} ->
            IF Class(k) = "Assembly" THEN {"c"}
            ELSE IF Class(k) = "ConeCyl" THEN {"c", "xs", "ts"} ELSE {"c", "xs", "ys"}
      [] m \in {"an_lb", "an_freq", "an_static"} -> {"K", "M"}
      [] OTHER -> {}

(* attribute sets of a script *)
RECURSIVE Under(_, _)
Under(steps, ops) ==      \* attributes under steps whose operation is in ops (sub-scripts included)
    IF steps = <<>> THEN {}
    ELSE LET s == Head(steps)
             here == IF s[1] \in ops THEN (IF s[1] = "A" THEN {s[2], s[3]} ELSE {s[2]}) ELSE {}
             sub == IF s[1] \in {"I", "J"} THEN Under(s[3], ops)
                    ELSE IF s[1] = "C" THEN Under(s[5], ops) ELSE {}
         IN here \cup sub \cup Under(Tail(steps), ops)
StatusOps == {"R", "D", "L", "S", "X", "Z", "Y", "V", "I", "J", "C", "A"}
Reads(k, m)   == Under(Script(k, m), {"R"})
Derives(k, m) == Under(Script(k, m), {"D", "L", "S", "X", "Z", "Y", "V", "C"})
Writes(k, m)  == Under(Script(k, m), {"W"})
(* an attribute read before the call writes it must be consumed (R), probed (L, S, I, J, C, A, V) or peeked (P) *)
(* by the script; a pure output (W) read before it is written is hidden state the script does not know         *)
MayRead(k, m)  == Under(Script(k, m), {"R", "L", "S", "P", "I", "J", "C", "A"}) \cup Derives(k, m)
MayWrite(k, m) == Derives(k, m) \cup Writes(k, m)
Attrs(k) == UNION {Under(Script(k, m), StatusOps) : m \in Methods(k)}
Universe(k) == UNION {MayRead(k, m) \cup MayWrite(k, m) : m \in Methods(k)}

(* what holds right after the definition statements *)
InitDef(k) ==
    CASE k \in {"CPanel", "KPanel"} -> {<<"", "r">>}
      [] k = "BayB1b" -> {<<"base", "plyts">>, <<"base", "laminaprops">>}
      [] k = "BayB2" -> {<<"flange", "model">>, <<"flange", "plyts">>, <<"flange", "laminaprops">>,
                         <<"base", "plyts">>, <<"base", "laminaprops">>}
      [] k = "BayT2" -> {<<"flange", "model">>, <<"flange", "plyts">>, <<"flange", "laminaprops">>,
                         <<"base", "model">>, <<"base", "plyts">>, <<"base", "laminaprops">>}
      [] k = "Cyl"  -> {<<"", "model">>, <<"", "alpharad">>, <<"", "H">>}
      [] k = "Cone" -> {<<"", "model">>, <<"", "L">>}
      [] OTHER -> {}
InitStale(k) ==
    CASE k = "Cyl"  -> {<<"", "excluded_dofs">>}                        \* [] although pdT/pdLA are set
      [] k = "Cone" -> {<<"", "excluded_dofs">>, <<"", "alpharad">>}    \* 0. although alphadeg = 10
      [] OTHER -> {}
InitDerived(k) == [a \in Attrs(k) |-> IF a \in InitDef(k) THEN "Def"
                                      ELSE IF a \in InitStale(k) THEN "Stale" ELSE "Unset"]
Cached(k) == IF k = "Assembly" THEN {<<"", "k0_conn">>}
             ELSE IF Class(k) = "ConeCyl" THEN {<<"", "k0uu">>} ELSE {}
InitKey(k) == [a \in Cached(k) |-> "none"]

(* ----------------------------- interpreter ---------------------------- *)
RECURSIVE Run(_, _)
Run(steps, st) ==
    IF steps = <<>> \/ st.out = "fails" THEN st
    ELSE LET s == Head(steps)
             rest == Tail(steps)
             op == s[1]
             a == s[2]
         IN CASE op = "R" -> IF st.d[a] = "Unset" THEN [st EXCEPT !.out = "fails", !.attr = a]
                             ELSE Run(rest, IF st.d[a] = "Stale" THEN [st EXCEPT !.taint = @ \cup {a}] ELSE st)
              [] op = "D" -> Run(rest, IF a \in DOMAIN st.k THEN [st EXCEPT !.d[a] = "Def", !.k[a] = "def"]
                                       ELSE [st EXCEPT !.d[a] = "Def"])
              [] op = "L" -> Run(rest, IF st.d[a] = "Unset" THEN [st EXCEPT !.d[a] = "Def"] ELSE st)
              [] op = "S" -> Run(rest, IF st.d[a] = "Unset" THEN [st EXCEPT !.d[a] = "Stale"] ELSE st)
              [] op = "X" -> Run(rest, [st EXCEPT !.d[a] = "Unset"])
              [] op = "Z" -> Run(rest, [st EXCEPT !.d[a] = "Stale"])
              [] op = "Y" -> Run(rest, IF st.d[a] # "Unset" THEN [st EXCEPT !.d[a] = "Stale"] ELSE st)
              [] op = "V" -> Run(rest, [st EXCEPT !.d[a] = IF \A x \in s[3] : st.d[x] = "Def" THEN "Def" ELSE "Stale"])
              [] op = "E" -> Run(rest, [st EXCEPT !.e = @ \cup {a[2]}])
              [] op \in {"W", "P"} -> Run(rest, st)
              [] op = "B" -> IF st.skip THEN Run(rest, st) ELSE [st EXCEPT !.out = "fails", !.attr = a]
              [] op = "A" -> IF ~st.skip /\ (st.d[a] = "Unset") # (st.d[s[3]] = "Unset")
                             THEN [st EXCEPT !.out = "fails", !.attr = s[4]] ELSE Run(rest, st)
              [] op = "I" -> IF st.d[a] = "Unset" THEN Run(s[3] \o rest, st) ELSE Run(rest, st)
              [] op = "J" -> IF st.d[a] # "Unset" THEN Run(s[3] \o rest, st) ELSE Run(rest, st)
              [] op = "C" ->
                   IF st.d[a] = "Unset"
                   THEN LET st1 == Run(s[5], st)
                        IN IF st1.out = "fails" THEN st1
                           ELSE LET fill == IF \A x \in s[3] : st1.d[x] = "Def" THEN "Def" ELSE "Stale"
                                IN Run(rest, [st1 EXCEPT !.d[a] = fill, !.k[a] = s[4],
                                                         !.taint = IF fill = "Stale" THEN @ \cup {a} ELSE @])
                   ELSE Run(rest, [st EXCEPT !.taint = IF st.d[a] = "Stale" THEN @ \cup {a} ELSE @,
                                             !.reuse = IF st.k[a] # s[4] THEN @ \cup {a} ELSE @])

NoAttr == <<"", "-">>
ExecWith(k, m, d, key, e, skip) ==
    LET st == Run(Script(k, m), [d |-> d, k |-> key, e |-> e, out |-> "ok", attr |-> NoAttr, taint |-> {},
                                 reuse |-> {}, skip |-> skip])
    IN IF st.out = "ok" /\ (st.taint # {} \/ st.reuse # {}) THEN [st EXCEPT !.out = "wrong"] ELSE st
Exec(k, m, d, key, e) == ExecWith(k, m, d, key, e, FALSE)
(* the same call if its always-broken step / assertion (pseudo attributes) were repaired *)
ExecRepaired(k, m, d, key, e) == ExecWith(k, m, d, key, e, TRUE)
Pseudo(k, a) == a \notin Attrs(k)
Result(k, m, e) == <<k, m, e>>  \* the value an "ok" call returns is a function of the (re)definition only

(* ----------------------------- deviations ----------------------------- *)
(* failures: dev, class, method, attribute name, exception raised today   *)
KFail(dv, c, m, a, et, em) == [dev |-> dv, cls |-> c, m |-> m, a |-> a, et |-> et, em |-> em]
KeyNone == "None"
RealNone == "must be real number, not NoneType"
FailTable == {
  KFail("KF_C20_Panel_calc_kM_model", "Panel", "calc_kM", "model", "KeyError", KeyNone),
  KFail("KF_C20_Panel_calc_kM_model", "Assembly", "calc_kM", "model", "KeyError", KeyNone),
  KFail("KF_C20_Panel_calc_kM_model", "Bay", "calc_kM", "model", "KeyError", KeyNone),
  KFail("KF_C20_Panel_calc_kM_model", "Bay", "an_freq", "model", "KeyError", KeyNone),
  KFail("KF_C20_Panel_calc_kA_model", "Panel", "calc_kA", "model", "TypeError", "argument of type 'NoneType' is not itera"),
  KFail("KF_C20_Panel_calc_cA_model", "Panel", "calc_cA", "model", "KeyError", KeyNone),
  KFail("KF_C20_Panel_uvw_model", "Panel", "uvw", "model", "KeyError", KeyNone),
  KFail("KF_C20_Panel_uvw_model", "Panel", "plot", "model", "KeyError", KeyNone),
  KFail("KF_C20_Panel_uvw_model", "Assembly", "uvw", "model", "KeyError", KeyNone),
  KFail("KF_C20_Panel_uvw_model", "Assembly", "plot", "model", "KeyError", KeyNone),
  KFail("KF_C20_Panel_strain_model", "Panel", "strain", "model", "KeyError", KeyNone),
  KFail("KF_C20_Panel_strain_model", "Panel", "strain", "r", "TypeError", RealNone),
  KFail("KF_C20_Panel_strain_model", "Panel", "strain", "alpharad", "AttributeError", "'Panel' object has no attribute 'alphara"),
  KFail("KF_C20_Panel_strain_model", "Panel", "stress", "model", "KeyError", KeyNone),
  KFail("KF_C20_Panel_strain_model", "Panel", "stress", "r", "TypeError", RealNone),
  KFail("KF_C20_Panel_strain_model", "Panel", "stress", "alpharad", "AttributeError", "'Panel' object has no attribute 'alphara"),
  KFail("KF_C20_Panel_strain_model", "Panel", "stress", "F", "ValueError", "Laminate ABD matrix not defined for pane"),
  KFail("KF_C20_Panel_strain_model", "Assembly", "strain", "model", "KeyError", KeyNone),
  KFail("KF_C20_Panel_strain_model", "Assembly", "strain", "r", "TypeError", RealNone),
  KFail("KF_C20_Panel_strain_model", "Assembly", "strain", "alpharad", "AttributeError", "'Panel' object has no attribute 'alphara"),
  KFail("KF_C20_Panel_strain_model", "Assembly", "stress", "model", "KeyError", KeyNone),
  KFail("KF_C20_Panel_strain_model", "Assembly", "stress", "r", "TypeError", RealNone),
  KFail("KF_C20_Panel_strain_model", "Assembly", "stress", "alpharad", "AttributeError", "'Panel' object has no attribute 'alphara"),
  KFail("KF_C20_Panel_strain_model", "Assembly", "stress", "F", "ValueError", "Laminate ABD matrix not defined for pane"),
  KFail("KF_C20_Panel_calc_kG0_lam", "Panel", "calc_kG0_c", "lam", "RuntimeError", "lam object is None!"),
  KFail("KF_C20_Panel_calc_kG0_lam", "Assembly", "calc_kG0_c", "lam", "RuntimeError", "lam object is None!"),
  KFail("KF_C20_Panel_calc_fint_model", "Panel", "calc_fint", "model", "ValueError", "None is not a valid model option"),
  KFail("KF_C20_Panel_calc_fint_model", "Panel", "calc_fint", "F", "ValueError", "Invalid shape for Finput!"),
  KFail("KF_C20_Panel_calc_fint_model", "Assembly", "calc_fint", "model", "ValueError", "None is not a valid model option"),
  KFail("KF_C20_Panel_calc_fint_model", "Assembly", "calc_fint", "F", "ValueError", "Invalid shape for Finput!"),
  KFail("KF_C20_Bay_calc_kA_r", "Bay", "*", "r_mismatch", "AssertionError", ""),
  KFail("KF_C20_Bay_calc_cA_r", "Bay", "calc_cA", "r_none", "TypeError", "unsupported operand type(s) for *: 'floa"),
  KFail("KF_C20_Bay_calc_fext_model", "Bay", "calc_fext", "model", "KeyError", KeyNone),
  KFail("KF_C20_Bay_uvw_model", "Bay", "uvw_skin", "model", "KeyError", KeyNone),
  KFail("KF_C20_Bay_uvw_model", "Bay", "uvw_stiffener", "model", "KeyError", KeyNone),
  KFail("KF_C20_ConeCyl_calc_fint_L", "ConeCyl", "calc_fint", "L", "TypeError", RealNone),
  KFail("KF_C20_ConeCyl_calc_fint_L", "ConeCyl", "calc_fint", "F", "crash", "worker process died"),
  KFail("KF_C20_ConeCyl_calc_fint_L", "ConeCyl", "calc_fint_inc", "L", "TypeError", RealNone),
  KFail("KF_C20_ConeCyl_calc_fint_L", "ConeCyl", "calc_fint_inc", "F", "crash", "worker process died"),
  KFail("KF_C20_ConeCyl_uvw_L", "ConeCyl", "uvw_inc", "L", "TypeError", RealNone),
  KFail("KF_C20_ConeCyl_uvw_L", "ConeCyl", "strain_inc", "sina", "TypeError", RealNone),
  KFail("KF_C20_ConeCyl_uvw_L", "ConeCyl", "uvw", "L", "TypeError", RealNone),
  KFail("KF_C20_ConeCyl_uvw_L", "ConeCyl", "strain", "sina", "TypeError", RealNone),
  KFail("KF_C20_ConeCyl_uvw_L", "ConeCyl", "stress", "sina", "TypeError", RealNone) }
(* wrong results: which stale attributes / cache re-uses a deviation explains *)
WrongTable == {
  [dev |-> "KF_C20_Assembly_get_k0_conn_lam", cls |-> "Assembly", stale |-> {"lam", "k0_conn"}, reuse |-> {}],
  [dev |-> "KF_C20_Assembly_get_k0_conn_conn", cls |-> "Assembly", stale |-> {}, reuse |-> {"k0_conn"}],
  [dev |-> "KF_C20_ConeCyl_uvw_alpharad", cls |-> "ConeCyl", stale |-> {"alpharad"}, reuse |-> {}],
  [dev |-> "KF_C20_ConeCyl_calc_kT_excluded_dofs", cls |-> "ConeCyl", stale |-> {"excluded_dofs"}, reuse |-> {}],
  [dev |-> "KF_C20_Panel_redefinition_plyts", cls |-> "Panel", stale |-> {"plyts", "laminaprops", "lam", "F"},
   reuse |-> {}] }
AllDeviations == {f.dev : f \in FailTable} \cup {w.dev : w \in WrongTable}

FailEntries(k, m, a, devs) == {f \in FailTable : f.dev \in devs /\ f.cls = Class(k) /\ f.m \in {m, "*"} /\ f.a = a[2]}
StaleDevs(k, a, devs) == {w.dev : w \in {x \in WrongTable : x.dev \in devs /\ x.cls = Class(k) /\ a[2] \in x.stale}}
ReuseDevs(k, a, devs) == {w.dev : w \in {x \in WrongTable : x.dev \in devs /\ x.cls = Class(k) /\ a[2] \in x.reuse}}
(* deviations that together explain outcome st of method m on kind k; {} if it is not explained *)
Explains(k, m, st, devs) ==
    IF st.out = "fails" THEN {f.dev : f \in FailEntries(k, m, st.attr, devs)}
    ELSE IF st.out = "wrong"
    THEN IF (\A a \in st.taint : StaleDevs(k, a, devs) # {}) /\ (\A a \in st.reuse : ReuseDevs(k, a, devs) # {})
         THEN UNION ({StaleDevs(k, a, devs) : a \in st.taint} \cup {ReuseDevs(k, a, devs) : a \in st.reuse})
         ELSE {}
    ELSE {}

(* ------------------------------ behaviour ----------------------------- *)
NoCall == [m |-> "-", out |-> "ok", attr |-> NoAttr, taint |-> {}, reuse |-> {}]
Init == /\ kind \in Kinds
        /\ derived = InitDerived(kind)
        /\ ckey = InitKey(kind)
        /\ defn = {}
        /\ n = 0
        /\ last = NoCall
Call(m) == LET st == Exec(kind, m, derived, ckey, defn)
           IN /\ derived' = st.d
              /\ ckey' = st.k
              /\ defn' = st.e
              /\ last' = [m |-> m, out |-> st.out, attr |-> st.attr, taint |-> st.taint, reuse |-> st.reuse]
              /\ UNCHANGED kind
(* trace validation: the observed call succeeded although a pseudo step says it cannot - follow the repaired script *)
CallRepaired(m) == LET st == ExecRepaired(kind, m, derived, ckey, defn)
                   IN /\ derived' = st.d
                      /\ ckey' = st.k
                      /\ defn' = st.e
                      /\ last' = [m |-> m, out |-> st.out, attr |-> st.attr, taint |-> st.taint, reuse |-> st.reuse]
                      /\ UNCHANGED kind
Next == /\ n < MaxLen
        /\ n' = n + 1
        /\ \E m \in Methods(kind) : Call(m)
Spec == Init /\ [][Next]_vars

(* ------------------------------ properties ---------------------------- *)
TypeOK == /\ kind \in AllKinds
          /\ \A a \in DOMAIN derived : derived[a] \in {"Unset", "Def", "Stale"}
          /\ last.out \in {"ok", "fails", "wrong"}
AsState(l) == [out |-> l.out, attr |-> l.attr, taint |-> l.taint, reuse |-> l.reuse]
(* every method can be the first call and any later call *)
NoFailure == last.out = "fails" => Explains(kind, last.m, AsState(last), Deviations) # {}
(* no call consumes a value that is not the one the definition determines *)
HistoryIndependent ==
    \A a \in last.taint \ Cached(kind) : StaleDevs(kind, a, Deviations) # {}
(* a cached attribute is only re-used for the argument it was computed for and while the
   part of the definition it depends on is unchanged *)
CacheCoherent ==
    /\ \A a \in last.reuse : ReuseDevs(kind, a, Deviations) # {}
    /\ \A a \in last.taint \cap Cached(kind) : StaleDevs(kind, a, Deviations) # {}
(* asking twice: the second call leaves the state unchanged and has the same outcome class *)
Idempotent ==
    \A m \in Methods(kind) :
        LET s1 == Exec(kind, m, derived, ckey, defn)
            s2 == Exec(kind, m, s1.d, s1.k, s1.e)
        IN \/ s2.d = s1.d /\ s2.k = s1.k /\ s2.out = s1.out /\ s2.attr = s1.attr
           \/ s2.out # "ok" /\ Explains(kind, m, s2, Deviations) # {}      \* a listed finding breaks the repetition
           \/ s1.out # "ok" /\ Explains(kind, m, s1, Deviations) # {}      \* the first call is itself a listed finding
(* every failure signature of the tables is consistent with the scripts: the attribute is read *)
TablesConsistent ==
    \A f \in FailTable : \E k \in AllKinds : Class(k) = f.cls /\ (f.m = "*" \/ f.m \in Methods(k))
=============================================================================
