----------------------------- MODULE FieldChunks -----------------------------
(***************************************************************************)
(* C11/C20 - how the field kernels (fuvw / fstrain of                      *)
(* compmech/panel/models/clt_bardell_field.pyx:50-64,124-139 and the shell *)
(* commons) spread S evaluation points over P OpenMP threads:              *)
(*   add_size = P - S % P  (0 if that equals P); the point arrays are      *)
(*   padded with add_size zeros ONLY IF S % P # 0, reshaped to (P, cols),  *)
(*   thread p evaluates row p pointwise into row p of the outputs, the     *)
(*   outputs are ravelled and trimmed to [:S].                             *)
(* Points are symbolic: input i is the integer i, a padded entry is Pad = -1, *)
(* the kernel maps x to <<"f", x>> (pointwise, no state).                  *)
(***************************************************************************)
EXTENDS Integers, Sequences, FiniteSets, TLC
CONSTANTS MaxS, MaxP
Pad == -1
VARIABLES S, P, out, phase
vars == <<S, P, out, phase>>

AddSize(s, p) == LET a == p - (s % p) IN IF a = p THEN 0 ELSE a
NewSize(s, p) == s + AddSize(s, p)
Cols(s, p) == NewSize(s, p) \div p
(* flat padded input, 0-based index *)
Flat(s, p, i) == IF s % p # 0 THEN (IF i < s THEN i ELSE Pad)     \* hstack((xs, zeros(add_size)))
                 ELSE i                                              \* reshape(xs, (P, -1))
Core(s, p, t, c) == Flat(s, p, t * Cols(s, p) + c)                   \* xs_core[t, c]
Kernel(x) == <<"f", x>>
(* row t of the outputs is written by thread t only *)
Rows(s, p) == [t \in 0..(p-1) |-> [c \in 0..(Cols(s, p)-1) |-> Kernel(Core(s, p, t, c))]]
Ravel(s, p, i) == Rows(s, p)[i \div Cols(s, p)][i % Cols(s, p)]
Result(s, p) == [i \in 0..(s-1) |-> Ravel(s, p, i)]                  \* np.ravel(us)[:size]
WrittenBy(s, p, t) == {t * Cols(s, p) + c : c \in 0..(Cols(s, p)-1)}  \* flat output indices thread t writes

Init == S \in 1..MaxS /\ P \in 1..MaxP /\ out = <<>> /\ phase = "defined"
Evaluate == /\ phase = "defined"
            /\ out' = Result(S, P)
            /\ phase' = "done"
            /\ UNCHANGED <<S, P>>
Next == Evaluate
Spec == Init /\ [][Next]_vars

Shapes == NewSize(S, P) % P = 0 /\ NewSize(S, P) >= S /\ NewSize(S, P) < S + P
PointIInSlotI == phase = "done" => \A i \in 0..(S-1) : out[i] = Kernel(i)
NoPadEscapes == phase = "done" => \A i \in DOMAIN out : out[i] # Kernel(Pad)
IndependentOfP == phase = "done" => out = Result(S, 1)
NoRace == /\ \A t, u \in 0..(P-1) : t # u => WrittenBy(S, P, t) \cap WrittenBy(S, P, u) = {}
          /\ UNION {WrittenBy(S, P, t) : t \in 0..(P-1)} = 0..(NewSize(S, P)-1)
=============================================================================
