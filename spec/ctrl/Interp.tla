-------------------------------- MODULE Interp --------------------------------
(***************************************************************************)
(* compmech/interpolate.py : interp(x, xp, fp, left, right, period), the    *)
(* one-dimensional piecewise-linear interpolant with an optional period.    *)
(* Not anchored in a listed property (nothing else in the library calls it); *)
(* modelled because it is public behaviour with a clear sequential meaning. *)
(* Abscissae and ordinates are integers, results are exact rationals (Rat). *)
(* The periodic branch is written the way the code does it, step by step:   *)
(* |period|, reduction of x and xp modulo the period, a sort of the pairs by *)
(* the reduced abscissa (ANY sorting permutation - numpy's argsort is not    *)
(* stable, so ties may come out either way), one wrapped point on each side, *)
(* then the plain interpolation.                                             *)
(***************************************************************************)
EXTENDS Rat, Integers, Sequences, FiniteSets, TLC

(* plain branch: X non-decreasing; the segment is the LAST j with X[j] <= x (binary search of numpy) *)
Seg(x, X) == CHOOSE j \in 1..(Len(X) - 1) : X[j] <= x /\ \A k \in (j+1)..(Len(X) - 1) : X[k] > x
Lin(x, X, F, j) == RAdd(RFromInt(F[j]), RFrac((x - X[j]) * (F[j+1] - F[j]), X[j+1] - X[j]))
(* left / right: <<>> for the default, <<v>> for a given value *)
Plain(x, X, F, left, right) ==
    LET n == Len(X) IN
    IF x < X[1] THEN RFromInt(IF left = <<>> THEN F[1] ELSE left[1])
    ELSE IF x > X[n] THEN RFromInt(IF right = <<>> THEN F[n] ELSE right[1])
    ELSE IF x = X[n] THEN RFromInt(F[n])
    ELSE Lin(x, X, F, Seg(x, X))

Abs(p) == IF p < 0 THEN -p ELSE p
Perms(n) == { p \in [1..n -> 1..n] : \A i, j \in 1..n : i # j => p[i] # p[j] }
SortingPerms(X) == { p \in Perms(Len(X)) : \A i \in 1..(Len(X) - 1) : X[p[i]] <= X[p[i+1]] }
(* the periodic branch for one sorting permutation *)
PeriodicWith(x, xp, fp, period, p) ==
    LET P == Abs(period)
        n == Len(xp)
        xr == x % P
        Xs == [i \in 1..n |-> xp[p[i]] % P]
        Fs == [i \in 1..n |-> fp[p[i]]]
        X == <<Xs[n] - P>> \o Xs \o <<Xs[1] + P>>
        F == <<Fs[n]>> \o Fs \o <<Fs[1]>>
    IN Plain(xr, X, F, <<>>, <<>>)
Periodic(x, xp, fp, period) ==
    { PeriodicWith(x, xp, fp, period, p) : p \in SortingPerms([i \in 1..Len(xp) |-> xp[i] % Abs(period)]) }
NoTies(xp, period) == \A i, j \in 1..Len(xp) : i # j => xp[i] % Abs(period) # xp[j] % Abs(period)

(* ---- state machine: one request, one answer -------------------------------------- *)
CONSTANTS Xs, Fv, Np, Periods
VARIABLES req, ans, phase
ivars == <<req, ans, phase>>
Requests == [x : Xs, xp : [1..Np -> Xs], fp : [1..Np -> Fv], period : Periods]
IInit == req = [x |-> 0, xp |-> <<>>, fp |-> <<>>, period |-> 1] /\ ans = {} /\ phase = "idle"
Ask(r) == /\ phase = "idle" /\ phase' = "asked" /\ req' = r
          /\ ans' = IF r.period = 0 THEN {"ValueError"} ELSE Periodic(r.x, r.xp, r.fp, r.period)
INext == \E x \in Xs, xp \in [1..Np -> Xs], fp \in [1..Np -> Fv], period \in Periods :
            Ask([x |-> x, xp |-> xp, fp |-> fp, period |-> period])
ISpec == IInit /\ [][INext]_ivars

Asked == phase = "asked" /\ req.period # 0
MinF(f) == CHOOSE v \in {f[i] : i \in DOMAIN f} : \A w \in {f[i] : i \in DOMAIN f} : v <= w
MaxF(f) == CHOOSE v \in {f[i] : i \in DOMAIN f} : \A w \in {f[i] : i \in DOMAIN f} : v >= w
(* laws *)
Deterministic == (Asked /\ NoTies(req.xp, req.period)) => Cardinality(ans) = 1
Bounded == Asked => \A y \in ans : RLe(RFromInt(MinF(req.fp)), y) /\ RLe(y, RFromInt(MaxF(req.fp)))
HitsData == (Asked /\ NoTies(req.xp, req.period)) =>
    \A i \in 1..Np : (req.x - req.xp[i]) % Abs(req.period) = 0 => ans = {RFromInt(req.fp[i])}
PeriodicInX == Asked => \A k \in {-2, -1, 1, 3} :
    Periodic(req.x + k * req.period, req.xp, req.fp, req.period) = ans
PeriodicInXp == Asked => \A i \in 1..Np : \A k \in {-1, 2} :
    Periodic(req.x, [req.xp EXCEPT ![i] = @ + k * req.period], req.fp, req.period) = ans
SignOfPeriod == Asked => Periodic(req.x, req.xp, req.fp, -req.period) = ans
(* the order in which the pairs are handed over does not matter *)
OrderFree == Asked => \A p \in Perms(Np) :
    Periodic(req.x, [i \in 1..Np |-> req.xp[p[i]]], [i \in 1..Np |-> req.fp[p[i]]], req.period) = ans
ConstantData == (Asked /\ \A i \in 1..Np : req.fp[i] = req.fp[1]) => ans = {RFromInt(req.fp[1])}
RefusesZero == (phase = "asked" /\ req.period = 0) => ans = {"ValueError"}
=============================================================================
