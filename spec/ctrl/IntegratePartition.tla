-------------------------- MODULE IntegratePartition --------------------------
(***************************************************************************)
(* C20 - compmech/integrate/integratev.pyx:27-58: npts integration points  *)
(* over P threads: k = npts \div P; thread i accumulates points            *)
(* k*i .. k*i+k-1 into slot i (prange, static schedule, private slots);    *)
(* afterwards the remainder k*P .. npts-1 is accumulated SERIALLY into     *)
(* slot 0; the result is the sum of the slots.  Points are symbolic        *)
(* (their index); an accumulator is the bag of indices added to it.        *)
(***************************************************************************)
EXTENDS Naturals, Sequences, FiniteSets, TLC
CONSTANTS MaxN, MaxP
VARIABLES npts, P, slots, done, phase
vars == <<npts, P, slots, done, phase>>

K == npts \div P
Rest == npts - K * P
Strip(i) == {K * i + q : q \in 0..(K-1)} \cap 0..(npts-1)      \* f(k, &xs2[k*i], ...)
Remain == {K * P + q : q \in 0..(Rest-1)}                          \* f(rest, &xs2[k*num_cores], ..., &outs[0,0])
Count(seqs, x) == Cardinality({sq \in UNION {{<<s, q>> : q \in 1..Len(seqs[s])} : s \in DOMAIN seqs} :
                                   seqs[sq[1]][sq[2]] = x})
RECURSIVE SetToSortedSeq(_)
SetToSortedSeq(T) == IF T = {} THEN <<>>
                     ELSE LET mn == CHOOSE x \in T : \A y \in T : x <= y
                          IN <<mn>> \o SetToSortedSeq(T \ {mn})

Init == /\ npts \in 0..MaxN /\ P \in 1..MaxP
        /\ slots = [i \in 0..(P-1) |-> <<>>]
        /\ done = {}
        /\ phase = "parallel"
(* the threads of the parallel region run in any order; each one touches only its own slot *)
Thread(i) == /\ phase = "parallel" /\ i \notin done
             /\ slots' = [slots EXCEPT ![i] = @ \o SetToSortedSeq(Strip(i))]
             /\ done' = done \cup {i}
             /\ UNCHANGED <<npts, P, phase>>
Join == /\ phase = "parallel" /\ done = 0..(P-1)
        /\ phase' = "serial" /\ UNCHANGED <<npts, P, slots, done>>
Remainder == /\ phase = "serial"
             /\ slots' = [slots EXCEPT ![0] = @ \o SetToSortedSeq(Remain)]
             /\ phase' = "summed" /\ UNCHANGED <<npts, P, done>>
Next == (\E i \in 0..(P-1) : Thread(i)) \/ Join \/ Remainder
Spec == Init /\ [][Next]_vars

(* state constraint for the cheap configuration: threads finish in index order *)
InOrder == \A i \in done : \A h \in 0..i : h \in done

RestNonNegative == Rest >= 0 /\ Rest < P
EachPointOnce == phase = "summed" => \A x \in 0..(npts-1) : Count(slots, x) = 1
NothingElse == \A s \in DOMAIN slots : \A q \in 1..Len(slots[s]) : slots[s][q] \in 0..(npts-1)
(* slot 0 is written by thread 0 inside the parallel region and by the main thread only after the join *)
SerialAfterJoin == phase = "parallel" => \A s \in DOMAIN slots : \A q \in 1..Len(slots[s]) : slots[s][q] < K * P
=============================================================================
