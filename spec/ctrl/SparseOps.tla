------------------------------- MODULE SparseOps -------------------------------
(***************************************************************************)
(* compmech/sparse.py as operators on small integer matrices (used by C02,  *)
(* C05, C06, C07, C19): symmetrisation from the upper triangle, skew         *)
(* mirroring, null-column removal, the solve that scatters into the full    *)
(* vector, and the symmetry test.  A matrix is a sequence of rows of        *)
(* integers; "null" means an all-zero column.  The state machine applies one *)
(* operation to one matrix; TLC checks the algebraic laws the callers rely   *)
(* on, and every enumerated case is replayed on the real functions with      *)
(* exact equality.                                                           *)
(***************************************************************************)
EXTENDS Integers, Sequences, FiniteSets, TLC

N(M) == Len(M)
Mat(n, f(_,_)) == [i \in 1..n |-> [j \in 1..n |-> f(i, j)]]

(* the upper triangle (diagonal included) mirrored below the diagonal; what is stored below is ignored *)
MakeSymmetric(M) == LET f(i, j) == IF j >= i THEN M[i][j] ELSE M[j][i] IN Mat(N(M), f)
(* the same with a sign change below the diagonal; the diagonal is kept as it is *)
MakeSkew(M) == LET f(i, j) == IF j >= i THEN M[i][j] ELSE -M[j][i] IN Mat(N(M), f)
IsSymmetric(M) == \A i \in 1..N(M), j \in 1..N(M) : M[i][j] = M[j][i]
Transpose(M) == LET f(i, j) == M[j][i] IN Mat(N(M), f)

(* columns of the FIRST matrix that hold at least one non-zero, ascending *)
UsedCols(M) == { j \in 1..N(M) : \E i \in 1..N(M) : M[i][j] # 0 }
RECURSIVE SetToSortedSeq(_)
SetToSortedSeq(S) == IF S = {} THEN <<>>
                     ELSE LET m == CHOOSE x \in S : \A y \in S : x <= y IN <<m>> \o SetToSortedSeq(S \ {m})
SubMatrix(M, idx) == [a \in 1..Len(idx) |-> [b \in 1..Len(idx) |-> M[idx[a]][idx[b]]]]
(* remove_null_cols(first, second, ...): every matrix is reduced to the used rows/columns of the first *)
RemoveNullCols(first, others) ==
    LET idx == SetToSortedSeq(UsedCols(first))
    IN [mats |-> <<SubMatrix(first, idx)>> \o [k \in 1..Len(others) |-> SubMatrix(others[k], idx)], used |-> idx]
(* scatter of a reduced solution into the full vector: zeros on the removed amplitudes *)
Scatter(px, idx, n) == [i \in 1..n |-> IF \E a \in 1..Len(idx) : idx[a] = i
                                       THEN px[CHOOSE a \in 1..Len(idx) : idx[a] = i] ELSE 0]

(* ---- state machine ----------------------------------------------------------- *)
CONSTANTS Size, Entries
VARIABLES mat, op, res
svars == <<mat, op, res>>
Matrices == [1..Size -> [1..Size -> Entries]]
SInit == mat \in Matrices /\ op = "none" /\ res = <<>>
Apply(o) == /\ op = "none" /\ op' = o /\ UNCHANGED mat
            /\ res' = CASE o = "make_symmetric" -> MakeSymmetric(mat)
                        [] o = "make_skew_symmetric" -> MakeSkew(mat)
                        [] o = "remove_null_cols" -> RemoveNullCols(mat, <<Transpose(mat)>>)
                        [] o = "is_symmetric" -> IsSymmetric(mat)
SNext == \E o \in {"make_symmetric", "make_skew_symmetric", "remove_null_cols", "is_symmetric"} : Apply(o)
SSpec == SInit /\ [][SNext]_svars

(* laws *)
SymResultSymmetric == op = "make_symmetric" => IsSymmetric(res) /\ \A i \in 1..Size : \A j \in i..Size : res[i][j] = mat[i][j]
SymIdempotent == op = "make_symmetric" => MakeSymmetric(res) = res
SkewResult == op = "make_skew_symmetric" =>
    \A i \in 1..Size, j \in 1..Size : (i < j => res[j][i] = -res[i][j]) /\ (i <= j => res[i][j] = mat[i][j])
SymmetricFixedPoint == (op = "is_symmetric" /\ res = TRUE) => MakeSymmetric(mat) = mat
RemovedAreNull == op = "remove_null_cols" =>
    /\ \A j \in 1..Size : (j \notin UsedCols(mat)) <=> (\A i \in 1..Size : mat[i][j] = 0)
    /\ Len(res.used) = Cardinality(UsedCols(mat))
    /\ \A a \in 1..(Len(res.used) - 1) : res.used[a] < res.used[a+1]
    /\ \A a \in 1..Len(res.used), b \in 1..Len(res.used) :
          res.mats[1][a][b] = mat[res.used[a]][res.used[b]] /\ res.mats[2][a][b] = mat[res.used[b]][res.used[a]]
ScatterRoundTrip == op = "remove_null_cols" =>
    LET px == [a \in 1..Len(res.used) |-> 10 + a]
        x == Scatter(px, res.used, Size)
    IN /\ \A a \in 1..Len(res.used) : x[res.used[a]] = px[a]
       /\ \A i \in 1..Size : (~\E a \in 1..Len(res.used) : res.used[a] = i) => x[i] = 0
=============================================================================
