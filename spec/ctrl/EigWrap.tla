------------------------------- MODULE EigWrap -------------------------------
(***************************************************************************)
(* Properties C05 / C06: the eigen-solver wrappers                         *)
(*   compmech.analysis.lb, Panel.lb, ConeCyl.lb   (K + lambda KG) v = 0    *)
(*   compmech.analysis.freq, Panel.freq           K v = omega^2 M v        *)
(* as one state machine.  Both families solve  B v = mu K v  with B = KG   *)
(* (lambda = -1/mu) or B = M (omega^2 = 1/mu).                              *)
(*                                                                         *)
(* Abstract problem p:                                                     *)
(*   n     size of the matrices handed to the wrapper                      *)
(*   cls   cls[i] \in {"null","both","konly","bonly"}: amplitude i carries *)
(*         nothing, stiffness and B, stiffness only (B column null: an     *)
(*         unloaded / massless stiff amplitude), or B only (a load / mass  *)
(*         column on an amplitude without stiffness).  The null patterns   *)
(*         of K and B may differ in both directions.                       *)
(*   The reduction the properties describe is by the null pattern of K:    *)
(*   "active" = carries stiffness (both, konly); modes are zero elsewhere; *)
(*   stiffness-only amplitudes are condensed, not clamped.                 *)
(*   A column is null iff it holds no stored non-zero: the reduction is by *)
(*   EXACT structural zeros, whatever the magnitude of the other entries   *)
(*   (2^-100 is not zero).  The abstract problem carries no magnitude, so  *)
(*   every outcome of this module is scale-covariant by construction:      *)
(*     lb(tK, tKG) = lb(K, KG),  freq(tK, tM) = freq(K, M)   for all t > 0 *)
(*     (also blockwise: an uncoupled block of K and B scaled together),    *)
(*     lb(K, sKG) = lb(K, KG)/s,  freq(K, sM) = freq(K, M)/sqrt(s)  (p.s). *)
(*   The harness realises every problem at several magnitudes (whole pair  *)
(*   times 2^+-60, one uncoupled block times 2^-40 carrying the smallest   *)
(*   positive multiplier / lowest frequency) and the trace specification   *)
(*   judges all of them against the same spectrum.                         *)
(*   sp    the exact spectrum of the pencil (B, K) restricted to the       *)
(*         active amplitudes, ascending in mu, one entry (id) per active   *)
(*         amplitude (mu = 0 for every "konly" amplitude: an infinite      *)
(*         multiplier / frequency)                                         *)
(*   s     positive scale applied to B (load / mass scaling): mu_i = s*sp_i*)
(*   zs    the amplitudes whose B column is not null but sums to zero      *)
(*         (only the dense frequency path looks at column sums)            *)
(* Abstract eigenvector = the id of the spectrum entry it belongs to; a    *)
(* stored vector matrix is [nr, src, colid]: nr rows, column c holds the   *)
(* eigenvector of id colid[c], row r holds its component of amplitude      *)
(* src[r] (0: the row is zero).  Scatter is right iff src[r] \in {0, r}.   *)
(*                                                                         *)
(* The ONE assumption is the solver contract SolverOK: which eigenpairs    *)
(* scipy's eigsh / eigh / eigs / eig return and in which order.            *)
(*                                                                         *)
(* Known findings are named deviations (strings in st.dev): with the name  *)
(* absent the action is the behaviour the property demands (never raises,  *)
(* as many columns as values); with the name present it is today's code.   *)
(***************************************************************************)
EXTENDS Rat, Integers, Sequences, FiniteSets, TLC

CONSTANTS TolBits,     \* values: |mu_obs - mu| <= 2^-TolBits * max|mu|   (trace validation only)
          SelBits      \* selection / ordering ties: relative slack 2^-SelBits (0 = exact, model checking)

Q(a, b) == RFrac(a, b)
Min2(a, b) == IF a <= b THEN a ELSE b
Ev(x) == TLCEval(x)     \* force lazily represented functions into tables (see harness/README.md)
Range(s) == { s[j] : j \in 1..Len(s) }
SelectSeq2(seq, keep) == LET f[j \in 0..Len(seq)] == IF j = 0 THEN <<>>
                                                     ELSE IF keep[j] THEN Append(f[j-1], seq[j]) ELSE f[j-1]
                         IN f[Len(seq)]
Slack == IF SelBits = 0 THEN RZero ELSE RTwoPow(-SelBits)
OnePlusSlack == RAdd(ROne, Slack)

KF_C05_DenseNumExceedsSize    == "KF_C05_DenseNumExceedsSize"
KF_C05_FallbackNumExceedsSize == "KF_C05_FallbackNumExceedsSize"
KF_C05_PanelNumNotCapped      == "KF_C05_PanelNumNotCapped"
KF_C05_NonPositiveTail        == "KF_C05_NonPositiveTail"
KF_C05_ConeCylBucklingMode    == "KF_C05_ConeCylBucklingMode"
KF_C05_LoadOnStiffnessless    == "KF_C05_LoadOnStiffnessless"
KF_C06_SparseNumExceedsSize   == "KF_C06_SparseNumExceedsSize"
KF_C06_ReducedDofScatter      == "KF_C06_ReducedDofScatter"
KF_C06_RoundedSort            == "KF_C06_RoundedSort"
KF_C06_DenseColumnSum         == "KF_C06_DenseColumnSum"
KF_C06_SingularMassModes      == "KF_C06_SingularMassModes"
DevC05 == {KF_C05_DenseNumExceedsSize, KF_C05_FallbackNumExceedsSize, KF_C05_PanelNumNotCapped,
           KF_C05_NonPositiveTail, KF_C05_ConeCylBucklingMode, KF_C05_LoadOnStiffnessless}
DevC06 == {KF_C06_SparseNumExceedsSize, KF_C06_ReducedDofScatter, KF_C06_RoundedSort, KF_C06_DenseColumnSum,
           KF_C06_SingularMassModes}
DevNames == DevC05 \cup DevC06

LbApis   == {"lb", "panel_lb", "conecyl_lb"}
FreqApis == {"freq", "panel_freq"}
IsLb(api) == api \in LbApis

VARIABLE st
vars == <<st>>

(* ------------------------------ problems ------------------------------- *)
Act(p)  == { i \in 1..p.n : p.cls[i] \in {"both", "konly"} }     \* carries stiffness
Both(p) == { i \in 1..p.n : p.cls[i] = "both" }
BAct(p) == { i \in 1..p.n : p.cls[i] \in {"both", "bonly"} }     \* B column not null
BOnly(p) == { i \in 1..p.n : p.cls[i] = "bonly" }
Nulls(p) == { i \in 1..p.n : p.cls[i] = "null" }
AscSeq(S, n) == LET f[i \in 0..n] == IF i = 0 THEN <<>>
                                     ELSE IF i \in S THEN Append(f[i-1], i) ELSE f[i-1]
                IN f[n]
Mu(p, i) == RMul(p.sp[i], p.s)
NSp(p) == Len(p.sp)
RECURSIVE MuMaxFrom(_, _, _)
MuMaxFrom(p, i, acc) == IF i > NSp(p) THEN acc
                        ELSE LET x == RAbs(Mu(p, i)) IN MuMaxFrom(p, i + 1, TLCEval(IF RLe(acc, x) THEN x ELSE acc))
MuMax(p) == MuMaxFrom(p, 1, RZero)

(* |nu| of the sigma = 1 Cayley transform, nu = (mu+1)/(mu-1), compared by cross-multiplication *)
NuLe(p, a, b, f) ==   \* |nu_a| <= f * |nu_b|
    RLe(RMul(RAbs(RAdd(Mu(p, a), ROne)), RAbs(RSub(Mu(p, b), ROne))),
        RMul(f, RMul(RAbs(RAdd(Mu(p, b), ROne)), RAbs(RSub(Mu(p, a), ROne)))))
NuLt(p, a, b) == ~NuLe(p, b, a, ROne)

WellFormed(p, api) ==
    /\ p.n >= 3 /\ Len(p.cls) = p.n /\ NSp(p) = Cardinality(Act(p)) /\ RSign(p.s) > 0 /\ p.zs \subseteq Both(p)
    /\ \A i \in 1..(NSp(p)-1) : RLe(p.sp[i], p.sp[i+1])
    /\ IF IsLb(api)
       THEN /\ \A i \in 1..NSp(p) : Mu(p, i) # ROne                         \* KG - K regular on the active part
            /\ \A i \in 1..NSp(p) : Mu(p, i) # RNeg(ROne)     \* reference load not exactly critical: the Cayley operator
                                                             \* then has the Ritz value 0 and ARPACK's purification
                                                             \* divides by it (NaN mode observed)
            /\ Cardinality({ i \in 1..NSp(p) : RIsZero(p.sp[i]) }) >= Cardinality(Act(p) \ Both(p))
       ELSE /\ \A i \in 1..NSp(p) : RSign(p.sp[i]) >= 0                     \* K positive definite, M semi-definite there
            /\ Cardinality({ i \in 1..NSp(p) : RIsZero(p.sp[i]) }) >= Cardinality(Act(p) \ Both(p))

(* regime of C05's ordering / agreement / scaling clauses *)
Negs(p) == { i \in 1..NSp(p) : RSign(Mu(p, i)) < 0 }          \* positive load multipliers
Destabilising(p) == Negs(p) # {}
SubCritical(p) == \A i \in Negs(p) : RLt(RNeg(ROne), Mu(p, i))   \* every positive lambda > 1
Regime(p) == Destabilising(p) /\ SubCritical(p)

(* ------------------------------- states -------------------------------- *)
(* Sparse frequency path with massless stiff amplitudes (M singular on the reduced set): eigs' shift-invert Ritz
   vectors carry a component in the null space of M that scipy does not purify away; the frequencies are those
   of the condensed problem, the modes handed back are not eigenvectors (one more application of
   (K+M)^-1 M would purify them).  With the deviation on, the eigenvector clause is not demanded there. *)
ModesUnspecified(s) == /\ "KF_C06_SingularMassModes" \in s.dev /\ s.o.api \in FreqApis /\ s.o.sparse
                       /\ Act(s.p) # Both(s.p)
NoVec == [nr |-> 0, src |-> <<>>, colid |-> <<>>]
InitState(p, o, dev) ==
    [p |-> p, o |-> o, dev |-> dev, pc |-> "start", k |-> 0, path |-> "none", used |-> <<>>,
     rrows |-> <<>>, ret |-> <<>>, vals |-> <<>>, vec |-> NoVec, exc |-> "", at |-> "", trail |-> <<>>,
     kobs |-> 0,           \* trace validation: the number of pairs the call returned (resolves the literal model's free choice of k)
     unspec |-> FALSE]     \* TRUE: a listed deviation makes the returned pairs unspecified (not eigenpairs)
D(s, d) == d \in s.dev
Raise(s, cls, where) == [s EXCEPT !.pc = "raised", !.exc = cls, !.at = where]
Terminal(s) == s.pc \in {"done", "raised"}
Took(s, name) == [s EXCEPT !.trail = Append(@, name)]      \* which actions a behaviour took (vacuity control)
Solver(s) == IF IsLb(s.o.api) THEN (IF s.o.sparse THEN "eigsh" ELSE "eigh")
                              ELSE (IF s.o.sparse THEN "eigs" ELSE "eig")
ReducedRun(s) == s.o.api \in FreqApis /\ ~s.o.sparse /\ s.o.reduced

(* ------------------------------- ChooseK ------------------------------- *)
(* lb / freq / Panel.freq: k = min(num_eigvalues, n-2); Panel.lb and ConeCyl.lb pass num_eigvalues unchanged
   (the number of pairs is not constrained by the property; what it demands is that the solver is never
   asked for more than it can give, see AskK) *)
DoChooseK(s) ==
    [s EXCEPT !.k = IF s.o.api \in {"panel_lb", "conecyl_lb"} THEN s.o.num ELSE Min2(s.o.num, s.p.n - 2),
              !.path = IF s.o.sparse THEN "sparse" ELSE "dense",
              !.pc = IF IsLb(s.o.api) /\ s.o.sparse THEN "try" ELSE "remove"]

(* ------------------------------ TrySparse ------------------------------ *)
(* first eigsh on the full matrices: splu(KG - K) fails iff a row/column is null in BOTH matrices, ARPACK refuses
   k >= n (today, Panel.lb / ConeCyl.lb); either exception is swallowed by `except Exception` and the fallback is
   taken.  The literal wrapper reduces whenever some amplitude carries no stiffness.  Today, with load columns on
   stiffness-less amplitudes and no amplitude null in both, KG - K is regular and ARPACK runs on the full pair
   with the singular K as its inner product: whatever comes back (observed: non-eigenpairs that change from call
   to call and are non-zero on the stiffness-less amplitudes, or - when ARPACK happens to raise - the fallback's
   correct pairs) is unspecified. *)
DoTrySparse(s) ==
    LET n == s.p.n
        all == AscSeq(1..n, n)
        refused == s.o.api \in {"panel_lb", "conecyl_lb"} /\ D(s, KF_C05_PanelNumNotCapped) /\ s.k >= n
        semidef == Nulls(s.p) = {} /\ BOnly(s.p) # {} /\ D(s, KF_C05_LoadOnStiffnessless)
    IN IF semidef /\ ~refused
       THEN [s EXCEPT !.used = all, !.rrows = all, !.unspec = TRUE, !.pc = "solve"]
       ELSE IF Act(s.p) # 1..n \/ refused
       THEN [s EXCEPT !.path = "sparseFallback", !.pc = "remove"]
       ELSE [s EXCEPT !.used = all, !.rrows = all, !.pc = "solve"]

(* ------------------------------ RemoveNull ----------------------------- *)
(* remove_null_cols(K, B): columns of the FIRST matrix (K) with a stored non-zero - exact zeros, no threshold;
   dense freq: M.sum(axis=0) != 0 *)
WhichMatrix(s) == IF s.o.api \in FreqApis /\ ~s.o.sparse THEN "B" ELSE "K"
DoRemoveNull(s) ==
    LET \* today the dense frequency path keeps the amplitudes with M.sum(axis=0) != 0 instead of those carrying
        \* stiffness: a mass column that sums to zero is taken for a null one, a massless stiff amplitude is clamped
        \* instead of condensed, a mass-only amplitude is kept (singular K); whenever that set differs from the
        \* stiffness-carrying one the pairs handed back are not those of the reduced (K, M)
        today == WhichMatrix(s) = "B" /\ D(s, KF_C06_DenseColumnSum)
        keep == IF today THEN BAct(s.p) \ s.p.zs ELSE Act(s.p)
        u == AscSeq(keep, s.p.n)
    IN [s EXCEPT !.used = u, !.rrows = u, !.unspec = (keep # Act(s.p)),
                 !.pc = IF ReducedRun(s) THEN "take" ELSE "solve"]

(* -------------------------------- TakeVW ------------------------------- *)
(* reduced_dof: take = column_stack((i[1::3], i[2::3])).flatten(): the 2nd and 3rd amplitude of every triple *)
TakePos(m) == LET f[t \in 0..(m \div 3)] == IF t = 0 THEN <<>> ELSE f[t-1] \o <<3*t - 1, 3*t>> IN f[m \div 3]
DoTakeVW(s) ==
    LET m == Len(s.used)
        tp == TakePos(m)
    IN IF D(s, KF_C06_ReducedDofScatter) /\ m % 3 = 2
       THEN Raise(s, "ValueError", "TakeVW")          \* column_stack of slices of unequal length
       ELSE [s EXCEPT !.rrows = Ev([j \in 1..Len(tp) |-> s.used[tp[j]]]), !.pc = "solve"]

(* ----------------------------- SolveReduced ---------------------------- *)
(* number of pairs asked from the iterative solver; the literal wrapper asks for no more than the solver can give *)
Uncapped(s) == \/ IsLb(s.o.api) /\ D(s, KF_C05_FallbackNumExceedsSize) /\ s.path = "sparseFallback"
               \/ s.o.api \in {"panel_lb", "conecyl_lb"} /\ D(s, KF_C05_PanelNumNotCapped)
               \/ s.o.api \in FreqApis /\ D(s, KF_C06_SparseNumExceedsSize)
(* The property does not fix how many pairs come back: the literal wrapper may ask for any k with
   1 <= k <= min(num_eigvalues, what the solver can give); the model checker takes today's choice capped, trace
   validation takes the observed count when it lies in that range (so a repaired wrapper needs no change here). *)
Free(s, cap) == IF s.kobs >= 1 /\ s.kobs <= Min2(s.o.num, cap) THEN s.kobs ELSE Min2(s.k, cap)
AskK(s) == LET m == Len(s.rrows)
           IN CASE Solver(s) = "eigsh" -> IF Uncapped(s) THEN s.k ELSE Free(s, m - 1)
                [] Solver(s) = "eigs"  -> IF Uncapped(s) THEN s.k ELSE Free(s, m - 2)
                \* dense lb: today all m values come back; the literal wrapper may hand back any leading part
                [] Solver(s) = "eigh"  -> IF ~D(s, KF_C05_NonPositiveTail) /\ s.kobs >= 1 /\ s.kobs <= m THEN s.kobs ELSE m
                [] OTHER -> m

(* the spectrum ids are those of the pencil reduced to the active amplitudes: defined iff rrows = active set *)
SpectrumKnown(s) == Len(s.rrows) = NSp(s.p)

(* THE ASSUMPTION.  ret = ids in the order the scipy routine returns the pairs.
   eigsh(A=B, M=K, sigma=1, mode='cayley', which='SM'): the k ids of smallest |nu|, sorted by algebraic mu
       (documented: "which = 'SM', return_eigenvectors True: eigenvalues are sorted by algebraic value");
   eigh(a=B, b=K): all ids, ascending mu;
   eigs(A=K, M=B, sigma=-1, which='LM'): the k ids of largest 1/(omega^2+1) = mu/(1+mu), i.e. largest mu; any order;
   eig(a=-B, b=K): all ids, any order.
   Ties / near ties are admitted up to the relative slack 2^-SelBits (exactly, when SelBits = 0). *)
(* Which pairs ARPACK's Cayley/'SM' run selects is assumed only where it is reliable: in the regime of the
   ordering clause, or when N <= 20 (then ncv = min(N, max(2k+1, 20)) = N and the Krylov space is the whole
   space).  Outside (super-critical or purely stabilising reference load, N > 20) the run was observed to end in
   ArpackNoConvergence most of the time and ConeCyl.lb then silently switches to mode='buckling'; the property
   demands no particular selection there, so none is assumed. *)
SelectionAssumed(p) == Regime(p) \/ NSp(p) <= 20
AscMu(p, ret) == LET eps == RMul(Slack, MuMax(p))
                 IN \A j \in 1..(Len(ret)-1) : RLe(Mu(p, ret[j]), RAdd(Mu(p, ret[j+1]), eps))
(* linear folds (accumulator is evaluated before the recursive call: no re-evaluation, see harness/README.md) *)
RECURSIVE WorstNuFrom(_, _, _, _)
WorstNuFrom(p, ids, j, acc) == IF j > Len(ids) THEN acc
                               ELSE LET nxt == IF NuLt(p, acc, ids[j]) THEN ids[j] ELSE acc
                                    IN WorstNuFrom(p, ids, j + 1, TLCEval(nxt))
WorstNu(p, ids) == WorstNuFrom(p, ids, 2, ids[1])
RECURSIVE BestNuFrom(_, _, _, _)
BestNuFrom(p, ids, j, acc) == IF j > Len(ids) THEN acc
                              ELSE LET nxt == IF NuLt(p, ids[j], acc) THEN ids[j] ELSE acc
                                   IN BestNuFrom(p, ids, j + 1, TLCEval(nxt))
BestNu(p, ids) == BestNuFrom(p, ids, 2, ids[1])
SolverOK(s, ret) ==
    LET p == s.p
        m == NSp(p)
        kk == AskK(s)
        rest == AscSeq((1..m) \ Range(ret), m)
    IN /\ Range(ret) \subseteq 1..m /\ Cardinality(Range(ret)) = Len(ret)
       /\ CASE Solver(s) = "eigsh" ->
                 /\ Len(ret) = kk /\ AscMu(p, ret)
                 /\ IF NSp(p) <= 20
                    THEN rest = <<>> \/ NuLe(p, WorstNu(p, ret), BestNu(p, rest), OnePlusSlack)
                    ELSE Regime(p) =>
                         \* N > 20, in the regime: assumed for the positive multipliers only - either all of them
                         \* come back, or nothing but the best of them.  Which members of the non-positive tail
                         \* follow is not assumed: Lanczos finds only some copies of the (highly) multiple Ritz
                         \* value nu = -1 of the infinite multipliers before it moves on (observed, n = 189).
                         LET negs == Negs(p)
                             selNeg == SelectSeq(ret, LAMBDA i : i \in negs)
                             restNeg == SelectSeq(rest, LAMBDA i : i \in negs)
                         IN restNeg = <<>> \/ (Len(selNeg) = Len(ret) /\
                                                NuLe(p, WorstNu(p, selNeg), BestNu(p, restNeg), OnePlusSlack))
            [] Solver(s) = "eigh" -> /\ Len(ret) = kk /\ AscMu(p, ret)        \* kk < m: the leading part of eigh's list
                                     /\ rest = <<>> \/ ret = <<>> \/
                                           RLe(Mu(p, ret[Len(ret)]), RAdd(Mu(p, rest[1]), RMul(Slack, MuMax(p))))
            [] Solver(s) = "eigs" ->
                 /\ Len(ret) = kk
                 \* largest nu = mu/(1+mu) first, decided at the solver's precision in nu: absolute slack relative to
                 \* the largest nu (a cluster of tiny mu - a tiny mass block - is one tie).  sp ascending: rest's
                 \* largest mu is its last.
                 /\ rest = <<>> \/
                      LET nu(x) == RDiv(x, RAdd(ROne, x))
                          eps == RMul(Slack, nu(MuMax(p)))
                      IN \A a \in Range(ret) : RLe(nu(Mu(p, rest[Len(rest)])), RAdd(nu(Mu(p, a)), eps))
            [] OTHER -> Len(ret) = m

(* canonical returns used by the model checker (exact arithmetic, spectra without ties) *)
CayleyRank(p, i) == Cardinality({ j \in 1..NSp(p) : NuLt(p, j, i) \/ (~NuLt(p, i, j) /\ j < i) })
Permute(seq, mode) ==
    LET L == Len(seq)
    IN CASE mode = "rev"    -> Ev([j \in 1..L |-> seq[L + 1 - j]])
         [] mode = "swap12" -> IF L < 2 THEN seq ELSE Ev([j \in 1..L |-> IF j = 1 THEN seq[2] ELSE IF j = 2 THEN seq[1] ELSE seq[j]])
         [] mode = "rot"    -> IF L < 2 THEN seq ELSE Ev([j \in 1..L |-> IF j = L THEN seq[1] ELSE seq[j+1]])
         [] OTHER -> seq
CanonRet(s, mode) ==
    LET p == s.p
        m == NSp(p)
        kk == AskK(s)
        desc(S) == LET a == AscSeq(S, m) IN Ev([j \in 1..Len(a) |-> a[Len(a) + 1 - j]])
    IN CASE Solver(s) = "eigsh" -> AscSeq({ i \in 1..m : CayleyRank(p, i) < kk }, m)
         [] Solver(s) = "eigh"  -> AscSeq(1..kk, m)
         [] Solver(s) = "eigs"  -> Permute(desc((m - kk + 1)..m), mode)      \* canonical: ascending omega
         [] OTHER               -> Permute(desc(1..m), mode)
OrderModes(s) == IF Solver(s) \in {"eigs", "eig"} THEN {"canon", "rev", "swap12", "rot"} ELSE {"canon"}

FirstForm(s) == CASE IsLb(s.o.api) -> "mu" [] s.o.sparse -> "om2" [] OTHER -> "nu"
DoSolve(s, ret) ==
    LET m == Len(s.rrows)
        kk == AskK(s)
        sv == Solver(s)
    IN IF sv \in {"eigsh", "eigs"} /\ kk <= 0 THEN Raise(s, "ValueError", "SolveReduced")
       ELSE IF (sv = "eigsh" /\ kk >= m) \/ (sv = "eigs" /\ kk >= m - 1) THEN Raise(s, "TypeError", "SolveReduced")
       ELSE LET \* ConeCyl.lb, fallback: a failed Cayley run is retried with mode='buckling', which needs A = KG positive
                \* definite; with an indefinite KG the pairs handed back are not eigenpairs (ids 0 = unspecified)
                \* (also reached without null rows: the first run's ArpackNoConvergence is swallowed like a singular factor)
                garbage == /\ D(s, KF_C05_ConeCylBucklingMode) /\ s.o.api = "conecyl_lb" /\ ~SelectionAssumed(s.p)
                ids == IF SpectrumKnown(s) /\ ~garbage /\ ~s.unspec THEN ret ELSE Ev([j \in 1..(IF sv \in {"eigsh","eigs"} THEN kk ELSE m) |-> 0])
            IN IF s.path = "sparse" /\ IsLb(s.o.api)
               THEN [s EXCEPT !.ret = ids, !.vals = Ev([j \in 1..Len(ids) |-> [id |-> ids[j], form |-> FirstForm(s)]]),
                              !.unspec = s.unspec \/ garbage,
                              !.vec = [nr |-> s.p.n, src |-> Ev([r \in 1..s.p.n |-> r]), colid |-> ids],
                              !.pc = "xform"]
               ELSE [s EXCEPT !.ret = ids, !.vals = Ev([j \in 1..Len(ids) |-> [id |-> ids[j], form |-> FirstForm(s)]]),
                              !.unspec = s.unspec \/ garbage,
                              !.pc = "scatter"]

(* ------------------------------- Scatter ------------------------------- *)
(* eigvecs = zeros((n, ncol)); eigvecs[used, :] = reduced   with numpy's broadcasting rule *)
DoScatter(s) ==
    LET n == s.p.n
        api == s.o.api
        nret == Len(s.ret)
        rhs == IF IsLb(api) /\ ~s.o.sparse THEN SubSeq(s.ret, 1, Min2(s.o.num, nret)) ELSE s.ret   \* peigvecs[:, :num]
        rc == Len(rhs)
        rr == Len(s.rrows)
        lr == Len(s.used)
        code == \/ IsLb(api) /\ s.o.sparse /\ D(s, KF_C05_FallbackNumExceedsSize)
                \/ IsLb(api) /\ ~s.o.sparse /\ D(s, KF_C05_DenseNumExceedsSize)
                \/ api \in {"panel_lb", "conecyl_lb"} /\ s.o.sparse /\ D(s, KF_C05_PanelNumNotCapped)
                \/ api \in FreqApis /\ s.o.sparse /\ D(s, KF_C06_SparseNumExceedsSize)
        ncol == IF api \in FreqApis /\ ~s.o.sparse THEN rr                  \* zeros((sizebkp, K.shape[0]))
                ELSE IF code THEN s.o.num ELSE rc
        pos(r) == CHOOSE j \in 1..lr : s.used[j] = r
        usedset == Range(s.used)
    IN IF ReducedRun(s) /\ ~D(s, KF_C06_ReducedDofScatter)
       THEN \* literal reduced_dof: keep the reduced vectors; ReExpand puts the rows back
            [s EXCEPT !.vec = [nr |-> rr, src |-> s.rrows, colid |-> s.ret], !.pc = "xform"]
       ELSE IF ~((rr = lr \/ rr = 1) /\ (rc = ncol \/ rc = 1)) THEN Raise(s, "ValueError", "Scatter")
       ELSE [s EXCEPT !.vec = [nr |-> n,
                               src |-> Ev([r \in 1..n |-> IF r \in usedset
                                                          THEN (IF rr = 1 THEN s.rrows[1] ELSE s.rrows[pos(r)]) ELSE 0]),
                               colid |-> Ev([c \in 1..ncol |-> IF rc = 1 THEN rhs[1] ELSE rhs[c]])],
                     !.pc = "xform"]

(* -------------------------- NegateInvert / Sqrt ------------------------ *)
AfterXform(s) == IF s.o.api \in FreqApis /\ s.o.sort THEN "sort" ELSE IF ReducedRun(s) THEN "expand" ELSE "return"
DoNegateInvert(s) ==      \* eigvals = -1./eigvals
    LET L == Len(s.vals)
        lam == Ev([j \in 1..L |-> [id |-> s.vals[j].id, form |-> "lam"]])
        known == \A j \in 1..L : s.vals[j].id # 0
        \* literal: in the regime of the ordering clause only the positive multipliers are handed back
        cut == ~D(s, KF_C05_NonPositiveTail) /\ known /\ Regime(s.p)
        nc == Len(s.vec.colid)
        negs == Negs(s.p)
    IN IF ~cut THEN [s EXCEPT !.vals = lam, !.pc = AfterXform(s)]
       ELSE [s EXCEPT !.vals = SelectSeq2(lam, [j \in 1..L |-> lam[j].id \in negs]),
                      !.vec = [s.vec EXCEPT !.colid = SelectSeq2(s.vec.colid,
                                                                 [c \in 1..nc |-> s.vec.colid[c] \in negs])],
                      !.pc = AfterXform(s)]
DoSqrt(s) ==              \* sqrt(omega^2)  resp.  sqrt(-1/nu)
    [s EXCEPT !.vals = Ev([j \in 1..Len(s.vals) |-> [id |-> s.vals[j].id, form |-> "om"]]), !.pc = AfterXform(s)]

(* --------------------------------- Sort -------------------------------- *)
(* np.lexsort((round(imag,1), round(real,1))): a stable sort on rint(10*omega) (omega real here), then
   drop omega <= 1e-6.  omega = 1/sqrt(mu):  rint(10 omega) = r  iff  (2r-1)^2 mu <= 400 < (2r+1)^2 mu
   (half-way cases are excluded from the lattices).                                                      *)
RECURSIVE KeySearch(_, _, _)
KeySearch(mu, lo, hi) ==       \* largest r in lo..hi with (2r-1)^2 * mu <= 400   (lo always qualifies)
    IF lo = hi THEN lo
    ELSE LET mid == (lo + hi + 1) \div 2
             t == RFromInt(2*mid - 1)
         IN IF RLe(RMul(RMul(t, t), mu), RFromInt(400)) THEN KeySearch(mu, mid, hi) ELSE KeySearch(mu, lo, mid - 1)
RoundKey(mu) == KeySearch(mu, 0, 16777216)
StableOrder(keys) ==        \* positions 1..L sorted by key, ties in input order
    LET L == Len(keys)
        rank(j) == Cardinality({ i \in 1..L : keys[i] < keys[j] \/ (keys[i] = keys[j] /\ i < j) }) + 1
        inv == Ev([j \in 1..L |-> rank(j)])
    IN Ev([q \in 1..L |-> CHOOSE j \in 1..L : inv[j] = q])
TenTo12 == RPow(RFromInt(10), 12)
Kept(p, id) == RLt(Mu(p, id), TenTo12)            \* omega > 1e-6
DoSort(s) ==
    LET L == Len(s.vals)
        known == \A j \in 1..L : s.vals[j].id # 0
        next == IF ReducedRun(s) THEN "expand" ELSE "return"
    IN IF ~known THEN [s EXCEPT !.pc = next]
       ELSE LET \* today: rounded keys; literal (what "ascending" demands): exact order, omega ascending = id descending
                keys == Ev([j \in 1..L |-> IF D(s, KF_C06_RoundedSort) THEN RoundKey(Mu(s.p, s.vals[j].id))
                                                                       ELSE NSp(s.p) - s.vals[j].id])
                ord == StableOrder(keys)
                sv == Ev([q \in 1..L |-> s.vals[ord[q]]])
                nc == Len(s.vec.colid)
                keepv == Ev([q \in 1..L |-> Kept(s.p, sv[q].id)])
            IN \* eigvecs[:, sort_ind]: fancy indexing of the columns with the permutation of the values
               IF \E q \in 1..L : ord[q] > nc THEN Raise(s, "IndexError", "Sort")
               ELSE [s EXCEPT !.vals = SelectSeq2(sv, keepv),
                              !.vec = [s.vec EXCEPT !.colid = SelectSeq2([q \in 1..L |-> s.vec.colid[ord[q]]], keepv)],
                              !.pc = next]

(* ------------------------------- ReExpand ------------------------------ *)
(* reduced_dof: new_eigvecs[take, :] = eigvecs, then (literal) back to the n amplitudes *)
DoReExpand(s) ==
    [s EXCEPT !.vec = [nr |-> s.p.n,
                       src |-> Ev([r \in 1..s.p.n |-> IF r \in Range(s.vec.src) THEN r ELSE 0]),
                       colid |-> s.vec.colid],
              !.pc = "return"]

(* -------------------------------- Return ------------------------------- *)
(* ConeCyl.lb stacks `pos` zero rows (the num0 amplitudes cut off before solving) on top.
   ConeCyl.lb / ConeCyl.eigen with combined_load_case c are this same instance on the pencil their docstring
   states: K = k0 (c = None), k0 + kG0_T (1: fixed torsion), k0 + kG0_P (2: fixed pressure), k0 + kG0_Fc
   (3: fixed axial load);  B = kG0, kG0_Fc, kG0_Fc, kG0_T.  The harness forms that pencil from the parts the
   object holds after the call; a call that solved another pencil fails the value / residual clauses. *)
DoReturn(s) ==
    LET q == s.o.pos
    IN [s EXCEPT !.vec = IF q = 0 THEN s.vec
                         ELSE [nr |-> s.vec.nr + q,
                               src |-> Ev([r \in 1..(s.vec.nr + q) |->
                                          IF r <= q THEN 0 ELSE IF s.vec.src[r - q] = 0 THEN 0 ELSE s.vec.src[r - q] + q]),
                               colid |-> s.vec.colid],
                 !.pc = "done"]

(* ------------------------------- actions ------------------------------- *)
ChooseK      == st.pc = "start"   /\ st' = Took(DoChooseK(st), "ChooseK")
TrySparse    == st.pc = "try"     /\ st' = Took(DoTrySparse(st), "TrySparse")
RemoveNull   == st.pc = "remove"  /\ st' = Took(DoRemoveNull(st), "RemoveNull")
TakeVW       == st.pc = "take"    /\ st' = Took(DoTakeVW(st), "TakeVW")
SolveReduced == st.pc = "solve"   /\ \E mode \in OrderModes(st) : st' = Took(DoSolve(st, CanonRet(st, mode)), "SolveReduced")
Scatter      == st.pc = "scatter" /\ st' = Took(DoScatter(st), "Scatter")
NegateInvert == st.pc = "xform"   /\ IsLb(st.o.api)  /\ st' = Took(DoNegateInvert(st), "NegateInvert")
Sqrt         == st.pc = "xform"   /\ ~IsLb(st.o.api) /\ st' = Took(DoSqrt(st), "Sqrt")
Sort         == st.pc = "sort"    /\ st' = Took(DoSort(st), "Sort")
ReExpand     == st.pc = "expand"  /\ st' = Took(DoReExpand(st), "ReExpand")
Return       == st.pc = "return"  /\ st' = Took(DoReturn(st), "Return")
Next == \/ ChooseK \/ TrySparse \/ RemoveNull \/ TakeVW \/ SolveReduced \/ Scatter
        \/ NegateInvert \/ Sqrt \/ Sort \/ ReExpand \/ Return

ActionNames == {"ChooseK", "TrySparse", "RemoveNull", "TakeVW", "SolveReduced", "Scatter", "NegateInvert",
                "Sqrt", "Sort", "ReExpand", "Return"}
(* one step with the solver's return given (trace validation) or canonical (Run) *)
StepWith(s, ret) ==
    CASE s.pc = "start"   -> Took(DoChooseK(s), "ChooseK")
      [] s.pc = "try"     -> Took(DoTrySparse(s), "TrySparse")
      [] s.pc = "remove"  -> Took(DoRemoveNull(s), "RemoveNull")
      [] s.pc = "take"    -> Took(DoTakeVW(s), "TakeVW")
      [] s.pc = "solve"   -> Took(DoSolve(s, ret), "SolveReduced")
      [] s.pc = "scatter" -> Took(DoScatter(s), "Scatter")
      [] s.pc = "xform"   -> IF IsLb(s.o.api) THEN Took(DoNegateInvert(s), "NegateInvert") ELSE Took(DoSqrt(s), "Sqrt")
      [] s.pc = "sort"    -> Took(DoSort(s), "Sort")
      [] s.pc = "expand"  -> Took(DoReExpand(s), "ReExpand")
      [] s.pc = "return"  -> Took(DoReturn(s), "Return")
RECURSIVE Run(_)
Run(s) == IF Terminal(s) THEN s
          ELSE Run(StepWith(s, IF s.pc = "solve" THEN CanonRet(s, "canon") ELSE <<>>))
Outcome(p, o, dev) == Run(InitState(p, o, dev))

(* ------------------------------ properties ----------------------------- *)
Finished(s) == s.pc = "done"
Ids(s) == Ev([c \in 1..Len(s.vals) |-> s.vals[c].id])
Known(s) == \A c \in 1..Len(s.vals) : s.vals[c].id # 0
NPos(p) == Cardinality(Negs(p))

(* returned modes are zero off the active amplitudes, and every active amplitude got its own component back *)
ZeroOffActive(s) ==
    (Finished(s) /\ ~s.unspec) =>
                   /\ \A r \in 1..s.vec.nr : s.vec.src[r] # 0 => s.vec.src[r] = r /\ (r - s.o.pos) \in Act(s.p)
                   /\ ~ReducedRun(s) => \A a \in Act(s.p) : s.vec.src[a + s.o.pos] = a + s.o.pos
                   /\ ReducedRun(s) => \A j \in 1..Len(s.rrows) : s.vec.src[s.rrows[j]] = s.rrows[j]
(* value c and column c belong to the same eigenpair, and the value has been fully transformed *)
Pairing(s) ==
    Finished(s) => /\ Len(s.vec.colid) >= 1
                   /\ \A c \in 1..Min2(Len(s.vals), Len(s.vec.colid)) : s.vals[c].id = s.vec.colid[c]
                   /\ \A c \in 1..Len(s.vals) : s.vals[c].form = IF IsLb(s.o.api) THEN "lam" ELSE "om"
(* C05 ordering clause.  lambda = -1/mu: positive multipliers are the negative mu, ascending lambda = ascending mu *)
PosAscending(p, ids, L) ==
    LET eps == RMul(Slack, MuMax(p))
        negs == Negs(p)
    IN /\ \A c \in 1..L : ids[c] \in negs
       /\ \A c \in 1..(L-1) : RLe(Mu(p, ids[c]), RAdd(Mu(p, ids[c+1]), eps))
       /\ L >= 1 => \A i \in negs : RLe(Mu(p, ids[1]), RAdd(Mu(p, i), eps))
LbOrderLiteral(s) == PosAscending(s.p, Ids(s), Len(s.vals))
LbOrderTail(s) ==          \* today: all positive multipliers first, ascending, then non-positive / infinite ones
    LET L == Min2(Len(s.vals), NPos(s.p))
    IN /\ Len(s.vals) > NPos(s.p)
       /\ PosAscending(s.p, Ids(s), L)
       /\ LET negs == Negs(s.p) ids == Ids(s) IN \A c \in (L+1)..Len(s.vals) : ids[c] \notin negs
LbOrder(s) == (Finished(s) /\ IsLb(s.o.api) /\ Regime(s.p) /\ Known(s)) =>
                 LbOrderLiteral(s) \/ (D(s, KF_C05_NonPositiveTail) /\ LbOrderTail(s))
(* C06 ordering clause, demanded when sort is requested: omega > 0 ascending  (mu > 0 descending) *)
Collision(p) == LET keys == Ev([i \in 1..NSp(p) |-> RoundKey(Mu(p, i))])      \* sp ascending => keys monotone
                IN \E i \in 1..(NSp(p)-1) : keys[i] = keys[i+1] /\ Mu(p, i) # Mu(p, i+1)
FreqAscending(p, ids) == /\ \A c \in 1..Len(ids) : RSign(Mu(p, ids[c])) >= 0        \* mu = 0: omega = +infinity, last
                         /\ \A c \in 1..(Len(ids)-1) : RLe(Mu(p, ids[c+1]), RMul(OnePlusSlack, Mu(p, ids[c])))
FreqKeysSorted(p, ids) == \A c \in 1..(Len(ids)-1) : RoundKey(Mu(p, ids[c])) <= RoundKey(Mu(p, ids[c+1]))
FreqOrder(s) == (Finished(s) /\ s.o.api \in FreqApis /\ s.o.sort /\ Known(s)) =>
                   \/ FreqAscending(s.p, Ids(s))
                   \/ D(s, KF_C06_RoundedSort) /\ Collision(s.p) /\ FreqKeysSorted(s.p, Ids(s))
(* sparse and dense agree on the common prefix (C05: in the regime; C06: when sorted).  For C05 the clause is
   about the positive multipliers: without KF_C05_NonPositiveTail nothing else is returned in the regime
   (LbOrder), with it the non-positive tail is exempt (the Cayley ranking of non-positive multipliers
   depends on the path and on the load scale). *)
Prefix(a, b) == LET L == Min2(Len(a), Len(b)) IN SubSeq(a, 1, L) = SubSeq(b, 1, L)
Claimed(s) == IF IsLb(s.o.api) THEN SubSeq(Ids(s), 1, Min2(Len(s.vals), NPos(s.p))) ELSE Ids(s)
PathsAgree(s) ==
    (Finished(s) /\ s.o.sparse /\ s.o.api \in {"lb", "panel_lb", "freq", "panel_freq"} /\ Known(s)
       /\ (IF IsLb(s.o.api) THEN Regime(s.p) ELSE s.o.sort)) =>
        LET d == Outcome(s.p, [s.o EXCEPT !.sparse = FALSE, !.reduced = FALSE], s.dev)
        IN Finished(d) => \/ Prefix(Claimed(s), Claimed(d))
                          \/ d.unspec
                          \/ ~IsLb(s.o.api) /\ D(s, KF_C06_RoundedSort) /\ Collision(s.p)
(* scaling B by t divides lambda by t (omega^2 by t): checked on the numbers *)
LamOrOm2(s, id) == LET m == Mu(s.p, id) IN IF IsLb(s.o.api) THEN RNeg(RInv(m)) ELSE RInv(m)
ScalingWith(s, t) ==
    LET p2 == [s.p EXCEPT !.s = RMul(s.p.s, t)]
        s2 == Outcome(p2, s.o, s.dev)
        c1 == Claimed(s)
        c2 == Claimed(s2)
    IN (Finished(s) /\ Known(s) /\ s.o.sparse /\ (IF IsLb(s.o.api) THEN Regime(s.p) /\ Regime(p2) ELSE s.o.sort)) =>
         (Finished(s2) /\ Len(c2) = Len(c1)
            /\ \A c \in 1..Len(c1) : RMul(LamOrOm2(s2, c2[c]), t) = LamOrOm2(s, c1[c]))
         \/ (~IsLb(s.o.api) /\ D(s, KF_C06_RoundedSort) /\ (Collision(s.p) \/ Collision(p2)))
Scaling(s) == ScalingWith(s, Q(2,1)) /\ ScalingWith(s, Q(1,2))
(* the shape arithmetic is well defined: the wrapper raises only where a listed finding says so *)
RaiseSig(s, d) ==
    LET m == Len(s.rrows)
    IN CASE d = KF_C05_DenseNumExceedsSize    -> IsLb(s.o.api) /\ ~s.o.sparse /\ s.o.num > m /\ s.at = "Scatter"
         [] d = KF_C05_FallbackNumExceedsSize -> IsLb(s.o.api) /\ s.path = "sparseFallback" /\ (s.k >= m \/ s.o.num > s.k)
         [] d = KF_C05_PanelNumNotCapped      -> s.o.api \in {"panel_lb", "conecyl_lb"} /\ s.o.num >= m /\ s.at = "SolveReduced"
         [] d = KF_C06_SparseNumExceedsSize   -> s.o.api \in FreqApis /\ s.o.sparse /\ (s.k >= m - 1 \/ s.o.num > s.k)
         [] d = KF_C06_ReducedDofScatter      -> ReducedRun(s)
         [] OTHER -> FALSE
NoRaise(s) == s.pc = "raised" => \E d \in s.dev : RaiseSig(s, d)
(* the canonical solver return satisfies the contract (sanity of the model itself) *)
ContractSane(s) == (s.pc \in {"scatter", "xform"} /\ s.at = "" /\ SpectrumKnown(s) /\ s.ret # <<>> /\ Known(s)
                      /\ Len(s.vals) = Len(s.ret) /\ s.vals[1].form \in {"mu", "om2", "nu"}) => SolverOK(s, s.ret)

InvZeroOffActive == ZeroOffActive(st)
InvPairing       == Pairing(st)
InvLbOrder       == LbOrder(st)
InvFreqOrder     == FreqOrder(st)
InvPathsAgree    == PathsAgree(st)
InvScaling       == Scaling(st)
InvNoRaise       == NoRaise(st)
InvContractSane  == ContractSane(st)
InvWellFormed    == WellFormed(st.p, st.o.api)
=============================================================================
