------------------------------- MODULE ShellLaws -------------------------------
(***************************************************************************)
(* Properties C16 (complete-shell LINEAR matrices) and C17 (shell          *)
(* NON-LINEAR tangent / internal force) of compmech/conecyl - PARTIAL.     *)
(*                                                                         *)
(* The shell basis is trigonometric: no entry of a shell kernel is an      *)
(* exact value TLC could produce.  What this module specifies is therefore *)
(* everything AROUND the kernel values:                                    *)
(*                                                                         *)
(*  Part A  the algebra the laws rest on, model-checked exactly on small   *)
(*          integer polynomial maps: the 4-point central formula           *)
(*            R4(f,c,d) = (8(f(c+d)-f(c-d)) - (f(c+2d)-f(c-2d)))/12        *)
(*          IS the directional derivative J(c)d of every polynomial map of *)
(*          degree <= 4, for every step d (no small step, no cancellation);*)
(*          the Jacobian of such a map is symmetric iff the map is a       *)
(*          gradient; the work of a cubic map around a parallelogram       *)
(*          (Simpson on each edge, exact for cubic integrands) vanishes    *)
(*          for gradients.  A von-Karman shell, whatever its (fixed,       *)
(*          linear) integration rule, has a CUBIC internal force.          *)
(*                                                                         *)
(*  Part B  the matrix life cycle of a ConeCyl object as a state machine:  *)
(*          one action per public step (Define is implicit in the stamp of *)
(*          every observation; CalcLinear, CalcNL, CalcFint, KernelCall);  *)
(*          the state `hist` is the sequence of OBSERVED quantities        *)
(*          (opaque matrices and vectors) of the study so far; the laws    *)
(*          are relations between observations and are the invariants of   *)
(*          the machine.  In MC_ShellLaws the observations come from an    *)
(*          exact "toy" von-Karman shell (integer strain-displacement      *)
(*          tables, the SAME composition k0 + k0L + k0L^T + kLL + kG,      *)
(*          the same prescribed-amplitude book-keeping of ShellPartition), *)
(*          so TLC checks that the laws as stated follow from the          *)
(*          composition; in Trace_ShellLaws the observations are the exact *)
(*          IEEE doubles recorded from the real package and TLC judges     *)
(*          every recorded step with the same operators.                   *)
(*                                                                         *)
(*  Plans   which kernel the package must call with which argument list    *)
(*          (conecyl.py _calc_linear_matrices / _calc_NL_matrices /        *)
(*          calc_fint, modelDB.get_linear_matrices).  The harness executes *)
(*          the printed plan literally on the kernels and the composition  *)
(*          laws compare the package's matrices with the composition of    *)
(*          those kernel results.                                          *)
(*                                                                         *)
(* NOT covered (no exact value exists for them): that k0 is the second     *)
(* derivative of the strain energy of the package's own linear strain      *)
(* field; positive semi-definiteness beyond the probe vectors (a probe     *)
(* with x^T K x < 0 is a certificate, its absence is not a proof); any     *)
(* absolute value of a kernel entry.                                       *)
(*                                                                         *)
(* Tolerances are one constant per law, in bits of the law's term scale    *)
(* (the sum of the magnitudes of the terms that are compared), see Tol*;   *)
(* measured on the unchanged tree: Jacobian law >= 49 bits kept (38 asked),*)
(* kernels that must agree 2^-50 (2^-36 asked), linear relations between   *)
(* runs 2^-51 (2^-40 asked), thread counts 2^-53 (2^-44 asked).            *)
(*                                                                         *)
(* Known findings are named deviations with narrow signatures (Explains):  *)
(* a law name + the models / geometry / route it is known to fail for.     *)
(***************************************************************************)
EXTENDS RatLinAlg, FiniteSets

CONSTANTS Deviations       \* enabled known findings (names of KF_* below); {} = the literal properties
VARIABLES hist             \* the observations of the study so far (sequence of records, see Part B)

(* book-keeping of prescribed amplitudes: the operators of property C18 *)
SP == INSTANCE ShellPartition WITH Tier <- "quick", Dev <- {}, def <- <<>>, vec <- <<>>, kind <- "",
                                   parts <- <<>>, hist <- <<>>

-----------------------------------------------------------------------------
(*                              Part A: algebra                             *)
(* A polynomial map of `dim` variables: tab[i] is a sequence of terms       *)
(* <<coef, e1, .., e_dim>> (integer coefficient, exponents).  Everything is *)
(* TLC-integer arithmetic (values stay far below 2^31 on the lattices used).*)

RECURSIVE IPow(_,_)
IPow(x, n) == IF n = 0 THEN 1 ELSE x * IPow(x, n-1)
RECURSIVE ISumSeq(_,_)
ISumSeq(s, k) == IF k > Len(s) THEN 0 ELSE s[k] + ISumSeq(s, k+1)
ISumOf(s) == ISumSeq(s, 1)
IDot(a, b) == ISumOf([k \in 1..Len(a) |-> a[k] * b[k]])
RECURSIVE IProdSeq(_,_)
IProdSeq(s, k) == IF k > Len(s) THEN 1 ELSE s[k] * IProdSeq(s, k+1)

Monomial(t, x) == t[1] * IProdSeq([j \in 1..Len(x) |-> IPow(x[j], t[j+1])], 1)
PolyAt(p, x) == ISumOf([k \in 1..Len(p) |-> Monomial(p[k], x)])
MapAt(m, x) == [i \in 1..Len(m) |-> PolyAt(m[i], x)]
(* d/dx_k of a term *)
DTerm(t, k) == [j \in 1..Len(t) |-> IF j = 1 THEN t[1] * t[k+1] ELSE IF j = k+1 THEN (IF t[j] = 0 THEN 0 ELSE t[j]-1) ELSE t[j]]
DPoly(p, k) == [q \in 1..Len(p) |-> DTerm(p[q], k)]
JacAt(m, x) == [i \in 1..Len(m) |-> [k \in 1..Len(x) |-> PolyAt(DPoly(m[i], k), x)]]
IMatVec(M, v) == [i \in 1..Len(M) |-> IDot(M[i], v)]
VAdd(a, b) == [k \in 1..Len(a) |-> a[k] + b[k]]
VSub(a, b) == [k \in 1..Len(a) |-> a[k] - b[k]]
VScale(s, a) == [k \in 1..Len(a) |-> s * a[k]]
Degree(m) == LET degs == { ISumOf([j \in 1..(Len(t)-1) |-> t[j+1]]) : t \in UNION { {m[i][q] : q \in 1..Len(m[i])} : i \in 1..Len(m) } }
             IN IF degs = {} THEN 0 ELSE CHOOSE g \in degs : \A h \in degs : h <= g

(* 12 * R4(f, c, d) *)
Rich12(m, c, d) == VSub(VScale(8, VSub(MapAt(m, VAdd(c, d)), MapAt(m, VSub(c, d)))),
                        VSub(MapAt(m, VAdd(c, VScale(2, d))), MapAt(m, VSub(c, VScale(2, d)))))
(* THE identity: for degree <= 4, R4(f,c,d) = J(c) d, for ANY c and d *)
RichardsonExact(m, c, d) == Rich12(m, c, d) = VScale(12, IMatVec(JacAt(m, c), d))
JacSymAt(m, c) == LET J == JacAt(m, c) IN \A i, k \in 1..Len(m) : J[i][k] = J[k][i]
(* value of a polynomial as a canonical coefficient table on the exponent box 0..4: two polynomials of degree <= 4 in
   each variable are equal iff they agree on the lattice (-2..2)^dim, which is how equality is decided here *)
Lattice(dim, lo, hi) == [1..dim -> lo..hi]
SamePolyOn(p, q, L) == \A x \in L : PolyAt(p, x) = PolyAt(q, x)
(* a map is a gradient iff d f_i / d x_k = d f_k / d x_i as polynomials *)
IsGradient(m, L) == \A i, k \in 1..Len(m) : i < k => SamePolyOn(DPoly(m[i], k), DPoly(m[k], i), L)
(* 3 * work of f along the segment a -> a + 2e by Simpson with the mid point a + e (exact for cubic integrands) *)
Work3(m, a, e) == IDot(e, VAdd(VAdd(MapAt(m, a), VScale(4, MapAt(m, VAdd(a, e)))), MapAt(m, VAdd(a, VScale(2, e)))))
LoopWork3(m, c, d, e) == Work3(m, c, d) + Work3(m, VAdd(c, VScale(2, d)), e)
                         - Work3(m, VAdd(c, VScale(2, e)), d) - Work3(m, c, e)
(* the linear limit is the same formula at the origin: R4(f, 0, c) = L c, L the linear part *)
Origin(dim) == [j \in 1..dim |-> 0]
LinearPartAt(m, c) == IMatVec(JacAt(m, Origin(Len(c))), c)
NoConstantTerm(m) == MapAt(m, Origin(Len(m))) = Origin(Len(m))

-----------------------------------------------------------------------------
(*                         Part B: laws on observations                     *)
(* Matrices are sequences of rows of Rat, vectors sequences of Rat.         *)

TolOneSum == 50   \* a float result must be within one rounding of the exact sum of two observed floats
TolSym    == 44   \* the tangent is a sum of five float matrices added in one order: (i,j) and (j,i) associate differently
TolSum    == 44   \* entry-wise sums of a few observed matrices (composition of kL, fint = kernel + k0 c): scale SUM |terms|
TolComb   == 40   \* linear relations between matrices of DIFFERENT runs (load linearity, load split, affine restraints): scale row maxima
TolAgree  == 36   \* two different kernels / models that must give the same matrix (cylinder = cone at 0, iso = general)
TolJac    == 38   \* Richardson combination of four internal forces against the tangent
TolThread == 44   \* the same integral summed in a different order
TolProbe  == 40   \* x^T K x >= -2^-40 |x|^2 ||K||_inf

Eps(t) == RTwoPow(-t)
NRows(M) == Len(M)
VAbs(v) == Fn([k \in 1..Len(v) |-> RAbs(v[k])])
VAddR(a, b) == Fn([k \in 1..Len(a) |-> RAdd(a[k], b[k])])
VSubR(a, b) == Fn([k \in 1..Len(a) |-> RSub(a[k], b[k])])
VScaleR(s, a) == Fn([k \in 1..Len(a) |-> RMul(s, a[k])])
RECURSIVE RMaxFrom(_,_)
RMaxFrom(s, k) == IF k > Len(s) THEN RZero ELSE RMax(RAbs(s[k]), RMaxFrom(s, k+1))
RMaxAbs(s) == RMaxFrom(s, 1)                           \* max |s_k|, 0 for the empty sequence
RowMax(M) == Fn([i \in 1..Len(M) |-> RMaxAbs(M[i])])
MaxOfVecs(a, b) == Fn([i \in 1..Len(a) |-> RMax(a[i], b[i])])
ZeroVec(n) == Fn([i \in 1..n |-> RZero])
IsZeroVec(v) == \A k \in 1..Len(v) : RIsZero(v[k])
(* the mirror of the upper triangle: what compmech.sparse.make_symmetric returns *)
SymUp(M) == Fn([i \in 1..Len(M) |-> Fn([j \in 1..Len(M) |-> IF j >= i THEN M[i][j] ELSE M[j][i]])])
BadRect(nr, nc, P(_,_)) == { ij \in (1..nr) \X (1..nc) : ~P(ij[1], ij[2]) }
BadPairs(n, P(_,_)) == BadRect(n, n, P)
Few(S) == IF Cardinality(S) <= 4 THEN S ELSE { <<CHOOSE x \in S : TRUE, "and", Cardinality(S) - 1, "more">> }

(* exact symmetry / symmetry up to the association order of a float sum *)
SymBad(M, t) == LET R == RowMax(M)
                IN BadPairs(Len(M), LAMBDA i, j : i >= j \/ RLe(RAbs(RSub(M[i][j], M[j][i])), RMul(Eps(t), RAdd(R[i], R[j]))))
(* two matrices that must agree: |A_ij - B_ij| <= 2^-t (R_i + R_j), R the row maxima over both *)
AgreeBad(A, B, t) ==
    IF Len(A) # Len(B) THEN {<<"shape", Len(A), Len(B)>>}
    ELSE LET R == MaxOfVecs(RowMax(A), RowMax(B))
         IN BadPairs(Len(A), LAMBDA i, j : A[i][j] = B[i][j] \/ RLe(RAbs(RSub(A[i][j], B[i][j])), RMul(Eps(t), RAdd(R[i], R[j]))))
(* M must be the float sum of the listed matrices: |M_ij - SUM_k T_k,ij| <= 2^-t SUM_k |T_k,ij| *)
SumBad(M, Ts, t) ==
    BadRect(Len(M), IF Len(M) = 0 THEN 0 ELSE Len(M[1]), LAMBDA i, j :
        LET terms == [k \in 1..Len(Ts) |-> Ts[k][i][j]]
        IN RLe(RAbs(RSub(M[i][j], RSum(terms))), RMul(Eps(t), RAbsSum(terms))))
SameMat(A, B) == A = B
(* a linear combination of observed matrices that must vanish (load linearity, load split, affine edge restraints):
   |SUM_k c_k M_k,ij| <= 2^-t (R_i + R_j), R the row maxima of the |c_k M_k| *)
CombBad(Ms, cs, t) ==
    LET sc == Fn([k \in 1..Len(Ms) |-> MScale(cs[k], Ms[k])])
        R == Fn([i \in 1..Len(Ms[1]) |-> RMaxAbs([k \in 1..Len(Ms) |-> RMaxAbs(sc[k][i])])])
    IN BadPairs(Len(Ms[1]), LAMBDA i, j : RLe(RAbs(RSum([k \in 1..Len(Ms) |-> sc[k][i][j]])), RMul(Eps(t), RAdd(R[i], R[j]))))
(* necessary condition of positive semi-definiteness *)
NormInf(M) == LET s == Fn([i \in 1..Len(M) |-> RAbsSum(M[i])]) IN RMaxAbs(s)
ProbeBad(K, probes, t) ==
    LET nrm == NormInf(K)
    IN { p \in 1..Len(probes) : LET x == probes[p]
                                IN RLt(Quad(K, x), RNeg(RMul(Eps(t), RMul(RDot(x, x), nrm)))) }
       \cup { <<"diagonal", i>> : i \in { i \in 1..Len(K) : RLt(K[i][i], RNeg(RMul(Eps(t), nrm))) } }    \* the unit vectors

(* ---- partition (free amplitudes) ------------------------------------------------------------------ *)
Dofs(xs) == { xs[k] : k \in 1..Len(xs) }
FreePart(K, xs) == SP!Kuu(K, Dofs(xs))
SlabPart(K, xs) == SP!KukSlab(K, Dofs(xs))
FreeVec(v, xs) == SP!DeleteVec(v, Dofs(xs))
FullOf(cu, xs, cks, inc, size) == SP!FullC(cu, xs, cks, inc, size, RMul)

(* ---- C17: the Jacobian law on the free amplitudes ---------------------------------------------------- *)
(* fp1 = f(c+d), fm1 = f(c-d), fp2 = f(c+2d), fm2 = f(c-2d), all on the free amplitudes; KT the tangent at c, K0 the linear
   matrix (both free-free); pres[i] the magnitude of the prescribed contribution SUM_k |K0uk[i][k]| |inc ck_k|.
   Scale of row i = the magnitudes of everything that was added to form the four forces and the product KT d, plus the
   largest non-linear row scale (integration noise floor, see JacScale). *)
R4(fp1, fm1, fp2, fm2) == VScaleR(RFrac(1, 12), VSubR(VScaleR(RFromInt(8), VSubR(fp1, fm1)), VSubR(fp2, fm2)))
JacScale(KT, K0, c, d, fs, pres) ==
    LET w == VAddR(VAbs(c), VScaleR(RFromInt(2), VAbs(d)))
        KA == MAbs(KT)   K0A == MAbs(K0)   NLA == MAbs(MSub(KT, K0))
        (* the integrals of all rows share the stress resultants: a row whose integral vanishes by orthogonality carries the
           rounding noise of its integrand, i.e. of the largest non-linear row, not of its own (zero) result *)
        G == RMaxAbs(Fn([i \in 1..Len(c) |-> RDot(NLA[i], w)]))
    IN Fn([i \in 1..Len(c) |-> RAdd(RAdd(RAdd(RDot(KA[i], w), RDot(K0A[i], w)), G),
                                    RAdd(pres[i], RSum([s \in 1..Len(fs) |-> RAbs(fs[s][i])])))])
JacobianBad(KT, K0, c, d, fp1, fm1, fp2, fm2, pres, t) ==
    LET D == R4(fp1, fm1, fp2, fm2)
        Jd == MVec(KT, d)
        S == JacScale(KT, K0, c, d, <<fp1, fm1, fp2, fm2>>, pres)
    IN { i \in 1..Len(c) : ~RLe(RAbs(RSub(D[i], Jd[i])), RMul(Eps(t), S[i])) }
(* how many bits the worst row keeps (evidence: the margin of the clean tree), capped *)
RECURSIVE BitsFrom(_,_,_,_)
BitsFrom(err, S, t, cap) == IF t >= cap THEN cap
                            ELSE IF \A i \in 1..Len(err) : RLe(err[i], RMul(Eps(t + 1), S[i])) THEN BitsFrom(err, S, t + 1, cap)
                            ELSE t
JacobianBits(KT, K0, c, d, fp1, fm1, fp2, fm2, pres) ==
    LET D == R4(fp1, fm1, fp2, fm2)
        Jd == MVec(KT, d)
        S == JacScale(KT, K0, c, d, <<fp1, fm1, fp2, fm2>>, pres)
        err == Fn([i \in 1..Len(c) |-> RAbs(RSub(D[i], Jd[i]))])
    IN IF \A i \in 1..Len(c) : RLe(err[i], RMul(Eps(20), S[i])) THEN BitsFrom(err, S, 20, 60) ELSE 0
(* the stencil must really be c, c+-d, c+-2d (checked exactly on the recorded arguments) *)
IsStencil(c, d, cp1, cm1, cp2, cm2) == /\ cp1 = VAddR(c, d) /\ cm1 = VSubR(c, d)
                                       /\ cp2 = VAddR(c, VScaleR(RFromInt(2), d)) /\ cm2 = VSubR(c, VScaleR(RFromInt(2), d))
(* fint is a gradient: e . R4(f,c,d) = d . R4(f,c,e) *)
GradientBad(Dd, De, d, e, Sd, Se, t) ==
    LET lhs == RDot(e, Dd)  rhs == RDot(d, De)
        S == RAdd(RDot(VAbs(e), Sd), RDot(VAbs(d), Se))
    IN IF RLe(RAbs(RSub(lhs, rhs)), RMul(Eps(t), S)) THEN {} ELSE {"work"}
GradientBadTag(law, Dd, De, d, e, Sd, Se) == LET b == GradientBad(Dd, De, d, e, Sd, Se, TolJac) IN IF b = {} THEN {} ELSE {<<law, b>>}
(* two evaluations of the same integral in another summation order *)
VecCloseBad(a, b, S, t) == IF Len(a) # Len(b) THEN {0} ELSE { i \in 1..Len(a) : ~RLe(RAbs(RSub(a[i], b[i])), RMul(Eps(t), S[i])) }

-----------------------------------------------------------------------------
(*              Plans: which kernel, which argument list (the code)          *)
Models == {"clpt_donnell_bc1", "clpt_donnell_bc2", "clpt_donnell_bc3", "clpt_donnell_bc4",
           "clpt_sanders_bc1", "clpt_sanders_bc2", "clpt_sanders_bc3", "clpt_sanders_bc4",
           "iso_clpt_donnell_bc2", "iso_clpt_donnell_bc3",
           "fsdt_donnell_bc1", "fsdt_donnell_bc2", "fsdt_donnell_bc3", "fsdt_donnell_bc4", "fsdt_donnell_bcn",
           "fsdt_sanders_bcn", "clpt_geier1997_bc2", "fsdt_geier1997_bc2", "fsdt_shadmehri2012_bc2", "fsdt_shadmehri2012_bc3"}
IsoModels == {"iso_clpt_donnell_bc2", "iso_clpt_donnell_bc3"}
BaseOf(model) == CASE model = "iso_clpt_donnell_bc2" -> "clpt_donnell_bc2"
                   [] model = "iso_clpt_donnell_bc3" -> "clpt_donnell_bc3"
                   [] OTHER -> model
FsdtModels == {"fsdt_donnell_bc1", "fsdt_donnell_bc2", "fsdt_donnell_bc3", "fsdt_donnell_bc4", "fsdt_donnell_bcn",
               "fsdt_sanders_bcn", "fsdt_geier1997_bc2", "fsdt_shadmehri2012_bc2", "fsdt_shadmehri2012_bc3"}
(* models with a non-linear module (modelDB 'non-linear' is not None) *)
NLModels == {"clpt_donnell_bc1", "clpt_donnell_bc2", "clpt_donnell_bc3", "clpt_donnell_bc4",
             "clpt_sanders_bc1", "clpt_sanders_bc2", "clpt_sanders_bc3", "clpt_sanders_bc4",
             "iso_clpt_donnell_bc2", "iso_clpt_donnell_bc3",
             "fsdt_donnell_bc1", "fsdt_donnell_bc2", "fsdt_donnell_bc3", "fsdt_donnell_bc4", "fsdt_donnell_bcn"}
BcOf(model) == CASE model \in {"clpt_donnell_bc1", "clpt_sanders_bc1", "fsdt_donnell_bc1"} -> "bc1"
                 [] model \in {"clpt_donnell_bc2", "iso_clpt_donnell_bc2", "clpt_sanders_bc2", "fsdt_donnell_bc2",
                               "clpt_geier1997_bc2", "fsdt_geier1997_bc2", "fsdt_shadmehri2012_bc2"} -> "bc2"
                 [] model \in {"clpt_donnell_bc3", "iso_clpt_donnell_bc3", "clpt_sanders_bc3", "fsdt_donnell_bc3",
                               "fsdt_shadmehri2012_bc3"} -> "bc3"
                 [] model \in {"clpt_donnell_bc4", "clpt_sanders_bc4", "fsdt_donnell_bc4"} -> "bc4"
                 [] OTHER -> "bcn"
(* modelDB.get_linear_matrices: the restraint attributes handed to fk0edges, in order *)
EdgeStiffnesses(model) ==
    CASE BcOf(model) = "bc1" -> <<"kphixBot", "kphixTop">>
      [] BcOf(model) = "bc2" -> <<"kuBot", "kuTop", "kphixBot", "kphixTop">>
      [] BcOf(model) = "bc3" -> <<"kvBot", "kvTop", "kphixBot", "kphixTop">>
      [] BcOf(model) = "bc4" -> <<"kuBot", "kuTop", "kvBot", "kvTop", "kphixBot", "kphixTop">>
      [] OTHER -> <<"kuBot", "kuTop", "kvBot", "kvTop", "kwBot", "kwTop", "kphixBot", "kphixTop", "kphitBot", "kphitTop">>
EdgeCall(model) == [mod |-> BaseOf(model), fn |-> "fk0edges",
                    args |-> (IF model \in FsdtModels THEN <<"m1", "m2", "n2", "r1", "r2">>
                              ELSE <<"m1", "m2", "n2", "r1", "r2", "L">>) \o EdgeStiffnesses(model)]
K0Call(model, cyl) ==
    [mod |-> model, fn |-> IF cyl THEN "fk0_cyl" ELSE "fk0",
     args |-> CASE model \in IsoModels /\ cyl  -> <<"r2", "L", "E11", "nu", "h", "m1", "m2", "n2">>
                [] model \in IsoModels /\ ~cyl -> <<"alpharad", "r2", "L", "E11", "nu", "h", "m1", "m2", "n2", "s">>
                [] model \notin IsoModels /\ cyl -> <<"r2", "L", "F", "m1", "m2", "n2">>
                [] OTHER -> <<"alpharad", "r2", "L", "F", "m1", "m2", "n2", "s">>]
(* loads: "Fc" stands for Nxxtop[0]*(2*pi*r2*cosa), "0" for the literal 0 *)
KGCall(model, cyl, loads) ==
    [mod |-> BaseOf(model), fn |-> IF cyl THEN "fkG0_cyl" ELSE "fkG0",
     args |-> loads \o (IF cyl THEN <<"r2", "L", "m1", "m2", "n2">> ELSE <<"r2", "alpharad", "L", "m1", "m2", "n2", "s">>)]
(* the constitutive matrix handed to the kernels *)
FRule(model, freuse, hasstack) ==
    IF freuse THEN "F_reuse"
    ELSE IF hasstack THEN (IF model \in FsdtModels THEN "ABDE_shear_times_K" ELSE "ABD")
    ELSE "F_isotropic_from_E11_nu_h"
(* force_orthotropic_laminate: the entries (i, j) and (j, i) set to zero (0-based; <<6, 7>> only exists for the 8 x 8 matrix):
   A16 A26 B16 B26 (both blocks) D16 D26 A45 *)
OrthoZero == << <<0, 2>>, <<1, 2>>, <<0, 5>>, <<1, 5>>, <<2, 3>>, <<2, 4>>, <<3, 5>>, <<4, 5>>, <<6, 7>> >>
LinearPlan(model, cyl, clc, freuse, hasstack) ==
    [F |-> FRule(model, freuse, hasstack), orthoZero |-> OrthoZero,
     Fc |-> "Nxxtop0*(2*pi*r2*cosa)",
     k0 |-> K0Call(model, cyl), edges |-> EdgeCall(model),
     kG |-> IF clc = 0 THEN << KGCall(model, cyl, <<"Fc", "P", "T">>) >>
            ELSE << KGCall(model, cyl, <<"Fc", "0", "0">>), KGCall(model, cyl, <<"0", "P", "0">>), KGCall(model, cyl, <<"0", "0", "T">>) >>]
NLKw == <<"nx", "nt", "num_cores", "method", "c0", "m0", "n0">>
NLPlan(model) ==
    LET mat == IF model \in IsoModels THEN <<"E11", "nu", "h">> ELSE <<"F">>
        geo == <<"c", "alpharad", "r2", "L", "tLArad">>
        ord == <<"m1", "m2", "n2">>
    IN [kG  |-> [mod |-> BaseOf(model), fn |-> "calc_kG", args |-> geo \o <<"F">> \o ord, kw |-> NLKw],
        k0L |-> [mod |-> model, fn |-> "calc_k0L", args |-> geo \o mat \o ord, kw |-> NLKw],
        kLL |-> [mod |-> model, fn |-> "calc_kLL", args |-> geo \o mat \o ord, kw |-> NLKw],
        fint |-> [mod |-> BaseOf(model), fn |-> "calc_fint_0L_L0_LL",
                  args |-> geo \o <<"F">> \o ord \o <<"nx*m", "nt*m", "num_cores", "method", "c0", "m0", "n0">>, kw |-> <<>>]]

-----------------------------------------------------------------------------
(*                    Known findings: named, narrow signatures               *)
(* A deviation explains a failing law only for the models / geometry it names. *)
KF_C16_Bc2ConeKernelDropsDoubleSeries == "KF_C16_Bc2ConeKernelDropsDoubleSeries"
KF_C16_IsoShortcutDiffers             == "KF_C16_IsoShortcutDiffers"
KF_C16_FsdtDonnellBcnConeIndefinite   == "KF_C16_FsdtDonnellBcnConeIndefinite"
KF_C16_FsdtSandersBcnCylIndefinite    == "KF_C16_FsdtSandersBcnCylIndefinite"
KF_C16_CylinderKernelNotConeAtZero    == "KF_C16_CylinderKernelNotConeAtZero"
KF_C16_AxialLoadFrozenAfterFirstRebuild == "KF_C16_AxialLoadFrozenAfterFirstRebuild"
KF_C16_PlyDataFrozenAfterFirstRebuild == "KF_C16_PlyDataFrozenAfterFirstRebuild"
KF_C16_FReuseZeroedInPlace            == "KF_C16_FReuseZeroedInPlace"
KF_C17_CachedLinearMatricesAfterRedefinition == "KF_C17_CachedLinearMatricesAfterRedefinition"
KF_C17_SandersBc23TangentNotJacobian  == "KF_C17_SandersBc23TangentNotJacobian"
KF_C17_FsdtTangentNotJacobian         == "KF_C17_FsdtTangentNotJacobian"
KF_C17_FsdtFintNotConservative        == "KF_C17_FsdtFintNotConservative"
FsdtNL == {"fsdt_donnell_bc1", "fsdt_donnell_bc2", "fsdt_donnell_bc3", "fsdt_donnell_bc4", "fsdt_donnell_bcn"}
(* law names: see Trace_ShellLaws / the invariants below.  d: [model, cyl, route] of the failing observation (route: how the
   object came to its definition: "fresh", "requery", "changed:<aspect>", ...); for laws that relate
   two models, `model` is the first one named by the harness (iso model / the model whose two kernels are compared). *)
Explains(kf, law, d) ==
    CASE kf = KF_C16_Bc2ConeKernelDropsDoubleSeries ->
            (law = "CylinderIsConeAtZero" /\ d.model = "clpt_donnell_bc2")
            \/ (law = "IsoIsGeneral" /\ d.model = "iso_clpt_donnell_bc2" /\ ~d.cyl)
      [] kf = KF_C16_IsoShortcutDiffers -> law = "IsoIsGeneral" /\ d.model \in IsoModels
      [] kf = KF_C16_FsdtDonnellBcnConeIndefinite -> law = "ProbePositive" /\ d.model = "fsdt_donnell_bcn" /\ ~d.cyl
      [] kf = KF_C16_FsdtSandersBcnCylIndefinite -> law = "ProbePositive" /\ d.model = "fsdt_sanders_bcn" /\ d.cyl
      [] kf = KF_C16_CylinderKernelNotConeAtZero ->
            law = "CylinderIsConeAtZero" /\ d.model \in {"fsdt_donnell_bcn", "fsdt_sanders_bcn", "fsdt_geier1997_bc2",
                                                         "fsdt_shadmehri2012_bc2", "fsdt_shadmehri2012_bc3"}
      [] kf = KF_C16_AxialLoadFrozenAfterFirstRebuild -> law = "SameKG0" /\ d.route \in {"changed:Fc", "changed:r2", "changed:alphadeg"}
      [] kf = KF_C16_PlyDataFrozenAfterFirstRebuild -> law = "SameK0" /\ d.route \in {"changed:plyt", "changed:laminaprop", "changed:stacklen"}
      [] kf = KF_C16_FReuseZeroedInPlace -> law = "InputsUntouched" /\ d.route = "freuse:ortho"
      [] kf = KF_C17_CachedLinearMatricesAfterRedefinition -> law = "SameAnswer" /\ d.route \in {"changed:r2", "changed:lam"}
      [] kf = KF_C17_SandersBc23TangentNotJacobian -> law = "TangentIsJacobian" /\ d.model \in {"clpt_sanders_bc2", "clpt_sanders_bc3"}
      [] kf = KF_C17_FsdtTangentNotJacobian -> law = "TangentIsJacobian" /\ d.model \in FsdtNL
      [] kf = KF_C17_FsdtFintNotConservative -> law = "FintIsGradient" /\ d.model \in FsdtNL
      [] OTHER -> FALSE
AllDeviations == {KF_C16_Bc2ConeKernelDropsDoubleSeries, KF_C16_IsoShortcutDiffers, KF_C16_FsdtDonnellBcnConeIndefinite, KF_C16_FsdtSandersBcnCylIndefinite,
                  KF_C16_CylinderKernelNotConeAtZero, KF_C16_AxialLoadFrozenAfterFirstRebuild, KF_C16_PlyDataFrozenAfterFirstRebuild,
                  KF_C16_FReuseZeroedInPlace, KF_C17_CachedLinearMatricesAfterRedefinition, KF_C17_SandersBc23TangentNotJacobian, KF_C17_FsdtTangentNotJacobian,
                  KF_C17_FsdtFintNotConservative}
RECURSIVE JoinNames(_)
JoinNames(S) == IF S = {} THEN "" ELSE LET k == CHOOSE x \in S : TRUE
                                       IN IF S = {k} THEN k ELSE k \o "+" \o JoinNames(S \ {k})
(* the verdict of one step: failing = set of <<law, detail>>; total: "ok" | "kf:<names>" | "fail" *)
VerdictOf(failing, d, devs) ==
    LET laws == { f[1] : f \in failing }
        unexplained == { l \in laws : ~\E kf \in devs : Explains(kf, l, d) }
        used == { kf \in devs : \E l \in laws : Explains(kf, l, d) }
    IN IF failing = {} THEN <<"ok", {}>>
       ELSE IF unexplained = {} THEN <<"kf:" \o JoinNames(used), failing>>
       ELSE <<"fail", { f \in failing : f[1] \in unexplained }>>

-----------------------------------------------------------------------------
(*                      Part B: the observation machine                     *)
(* An observation is a record with at least                                   *)
(*   op   "linear" | "nl" | "fint" | "kernel"                                 *)
(*   d    [model, cyl] (what Explains needs)                                  *)
(*   stamp  everything the answer may depend on (definition in force + call   *)
(*          arguments), as a value: equal stamps must give equal answers      *)
(* and the observed quantities of that step (see the Law* operators).  The    *)
(* actions only append; all content is in the laws.                           *)
LInit == hist = <<>>
(* first = TRUE: the observation opens a new study (fresh objects, empty history) *)
Observe(o, first) == hist' = IF first THEN <<o>> ELSE Append(hist, o)
CalcLinear(o, first) == o.op = "linear" /\ Observe(o, first)        \* ConeCyl._calc_linear_matrices / calc_k0 / lb
CalcNL(o, first) == o.op = "nl" /\ Observe(o, first)                \* ConeCyl.calc_kT / _calc_NL_matrices
CalcFint(o, first) == o.op = "fint" /\ Observe(o, first)            \* ConeCyl.calc_fint
KernelCall(o, first) == o.op = "kernel" /\ Observe(o, first)        \* a model kernel called directly (fk0_cyl / fk0 at alpharad = 0)

(* magnitude of the prescribed contributions to row i of the free internal force *)
PresOf(K0, xs, cks, inc) ==
    LET slab == SlabPart(K0, xs)
    IN Fn([i \in 1..Len(slab) |-> RSum([k \in 1..Len(xs) |-> RMul(RAbs(slab[i][xs[k] + 1]), RAbs(RMul(inc, cks[k])))])])
Tag(law, S) == IF S = {} THEN {} ELSE {<<law, Few(S)>>}
(* ---- laws of ONE linear observation (C16) ----
   o.k0, o.kG (sequence: <<kG0>> or <<kG0_Fc, kG0_P, kG0_T>>), o.k0uu, o.k0uk, o.xs (excluded_dofs as left by the call),
   o.kern = [k0, edges (<<>> if the model has none), kG (aligned with o.kG)] results of the planned kernel calls,
   o.probes vectors *)
LinearLaws(o) ==
    Tag("K0Symmetric", SymBad(o.k0, 60))
    \cup UNION { Tag("KG0Symmetric", SymBad(o.kG[k], 60)) : k \in 1..Len(o.kG) }
    \cup Tag("PartitionOfK0", (IF o.k0uu = FreePart(o.k0, o.xs) THEN {} ELSE {"k0uu"})
                              \cup (IF o.k0uk = SlabPart(o.k0, o.xs) THEN {} ELSE {"k0uk"}))
    \cup Tag("ProbePositive", ProbeBad(o.k0, o.probes, TolProbe))
    \cup (IF o.kern.k0 = <<>> THEN {}
          ELSE Tag("K0IsKernelPlusEdges",
                   IF o.kern.edges = <<>> THEN (IF o.k0 = SymUp(o.kern.k0) THEN {} ELSE {"k0 # Sym(kernel)"})
                   ELSE SumBad(o.k0, <<SymUp(o.kern.k0), SymUp(o.kern.edges)>>, TolOneSum))
               \cup UNION { Tag("KG0IsKernel", IF o.kG[k] = SymUp(o.kern.kG[k]) THEN {} ELSE {k}) : k \in 1..Len(o.kG) })
(* ---- laws of ONE tangent observation (C17) ----
   o.kL, o.kG (full), o.kTuu, o.kTuk, o.k0 (full, the linear matrix of the object), o.xs, o.flags [k0L, kLL],
   o.kern = [k0L, kLL, kG] or [k0L |-> <<>>] *)
NLLaws(o) ==
    LET full == MAdd(o.kL, o.kG)
    IN Tag("TangentSymmetric", SymBad(o.kL, TolSym) \cup SymBad(o.kG, TolSym) \cup SymBad(o.kTuu, TolSym))
       \cup Tag("TangentIsKLPlusKG", SumBad(o.kTuu, <<FreePart(o.kL, o.xs), FreePart(o.kG, o.xs)>>, TolOneSum)
                                     \cup SumBad(o.kTuk, <<SlabPart(o.kL, o.xs), SlabPart(o.kG, o.xs)>>, TolOneSum))
       \cup (IF o.kern.kG = <<>> THEN {}
             ELSE Tag("KGIsKernel", IF o.kG = SymUp(o.kern.kG) THEN {} ELSE {"kG # Sym(calc_kG)"})
                  \cup Tag("KLIsSumOfKernels",
                           SumBad(o.kL, <<o.k0>> \o (IF o.flags.k0L THEN <<o.kern.k0L, MT(o.kern.k0L)>> ELSE <<>>)
                                               \o (IF o.flags.kLL THEN <<SymUp(o.kern.kLL)>> ELSE <<>>), TolSum)))
(* ---- laws of ONE internal-force observation ----
   o.f, o.c (as passed), o.cfull (calc_full_c of it), o.ru, o.xs, o.cks, o.inc, o.size, o.k0 (full) or <<>>, o.kern (vector or <<>>),
   o.undeformed: TRUE when c and all prescribed values are zero *)
FintLaws(o) ==
    Tag("UndeformedIsForceFree", IF o.undeformed /\ ~IsZeroVec(o.f) THEN {"f(0) # 0"} ELSE {})
    \cup (IF o.kern = <<>> THEN {}
          ELSE LET kc == MVec(o.k0, o.cfull)
                   full == Fn([i \in 1..Len(kc) |-> RAdd(o.kern[i], kc[i])])
                   want == IF o.ru THEN FreeVec(full, o.xs) ELSE full
                   S0 == MVec(MAbs(o.k0), VAbs(o.cfull))
                   S1 == Fn([i \in 1..Len(kc) |-> RAdd(RAbs(o.kern[i]), S0[i])])
                   S == IF o.ru THEN FreeVec(S1, o.xs) ELSE S1
               IN Tag("FintIsKernelPlusK0c", VecCloseBad(o.f, want, S, TolSum)))

(* ---- relational laws (between observations of one study) ---- *)
SameAnswer(a, b) == a.stamp = b.stamp => a.answer = b.answer
(* every law instance the history contains holds: the invariant of the machine.  The instances are found by the stamps. *)
ObsOf(op) == { k \in 1..Len(hist) : hist[k].op = op }
InvSameAnswer == \A i, j \in 1..Len(hist) : (i < j /\ hist[i].op = hist[j].op) => SameAnswer(hist[i], hist[j])
InvLinear == \A k \in ObsOf("linear") : LinearLaws(hist[k]) = {}
InvNL == \A k \in ObsOf("nl") : NLLaws(hist[k]) = {}
InvFint == \A k \in ObsOf("fint") : FintLaws(hist[k]) = {}
(* the free-amplitude Jacobian law for every complete stencil in the history: nl observation n at (c, inc) with both
   flags on, and fint observations (ru = TRUE, same definition, same inc) at c +- d, c +- 2d for some d # 0 *)
FreeF(k) == hist[k].f
StencilsOf(n) ==
    { q \in ObsOf("fint") \X ObsOf("fint") \X ObsOf("fint") \X ObsOf("fint") :
        /\ \A s \in 1..4 : hist[q[s]].ru /\ hist[q[s]].defn = hist[n].defn /\ hist[q[s]].inc = hist[n].inc
        /\ LET d == VSubR(hist[q[1]].c, hist[n].c)
           IN ~IsZeroVec(d) /\ IsStencil(hist[n].c, d, hist[q[1]].c, hist[q[2]].c, hist[q[3]].c, hist[q[4]].c) }
JacobianOf(n, q) ==
    LET o == hist[n]
    IN JacobianBad(o.kTuu, FreePart(o.k0, o.xs), o.c, VSubR(hist[q[1]].c, o.c), FreeF(q[1]), FreeF(q[2]), FreeF(q[3]), FreeF(q[4]),
                   o.pres, TolJac)
InvJacobian == \A n \in ObsOf("nl") : (hist[n].flags.k0L /\ hist[n].flags.kLL) => \A q \in StencilsOf(n) : JacobianOf(n, q) = {}
(* return_u = TRUE is the deletion of the prescribed rows of return_u = FALSE *)
InvFintDelete == \A i, j \in ObsOf("fint") :
                    (hist[i].ru /\ ~hist[j].ru /\ hist[i].defn = hist[j].defn /\ hist[i].inc = hist[j].inc /\ hist[i].cfull = hist[j].cfull)
                    => hist[i].f = FreeVec(hist[j].f, hist[i].xs)
=============================================================================
