---------------------------- MODULE ShellPartition ----------------------------
(***************************************************************************)
(* Property C18, book-keeping part: ConeCyl.exclude_dofs_matrix and        *)
(* ConeCyl.calc_full_c (compmech/conecyl/conecyl.py:479-618).              *)
(*                                                                         *)
(* The first Num0 = 3 Ritz amplitudes (0 axial shortening, 1 twist, 2 load *)
(* asymmetry) can be prescribed.  xs is the list `excluded_dofs` (distinct *)
(* dof numbers in ANY order, as the attribute is a public list), cks the   *)
(* aligned list `excluded_dofs_ck`.                                        *)
(*                                                                         *)
(*  * the *Algo operators mirror the code statement by statement (COO      *)
(*    triplets, delete one row at a time from the highest index down and   *)
(*    shift the larger indices; np.insert one value at a time);            *)
(*  * Sub / Slab / the invariants are the direct, index-free definitions   *)
(*    the property speaks about; TLC checks that they agree for all xs.    *)
(*                                                                         *)
(* Matrix entries are opaque for the deletion operators (integers in the   *)
(* bounded model, exact IEEE doubles <<s, limbs, e>> in traces), so the    *)
(* same text judges small integer matrices and a real k0.                  *)
(***************************************************************************)
EXTENDS Integers, Sequences, FiniteSets, TLC

CONSTANTS Tier,     \* "quick" | "thorough"
          Dev       \* set of enabled named deviations (known findings); {} = the literal property

Num0 == 3
KF_Kkk == "KF_C18_KkkComplementBlock"
   (* exclude_dofs_matrix(return_kkk=True) returns k[N\X, N\X] (N = {0,1,2}), i.e. it deletes the
      prescribed rows/columns from the 3x3 corner, although the documented partition
      k = |kkk kku; kuk kuu| with c = |ck; cu| makes kkk the block of the PRESCRIBED amplitudes *)
PartitionDeviations == {KF_Kkk}

Range(s) == {s[k] : k \in 1..Len(s)}

(* ascending sequence of the members of S that lie in 0..n-1 *)
Asc(S, n) == LET F[k \in 0..n] == IF k = 0 THEN <<>>
                                  ELSE IF (k-1) \in S THEN Append(F[k-1], k-1) ELSE F[k-1]
             IN F[n]
Desc(S, n) == LET a == Asc(S, n) IN [k \in 1..Len(a) |-> a[Len(a) + 1 - k]]
Unknown(n, X) == Asc((0..(n-1)) \ X, n)              \* the dofs that stay, ascending
Corner == <<0, 1, 2>>

(* ---------------------------------------------------------------------- *)
(* the property's own words: sub-matrix on given rows / columns            *)
Sub(K, rows, cols) == [a \in 1..Len(rows) |-> [b \in 1..Len(cols) |-> K[rows[a]+1][cols[b]+1]]]
Kuu(K, X)    == Sub(K, Unknown(Len(K), X), Unknown(Len(K), X))
KukSlab(K, X) == Sub(K, Unknown(Len(K), X), Corner)    \* column j = coupling of amplitude j with the unknowns
KkuSlab(K, X) == Sub(K, Corner, Unknown(Len(K), X))
KkkDoc(K, X) == Sub(K, Asc(X, Num0), Asc(X, Num0))     \* block of the prescribed amplitudes
DeleteVec(c, X) == LET u == Unknown(Len(c), X) IN [a \in 1..Len(u) |-> c[u[a]+1]]

(* ---------------------------------------------------------------------- *)
(* mirror of exclude_dofs_matrix                                           *)
COO(K, zero) == { <<i, j, K[i+1][j+1]>> : <<i, j>> \in { ij \in (0..(Len(K)-1)) \X (0..(Len(K)-1)) :
                                                           K[ij[1]+1][ij[2]+1] # zero } }
Dense(E, nr, nc, zero) ==
    [a \in 1..nr |-> [b \in 1..nc |->
        LET hit == { e \in E : e[1] = a-1 /\ e[2] = b-1 }
        IN IF hit = {} THEN zero ELSE (CHOOSE e \in hit : TRUE)[3]]]
(* `ind = where(row != r); row[row > r] -= 1; take(ind)` *)
DropRow(E, r) == { <<IF e[1] > r THEN e[1]-1 ELSE e[1], e[2], e[3]>> : e \in { e \in E : e[1] # r } }
DropCol(E, c) == { <<e[1], IF e[2] > c THEN e[2]-1 ELSE e[2], e[3]>> : e \in { e \in E : e[2] # c } }
RECURSIVE DropRows(_,_), DropCols(_,_)
DropRows(E, ds) == IF ds = <<>> THEN E ELSE DropRows(DropRow(E, Head(ds)), Tail(ds))
DropCols(E, ds) == IF ds = <<>> THEN E ELSE DropCols(DropCol(E, Head(ds)), Tail(ds))
(* np.delete(dense, excluded_dofs, axis) *)
DelRows(M, X) == LET u == Unknown(Len(M), X) IN [a \in 1..Len(u) |-> M[u[a]+1]]
DelCols(M, X) == [a \in 1..Len(M) |-> LET u == Unknown(Len(M[a]), X) IN [b \in 1..Len(u) |-> M[a][u[b]+1]]]

ExcludeAlgo(K, xs, zero, dev) ==
    LET n  == Len(K)
        X  == Range(xs)
        E  == COO(K, zero)
        ds == Desc(X, Num0)                                   \* np.sort(excluded_dofs)[::-1]
        kkk3 == Dense({ e \in E : e[1] < Num0 /\ e[2] < Num0 }, Num0, Num0, zero)
        kku3 == Dense({ e \in E : e[1] < Num0 }, Num0, n, zero)
        kuk3 == Dense({ e \in E : e[2] < Num0 }, n, Num0, zero)
    IN [ kuu |-> Dense(DropCols(DropRows(E, ds), ds), n - Cardinality(X), n - Cardinality(X), zero),
         kuk |-> DelRows(kuk3, X),
         kku |-> DelCols(kku3, X),
         kkk |-> IF KF_Kkk \in dev THEN DelCols(DelRows(kkk3, X), X) ELSE KkkDoc(K, X) ]

(* ---------------------------------------------------------------------- *)
(* mirror of calc_full_c; Mul is the multiplication of the entry type      *)
Insert(c, pos0, v) == SubSeq(c, 1, pos0) \o <<v>> \o SubSeq(c, pos0+1, Len(c))
(* sorted(zip(excluded_dofs, excluded_dofs_ck), key=dof) *)
Ordered(xs, cks) == LET F[d \in 0..Num0] ==
                          IF d = 0 THEN <<>>
                          ELSE IF (d-1) \in Range(xs)
                               THEN Append(F[d-1], <<d-1, cks[CHOOSE k \in 1..Len(xs) : xs[k] = d-1]>>)
                               ELSE F[d-1]
                    IN F[Num0]
InsertAll(c, ord, inc, Mul(_,_)) ==       \* for dof, cai in ordered: c = np.insert(c, dof, inc*cai)
    LET F[k \in 0..Len(ord)] == IF k = 0 THEN c
                                ELSE Insert(F[k-1], ord[k][1], Mul(inc, ord[k][2]))
    IN F[Len(ord)]
FullC(cu, xs, cks, inc, size, Mul(_,_)) ==
    IF Len(cu) = size
    THEN [k \in 1..size |-> IF (k-1) \in Range(xs) THEN Mul(cu[k], inc) ELSE cu[k]]   \* c[dof] *= inc
    ELSE InsertAll(cu, Ordered(xs, cks), inc, Mul)

(* ---------------------------------------------------------------------- *)
(* bounded model: a client holding one matrix and one vector               *)
IMul(a, b) == a * b
RECURSIVE ISum(_,_)
ISum(s, k) == IF k > Len(s) THEN 0 ELSE s[k] + ISum(s, k+1)
MatVec(M, v) == [a \in 1..Len(M) |-> ISum([b \in 1..Len(v) |-> M[a][b] * v[b]], 1)]

Sizes == IF Tier = "quick" THEN {3, 4, 6, 8} ELSE 3..9
(* index-coded (every entry distinct: any index slip is visible), the same made symmetric with
   a zero band (sparsity pattern as in a real k0), and one with zeros on prescribed rows *)
Mats(n) == { [i \in 1..n |-> [j \in 1..n |-> 10*i + j]],
             [i \in 1..n |-> [j \in 1..n |-> IF (i + j) % 3 = 0 THEN 0 ELSE 7*i*j + i + j]],
             [i \in 1..n |-> [j \in 1..n |-> IF i = 2 \/ j = 1 THEN 0 ELSE 100 + 9*i - 4*j]] }
Perms == { <<>>, <<0>>, <<1>>, <<2>>, <<0,1>>, <<1,0>>, <<0,2>>, <<2,0>>, <<1,2>>, <<2,1>>,
           <<0,1,2>>, <<0,2,1>>, <<1,0,2>>, <<1,2,0>>, <<2,0,1>>, <<2,1,0>> }
Incs == {1, 2, -3}
CkOf(xs) == [k \in 1..Len(xs) |-> 7 * (xs[k] + 1) + k]     \* distinct, tied to the dof and to the list position
Defs == UNION { { [n |-> n, K |-> K, xs |-> xs, cks |-> CkOf(xs), inc |-> inc] :
                    K \in Mats(n), xs \in Perms, inc \in Incs } : n \in Sizes }

VARIABLES def, vec, kind, parts, hist
vars == <<def, vec, kind, parts, hist>>

NoParts == [kuu |-> <<>>, kuk |-> <<>>, kku |-> <<>>, kkk |-> <<>>]
Cu0(d) == [a \in 1..(d.n - Len(d.xs)) |-> 100 + a]
Init == /\ def \in Defs
        /\ kind \in {"reduced", "full", "foreign"}
        /\ vec = CASE kind = "reduced" -> Cu0(def)
                   [] kind = "full"    -> FullC(Cu0(def), def.xs, def.cks, def.inc, def.n, IMul)
                   [] OTHER            -> [k \in 1..def.n |-> 50 + k]     \* a full vector with other values in X
        /\ parts = NoParts
        /\ hist = <<>>

DoExclude(dv) == /\ parts = NoParts
                 /\ parts' = ExcludeAlgo(def.K, def.xs, 0, dv)
                 /\ hist' = Append(hist, <<"Exclude", vec>>)
                 /\ UNCHANGED <<def, vec, kind>>
DoFullC == /\ vec' = FullC(vec, def.xs, def.cks, def.inc, def.n, IMul)
           /\ kind' = "full"
           /\ hist' = Append(hist, <<IF kind = "reduced" THEN "Insert" ELSE "Scale", vec>>)
           /\ UNCHANGED <<def, parts>>
DoDelete == /\ kind # "reduced"
            /\ vec' = DeleteVec(vec, Range(def.xs))
            /\ kind' = "reduced"
            /\ hist' = Append(hist, <<"Delete", vec>>)
            /\ UNCHANGED <<def, parts>>
Next == Len(hist) < 3 /\ (DoExclude(Dev) \/ DoFullC \/ DoDelete)
Spec == Init /\ [][Next]_vars

(* ---------------------------------------------------------------------- *)
(* what TLC checks                                                         *)
X == Range(def.xs)
ExcludeIsSubmatrix ==          \* the shifted COO deletion returns exactly the sub-matrix on the complement
    parts # NoParts => parts.kuu = Kuu(def.K, X)
SlabsRight ==                  \* kuk: unknown rows, column j = amplitude j (the slab calc_fext reads columns 0,1 of)
    parts # NoParts => /\ parts.kuk = KukSlab(def.K, X)
                       /\ parts.kku = KkuSlab(def.K, X)
KkkIsPrescribedBlock ==
    parts # NoParts => (parts.kkk = KkkDoc(def.K, X)
                        \/ (KF_Kkk \in Dev /\ parts.kkk = Sub(def.K, Asc((0..2) \ X, 3), Asc((0..2) \ X, 3))))
Last(k) == hist[Len(hist) + 1 - k]
InsertThenDelete ==            \* deleting X from FullC(cu) gives cu back
    (Len(hist) >= 2 /\ Last(1)[1] = "Delete" /\ Last(2)[1] = "Insert") => vec = Last(2)[2]
Matches(c) == \A k \in 1..Len(def.xs) : c[def.xs[k]+1] = def.inc * def.cks[k]
DeleteThenInsert ==            \* FullC of a deleted full vector restores it when the prescribed values match
    (Len(hist) >= 2 /\ Last(1)[1] = "Insert" /\ Last(2)[1] = "Delete" /\ Matches(Last(2)[2])) => vec = Last(2)[2]
InsertPlacesValues ==          \* after an insertion the prescribed positions hold inc*ck, the others cu in order
    (Len(hist) >= 1 /\ Last(1)[1] = "Insert") =>
        /\ Len(vec) = def.n
        /\ Matches(vec)
        /\ DeleteVec(vec, X) = Last(1)[2]
ScaleInPlace ==
    (Len(hist) >= 1 /\ Last(1)[1] = "Scale") =>
        vec = [k \in 1..def.n |-> IF (k-1) \in X THEN def.inc * Last(1)[2][k] ELSE Last(1)[2][k]]
(* the reduced system of the linear static analysis: for every cu, the unknown rows of K.c with
   c = FullC(cu) are K_uu.cu + SUM_j inc*ck_j*K_uk[:,j];  hence K.c = f on the unknown rows  <=>
   K_uu.cu = f_u - SUM_j inc*ck_j*K_uk[:,j] *)
ReducedSystem ==
    (parts # NoParts /\ kind = "reduced") =>
        LET c   == FullC(vec, def.xs, def.cks, def.inc, def.n, IMul)
            lhs == DeleteVec(MatVec(def.K, c), X)
            kc  == MatVec(parts.kuu, vec)
            pd(a) == ISum([k \in 1..Len(def.xs) |-> def.inc * def.cks[k] * parts.kuk[a][def.xs[k]+1]], 1)
        IN \A a \in 1..Len(vec) : lhs[a] = kc[a] + pd(a)
(* vacuity guards: counted by the harness through the coverage of the actions *)
=============================================================================
