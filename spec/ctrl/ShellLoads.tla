------------------------------ MODULE ShellLoads ------------------------------
(***************************************************************************)
(* Property C18, load vector of a complete shell: ConeCyl.calc_fext        *)
(* (compmech/conecyl/conecyl.py:1499-1654), on top of ShellGeometry        *)
(* (calc_fext starts with self._rebuild()).                                *)
(*                                                                         *)
(* Displacement field of the shipped models (clpt_commons_bc*.pyx cfuvw,   *)
(* fsdt_commons_bc*.pyx), x in [0,L] from the top edge, t = theta:         *)
(*   u = c0 (L-x)/(L cos) + c2 (L-x)/(L cos) cos(t - tLA) + SUM_i1 c sin(i1 pi x/L)                *)
(*       + SUM_i2,j2 fu(i2 pi x/L) (c sin(j2 t) + c' cos(j2 t))                                   *)
(*   v = c1 (L-x) r2/L + SUM c sin(i1 pi x/L) + SUM fv(i2 pi x/L)(c sin j2 t + c' cos j2 t)         *)
(*   w =                 SUM c sin(i1 pi x/L) + SUM sin(i2 pi x/L)(c sin j2 t + c' cos j2 t)        *)
(* fu = cos for bc2/bc4 (else sin), fv = cos for bc3/bc4 (else sin); i1 = 0..m1-1, i2 = 0..m2-1,   *)
(* j2 = 1..n2; amplitudes ordered as in modelDB (num0 = 3, num1, num2).                            *)
(*                                                                         *)
(* FExtCode mirrors calc_fext statement by statement (loops, index         *)
(* arithmetic, which quantities are multiplied by `inc`, np.delete of the  *)
(* prescribed amplitudes, -ck*k0uk[:,j] columns).  VWork is the property:  *)
(* the virtual work of each load against the field above, integrated in    *)
(* closed form (orthogonality of the circumferential harmonics, integrals  *)
(* of x^k sin(i pi x/L) by parts), constant loads once and incremental     *)
(* loads times the load factor.  TLC checks FExtCode = VWork on the        *)
(* lattice; the trace specification judges the real calc_fext with         *)
(* FExtCode.  Point forces sit on the quarter-turn lattice x = p L/2,      *)
(* theta = q pi/2 where every shape function is an integer; elsewhere the  *)
(* shape-function values are *observed* through ConeCyl.uvw (field G).     *)
(***************************************************************************)
EXTENDS ShellGeometry, FiniteSetsExt

KF_Torque == "KF_C18_TorquePointForce"
   (* force-controlled torque (pdT = False, T or T_inc) is applied as ONE tangential point force T/r2 at
      (x, theta) = (0, 0) instead of the shear flow T/(2 pi r2^2) around the top edge: for models whose v
      series does not vanish at x = 0 (bc3, bc4) every cos(j2 theta) v-amplitude receives T/r2 *)
KF_LA == "KF_C18_LAColumnDropped"
   (* the prescribed load-asymmetry amplitude c2 = LA = r2 tan(beta) is inserted into c by calc_full_c, but
      calc_fext never subtracts inc*LA*k0uk[:,2] (it does so for amplitudes 0 and 1) *)
KF_Null == "KF_C18_LoadOnNullStiffness"
   (* static(): compmech.sparse.solve drops the null rows/columns of K_uu and returns 0 there without looking at
      the right-hand side, so a load on an amplitude that has no stiffness is silently ignored and K_uu c_u = f_u
      fails in that row (seen with the cone kernel of clpt_donnell_bc2, whose v and w rows of the (i2, j2) block
      are entirely zero) *)
LoadDeviations == {KF_Torque, KF_LA}
StaticDeviations == {KF_Null}

(* ------------------------------ models --------------------------------- *)
ModelNames == {"clpt_donnell_bc1", "clpt_donnell_bc2", "clpt_donnell_bc3", "clpt_donnell_bc4",
               "clpt_sanders_bc1", "clpt_sanders_bc2", "clpt_sanders_bc3", "clpt_sanders_bc4",
               "iso_clpt_donnell_bc2", "iso_clpt_donnell_bc3",
               "fsdt_donnell_bc1", "fsdt_donnell_bc2", "fsdt_donnell_bc3", "fsdt_donnell_bc4"}
BcOf(name) == CASE name \in {"clpt_donnell_bc1", "clpt_sanders_bc1", "fsdt_donnell_bc1"} -> 1
                [] name \in {"clpt_donnell_bc2", "clpt_sanders_bc2", "iso_clpt_donnell_bc2", "fsdt_donnell_bc2"} -> 2
                [] name \in {"clpt_donnell_bc3", "clpt_sanders_bc3", "iso_clpt_donnell_bc3", "fsdt_donnell_bc3"} -> 3
                [] name \in {"clpt_donnell_bc4", "clpt_sanders_bc4", "fsdt_donnell_bc4"} -> 4
IsFsdt(name) == name \in {"fsdt_donnell_bc1", "fsdt_donnell_bc2", "fsdt_donnell_bc3", "fsdt_donnell_bc4"}
Mod(name) == [fam |-> IF IsFsdt(name) THEN "fsdt" ELSE "clpt", bc |-> BcOf(name),
              num1 |-> IF IsFsdt(name) THEN 5 ELSE 3, num2 |-> IF IsFsdt(name) THEN 10 ELSE 6]
(* sh = [model, m1, m2, n2] *)
Size(sh) == 3 + Mod(sh.model).num1 * sh.m1 + Mod(sh.model).num2 * sh.m2 * sh.n2
Col1(sh, i1) == 3 + i1 * Mod(sh.model).num1                                                  \* i0 = 0
Col2(sh, i2, j2) == 3 + Mod(sh.model).num1 * sh.m1 + i2 * Mod(sh.model).num2
                    + (j2 - 1) * Mod(sh.model).num2 * sh.m2                                   \* j0 = 1
DofInfo(sh, k) ==
    LET md == Mod(sh.model)
    IN IF k < 3 THEN [blk |-> 0, i |-> 0, j |-> 0, off |-> k]
       ELSE IF k < 3 + md.num1 * sh.m1
            THEN [blk |-> 1, i |-> (k - 3) \div md.num1, j |-> 0, off |-> (k - 3) % md.num1]
            ELSE LET rel == k - 3 - md.num1 * sh.m1
                 IN [blk |-> 2, i |-> (rel % (md.num2 * sh.m2)) \div md.num2,
                     j |-> rel \div (md.num2 * sh.m2) + 1, off |-> rel % md.num2]
LayoutBijective(sh) ==
    /\ \A i1 \in 0..(sh.m1 - 1), off \in 0..(Mod(sh.model).num1 - 1) :
          DofInfo(sh, Col1(sh, i1) + off) = [blk |-> 1, i |-> i1, j |-> 0, off |-> off]
    /\ \A i2 \in 0..(sh.m2 - 1), j2 \in 1..sh.n2, off \in 0..(Mod(sh.model).num2 - 1) :
          DofInfo(sh, Col2(sh, i2, j2) + off) = [blk |-> 2, i |-> i2, j |-> j2, off |-> off]
    /\ \A k \in 0..(Size(sh) - 1) : DofInfo(sh, k).blk \in {0, 1, 2}

(* --------------------- exact trigonometry at quarter turns -------------- *)
SQ(k) == LET r == k % 4 IN IF r = 1 THEN 1 ELSE IF r = 3 THEN -1 ELSE 0        \* sin(k pi/2)
CQ(k) == SQ(k + 1)                                                             \* cos(k pi/2)
I(n) == RFromInt(n)
Z3 == <<RZero, RZero, RZero>>
Unit3(c, v) == [Z3 EXCEPT ![c] = v]
(* <<u, v, w>> produced by a unit value of amplitude k at x = p L/2, theta = q pi/2  (cfgss / cfuvw) *)
ShapeAt(sh, o, k, p, q) ==
    LET d  == DofInfo(sh, k)
        bc == Mod(sh.model).bc
        lin == RDiv(I(2 - p), I(2))                                             \* (L - x)/L
    IN CASE d.blk = 0 ->
              ( CASE k = 0 -> Unit3(1, RDiv(lin, o.ang.c))
                  [] k = 1 -> Unit3(2, RMul(lin, Val(o.geo.r2)))
                  [] k = 2 -> Unit3(1, RMul(RDiv(lin, o.ang.c), I(CQ(q)))) )       \* tLA = 0
         [] d.blk = 1 -> IF d.off <= 2 THEN Unit3(d.off + 1, I(SQ(d.i * p))) ELSE Z3
         [] d.blk = 2 ->
              LET sx == SQ(d.i * p)  cx == CQ(d.i * p)  st == SQ(d.j * q)  ct == CQ(d.j * q)
                  fu == IF bc \in {2, 4} THEN cx ELSE sx
                  fv == IF bc \in {3, 4} THEN cx ELSE sx
              IN CASE d.off = 0 -> Unit3(1, I(fu * st))
                   [] d.off = 1 -> Unit3(1, I(fu * ct))
                   [] d.off = 2 -> Unit3(2, I(fv * st))
                   [] d.off = 3 -> Unit3(2, I(fv * ct))
                   [] d.off = 4 -> Unit3(3, I(sx * st))
                   [] d.off = 5 -> Unit3(3, I(sx * ct))
                   [] OTHER -> Z3
(* magnitude bound of the same (term scale of the tolerance rule): 1 for a trigonometric factor *)
BoundAt(sh, o, k, p) ==
    LET d == DofInfo(sh, k)
        lin == RDiv(I(2 - p), I(2))
    IN CASE d.blk = 0 -> ( CASE k = 1 -> Unit3(2, RMul(lin, Val(o.geo.r2)))
                             [] OTHER -> Unit3(1, RDiv(lin, o.ang.c)) )
         [] d.blk = 1 -> IF d.off <= 2 THEN Unit3(d.off + 1, ROne) ELSE Z3
         [] d.blk = 2 -> IF d.off <= 5 THEN Unit3(d.off \div 2 + 1, ROne) ELSE Z3
(* a point force is [F |-> <<fx, ft, fz>>, p, q] on the lattice, or carries observed tables G, B *)
OnLattice(f) == "p" \in DOMAIN f
FG(sh, o, f, k) == IF OnLattice(f) THEN ShapeAt(sh, o, k, f.p, f.q) ELSE f.G[k+1]
FB(sh, o, f, k) == IF OnLattice(f) THEN BoundAt(sh, o, k, f.p) ELSE f.B[k+1]
Dot3(a, b) == RAdd(RAdd(RMul(a[1], b[1]), RMul(a[2], b[2])), RMul(a[3], b[3]))
Abs3(a) == <<RAbs(a[1]), RAbs(a[2]), RAbs(a[3])>>

(* ------------------------------ pairs <<value, scale>> ------------------ *)
PairZ == <<PZ, PZ>>
Pair(p) == <<p, PAbs(p)>>
PairAdd(x, y) == <<PAdd(x[1], y[1]), PAdd(x[2], y[2])>>
PairScale(r, x) == <<PScale(r, x[1]), PScale(RAbs(r), x[2])>>
RECURSIVE PairSumFrom(_,_)
PairSumFrom(s, k) == IF k > Len(s) THEN PairZ ELSE PairAdd(s[k], PairSumFrom(s, k+1))
PairSum(s) == PairSumFrom(s, 1)
PairSumSet(S, f(_)) == FoldSet(LAMBDA x, acc : PairAdd(acc, f(x)), PairZ, S)

SeqRange(s) == { s[k] : k \in 1..Len(s) }
UnknownDofs(n, X) == LET F[k \in 0..n] == IF k = 0 THEN <<>>
                                          ELSE IF (k-1) \in X THEN F[k-1] ELSE Append(F[k-1], k-1)
                     IN F[n]

(* ------------------------------ mirror of calc_fext -------------------- *)
(* o: the object AFTER _rebuild; ld = [forces, forcesInc, P, Pinc, T, Tinc]; kuk: rows = unknown amplitudes,
   columns 1..3 = amplitudes 0..2 (k0uk or the `kuk` argument); dev: enabled deviations *)
LoadRaises(sh, ld, inc) ==
    IF Mod(sh.model).fam = "fsdt" /\ ~RIsZero(RAdd(ld.P, RMul(inc, ld.Pinc))) THEN "NotImplementedError" ELSE "no"

PointPart(sh, o, ld, inc, k) ==
    PairAdd(PairSum([n \in 1..Len(ld.forces) |->
                        <<PRat(Dot3(ld.forces[n].F, FG(sh, o, ld.forces[n], k))),
                          PRat(Dot3(Abs3(ld.forces[n].F), FB(sh, o, ld.forces[n], k)))>>]),
            PairSum([n \in 1..Len(ld.forcesInc) |->                                       \* fpt = inc*array(...)
                        <<PRat(RMul(inc, Dot3(ld.forcesInc[n].F, FG(sh, o, ld.forcesInc[n], k)))),
                          PRat(RMul(RAbs(inc), Dot3(Abs3(ld.forcesInc[n].F), FB(sh, o, ld.forcesInc[n], k))))>>]))

TmpPart(sh, o, ld, inc, k) ==            \* fext_tmp[k]: axial load and pressure
    LET md  == Mod(sh.model)
        X   == SeqRange(o.xs)
        r2  == Val(o.geo.r2)
        L   == Val(o.geo.L)
        nxx == [n \in 1..Len(Val(o.nxx)) |-> PScale(inc, Val(o.nxx)[n])]                    \* Nxxtop = inc*self.Nxxtop
        two_r2_c == RDiv(RMul(I(2), r2), o.ang.c)
        ax0 == IF 0 \notin X /\ k = 0 THEN Pair(PTimesPi(PScale(two_r2_c, nxx[1]))) ELSE PairZ
        harm == IF 0 \notin X /\ md.bc \in {2, 4}
                THEN PairSumSet({ t \in (1..sh.n2) \X (0..(sh.m2 - 1)) \X {0, 1} : Col2(sh, t[2], t[1]) + t[3] = k },
                                LAMBDA t : Pair(PTimesPi(PScale(r2, nxx[1 + (1 + 2*(t[1] - 1)) + t[3]]))))
                ELSE PairZ
        ax2 == IF 2 \notin X /\ k = 2 THEN Pair(PTimesPi(PScale(two_r2_c, nxx[3]))) ELSE PairZ
        P   == RAdd(ld.P, RMul(inc, ld.Pinc))
        press == IF ~RIsZero(P) /\ md.fam = "clpt"
                 THEN PairSumSet({ i1 \in 1..(sh.m1 - 1) : Col1(sh, i1) + 2 = k },
                                 LAMBDA i1 :
                                   LET sg == I(IF i1 % 2 = 0 THEN 1 ELSE -1)                  \* (-1)**i1
                                       t1 == RMul(RDiv(RMul(L, I(2)), I(i1)), r2)
                                       t2 == RMul(RDiv(RMul(L, I(2)), I(i1)), RMul(sg, RAdd(r2, RMul(L, o.ang.s))))
                                   IN <<PRat(RMul(P, RSub(t1, t2))),
                                        PRat(RMul(RAbs(P), RAdd(RAbs(t1), RAbs(t2))))>>)
                 ELSE PairZ
    IN PairAdd(PairAdd(ax0, harm), PairAdd(ax2, press))

TorqueFull(sh, o, ld, inc, k, dev) ==    \* force-controlled torque, before the deletion
    LET T == RAdd(ld.T, RMul(inc, ld.Tinc))
        q == RDiv(T, Val(o.geo.r2))
    IN IF o.pdT \/ RIsZero(T) THEN PairZ
       ELSE IF KF_Torque \in dev
            THEN LET g == ShapeAt(sh, o, k, 0, 0)                                            \* fg(g, ..., x=0, theta=0)
                 IN <<PRat(RMul(q, g[2])), PRat(RMul(RAbs(q), BoundAt(sh, o, k, 0)[2]))>>
            ELSE IF "ring" \in DOMAIN ld                                                     \* observed mean of v_k(0, theta)
                 THEN <<PRat(RMul(q, ld.ring[k+1])), PRat(RMul(RAbs(q), BoundAt(sh, o, k, 0)[2]))>>
                 ELSE IF k = 1 THEN Pair(PRat(T)) ELSE PairZ

PrescribedPart(o, kuk, inc, a, dev) ==   \* acts on the reduced vector: row a of kuk
    LET X == SeqRange(o.xs)
        cC == IF 0 \in X THEN Pair(PRat(RNeg(RMul(RMul(inc, o.uTM), kuk[a][1])))) ELSE PairZ     \* fext += -uTM*kuk_C
        cT == IF o.pdT THEN Pair(PScale(RNeg(kuk[a][2]), PScale(inc, o.thetaT))) ELSE PairZ
        cL == IF 2 \in X /\ KF_LA \notin dev
              THEN Pair(PRat(RNeg(RMul(RMul(inc, Val(o.LA)), kuk[a][3])))) ELSE PairZ
    IN PairAdd(PairAdd(cC, cT), cL)

FExtCode(o, sh, ld, kuk, inc, dev) ==
    LET U == UnknownDofs(Size(sh), SeqRange(o.xs))
    IN [a \in 1..Len(U) |->
          LET k == U[a]
          IN PairAdd(PairAdd(PointPart(sh, o, ld, inc, k), TmpPart(sh, o, ld, inc, k)),
                     PairAdd(TorqueFull(sh, o, ld, inc, k, dev), PrescribedPart(o, kuk, inc, a, dev)))]

(* ------------------------------ the property: virtual work -------------- *)
(* u-amplitude and circumferential profile of amplitude k on the loaded (top) edge x = 0 *)
EdgeU(sh, o, k) ==
    LET d == DofInfo(sh, k)
        bc == Mod(sh.model).bc
    IN CASE d.blk = 0 /\ k = 0 -> [amp |-> RInv(o.ang.c), prof |-> <<"one", 0>>]
         [] d.blk = 0 /\ k = 2 -> [amp |-> RInv(o.ang.c), prof |-> <<"cosLA", 1>>]
         [] d.blk = 2 /\ d.off \in {0, 1} ->
              [amp |-> IF bc \in {2, 4} THEN ROne ELSE RZero,                                 \* cos(0) or sin(0)
               prof |-> <<IF d.off = 0 THEN "sin" ELSE "cos", d.j>>]
         [] OTHER -> [amp |-> RZero, prof |-> <<"one", 0>>]
(* closed line integral over theta of N(theta)*profile, N = n[1] + SUM_j n[2j] sin(j t) + n[2j+1] cos(j t) *)
RingIntegral(nx, prof) ==
    CASE prof[1] = "one" -> PTimesPi(PScale(I(2), nx[1]))
      [] prof[1] = "sin" -> IF 2*prof[2] <= Len(nx) THEN PTimesPi(nx[2*prof[2]]) ELSE PZ
      [] prof[1] = "cos" -> IF 2*prof[2] + 1 <= Len(nx) THEN PTimesPi(nx[2*prof[2] + 1]) ELSE PZ
      [] prof[1] = "cosLA" -> IF Len(nx) >= 3 THEN PTimesPi(nx[3]) ELSE PZ                     \* tLA = 0
WAxial(sh, o, k) ==          \* line load Nxxtop(theta) on the top edge (radius r2) against u
    IF o.pdC THEN PZ          \* displacement-controlled: the line load is not applied
    ELSE LET e == EdgeU(sh, o, k) IN PScale(RMul(Val(o.geo.r2), e.amp), RingIntegral(Val(o.nxx), e.prof))
WPressure(sh, o, k, P) ==    \* uniform pressure against w over the surface r dtheta dx
    LET d == DofInfo(sh, k)
        L == Val(o.geo.L)
    IN IF Mod(sh.model).fam = "clpt" /\ d.blk = 1 /\ d.off = 2 /\ d.i >= 1
       THEN LET cs == I(IF d.i % 2 = 0 THEN 1 ELSE -1)                                        \* cos(i pi); sin(i pi) = 0
                I0 == PInvPi(RMul(RDiv(L, I(d.i)), RSub(ROne, cs)))                         \* INT sin(i pi x/L) dx
                I1 == PInvPi(RNeg(RMul(RDiv(RMul(L, L), I(d.i)), cs)))                      \* INT x sin(i pi x/L) dx
            IN PTimesPi(PScale(RMul(I(2), P), PAdd(PScale(Val(o.geo.r2), I0), PScale(o.ang.s, I1))))
       ELSE PZ
WTorque(sh, o, k, T) ==      \* shear flow T/(2 pi r2^2) around the top edge against v(0, theta) = c1 r2 + harmonics
    IF o.pdT THEN PZ ELSE IF k = 1 THEN PRat(T) ELSE PZ
WForces(sh, o, fs, k) == PairSum([n \in 1..Len(fs) |-> Pair(PRat(Dot3(fs[n].F, FG(sh, o, fs[n], k))))])[1]
WPrescribed(o, kuk, a) ==    \* -SUM_j ck_j K_uk[a, j] over ALL prescribed amplitudes
    PairSum([n \in 1..Len(o.xs) |-> Pair(PScale(RNeg(kuk[a][o.xs[n] + 1]), o.cks[n]))])[1]
VWork(o, sh, ld, kuk, inc) ==
    LET U == UnknownDofs(Size(sh), SeqRange(o.xs))
    IN [a \in 1..Len(U) |->
          LET k == U[a]
              const == PAdd(PAdd(WForces(sh, o, ld.forces, k), WPressure(sh, o, k, ld.P)), WTorque(sh, o, k, ld.T))
              incr  == PAdd(PAdd(PAdd(WForces(sh, o, ld.forcesInc, k), WPressure(sh, o, k, ld.Pinc)),
                                 PAdd(WTorque(sh, o, k, ld.Tinc), WAxial(sh, o, k))),
                            WPrescribed(o, kuk, a))
          IN PAdd(const, PScale(inc, incr))]

(* ------------------------------ linear static solution ------------------ *)
(* rows of K_uu c_u = f_u that fail (observed numbers).  A row passes if its residual is within 2^-t of the row's own
   term scale SUM_b |K_ab||c_b| + |f_a|, or within 2^-tn of the norm scale |K|_inf |c|_inf + |f|_inf of the system:
   the second clause is the normwise backward stability that a direct solver (SuperLU with partial pivoting, no
   refinement) guarantees; K_uu mixes entries of order 1e11 (edge penalties) with entries of order 1e2, so the
   row-wise quotient alone is not guaranteed (measured: up to 9.4e-10 for clpt_donnell_bc3 on a cone, while the
   normwise quotient there is 1.4e-17). *)
AbsSeq(s) == [k \in 1..Len(s) |-> RAbs(s[k])]
RECURSIVE RMaxFrom(_,_)
RMaxFrom(s, k) == IF k > Len(s) THEN RZero ELSE RMax(s[k], RMaxFrom(s, k+1))
RMaxOf(s) == RMaxFrom(s, 1)
StaticBadRows(K, c, f, t, tn, dev) ==
    LET ac == Ev(AbsSeq(c))
        ones == Ev([b \in 1..Len(c) |-> ROne])
        N == RAdd(RMul(RMaxOf([a \in 1..Len(f) |-> RDot(AbsSeq(K[a]), ones)]), RMaxOf(ac)), RMaxOf(AbsSeq(f)))
        tolN == RMul(N, RTwoPow(-tn))
    IN { a \in 1..Len(f) :
           LET r == RSub(RDot(K[a], c), f[a])
               S == RAdd(RDot(AbsSeq(K[a]), ac), RAbs(f[a]))
           IN /\ ~RLe(RAbs(r), RMul(S, RTwoPow(-t)))
              /\ ~RLe(RAbs(r), tolN)
              /\ ~(KF_Null \in dev /\ RIsZero(c[a]) /\ \A b \in 1..Len(c) : RIsZero(K[a][b])) }

(* ------------------------------ state machine --------------------------- *)
VARIABLES shell, loads, kukm, out, lastInc
lvars == <<obj, phase, nreb, given, shell, loads, kukm, out, lastInc>>

NoLoads == [forces |-> <<>>, forcesInc |-> <<>>, P |-> RZero, Pinc |-> RZero, T |-> RZero, Tinc |-> RZero]
NoShell == [model |-> "clpt_donnell_bc1", m1 |-> 0, m2 |-> 0, n2 |-> 0]
LInit == GInit /\ shell = NoShell /\ loads = NoLoads /\ kukm = <<>> /\ out = <<>> /\ lastInc = RZero

(* abstract coupling columns of the bounded model: index-coded, all different *)
KukAbs(n) == [a \in 1..n |-> <<I(10*a + 1), RFrac(-(10*a + 2), 3), I(10*a + 3)>>]

(* DefineLoads: the user sets model, series, geometry (r2, L, alpha), load attributes and point forces *)
DefineLoads(c) ==
    /\ phase = "fresh"
    /\ obj' = [obj EXCEPT !.geo = [r1 |-> NoneV, r2 |-> Some(c.r2), H |-> NoneV, L |-> Some(c.L)], !.ang = c.ang,
                          !.n2 = c.sh.n2, !.Fc = c.Fc, !.nxxIn = c.nxxIn, !.xiLA = c.xiLA, !.pdC = c.pdC, !.pdT = c.pdT,
                          !.uTM = c.uTM, !.thetaTdeg = c.thetaTdeg, !.tanBeta = c.tanBeta]
    /\ given' = [geo |-> TrueGeo(<<c.r2, c.L>>, c.ang), ang |-> c.ang]
    /\ shell' = c.sh
    /\ loads' = c.ld
    /\ kukm' = KukAbs(Size(c.sh))
    /\ phase' = "defined"
    /\ UNCHANGED <<nreb, out, lastInc>>
CalcFext(inc) ==
    /\ phase \in {"defined", "built"}
    /\ out = <<>>                                              \* one evaluation per behaviour of the bounded model
    /\ LoadRaises(shell, loads, inc) = "no"
    /\ obj' = RebuildObj(obj)                                  \* calc_fext begins with self._rebuild()
    /\ out' = FExtCode(obj', shell, loads, kukm, inc, Dev)
    /\ lastInc' = inc
    /\ phase' = "built"
    /\ nreb' = 1              \* so that calc_fext after an explicit _rebuild() and calc_fext alone reach the same state
    /\ UNCHANGED <<given, shell, loads, kukm>>
LRebuild == nreb = 0 /\ Rebuild /\ UNCHANGED <<shell, loads, kukm, out, lastInc>>

(* ------------------------------ what TLC checks ------------------------- *)
Values(v) == [a \in 1..Len(v) |-> v[a][1]]
(* literal property, split by the signature of each enabled deviation *)
TorqueSignature == KF_Torque \in Dev /\ ~obj.pdT /\ Mod(shell.model).bc \in {3, 4}
LASignature == KF_LA \in Dev /\ ~RIsZero(obj.tanBeta)
FextIsVirtualWork ==
    out # <<>> => (Values(out) = VWork(obj, shell, loads, kukm, lastInc) \/ TorqueSignature \/ LASignature)
ScaleDominates ==
    out # <<>> => \A a \in 1..Len(out) : RLe(PHi(PAbs(out[a][1])), RAdd(PHi(out[a][2]), RTwoPow(-60)))
FextLength == out # <<>> => Len(out) = Size(shell) - Len(obj.xs)
(* affine in the load factor: f(inc) = f(0) + inc (f(1) - f(0)); f(0) is the vector of the constant loads alone
   (no incremental force / pressure / torque, no axial load, no prescribed amplitude) at ANY load factor *)
ZeroObj == [obj EXCEPT !.nxx = Some(Zeros(2*obj.n2 + 1)), !.uTM = RZero, !.thetaT = PZ, !.LA = Some(RZero),
                       !.cks = [n \in 1..Len(obj.cks) |-> PZ]]
AffineInInc ==
    (out # <<>> /\ lastInc \notin {RZero, ROne} /\ (Tier # "quick" \/ lastInc = I(2))) =>
        LET f0 == Values(FExtCode(obj, shell, loads, kukm, RZero, Dev))
            f1 == Values(FExtCode(obj, shell, loads, kukm, ROne, Dev))
            fc == Values(FExtCode(ZeroObj, shell, [loads EXCEPT !.forcesInc = <<>>, !.Pinc = RZero, !.Tinc = RZero],
                                  kukm, lastInc, Dev))
        IN /\ \A a \in 1..Len(out) : out[a][1] = PAdd(f0[a], PScale(lastInc, PSub(f1[a], f0[a])))
           /\ f0 = fc
(* superposition: the vector of a load set is the sum of the vectors of its parts (same shell, same flags) *)
Parts(ld) == << [NoLoads EXCEPT !.forces = ld.forces], [NoLoads EXCEPT !.forcesInc = ld.forcesInc],
                [NoLoads EXCEPT !.P = ld.P, !.Pinc = ld.Pinc], [NoLoads EXCEPT !.T = ld.T, !.Tinc = ld.Tinc] >>
Superposition ==
    (out # <<>> /\ (Tier # "quick" \/ lastInc = RFrac(1, 2))) =>
        LET p1 == Values(FExtCode(ZeroObj, shell, Parts(loads)[1], kukm, lastInc, Dev))
            p2 == Values(FExtCode(ZeroObj, shell, Parts(loads)[2], kukm, lastInc, Dev))
            p3 == Values(FExtCode(ZeroObj, shell, Parts(loads)[3], kukm, lastInc, Dev))
            p4 == Values(FExtCode(ZeroObj, shell, Parts(loads)[4], kukm, lastInc, Dev))
            rest == Values(FExtCode(obj, shell, NoLoads, kukm, lastInc, Dev))         \* axial load, prescribed amplitudes
        IN \A a \in 1..Len(out) :
              out[a][1] = PAdd(rest[a], PAdd(PAdd(p1[a], p2[a]), PAdd(p3[a], p4[a])))
=============================================================================
