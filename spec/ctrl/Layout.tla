-------------------------------- MODULE Layout --------------------------------
(***************************************************************************)
(* The assembly builders of compmech/panel/assembly (cylinder.py,          *)
(* cylinder_blade_stiffened.py, tstiff2d_1stiff_*.py) place rectangular    *)
(* panels [grp, x0, y0, a, b] on a developed surface and return a list of  *)
(* connections [p1, p2, kind, pos1, pos2].  What a user relies on is that  *)
(* the list describes the structure drawn in the docstring:                *)
(*   - every connection joins lines / areas that coincide in the global    *)
(*     coordinates of the panels it names (ConnsGeometric),                *)
(*   - every pair of panels of one surface that share an edge is joined    *)
(*     there, exactly once (SeamsComplete, NoDuplicates),                  *)
(*   - every base lies on a skin panel of its own extent and is bonded to  *)
(*     it, every flange is attached to exactly one base or skin (Stacked). *)
(* A closed surface (cylinder) has perimeter P > 0: y is taken modulo P.   *)
(* The state machine adds panels and connections one at a time, the way    *)
(* the builders do; the laws are invariants of the finished layout.        *)
(***************************************************************************)
EXTENDS Rat, Sequences, FiniteSets, Naturals, TLC

VARIABLES panels, conns, perim, done
yvars == <<panels, conns, perim, done>>

Pn(grp, x0, y0, a, b) == [grp |-> grp, x0 |-> x0, y0 |-> y0, a |-> a, b |-> b]
Cn(p1, p2, kind, pos1, pos2) == [p1 |-> p1, p2 |-> p2, kind |-> kind, pos1 |-> pos1, pos2 |-> pos2]

(* ---- geometry with the tolerance of doubles ------------------------------ *)
RMax2(x, y) == IF RLe(x, y) THEN y ELSE x
RECURSIVE ExtentFrom(_,_)
ExtentFrom(ps, k) == IF k > Len(ps) THEN ROne
                     ELSE RMax2(RMax2(RAdd(RAbs(ps[k].x0), ps[k].a), RAdd(RAbs(ps[k].y0), ps[k].b)), ExtentFrom(ps, k + 1))
Near(ps, x, y) == RLe(RAbs(RSub(x, y)), RMul(RTwoPow(-40), ExtentFrom(ps, 1)))
(* equality of y coordinates, modulo the perimeter on a closed surface *)
NearY(ps, P, x, y) == \/ Near(ps, x, y)
                      \/ (RSign(P) > 0 /\ (Near(ps, RAdd(x, P), y) \/ Near(ps, x, RAdd(y, P))))
Within(ps, x, lo, hi) == RLe(RSub(lo, RMul(RTwoPow(-40), ExtentFrom(ps, 1))), x) /\ RLe(x, RAdd(hi, RMul(RTwoPow(-40), ExtentFrom(ps, 1))))
SameX(ps, p, q) == Near(ps, p.x0, q.x0) /\ Near(ps, p.a, q.a)
SameY(ps, P, p, q) == NearY(ps, P, p.y0, q.y0) /\ Near(ps, p.b, q.b)
Surface(g) == IF g \in {"skin", "base", "flange"} THEN g ELSE "own"      \* every other group is a surface of its own
SameSurface(p, q) == p.grp = q.grp

(* a connection joins what coincides *)
ConnOK(ps, P, c) ==
    LET p == ps[c.p1]  q == ps[c.p2]
    IN CASE c.kind = "SSycte" -> /\ SameX(ps, p, q)
                                 /\ NearY(ps, P, RAdd(p.y0, c.pos1), RAdd(q.y0, c.pos2))
                                 /\ Within(ps, c.pos1, RZero, p.b) /\ Within(ps, c.pos2, RZero, q.b)
         [] c.kind = "SSxcte" -> /\ SameY(ps, P, p, q)
                                 /\ Near(ps, RAdd(p.x0, c.pos1), RAdd(q.x0, c.pos2))
                                 /\ Within(ps, c.pos1, RZero, p.a) /\ Within(ps, c.pos2, RZero, q.a)
         [] c.kind = "SB"     -> SameX(ps, p, q) /\ SameY(ps, P, p, q) /\ p.grp # q.grp
         [] c.kind = "BFycte" -> /\ SameX(ps, p, q) /\ p.grp # q.grp
                                 /\ Within(ps, c.pos1, RZero, p.b)
                                 /\ (Near(ps, c.pos2, RZero) \/ Near(ps, c.pos2, q.b))
         [] OTHER -> FALSE
ConnsGeometric(ps, P, cs) == \A k \in 1..Len(cs) : cs[k].p1 # cs[k].p2 /\ ConnOK(ps, P, cs[k])

(* two panels of one surface share an edge of positive length *)
Overlap(ps, lo1, len1, lo2, len2) ==       \* the intervals [lo1, lo1+len1] and [lo2, lo2+len2] overlap in more than a point
    LET lo == RMax2(lo1, lo2)
        hi == IF RLe(RAdd(lo1, len1), RAdd(lo2, len2)) THEN RAdd(lo1, len1) ELSE RAdd(lo2, len2)
    IN ~RLe(hi, RAdd(lo, RMul(RTwoPow(-30), ExtentFrom(ps, 1))))
EdgeY(ps, P, p, q) ==   \* p's edge y = y0 + b meets q's edge y = y0
    NearY(ps, P, RAdd(p.y0, p.b), q.y0) /\ Overlap(ps, p.x0, p.a, q.x0, q.a)
EdgeX(ps, p, q) == Near(ps, RAdd(p.x0, p.a), q.x0) /\ Overlap(ps, p.y0, p.b, q.y0, q.b)
Adjacent(ps, P, i, j) == /\ i # j /\ SameSurface(ps[i], ps[j])
                         /\ (EdgeY(ps, P, ps[i], ps[j]) \/ EdgeY(ps, P, ps[j], ps[i]) \/ EdgeX(ps, ps[i], ps[j]) \/ EdgeX(ps, ps[j], ps[i]))
JoinedSS(cs, i, j) == { k \in 1..Len(cs) : cs[k].kind \in {"SSycte", "SSxcte"} /\ {cs[k].p1, cs[k].p2} = {i, j} }
(* a ring of two panels has two seams between the same pair *)
SeamsBetween(ps, P, i, j) ==
    (IF EdgeY(ps, P, ps[i], ps[j]) THEN 1 ELSE 0) + (IF EdgeY(ps, P, ps[j], ps[i]) THEN 1 ELSE 0)
    + (IF EdgeX(ps, ps[i], ps[j]) THEN 1 ELSE 0) + (IF EdgeX(ps, ps[j], ps[i]) THEN 1 ELSE 0)
SeamsComplete(ps, P, cs) ==
    \A i, j \in 1..Len(ps) : (i < j /\ SameSurface(ps[i], ps[j])) => Cardinality(JoinedSS(cs, i, j)) = SeamsBetween(ps, P, i, j)
NoDuplicates(cs) == \A k, l \in 1..Len(cs) : (k < l) => cs[k] # cs[l]

(* stacking: bases on skins, flanges on one carrier *)
Carriers(cs, j, kind) == { k \in 1..Len(cs) : cs[k].kind = kind /\ cs[k].p2 = j }
Stacked(ps, P, cs) ==
    /\ \A j \in 1..Len(ps) : ps[j].grp = "base" =>
          /\ Cardinality(Carriers(cs, j, "SB")) = 1
          /\ \A k \in Carriers(cs, j, "SB") : ps[cs[k].p1].grp = "skin"
    /\ \A j \in 1..Len(ps) : (ps[j].grp = "flange" \/ Surface(ps[j].grp) = "own") =>
          /\ Cardinality(Carriers(cs, j, "BFycte")) = 1
          /\ \A k \in Carriers(cs, j, "BFycte") : ps[cs[k].p1].grp \in {"base", "skin"}
    /\ \A k \in 1..Len(cs) : cs[k].kind = "SB" => ps[cs[k].p1].grp = "skin" /\ ps[cs[k].p2].grp = "base"

LayoutOK(ps, P, cs) == ConnsGeometric(ps, P, cs) /\ SeamsComplete(ps, P, cs) /\ NoDuplicates(cs) /\ Stacked(ps, P, cs)
Failing(ps, P, cs) == (IF ConnsGeometric(ps, P, cs) THEN {} ELSE {"ConnsGeometric"})
                      \cup (IF SeamsComplete(ps, P, cs) THEN {} ELSE {"SeamsComplete"})
                      \cup (IF NoDuplicates(cs) THEN {} ELSE {"NoDuplicates"})
                      \cup (IF Stacked(ps, P, cs) THEN {} ELSE {"Stacked"})

(* ---- the builders as the package draws them ---------------------------------- *)
(* ring of n panels of width w and height hgt; panel i at y0 = (i-1) w; seam i joins the upper edge of i to the
   lower edge of i+1, the closing seam joins the lower edge of 1 to the upper edge of n *)
RingPanels(n, w, hgt) == [i \in 1..n |-> Pn("skin", RZero, RMul(RFromInt(i - 1), w), hgt, w)]
RingConns(n, w) == [i \in 1..n |-> IF i < n THEN Cn(i, i + 1, "SSycte", w, RZero) ELSE Cn(1, n, "SSycte", RZero, w)]
(* the same with one blade per panel attached along the panel's lower edge *)
BladeName(i) == "blade_" \o ToString(i)
RingBladePanels(n, w, hgt, bw) == RingPanels(n, w, hgt) \o [i \in 1..n |-> Pn(BladeName(i), RZero, RMul(RFromInt(i - 1), w), hgt, bw[i])]
RingBladeConns(n, w) == RingConns(n, w) \o [i \in 1..n |-> Cn(i, n + i, "BFycte", RZero, RZero)]
(* T-stiffened panel: skin in 3 x 3 tiles (rows along x: up, defect, low; columns along y: left, base strip, right),
   three base tiles under the middle column, three flange tiles on them *)
TPanels(alow, adef, aup, bright, bb, bleft, bf) ==
    LET x(r) == CASE r = 1 -> RAdd(alow, adef) [] r = 2 -> alow [] r = 3 -> RZero
        a(r) == CASE r = 1 -> aup [] r = 2 -> adef [] r = 3 -> alow
        y(c) == CASE c = 1 -> RAdd(bright, bb) [] c = 2 -> bright [] c = 3 -> RZero
        b(c) == CASE c = 1 -> bleft [] c = 2 -> bb [] c = 3 -> bright
        skin == [k \in 1..9 |-> LET r == (k - 1) \div 3 + 1  c == ((k - 1) % 3) + 1 IN Pn("skin", x(r), y(c), a(r), b(c))]
        bf3 == [k \in 1..6 |-> LET r == (k - 1) \div 2 + 1
                               IN IF (k % 2) = 1 THEN Pn("base", x(r), y(2), a(r), bb) ELSE Pn("flange", x(r), RZero, a(r), bf)]
    IN skin \o bf3
TConns(ps) ==
    << Cn(1, 2, "SSycte", RZero, ps[2].b), Cn(1, 4, "SSxcte", RZero, ps[4].a), Cn(2, 3, "SSycte", RZero, ps[3].b),
       Cn(2, 5, "SSxcte", RZero, ps[5].a), Cn(3, 6, "SSxcte", RZero, ps[6].a), Cn(4, 5, "SSycte", RZero, ps[5].b),
       Cn(4, 7, "SSxcte", RZero, ps[7].a), Cn(5, 6, "SSycte", RZero, ps[6].b), Cn(5, 8, "SSxcte", RZero, ps[8].a),
       Cn(6, 9, "SSxcte", RZero, ps[9].a), Cn(7, 8, "SSycte", RZero, ps[8].b), Cn(8, 9, "SSycte", RZero, ps[9].b),
       Cn(2, 10, "SB", RZero, RZero), Cn(5, 12, "SB", RZero, RZero), Cn(8, 14, "SB", RZero, RZero),
       Cn(10, 12, "SSxcte", RZero, ps[12].a), Cn(12, 14, "SSxcte", RZero, ps[14].a),
       Cn(10, 11, "BFycte", RDiv(ps[10].b, RFromInt(2)), RZero), Cn(12, 13, "BFycte", RDiv(ps[12].b, RFromInt(2)), RZero),
       Cn(14, 15, "BFycte", RDiv(ps[14].b, RFromInt(2)), RZero),
       Cn(11, 13, "SSxcte", RZero, ps[13].a), Cn(13, 15, "SSxcte", RZero, ps[15].a) >>

(* ---- state machine: panels, then connections, one at a time ------------------- *)
YInit == panels = <<>> /\ conns = <<>> /\ perim = RZero /\ done = FALSE
AddPanel(p) == ~done /\ conns = <<>> /\ panels' = Append(panels, p) /\ UNCHANGED <<conns, perim, done>>
AddConn(c) == ~done /\ c.p1 \in 1..Len(panels) /\ c.p2 \in 1..Len(panels) /\ conns' = Append(conns, c) /\ UNCHANGED <<panels, perim, done>>
Close(P) == ~done /\ conns = <<>> /\ perim' = P /\ UNCHANGED <<panels, conns, done>>
Finish == ~done /\ done' = TRUE /\ UNCHANGED <<panels, conns, perim>>
(* the invariant of finished layouts *)
FinishedOK == done => LayoutOK(panels, perim, conns)
(* every connection matters: without any one of them the finished layout is no longer complete / stacked *)
Without(s, k) == [i \in 1..(Len(s) - 1) |-> IF i < k THEN s[i] ELSE s[i + 1]]
EveryConnNeeded == done => \A k \in 1..Len(conns) : ~LayoutOK(panels, perim, Without(conns, k))
=============================================================================
