---------------------------- MODULE ShellGeometry ----------------------------
(***************************************************************************)
(* Property C18, derived geometry and derived load data of a complete      *)
(* shell: ConeCyl._rebuild (compmech/conecyl/conecyl.py:216-434).          *)
(*                                                                         *)
(* x runs along the meridian from the top edge (x = 0, radius r2) to the   *)
(* bottom edge (x = L, radius r1); r(x) = r2 + x sin(alpha); H = L cos.    *)
(* The semi-vertex angle is given by a Pythagorean pair (sin, cos) so that *)
(* every derived length is rational.  pi is carried as a symbol: a PiPoly  *)
(* <<a, b, c>> stands for a/pi + b + c*pi, so that                         *)
(*     Nxxtop[0] = Fc/(2 pi r2 cos)   and   Fc = Nxxtop[0]*(2 pi r2 cos)   *)
(* (conecyl.py:423 and :664) round-trip exactly.                           *)
(*                                                                         *)
(* RebuildObj mirrors the code branch by branch (python truthiness of the  *)
(* attributes, order of the assignments, the `_load_rebuilt` early return) *)
(* and the invariants state what the property demands of its result.       *)
(***************************************************************************)
EXTENDS Rat, FiniteSets, TLC

CONSTANTS Tier, Dev

Ev(f) == TLCEval(f)        \* force a lazily evaluated function / record into a value (evaluated once)

(* ------------------------------ options -------------------------------- *)
NoneV == <<>>
Some(x) == <<x>>
IsNone(o) == o = <<>>
Val(o) == o[1]
Truthy(o) == ~IsNone(o) /\ ~RIsZero(Val(o))       \* `if self.H` : neither None nor 0

(* ------------------------------ PiPoly --------------------------------- *)
PZ == <<RZero, RZero, RZero>>
PRat(q) == <<RZero, q, RZero>>
PPi(q) == <<RZero, RZero, q>>
PInvPi(q) == <<q, RZero, RZero>>
PAdd(p, q) == <<RAdd(p[1], q[1]), RAdd(p[2], q[2]), RAdd(p[3], q[3])>>
PScale(r, p) == <<RMul(r, p[1]), RMul(r, p[2]), RMul(r, p[3])>>
PNeg(p) == PScale(RFromInt(-1), p)
PSub(p, q) == PAdd(p, PNeg(q))
PAbs(p) == <<RAbs(p[1]), RAbs(p[2]), RAbs(p[3])>>
PIsZero(p) == RIsZero(p[1]) /\ RIsZero(p[2]) /\ RIsZero(p[3])
PTimesPi(p) == <<RZero, p[1], p[2]>>              \* needs p[3] = 0
PDivPi(p) == <<p[2], p[3], RZero>>                \* needs p[1] = 0
PiMulOk(p) == RIsZero(p[3])
PiDivOk(p) == RIsZero(p[1])
(* rational enclosure of pi, width 1e-40 *)
PiLo == RMk(<<1, <<1971, 2884, 7950, 3832, 2643, 3846, 7932, 3589, 9265, 1415, 3>>>>,
            <<1, <<0, 0, 0, 0, 0, 0, 0, 0, 0, 0, 1>>>>)
PiHi == RMk(<<1, <<1972, 2884, 7950, 3832, 2643, 3846, 7932, 3589, 9265, 1415, 3>>>>,
            <<1, <<0, 0, 0, 0, 0, 0, 0, 0, 0, 0, 1>>>>)
TermLo(a, lo, hi) == IF RSign(a) >= 0 THEN RMul(a, lo) ELSE RMul(a, hi)
TermHi(a, lo, hi) == IF RSign(a) >= 0 THEN RMul(a, hi) ELSE RMul(a, lo)
PLo(p) == RAdd(RAdd(TermLo(p[1], RInv(PiHi), RInv(PiLo)), p[2]), TermLo(p[3], PiLo, PiHi))
PHi(p) == RAdd(RAdd(TermHi(p[1], RInv(PiHi), RInv(PiLo)), p[2]), TermHi(p[3], PiLo, PiHi))
(* x within 2^-t of the scale S (a PiPoly with non-negative coefficients) of the value p *)
PClose(x, p, S, t) == LET tol == RMul(PHi(S), RTwoPow(-t))
                      IN RLe(RSub(PLo(p), tol), x) /\ RLe(x, RAdd(PHi(p), tol))

(* ------------------------------ geometry ------------------------------- *)
Tan(a) == RDiv(a.s, a.c)
GeoKeys == {"r1", "r2", "H", "L"}
(* conecyl.py:313-326 *)
RebuildGeo(g, a) ==
    LET H1 == IF ~Truthy(g.H) /\ ~Truthy(g.L)
              THEN Some(RDiv(RSub(Val(g.r1), Val(g.r2)), Tan(a))) ELSE g.H
        L1 == IF Truthy(H1) /\ ~Truthy(g.L) THEN Some(RDiv(Val(H1), a.c)) ELSE g.L
        H2 == IF Truthy(L1) /\ ~Truthy(H1) THEN Some(RMul(Val(L1), a.c)) ELSE H1
    IN IF ~Truthy(g.r2)
       THEN [r1 |-> g.r1, r2 |-> Some(RSub(Val(g.r1), RMul(Val(L1), a.s))), H |-> H2, L |-> L1]
       ELSE [r1 |-> Some(RAdd(Val(g.r2), RMul(Val(L1), a.s))), r2 |-> g.r2, H |-> H2, L |-> L1]
GivenSet(g) == { k \in GeoKeys : Truthy(g[k]) }
(* the property's "admissible subset": enough to determine the shell *)
Admissible(g, a) ==
    LET S == GivenSet(g)
    IN /\ S \cap {"r1", "r2"} # {}
       /\ \/ S \cap {"H", "L"} # {}
          \/ ({"r1", "r2"} \subseteq S /\ ~RIsZero(a.s))
NoRadius(g) == ~Truthy(g.r1) /\ ~Truthy(g.r2) /\ GivenSet(g) \cap {"H", "L"} # {}    \* -> ValueError (:322)

Consistent(g, a) == /\ RSub(Val(g.r1), Val(g.r2)) = RMul(Val(g.L), a.s)
                    /\ Val(g.H) = RMul(Val(g.L), a.c)

(* ------------------------------ the object ----------------------------- *)
(* o: record of the attributes _rebuild reads and writes                   *)
Deg2Rad(d) == PPi(RDiv(d, RFromInt(180)))
Zeros(n) == [k \in 1..n |-> PZ]
RebuildObj(o) ==
    LET a  == o.ang
        g  == RebuildGeo(o.geo, a)
        r2 == Val(g.r2)
        thetaT == Deg2Rad(o.thetaTdeg)
        LA == RMul(r2, o.tanBeta)
        xs  == (IF o.pdC THEN <<0>> ELSE <<>>) \o (IF o.pdT THEN <<1>> ELSE <<>>) \o <<2>>
        cks == (IF o.pdC THEN <<PRat(o.uTM)>> ELSE <<>>) \o (IF o.pdT THEN <<thetaT>> ELSE <<>>) \o <<PRat(LA)>>
        o1 == [o EXCEPT !.geo = g, !.thetaT = thetaT, !.LA = Some(LA), !.xs = xs, !.cks = cks,
                        !.isCyl = RIsZero(a.s)]
        base == IF IsNone(o.nxxIn) THEN Zeros(2*o.n2 + 1)
                ELSE IF Val(o.nxxIn).kind = "scalar"
                     THEN [k \in 1..(2*o.n2 + 1) |-> IF k = 1 THEN PRat(Val(o.nxxIn).v) ELSE PZ]
                     ELSE [k \in 1..(2*o.n2 + 1) |-> PRat(Val(o.nxxIn).v[k])]
        den0 == RMul(RFromInt(2), RMul(r2, a.c))                       \* 2 [pi] r2 cos
        withFc == IF IsNone(o.Fc) THEN base
                  ELSE [base EXCEPT ![1] = PInvPi(RDiv(Val(o.Fc), den0))]
        MLA == IF ~IsNone(o.Fc) /\ IsNone(o.MLA) /\ ~IsNone(o.xiLA)
               THEN Some(RMul(Val(o.xiLA), Val(o.Fc))) ELSE o.MLA
        withMLA == IF IsNone(MLA) THEN withFc
                   ELSE [withFc EXCEPT ![3] = PInvPi(RDiv(Val(MLA), RMul(RMul(r2, r2), a.c)))]
    IN IF ~IsNone(o1.nxx) /\ o1.loadRebuilt
       THEN o1                                                          \* :401 early return
       ELSE [o1 EXCEPT !.nxx = Some(withMLA), !.MLA = MLA, !.loadRebuilt = TRUE]
Raises(o) == IF NoRadius(o.geo) THEN "ValueError"
             ELSE IF ~o.pdLA THEN "NotImplementedError" ELSE "no"
(* Fc recovered by _calc_linear_matrices (:664) *)
FcBack(o) == PTimesPi(PScale(RMul(RFromInt(2), RMul(Val(o.geo.r2), o.ang.c)), Val(o.nxx)[1]))

Fresh == [geo |-> [r1 |-> NoneV, r2 |-> NoneV, H |-> NoneV, L |-> NoneV],
          ang |-> [s |-> RZero, c |-> ROne], n2 |-> 1,
          Fc |-> NoneV, nxxIn |-> NoneV, MLA |-> NoneV, xiLA |-> NoneV,
          uTM |-> RZero, thetaTdeg |-> RZero, tanBeta |-> RZero,
          pdC |-> FALSE, pdT |-> TRUE, pdLA |-> TRUE,
          nxx |-> NoneV, LA |-> NoneV, thetaT |-> PZ, xs |-> <<>>, cks |-> <<>>,
          loadRebuilt |-> FALSE, isCyl |-> FALSE]

(* ------------------------------ lattice -------------------------------- *)
R(n, d) == RFrac(n, d)
Angles == { [s |-> RZero, c |-> ROne], [s |-> R(3,5), c |-> R(4,5)], [s |-> R(5,13), c |-> R(12,13)] }
BaseGeos == IF Tier = "quick" THEN { <<R(4,1), R(5,2)>>, <<R(250,1), R(510,1)>> }
            ELSE { <<R(4,1), R(5,2)>>, <<R(250,1), R(510,1)>>, <<R(10,1), R(13,8)>>, <<R(3,2), R(65,1)>> }    \* (r2, L)
TrueGeo(b, a) == [r1 |-> Some(RAdd(b[1], RMul(b[2], a.s))), r2 |-> Some(b[1]),
                  H |-> Some(RMul(b[2], a.c)), L |-> Some(b[2])]
Mask(g, S) == [k \in GeoKeys |-> IF k \in S THEN g[k] ELSE NoneV]
LoadIns == { [Fc |-> NoneV, nxxIn |-> NoneV, xiLA |-> NoneV],
             [Fc |-> Some(R(1000,1)), nxxIn |-> NoneV, xiLA |-> NoneV],
             [Fc |-> Some(R(-75,2)), nxxIn |-> Some([kind |-> "scalar", v |-> R(5,1)]), xiLA |-> Some(R(1,8))],
             [Fc |-> NoneV, nxxIn |-> Some([kind |-> "scalar", v |-> R(3,4)]), xiLA |-> NoneV],
             [Fc |-> NoneV, nxxIn |-> Some([kind |-> "array", v |-> <<R(2,1), R(1,2), R(-3,1)>>]), xiLA |-> NoneV] }
PdIns == { [pdC |-> FALSE, pdT |-> TRUE, uTM |-> RZero, thetaTdeg |-> RZero, tanBeta |-> RZero],
           [pdC |-> TRUE, pdT |-> TRUE, uTM |-> R(1,8), thetaTdeg |-> R(30,1), tanBeta |-> R(3,4)],
           [pdC |-> TRUE, pdT |-> FALSE, uTM |-> R(-1,4), thetaTdeg |-> R(45,2), tanBeta |-> RZero],
           [pdC |-> FALSE, pdT |-> FALSE, uTM |-> R(1,2), thetaTdeg |-> R(-90,1), tanBeta |-> R(5,12)] }
Subsets == SUBSET GeoKeys

(* ------------------------------ state machine -------------------------- *)
VARIABLES obj, phase, nreb, given
gvars == <<obj, phase, nreb, given>>

GInit == obj = Fresh /\ phase = "fresh" /\ nreb = 0 /\ given = [geo |-> Fresh.geo, ang |-> Fresh.ang]
SetInputs(S, b, a, li, pd) ==
    /\ phase = "fresh"
    /\ LET g == Mask(TrueGeo(b, a), S)
       IN /\ obj' = [obj EXCEPT !.geo = g, !.ang = a, !.Fc = li.Fc, !.nxxIn = li.nxxIn, !.xiLA = li.xiLA,
                                !.pdC = pd.pdC, !.pdT = pd.pdT, !.uTM = pd.uTM, !.thetaTdeg = pd.thetaTdeg,
                                !.tanBeta = pd.tanBeta]
          /\ given' = [geo |-> TrueGeo(b, a), ang |-> a]
    /\ phase' = "defined"
    /\ UNCHANGED nreb
Rebuild ==
    /\ phase \in {"defined", "built"}
    /\ Admissible(obj.geo, obj.ang)
    /\ Raises(obj) = "no"
    /\ obj' = RebuildObj(obj)
    /\ phase' = "built"
    /\ nreb' = nreb + 1
    /\ UNCHANGED given
GNext == \/ \E S \in Subsets, b \in BaseGeos, a \in Angles, li \in LoadIns, pd \in PdIns : SetInputs(S, b, a, li, pd)
         \/ (nreb < 3 /\ Rebuild)
GSpec == GInit /\ [][GNext]_gvars

(* ------------------------------ what TLC checks ------------------------ *)
Built == phase = "built"
GeometryConsistent == Built => Consistent(obj.geo, obj.ang)          \* r1 - r2 = L sin, H = L cos
GeometryIsTheShell == Built => obj.geo = given.geo                    \* every admissible subset gives the same shell
AllDetermined == Built => GivenSet(obj.geo) = GeoKeys
NxxFromFc == (Built /\ ~IsNone(obj.Fc)) =>
                 /\ Val(obj.nxx)[1] = PInvPi(RDiv(Val(obj.Fc), RMul(RFromInt(2), RMul(Val(obj.geo.r2), obj.ang.c))))
                 /\ FcBack(obj) = PRat(Val(obj.Fc))                   \* exact round trip of the axial force
NxxShape == Built => Len(Val(obj.nxx)) = 2*obj.n2 + 1
PrescribedLists ==        \* excluded_dofs / excluded_dofs_ck: amplitudes 0 (uTM), 1 (thetaT in rad), 2 (LA = r2 tan(beta))
    Built => /\ { obj.xs[k] : k \in 1..Len(obj.xs) } = (IF obj.pdC THEN {0} ELSE {}) \cup (IF obj.pdT THEN {1} ELSE {}) \cup {2}
             /\ \A k \in 1..(Len(obj.xs) - 1) : obj.xs[k] < obj.xs[k+1]
             /\ Len(obj.cks) = Len(obj.xs)
             /\ \A k \in 1..Len(obj.xs) :
                   obj.cks[k] = CASE obj.xs[k] = 0 -> PRat(obj.uTM)
                                  [] obj.xs[k] = 1 -> PPi(RDiv(obj.thetaTdeg, RFromInt(180)))
                                  [] obj.xs[k] = 2 -> PRat(RMul(Val(obj.geo.r2), obj.tanBeta))
RebuildIdempotent == [][(phase = "built" /\ Rebuild) => obj' = obj]_gvars
InadmissibleNeverBuilt == Built => Admissible(given.geo, given.ang)
=============================================================================
