------------------------------ MODULE ShellObject ------------------------------
(***************************************************************************)
(* Property C18, the ConeCyl object as a state machine: what every public  *)
(* call reads, writes and caches (compmech/conecyl/conecyl.py), so that a  *)
(* query can be asked at ANY point of an object's life and judged against  *)
(* the answer of a fresh, identically defined object.                      *)
(*                                                                         *)
(* State st = [o, u]:                                                      *)
(*   o  the attributes as the code keeps them (ShellGeometry's record plus *)
(*      model, m1, m2, stiff, point-force lists, pressures, torques,       *)
(*      cache = the definition the stored k0/k0uk/k0uu were built for,     *)
(*      outs = SPLA curves);                                               *)
(*   u  ghost: what the user assigned to attributes that the code later    *)
(*      overwrites with derived values (r1,r2,H,L; Nxxtop; MLA; Fc).       *)
(* Steps are records [op |-> ...]; Do(st, s, dev) is the successor and     *)
(* Answer(st, q, dev) what a query returns.  FreshOf(st) is the fresh      *)
(* identical object; the property is                                       *)
(*        Answer(st, q) = Answer(FreshOf(st), q)        for every history. *)
(* The code departs from it in the ways named below; with a deviation in   *)
(* dev the mirror does what the code does, without it the mirror does what *)
(* the property demands (re-derives / rebuilds).                           *)
(***************************************************************************)
EXTENDS ShellLoads

KF_Geo == "KF_C18_DerivedGeometryKept"
   (* _rebuild derives H/L/r1/r2 only where the attribute is still None/0: once derived, a later change of
      alphadeg, H or L leaves the other lengths as first derived (H # L cos(alpha)) *)
KF_Frozen == "KF_C18_LoadDataFrozen"
   (* _load_rebuilt: after the first _rebuild the Nxxtop array is never derived again; later changes of Fc, xiLA,
      MLA, Nxxtop, r2, alphadeg are ignored by calc_fext / static *)
KF_Cache == "KF_C18_StiffnessCacheKept"
   (* k0 / k0uk / k0uu are rebuilt only when the NUMBER of amplitudes changes; after any other change of
      geometry, laminate, model, boundary stiffness or prescribed flags calc_fext and static use the old ones *)
KF_Resize == "KF_C18_NxxtopDiscardedOnClear"
   (* _clear_matrices (called when the series size changes) sets Nxxtop = None: a user-given Nxxtop is lost *)
KF_LbFc == "KF_C18_LbSetsFc"
   (* lb() on an object that has neither Fc nor Nxxtop sets Fc = 1 for good: later static()/calc_fext carry it *)
KF_SPLA == "KF_C18_SPLAUsesTimeClock"
   (* SPLA called time.clock(), removed in Python 3.8: it raised AttributeError after replacing the forces
      (repaired upstream in c0ba97d; the deviation stays in the module so that a regression is recognised and named) *)
KF_Plies == "KF_C18_PlyListsKept"
   (* plyts / laminaprops are filled from plyt / laminaprop by the first _rebuild only: a later change of plyt or
      laminaprop never reaches the laminate, even when the matrices are rebuilt *)
ObjectDeviations == {KF_Geo, KF_Frozen, KF_Cache, KF_Resize, KF_LbFc, KF_SPLA, KF_Plies}

(* ------------------------------ series sizes, every model family -------- *)
(* num0, num1, num2 of the series each family integrates (the cdef ints of its kernels) *)
FamilyNums(name) ==
    CASE name \in ModelNames -> <<3, Mod(name).num1, Mod(name).num2>>
      [] name \in {"fsdt_donnell_bcn", "fsdt_sanders_bcn"} -> <<3, 5, 10>>
      [] name = "clpt_donnell_bcn" -> <<3, 3, 8>>
      [] name = "clpt_geier1997_bc2" -> <<0, 0, 3>>
      [] name \in {"fsdt_geier1997_bc2", "fsdt_shadmehri2012_bc2", "fsdt_shadmehri2012_bc3"} -> <<0, 0, 5>>
SizeOfFamily(name, m1, m2, n2) == LET t == FamilyNums(name) IN t[1] + t[2]*m1 + t[3]*m2*n2

(* ------------------------------ the object ------------------------------ *)
ObjFresh == Fresh @@ [model |-> "clpt_donnell_bc1", m1 |-> 120, m2 |-> 25, stiff |-> 0, plyt |-> 0, plyts |-> NoneV,
                      forces |-> <<>>, forcesInc |-> <<>>, P |-> RZero, Pinc |-> RZero, T |-> RZero, Tinc |-> RZero,
                      cache |-> NoneV, outs |-> NoneV]
GhostFresh == [geo |-> Fresh.geo, nxxIn |-> NoneV, MLA |-> NoneV, Fc |-> NoneV, plyts |-> NoneV]
StFresh == [o |-> [ObjFresh EXCEPT !.n2 = 45], u |-> GhostFresh]
ShellOf(o) == [model |-> o.model, m1 |-> o.m1, m2 |-> o.m2, n2 |-> o.n2]
(* everything the stored matrices depend on (besides the loads entering kG0, not modelled) *)
KeyOf(o) == [sh |-> ShellOf(o), r2 |-> o.geo.r2, L |-> o.geo.L, ang |-> o.ang, stiff |-> o.stiff, plyts |-> o.plyts, xs |-> o.xs]
(* the fresh identical object: same attribute values, the overwritten ones as the user gave them, nothing derived *)
FreshOf(st) == [o |-> [st.o EXCEPT !.geo = st.u.geo, !.nxxIn = st.u.nxxIn, !.MLA = st.u.MLA, !.Fc = st.u.Fc, !.plyts = st.u.plyts,
                                   !.nxx = NoneV, !.loadRebuilt = FALSE, !.LA = NoneV, !.thetaT = PZ, !.xs = <<>>,
                                   !.cks = <<>>, !.isCyl = FALSE, !.cache = NoneV, !.outs = NoneV],
                u |-> st.u]

(* _rebuild as the object lives on (conecyl.py:216-221 + ShellGeometry!RebuildObj) *)
PreRebuild(st, dev) ==
    LET o == st.o
        u == st.u
        resize == ~IsNone(o.cache) /\ Val(o.cache).size # Size(ShellOf(o))
        o1 == IF resize                                             \* _clear_matrices(); _load_rebuilt = False
              THEN [o EXCEPT !.cache = NoneV, !.nxx = NoneV, !.loadRebuilt = FALSE,
                             !.nxxIn = IF KF_Resize \in dev THEN NoneV ELSE u.nxxIn]
              ELSE o
        o2 == IF KF_Geo \in dev THEN o1 ELSE [o1 EXCEPT !.geo = u.geo]
        o3 == IF KF_Frozen \in dev THEN o2
              ELSE [o2 EXCEPT !.nxx = NoneV, !.loadRebuilt = FALSE, !.MLA = u.MLA,
                              !.nxxIn = IF KF_Resize \in dev THEN o2.nxxIn ELSE u.nxxIn]
        o4 == [o3 EXCEPT !.plyts = IF IsNone(o3.plyts) \/ (KF_Plies \notin dev /\ IsNone(u.plyts))
                                   THEN Some(o3.plyt) ELSE o3.plyts]           \* `if not self.plyts: self.plyts = [plyt ...]`
    IN o4
RebuildSeq(st, dev) == [st EXCEPT !.o = RebuildObj(PreRebuild(st, dev))]
NxxLenBad(o) == ~IsNone(o.nxxIn) /\ Val(o.nxxIn).kind = "array" /\ Len(Val(o.nxxIn).v) # 2*o.n2 + 1
CanRebuild(st, dev) ==
    LET p == PreRebuild(st, dev)
    IN /\ Admissible(p.geo, p.ang) /\ Raises(p) = "no"
       /\ ((~IsNone(p.nxx) /\ p.loadRebuilt) \/ ~NxxLenBad(p))               \* assert Nxxtop.shape[0] == 2*n2+1 (:414)
NxxUsable(o) == \/ IsNone(o.nxx) \/ Len(Val(o.nxx)) >= 2*o.n2 + 1               \* else calc_fext indexes past the array ...
                \/ ~(Mod(o.model).bc \in {2, 4} /\ ~o.pdC)                         \* ... when it reads the harmonics

(* the stored matrices: code builds them when absent; the property wants them to belong to the current definition *)
Stale(o) == ~IsNone(o.cache) /\ Val(o.cache).key # KeyOf(o)
Ensure(st, dev) ==
    IF IsNone(st.o.cache) \/ (KF_Cache \notin dev /\ Stale(st.o))
    THEN [st EXCEPT !.o.cache = Some([size |-> Size(ShellOf(st.o)), key |-> KeyOf(st.o)])]
    ELSE st
Force(st) == [st EXCEPT !.o.cache = Some([size |-> Size(ShellOf(st.o)), key |-> KeyOf(st.o)])]

(* point forces are kept as [x, thetadeg, F]; on the lattice x = p L/2, thetadeg = 90 q *)
IsInt(r) == r[2] = BOne
OnGrid(f, L) == IsInt(RDiv(RMul(I(2), f.x), L)) /\ IsInt(RDiv(f.thetadeg, I(90)))
ToLattice(f, L) == [F |-> f.F, p |-> BToInt(RDiv(RMul(I(2), f.x), L)[1]), q |-> BToInt(RDiv(f.thetadeg, I(90))[1])]
LoadsOfObj(o) == [forces |-> [n \in 1..Len(o.forces) |-> ToLattice(o.forces[n], Val(o.geo.L))],
                  forcesInc |-> [n \in 1..Len(o.forcesInc) |-> ToLattice(o.forcesInc[n], Val(o.geo.L))],
                  P |-> o.P, Pinc |-> o.Pinc, T |-> o.T, Tinc |-> o.Tinc]
SPLForce(o, PL, pt, thetadeg) == [x |-> RMul(pt, Val(o.geo.L)), thetadeg |-> thetadeg, F |-> <<RZero, RZero, RNeg(PL)>>]

GeoAttrs == {"r1", "r2", "H", "L"}
SetAttr(st, a, v) ==
    CASE a \in GeoAttrs -> [st EXCEPT !.o.geo = [st.o.geo EXCEPT ![a] = Some(v)], !.u.geo = [st.u.geo EXCEPT ![a] = Some(v)]]
      [] a = "Fc" -> [st EXCEPT !.o.Fc = Some(v), !.u.Fc = Some(v)]
      [] a = "Nxxtop" ->       \* an ndarray: the attribute holds it as it is until a _rebuild derives again
            [st EXCEPT !.o.nxxIn = Some([kind |-> "array", v |-> v]), !.u.nxxIn = Some([kind |-> "array", v |-> v]),
                       !.o.nxx = IF st.o.loadRebuilt THEN Some([k \in 1..Len(v) |-> PRat(v[k])]) ELSE NoneV]
      [] a = "NxxtopScalar" -> [st EXCEPT !.o.nxxIn = Some([kind |-> "scalar", v |-> v]), !.u.nxxIn = Some([kind |-> "scalar", v |-> v])]
      [] a = "xiLA" -> [st EXCEPT !.o.xiLA = Some(v)]
      [] a = "ang" -> [st EXCEPT !.o.ang = v]
      [] a = "model" -> [st EXCEPT !.o.model = v]
      [] a = "m1" -> [st EXCEPT !.o.m1 = v]
      [] a = "m2" -> [st EXCEPT !.o.m2 = v]
      [] a = "n2" -> [st EXCEPT !.o.n2 = v]
      [] a = "stiff" -> [st EXCEPT !.o.stiff = v]
      [] a = "plyt" -> [st EXCEPT !.o.plyt = v]
      [] a = "plyts" -> [st EXCEPT !.o.plyts = Some(v), !.u.plyts = Some(v)]
      [] a = "P" -> [st EXCEPT !.o.P = v]
      [] a = "Pinc" -> [st EXCEPT !.o.Pinc = v]
      [] a = "T" -> [st EXCEPT !.o.T = v]
      [] a = "Tinc" -> [st EXCEPT !.o.Tinc = v]
      [] a = "uTM" -> [st EXCEPT !.o.uTM = v]
      [] a = "thetaTdeg" -> [st EXCEPT !.o.thetaTdeg = v]
      [] a = "tanBeta" -> [st EXCEPT !.o.tanBeta = v]
      [] a = "pdC" -> [st EXCEPT !.o.pdC = v]
      [] a = "pdT" -> [st EXCEPT !.o.pdT = v]
      [] a = "forces" -> [st EXCEPT !.o.forces = v]
      [] a = "forcesInc" -> [st EXCEPT !.o.forcesInc = v]

(* a database entry: record with laminapropKey and some of r1, r2, H, L, ang, stiff (plyt/stack); from_DB sets the
   attributes the entry has and KEEPS the others (conecyl.py:459-476) *)
FromDB(st, e) ==
    LET g1 == [k \in GeoAttrs |-> IF k \in DOMAIN e THEN Some(e[k]) ELSE st.o.geo[k]]
        u1 == [k \in GeoAttrs |-> IF k \in DOMAIN e THEN Some(e[k]) ELSE st.u.geo[k]]
    IN [st EXCEPT !.o.geo = g1, !.u.geo = u1,
                  !.o.ang = IF "ang" \in DOMAIN e THEN e.ang ELSE st.o.ang,
                  !.o.stiff = e.stiff,
                  !.o.plyt = IF "plyt" \in DOMAIN e THEN e.plyt ELSE st.o.plyt]

(* one SPLA pass for perturbation load PL, static done: forces REPLACED by the one SPL, forces_inc untouched *)
SPLAPass(st, PL, dev) ==
    LET s1 == RebuildSeq([st EXCEPT !.o.forces = <<>>], dev)                    \* self.forces = []; add_SPL -> _rebuild
    IN [s1 EXCEPT !.o.forces = <<SPLForce(s1.o, PL, RFrac(1, 2), RZero)>>]

(* SPLA completes only if every static() does and if Fc is there: each curve stores inc*self.Fc/1000 (conecyl.py SPLA);
   with pdC static() refuses, with an fsdt pressure calc_fext refuses, without Fc the product raises TypeError *)
SPLAStops(st) ==
    IF st.o.pdC THEN "NotImplementedError"
    ELSE IF LoadRaises(ShellOf(st.o), [P |-> st.o.P, Pinc |-> st.o.Pinc], ROne) # "no" THEN "NotImplementedError"
    ELSE IF IsNone(st.o.Fc) THEN "TypeError" ELSE "no"
Do(st, s, dev) ==
    CASE s.op = "set" -> SetAttr(st, s.attr, s.val)
      [] s.op = "add_force" ->
            IF s.increment THEN [st EXCEPT !.o.forcesInc = Append(st.o.forcesInc, [x |-> s.x, thetadeg |-> s.thetadeg, F |-> s.F])]
            ELSE [st EXCEPT !.o.forces = Append(st.o.forces, [x |-> s.x, thetadeg |-> s.thetadeg, F |-> s.F])]
      [] s.op = "add_SPL" ->
            LET s1 == RebuildSeq(st, dev)                                       \* add_SPL starts with self._rebuild()
                f == SPLForce(s1.o, s.PL, s.pt, s.thetadeg)
            IN IF s.increment THEN [s1 EXCEPT !.o.forcesInc = Append(s1.o.forcesInc, f)]
               ELSE [s1 EXCEPT !.o.forces = Append(s1.o.forces, f)]
      [] s.op = "clear" -> [st EXCEPT !.o.cache = NoneV, !.o.nxx = NoneV,
                                      !.o.nxxIn = IF KF_Resize \in dev THEN NoneV ELSE st.u.nxxIn]
      [] s.op = "rebuild" -> RebuildSeq(st, dev)
      [] s.op = "calc_k0" -> IF IsNone(st.o.cache) \/ KF_Cache \notin dev THEN Ensure(RebuildSeq(st, dev), dev) ELSE st
      [] s.op = "calc_fext" -> Ensure(RebuildSeq(st, dev), dev)
      [] s.op = "static" -> IF st.o.pdC THEN st ELSE Ensure(RebuildSeq(st, dev), dev)
      [] s.op = "lb" ->
            LET s0 == IF KF_LbFc \in dev /\ IsNone(st.o.Fc) /\ IsNone(st.o.nxx) /\ IsNone(st.o.nxxIn) THEN [st EXCEPT !.o.Fc = Some(ROne)] ELSE st
            IN Force(RebuildSeq(s0, dev))                                       \* _calc_linear_matrices: always rebuilt
      [] s.op = "from_DB" -> FromDB(st, s.entry)
      [] s.op = "SPLA" ->
            IF KF_SPLA \in dev \/ st.o.pdC THEN SPLAPass(st, s.PLs[1], dev)     \* dies before / at the first static()
            ELSE IF SPLAStops(st) # "no" THEN Ensure(SPLAPass(st, s.PLs[1], dev), dev)     \* dies after the first static()
            ELSE LET F[k \in 0..Len(s.PLs)] == IF k = 0 THEN st ELSE Ensure(SPLAPass(F[k-1], s.PLs[k], dev), dev)
                     last == F[Len(s.PLs)]
                 IN [last EXCEPT !.o.outs = Some([k \in 1..Len(s.PLs) |-> [PL |-> s.PLs[k], forces |-> F[k].o.forces]])]
      [] OTHER -> st                                                            \* get_size, uvw, other objects

(* what a step raises (besides what the geometry refuses) *)
StepRaises(st, s, dev) ==
    CASE s.op = "static" /\ st.o.pdC -> "NotImplementedError"
      [] s.op = "SPLA" /\ KF_SPLA \in dev -> "AttributeError"
      [] s.op = "SPLA" /\ SPLAStops(st) # "no" -> SPLAStops(st)
      [] s.op \in {"calc_fext", "static"} /\ LoadRaises(ShellOf(st.o), [P |-> st.o.P, Pinc |-> st.o.Pinc],
                                                        IF s.op = "static" THEN ROne ELSE s.inc) # "no" -> "NotImplementedError"
      [] OTHER -> "no"
(* a stored k0uk with another number of rows than the reduced vector: numpy refuses (ValueError) when it is used *)
KukMismatch(o) == ~IsNone(o.cache) /\ Len(Val(o.cache).key.xs) # Len(o.xs) /\ (o.pdT \/ o.pdC)

(* ------------------------------ answers --------------------------------- *)
(* kukOf(key): the coupling columns of the matrices built for definition `key` (data: abstract in the bounded
   model, recorded from real objects in traces) *)
AnswerFext(st, inc, dev, kukOf(_)) ==
    LET o == st.o
    IN FExtCode(o, ShellOf(o), LoadsOfObj(o), kukOf(Val(o.cache).key), inc, dev)
Derived(o) == [geo |-> o.geo, nxx |-> o.nxx, LA |-> o.LA, thetaT |-> o.thetaT, xs |-> o.xs, cks |-> o.cks, isCyl |-> o.isCyl]

NeedsRebuild(s) == s.op \in {"rebuild", "calc_k0", "calc_fext", "static", "lb", "add_SPL", "SPLA"}
(* a step inside a history.  A call that raises leaves the object as it was, except calc_fext / static refusing the
   pressure of an fsdt model: that happens after _rebuild() and after the matrices were built *)
Advance(st, s, dev) ==
    IF s.op \in {"none", "get_size", "other", "uvw", "calc_kT", "forces"} THEN st
    ELSE IF NeedsRebuild(s) /\ (s.op # "calc_k0" \/ IsNone(st.o.cache) \/ KF_Cache \notin dev) /\ ~CanRebuild(st, dev) THEN st
    ELSE IF s.op = "static" /\ st.o.pdC THEN st
    ELSE IF s.op \in {"calc_fext", "static"} /\ StepRaises(st, s, dev) # "no" THEN Ensure(RebuildSeq(st, dev), dev)
    ELSE Do(st, s, dev)
(* the answer of query q asked in state s0; kukOf: coupling columns of the matrices built for a definition *)
Ans(s0, q, dev, kukOf(_)) ==
    IF q.op = "get_size" THEN <<"size", Size(ShellOf(s0.o))>>
    ELSE IF q.op = "forces" THEN <<"forces", s0.o.forces, s0.o.forcesInc>>
    ELSE IF q.op = "calc_k0" /\ ~IsNone(s0.o.cache) /\ KF_Cache \in dev THEN <<"k0", Val(s0.o.cache).key>>
    ELSE IF ~CanRebuild(s0, dev) THEN <<"raise", "rebuild">>
    ELSE LET s1 == Do(s0, q, dev)
         IN IF StepRaises(s0, q, dev) # "no" THEN <<"raise", StepRaises(s0, q, dev)>>
            ELSE IF q.op \in {"calc_fext", "static"}
                    /\ (KukMismatch(s1.o) \/ ~NxxUsable(s1.o))
                 THEN <<"raise", "numpy">>
            ELSE IF q.op = "static" /\ Len(Val(s1.o.cache).key.xs) # Len(s1.o.xs)
                 THEN <<"unspecified">>      \* a stored k0uu of another order is solved against the new right-hand side
            ELSE IF q.op \in {"calc_fext", "static"}
                    /\ (FALSE
                        \/ (\E n \in 1..Len(s1.o.forces) : ~OnGrid(s1.o.forces[n], Val(s1.o.geo.L)))
                        \/ (\E m \in 1..Len(s1.o.forcesInc) : ~OnGrid(s1.o.forcesInc[m], Val(s1.o.geo.L))))
                 THEN <<"offgrid">>                      \* exact shape functions only on the quarter-turn lattice
            ELSE CASE q.op = "calc_fext" -> <<"fext", AnswerFext(s1, q.inc, dev \cap LoadDeviations, kukOf)>>
                   [] q.op = "static" -> <<"static", Val(s1.o.cache).key, AnswerFext(s1, ROne, dev \cap LoadDeviations, kukOf)>>
                   [] q.op = "rebuild" -> <<"derived", Derived(s1.o)>>
                   [] q.op = "calc_k0" -> <<"k0", Val(s1.o.cache).key>>
                   [] q.op = "lb" -> <<"lb", Val(s1.o.cache).key>>
AnsValues(a) == IF a[1] = "fext" THEN <<"fext", Values(a[2])>>
                ELSE IF a[1] = "static" THEN <<"static", a[2], Values(a[3])>> ELSE a

(* signatures: where the state the code keeps differs from the fresh identical object *)
Sigs(st) ==
    LET c == st.o
        own == RebuildObj([c EXCEPT !.nxx = NoneV, !.loadRebuilt = FALSE, !.MLA = st.u.MLA])     \* re-derived from c's own attributes
    IN  (IF c.geo # RebuildGeo(st.u.geo, c.ang) THEN {KF_Geo} ELSE {})
   \cup (IF NxxLenBad(c) THEN (IF IsNone(c.nxx) THEN {} ELSE {KF_Frozen}) ELSE IF c.nxx # own.nxx THEN {KF_Frozen} ELSE {})
   \cup (IF ~IsNone(c.cache) /\ ((~IsNone(c.nxx) /\ c.loadRebuilt) \/ ~NxxLenBad(c)) /\ Val(c.cache).key # KeyOf(RebuildObj(c))
         THEN {KF_Cache} ELSE {})     \* calc_k0 answers from the cache without _rebuild
   \cup (IF c.nxxIn # st.u.nxxIn /\ IsNone(c.nxxIn) THEN {KF_Resize} ELSE {})
   \cup (IF c.Fc # st.u.Fc THEN {KF_LbFc} ELSE {})
   \cup (IF IsNone(st.u.plyts) /\ c.plyts # Some(c.plyt) THEN {KF_Plies} ELSE {})
=============================================================================
