--------------------------- MODULE NewtonRaphson ---------------------------
(***************************************************************************)
(* The incremental Newton-Raphson driver of compmech                       *)
(*   compmech/analysis/newton_raphson.py : _solver_NR                      *)
(*   compmech/analysis/analysis.py       : Analysis.static(NLgeom=True)    *)
(* as a state machine, one action per branch of the code.                  *)
(*                                                                         *)
(* NUMBERS.  The driver computes with IEEE-754 binary64.  Every scalar of  *)
(* the driver (inc, total, max_total, Rmax, prev/min_Rmax, eta1, eta2) is  *)
(* held here as the exact rational value of that double (Rat over BigInt), *)
(* and every floating-point operation of the code is one exact rational    *)
(* operation followed by Fl(_) = round-to-nearest-even to 53 bits.  So     *)
(* `inc*0.3`, `1.1*inc`, `total + inc`, `1. - total`, `abs(total-1)<1e-3`  *)
(* are bit-for-bit what the code computes (0.3, 1.1, 1e-3, 0.2, 0.01 are   *)
(* the doubles F03, F11, F1em3, F02, F001), and the increments a trace of  *)
(* the real code reports are compared with `=`.  Range assumption: all     *)
(* non-zero magnitudes stay in 2^-200 .. 2^200 (no subnormals/overflow).   *)
(* NaN and +-infinity occur in exactly one place of the code, the line     *)
(* search quotient -s1/(s2-s1); they are the values NaN, PInf, MInf below. *)
(*                                                                         *)
(* VECTORS.  State vectors and force vectors are sequences of Rat (length  *)
(* Dim).  The driver actions never compute a vector themselves: whatever   *)
(* the code obtains from a user callable, from the sparse solver or from a *)
(* numpy vector expression is a PARAMETER of the action.  The parameters   *)
(* are supplied                                                            *)
(*   - by the scripted environment below (Env*, used by the bounded model  *)
(*     MC_NewtonRaphson: residuals chosen from a dyadic alphabet),         *)
(*   - by the recorded events of a run of the real code                    *)
(*     (Trace_NewtonRaphson).                                              *)
(* Dim = 0 is the data-free abstraction (all vectors are <<>>): control    *)
(* flow only, which is what the exhaustive bounded model explores; Dim>=1  *)
(* carries the data (c, cs, call arguments) exactly.                       *)
(*                                                                         *)
(* KNOWN FINDINGS are the two KF_ constants: TRUE = what the code does     *)
(* today, FALSE = the behaviour the literal property demands.  The literal *)
(* invariants are of the form  Literal \/ Signature_KF.                    *)
(***************************************************************************)
EXTENDS Rat, TLC

CONSTANTS
    initialInc, minInc, maxIncSetting, absTOL, tooSlowTOL,  \* Rat: exact values of the doubles set on Analysis
    maxNumIter, maxIterLS, computeEveryN,                   \* Nat \ {0}
    lineSearch, modifiedNR, kTInitialState,                 \* BOOLEAN
    KF_C09_StopsShortOfFullLoad,   \* closing rule |total-1| < 1e-3 and halving after a failure at full load
    KF_C09_InitialIncAboveOne,     \* initialInc > 1 is attempted (and reported) as it stands
    Env,                           \* "scripted" | "linear"   (environment of Next)
    Dim,                           \* length of the vectors of the environment of Next
    ResidAlphabet,                 \* set of Rat: scripted values of max|R|
    LSAlphabet                     \* set of <<a, b>> (Rat): scripted line-search residuals R1 = a R, R2 = b R

VARIABLES
    pc,                                      \* control point
    inc, total, onceAtTotal, maxTotal,       \* newton_raphson.py:14-17
    stepNum, iter, iterNR, computeKT,        \* :29,42,49,24-27
    prevR, minR,                             \* prev_Rmax, min_Rmax
    c, fext, k0, kT, kTlast,                 \* state vector, load vector, matrices (a matrix is its scale: K = k I)
    R, rmax, delta,                          \* residual vector, max|R|, delta_c
    eta1, eta2, iterLS,                      \* line search
    increments, cs,                          \* run.increments, run.cs
    calls,                                   \* calls into user callables made by the last action
    evalC, evalT                             \* the (state, load factor) pair rmax was evaluated for

load  == <<inc, total, onceAtTotal, maxTotal>>
itv   == <<iter, iterNR, computeKT, prevR, minR>>
mats  == <<k0, kT, kTlast>>
resv  == <<R, rmax, evalC, evalT>>
lsv   == <<delta, eta1, eta2, iterLS>>
outv  == <<increments, cs>>
vars  == <<pc, load, stepNum, itv, c, fext, mats, resv, lsv, outv, calls>>

ASSUME Admissible ==
    /\ RLt(RZero, minInc) /\ RLt(RZero, initialInc) /\ RLe(RZero, absTOL) /\ RLt(RZero, maxIncSetting)
    /\ maxNumIter >= 1 /\ maxIterLS >= 1 /\ computeEveryN >= 1
    /\ Env \in {"scripted", "linear"} /\ Dim >= 0
    \* absTOL = 0 is admitted: nothing ever converges, the run ends at the minimum increment.
    \* minInc = 0 is outside the admissible configurations: "minimum increment size; if
    \* achieved the analysis is terminated" - with 0 the bisection loop need not end.

-----------------------------------------------------------------------------
(* binary64 *)

RECURSIVE FlExp(_,_,_)
FlExp(a, lo, hi) ==     \* the e in lo..hi with 2^e <= a < 2^(e+1)
    IF lo = hi THEN lo
    ELSE LET mid == (lo + hi + 1) \div 2
         IN IF RLe(RTwoPow(mid), a) THEN FlExp(a, mid, hi) ELSE FlExp(a, lo, mid - 1)

Fl(x) ==                \* round to nearest, ties to even, 53 significant bits
    IF RIsZero(x) THEN x
    ELSE LET a == RAbs(x)
             e == FlExp(a, -200, 200)
             m == RMul(a, RTwoPow(52 - e))          \* 2^52 <= m < 2^53
         IN IF m[2] = BOne THEN x
            ELSE LET qr  == BDivMod(m[1], m[2])
                     tw  == BCmp(BMul(BFromInt(2), qr[2]), m[2])
                     odd == BDivMod(qr[1], BFromInt(2))[2] # BZero
                     n   == IF tw > 0 \/ (tw = 0 /\ odd) THEN BAdd(qr[1], BOne) ELSE qr[1]
                     r   == RMul(RFromBig(n), RTwoPow(e - 52))
                 IN IF RSign(x) < 0 THEN RNeg(r) ELSE r

FAdd(a, b) == Fl(RAdd(a, b))
FSub(a, b) == Fl(RSub(a, b))
FMul(a, b) == Fl(RMul(a, b))
FDiv(a, b) == Fl(RDiv(a, b))       \* b # 0

F03   == Fl(RFrac(3, 10))
F11   == Fl(RFrac(11, 10))
F1em3 == Fl(RFrac(1, 1000))
F02   == Fl(RFrac(1, 5))
F001  == Fl(RFrac(1, 100))
F10   == RFromInt(10)
F1e6  == RFromInt(1000000)
Half  == RFrac(1, 2)

(* the three non-finite doubles, shaped like a Rat so that `=` is defined *)
NaN  == <<BZero, BZero>>
PInf == <<BOne, BZero>>
MInf == <<BNeg(BOne), BZero>>

-----------------------------------------------------------------------------
(* vectors: numpy elementwise expressions, each elementary operation rounded *)

Fn(f) == TLCEval(f)
VSub(a, b)     == Fn([i \in 1..Len(a) |-> FSub(a[i], b[i])])
VScale(s, a)   == Fn([i \in 1..Len(a) |-> FMul(s, a[i])])
VAxpy(a, s, d) == Fn([i \in 1..Len(a) |-> FAdd(a[i], FMul(s, d[i]))])    \* a + s*d
NaNVec(n)      == [i \in 1..n |-> NaN]
IsNaNVec(a)    == \E i \in 1..Len(a) : a[i] = NaN
XAxpy(a, s, d) == IF s = NaN THEN NaNVec(Len(a)) ELSE VAxpy(a, s, d)     \* (nan*d is nan also for d = 0)
XSub(a, b)     == IF IsNaNVec(a) \/ IsNaNVec(b) THEN NaNVec(Len(a)) ELSE VSub(a, b)
RECURSIVE MaxAbsFrom(_,_)
MaxAbsFrom(a, k) == IF k = Len(a) THEN RAbs(a[k]) ELSE RMax(RAbs(a[k]), MaxAbsFrom(a, k+1))
MaxAbs(a) == MaxAbsFrom(a, 1)                  \* np.abs(R).max(), Len(a) >= 1
(* delta_c.dot(R1): the harness only uses vectors for which the exact dot   *)
(* product is representable or Dim = 1, so the order of summation / fused   *)
(* multiply-add inside BLAS cannot matter; it is rounded once here.         *)
XDot(a, b) == IF IsNaNVec(a) \/ IsNaNVec(b) THEN NaN ELSE Fl(RDot(a, b))
(* solve(K, b) for K = k I (k a power of two in everything the harness runs) *)
Solve(k, b) == Fn([i \in 1..Len(b) |-> FDiv(b[i], k)])

-----------------------------------------------------------------------------
(* settings as the code sees them *)

StartInc == IF KF_C09_InitialIncAboveOne THEN initialInc ELSE RMin(initialInc, ROne)
MaxInc   == RMax(StartInc, maxIncSetting)          \* analysis.py:136
NearOne(t) == RLt(RAbs(FSub(t, ROne)), F1em3)      \* abs(total - 1) < 1e-3
FinishedAt(t) == IF KF_C09_StopsShortOfFullLoad THEN NearOne(t) ELSE t = ROne

CallFext(l)     == [fn |-> "fext", inc |-> l, c |-> <<>>]
CallK0          == [fn |-> "k0",   inc |-> RZero, c |-> <<>>]
CallKT(cc, l)   == [fn |-> "kT",   inc |-> l, c |-> cc]
CallFint(cc, l) == [fn |-> "fint", inc |-> l, c |-> cc]

Init ==
    /\ pc = "init"
    /\ inc = RZero /\ total = RZero /\ onceAtTotal = FALSE /\ maxTotal = RZero
    /\ stepNum = 0 /\ iter = 0 /\ iterNR = 0 /\ computeKT = FALSE
    /\ prevR = F1e6 /\ minR = F1e6
    /\ c = <<>> /\ fext = <<>> /\ k0 = ROne /\ kT = ROne /\ kTlast = ROne
    /\ R = <<>> /\ rmax = F1e6 /\ delta = <<>> /\ eta1 = RZero /\ eta2 = ROne /\ iterLS = 0
    /\ increments = <<>> /\ cs = <<>> /\ calls = <<>> /\ evalC = <<>> /\ evalT = RZero

-----------------------------------------------------------------------------
(* the driver, newton_raphson.py line by line.  Parameters: f = a load     *)
(* vector returned by calc_fext, k = a matrix returned by calc_k0/calc_kT, *)
(* c0/cn/d/c1/c2 = vectors produced by solve or numpy, Rv/rm/s1/s2 = the   *)
(* residual vector, its max-abs and the two line-search slopes.            *)

InitSolve(f, k, c0) ==                                    \* :13-27
    /\ pc = "init"
    /\ inc' = StartInc /\ total' = StartInc
    /\ fext' = f /\ k0' = k /\ c' = c0 /\ kTlast' = k /\ kT' = k
    /\ computeKT' = ~modifiedNR
    /\ stepNum' = 1
    /\ calls' = <<CallFext(StartInc), CallK0>>
    /\ pc' = "step"
    /\ UNCHANGED <<onceAtTotal, maxTotal, iter, iterNR, prevR, minR, resv, lsv, outv>>

BeginStep(f) ==                                           \* :30-49
    /\ pc = "step"
    /\ prevR' = F1e6 /\ minR' = F1e6 /\ iter' = 0 /\ iterNR' = 0
    /\ kT' = kTlast
    /\ fext' = f
    /\ calls' = <<CallFext(total)>>
    /\ pc' = "iter"
    \* dead values of the previous step are normalised (the code overwrites them before use)
    /\ R' = <<>> /\ rmax' = F1e6 /\ evalC' = <<>> /\ evalT' = RZero
    /\ delta' = <<>> /\ eta1' = RZero /\ eta2' = ROne /\ iterLS' = 0
    /\ UNCHANGED <<load, stepNum, computeKT, c, k0, kTlast, outv>>

Fail ==                                                   \* break without converged; :150
    /\ maxTotal' = RMax(maxTotal, total)
    /\ pc' = "bisect"
    /\ calls' = <<>>

NeedKT == \/ computeKT
          \/ (kTInitialState /\ stepNum = 1 /\ iter + 1 = 1)
          \/ iterNR = computeEveryN - 1                   \* :57-58

MaxIter ==                                                \* :51-55
    /\ pc = "iter" /\ iter + 1 > maxNumIter
    /\ iter' = iter + 1
    /\ Fail
    /\ UNCHANGED <<inc, total, onceAtTotal, stepNum, iterNR, computeKT, prevR, minR, c, fext, mats, resv, lsv, outv>>

RefreshKT(k) ==                                           \* :57-60
    /\ pc = "iter" /\ iter + 1 <= maxNumIter /\ NeedKT
    /\ iter' = iter + 1 /\ iterNR' = 0
    /\ kT' = k
    /\ calls' = <<CallKT(c, total)>>
    /\ pc' = "resid"
    /\ UNCHANGED <<load, stepNum, computeKT, prevR, minR, c, fext, k0, kTlast, resv, lsv, outv>>

SkipKT ==                                                 \* :61-64
    /\ pc = "iter" /\ iter + 1 <= maxNumIter /\ ~NeedKT
    /\ iter' = iter + 1 /\ iterNR' = iterNR + 1
    /\ computeKT' = IF modifiedNR THEN computeKT ELSE TRUE
    /\ calls' = <<>>
    /\ pc' = "resid"
    /\ UNCHANGED <<load, stepNum, prevR, minR, c, fext, mats, resv, lsv, outv>>

EvalResidual(Rv, rm) ==                                   \* :66-73  R = fext - calc_fint(c, total)
    /\ pc = "resid"
    /\ R' = Rv /\ rmax' = rm
    /\ evalC' = c /\ evalT' = total
    /\ calls' = <<CallFint(c, total)>>
    /\ pc' = "judge"
    /\ UNCHANGED <<load, stepNum, itv, c, fext, mats, lsv, outv>>

IsConv == iter >= 2 /\ RLt(rmax, absTOL)                                   \* :75
IsDiv  == RLt(prevR, rmax) /\ RLt(minR, rmax) /\ iter > 2                  \* :78
IsSlow == /\ iter > 2                                                       \* :83-84
          /\ ~RIsZero(prevR)      \* |prev-R|/0 is inf or nan (only possible with absTOL = 0): not < too_slow_TOL
          /\ RLt(FDiv(RAbs(FSub(prevR, rmax)), RAbs(prevR)), tooSlowTOL)

Converged ==
    /\ pc = "judge" /\ IsConv
    /\ pc' = "report" /\ calls' = <<>>
    /\ UNCHANGED <<load, stepNum, itv, c, fext, mats, resv, lsv, outv>>

Diverged ==
    /\ pc = "judge" /\ ~IsConv /\ IsDiv
    /\ Fail
    /\ UNCHANGED <<inc, total, onceAtTotal, stepNum, itv, c, fext, mats, resv, lsv, outv>>

TooSlow ==
    /\ pc = "judge" /\ ~IsConv /\ ~IsDiv /\ IsSlow
    /\ Fail
    /\ UNCHANGED <<inc, total, onceAtTotal, stepNum, itv, c, fext, mats, resv, lsv, outv>>

Continue ==                                               \* :82,87
    /\ pc = "judge" /\ ~IsConv /\ ~IsDiv /\ ~IsSlow
    /\ minR' = RMin(minR, rmax) /\ prevR' = rmax
    /\ pc' = "solve" /\ calls' = <<>>
    /\ UNCHANGED <<load, stepNum, iter, iterNR, computeKT, c, fext, mats, resv, lsv, outv>>

SolveDelta(d) ==                                          \* :90-95   d = solve(kT, R)
    /\ pc = "solve"
    /\ delta' = d /\ eta1' = RZero /\ eta2' = ROne /\ iterLS' = 0
    /\ pc' = IF lineSearch THEN "ls" ELSE "update"
    /\ calls' = <<>>
    /\ UNCHANGED <<load, stepNum, itv, c, fext, mats, resv, outv>>

(* eta_new = (eta2-eta1)*(-s1/(s2-s1)) + eta1 in IEEE arithmetic          *)
LSNew(e1, e2, s1, s2) ==
    IF e1 = NaN \/ e2 = NaN \/ s1 = NaN \/ s2 = NaN THEN NaN
    ELSE LET a == FSub(e2, e1)
             d == FSub(s2, s1)
         IN IF RIsZero(d)
            THEN IF RIsZero(s1) \/ RIsZero(a) THEN NaN            \* 0/0, 0*inf
                 ELSE IF RSign(a) * (-RSign(s1)) > 0 THEN PInf ELSE MInf      \* x - x = +0
            ELSE FAdd(FMul(a, FDiv(RNeg(s1), d)), e1)
Clamp(x) ==                                               \* min(max(x, 0.2), 10.) as Python evaluates it
    IF x = NaN THEN NaN
    ELSE IF x = MInf THEN F02 ELSE IF x = PInf THEN F10
    ELSE RMin(RMax(x, F02), F10)
LSCand(s1, s2) == Clamp(LSNew(eta1, eta2, s1, s2))
LSClose(e) == e # NaN /\ eta2 # NaN /\ RLt(RAbs(FSub(e, eta2)), F001)      \* abs(eta2 - eta1) < 0.01 after eta1 = eta2
LSCalls(c1, c2) == <<CallFint(c1, total), CallFint(c2, total)>>

(* one pass of the line-search loop :98-117; kind = which way it leaves the pass *)
LSPass(c1, c2, s1, s2, kind) ==
    /\ pc = "ls"
    /\ LET e     == LSCand(s1, s2)
           close == LSClose(e)
       IN /\ CASE kind = "done"   -> close                                   \* :111-112
               [] kind = "giveup" -> ~close /\ iterLS + 1 = maxIterLS         \* :113-117
               [] kind = "iter"   -> ~close /\ iterLS + 1 # maxIterLS
          /\ eta1' = eta2
          /\ eta2' = IF kind = "giveup" THEN ROne ELSE e
    /\ iterLS' = IF kind = "done" THEN iterLS ELSE iterLS + 1
    /\ pc' = IF kind = "iter" THEN "ls" ELSE "update"
    /\ calls' = LSCalls(c1, c2)
    /\ UNCHANGED <<load, stepNum, itv, c, fext, mats, resv, delta, outv>>
LineSearchDone(c1, c2, s1, s2)   == LSPass(c1, c2, s1, s2, "done")
LineSearchGiveUp(c1, c2, s1, s2) == LSPass(c1, c2, s1, s2, "giveup")
LineSearchIter(c1, c2, s1, s2)   == LSPass(c1, c2, s1, s2, "iter")

UpdateC(cn) ==                                            \* :119   cn = c + eta2*delta_c
    /\ pc = "update"
    /\ c' = cn
    /\ pc' = "iter" /\ calls' = <<>>
    /\ UNCHANGED <<load, stepNum, itv, fext, mats, resv, lsv, outv>>

Report ==                                                 \* :124-125  (c.copy())
    /\ pc = "report"
    /\ increments' = Append(increments, total)
    /\ cs' = Append(cs, c)
    /\ pc' = "after" /\ calls' = <<>>
    /\ UNCHANGED <<load, stepNum, itv, c, fext, mats, resv, lsv>>

Finish ==                                                 \* :127-128,141-142
    /\ pc = "after" /\ FinishedAt(total)
    /\ pc' = "done" /\ calls' = <<>>
    /\ UNCHANGED <<load, stepNum, itv, c, fext, mats, resv, lsv, outv>>

Grow ==                                                   \* :129-140
    /\ pc = "after" /\ ~FinishedAt(total)
    /\ LET room   == FSub(ROne, total)
           lim    == IF onceAtTotal /\ KF_C09_StopsShortOfFullLoad THEN RMul(room, Half) ELSE room
           incNew == RMin(RMin(FMul(F11, inc), MaxInc), lim)
       IN /\ inc' = incNew
          /\ total' = RMin(ROne, FAdd(total, incNew))
    /\ stepNum' = stepNum + 1
    /\ pc' = "postgrow" /\ calls' = <<>>
    /\ UNCHANGED <<onceAtTotal, maxTotal, itv, c, fext, mats, resv, lsv, outv>>

PostStepKT(k) ==                                          \* :143-148
    /\ pc = "postgrow" /\ modifiedNR
    /\ kT' = k /\ kTlast' = k /\ computeKT' = FALSE
    /\ calls' = <<CallKT(c, total)>>
    /\ pc' = "restart"
    /\ UNCHANGED <<load, stepNum, iter, iterNR, prevR, minR, c, fext, k0, resv, lsv, outv>>

PostStepNoKT ==
    /\ pc = "postgrow" /\ ~modifiedNR
    /\ kTlast' = kT /\ computeKT' = FALSE
    /\ calls' = <<>>
    /\ pc' = "restart"
    /\ UNCHANGED <<load, stepNum, iter, iterNR, prevR, minR, c, fext, k0, kT, resv, lsv, outv>>

BisectVals ==                                             \* :152-158, 162
    LET t1 == FSub(total, inc)
        i1 == FMul(inc, F03)
    IN [once |-> onceAtTotal \/ NearOne(total), t1 |-> t1, i1 |-> i1, t2 |-> FAdd(t1, i1)]

BisectTo(next) ==      \* next: where the bisection loop goes
    /\ pc = "bisect"
    /\ LET b == BisectVals
       IN /\ CASE next = "done"    -> RLt(b.i1, minInc)                                  \* :159-161,167-170
               [] next = "restart" -> ~RLt(b.i1, minInc) /\ RLt(b.t2, maxTotal)           \* :162-166
               [] next = "bisect"  -> ~RLt(b.i1, minInc) /\ ~RLt(b.t2, maxTotal)          \* :163-164 `continue`
          /\ onceAtTotal' = b.once /\ inc' = b.i1
          /\ total' = IF next = "done" THEN b.t1 ELSE b.t2
    /\ pc' = next /\ calls' = <<>>
    /\ UNCHANGED <<maxTotal, stepNum, itv, c, fext, mats, resv, lsv, outv>>
StopMinInc  == BisectTo("done")
Bisect      == BisectTo("restart")
(* total - inc + 0.3 inc >= max_total >= total needs inc <= 0: unreachable for admissible     *)
(* settings (invariant BisectAgainDead); kept because the code has the branch.                *)
BisectAgain == BisectTo("bisect")

RestartFromLast ==                                        \* :172-173  (cs[-1].copy())
    /\ pc = "restart" /\ Len(cs) > 0
    /\ c' = cs[Len(cs)]
    /\ pc' = "step" /\ calls' = <<>>
    /\ UNCHANGED <<load, stepNum, itv, fext, mats, resv, lsv, outv>>

RestartFromLinear(f, c0) ==                               \* :174-177
    /\ pc = "restart" /\ Len(cs) = 0
    /\ fext' = f /\ c' = c0
    /\ calls' = <<CallFext(inc)>>
    /\ pc' = "step"
    /\ UNCHANGED <<load, stepNum, itv, mats, resv, lsv, outv>>

Terminated == pc = "done" /\ UNCHANGED vars

-----------------------------------------------------------------------------
(* the scripted environment: the user problem of the bounded model and of  *)
(* the replay stubs (harness/c09.py : Scripted).                            *)
(*   fext(l)   = q(l) * FLam,  q(l) = l rounded to 20 binary places (so     *)
(*               that all vector arithmetic below is exact)                 *)
(*   k0        = 4 I ;  kT = EnvKT I  (the stubs vary kT per call, the      *)
(*               trace specification takes the value from the event)        *)
(*   fint(c,l) = fext(l) - r * RShape   with r chosen from ResidAlphabet    *)
(*   line search: fint(c1) = fext - a R, fint(c2) = fext - b R, <<a,b>>     *)
(*               chosen from LSAlphabet (NaN in -> NaN out)                 *)
(* Env = "linear": fint(c,l) = k0 c, kT = k0 (needs Dim >= 1).              *)

Floor(x) == LET qr == BDivMod(x[1], x[2])       \* x >= 0
            IN RFromBig(qr[1])
Quant(l) == RMul(Floor(RAdd(RMul(l, RTwoPow(20)), Half)), RTwoPow(-20))
FLam   == SubSeq(<<ROne, RFromInt(-2), RFromInt(3)>>, 1, Dim)
RShape == SubSeq(<<Half, RFromInt(-1), RFrac(1, 4)>>, 1, Dim)
EnvK0  == RFromInt(4)
EnvKT  == IF Env = "linear" THEN EnvK0 ELSE RFromInt(2)
Fext(l) == VScale(Quant(l), FLam)
ResidVec(r) == VScale(r, RShape)

EnvInit    == LET f == Fext(StartInc) IN InitSolve(f, EnvK0, Solve(EnvK0, f))
EnvBegin   == BeginStep(Fext(total))
EnvRefresh == RefreshKT(EnvKT)
EnvEval(r) == \* scripted: the residual vector is r*RShape up to the rounding of fext - (fext - r*RShape)
    LET Rv == VSub(fext, VSub(Fext(total), ResidVec(r)))
    IN EvalResidual(Rv, IF Dim = 0 THEN r ELSE MaxAbs(Rv))
EnvEvalLinear ==
    LET Rv == VSub(fext, VScale(EnvK0, c))
    IN EvalResidual(Rv, MaxAbs(Rv))
EnvSolve   == SolveDelta(Solve(kT, R))
EnvC1 == XAxpy(c, eta1, delta)
EnvC2 == XAxpy(c, eta2, delta)
EnvQ  == IF Dim = 0 THEN (IF RIsZero(rmax) THEN RZero ELSE ROne) ELSE Fl(RDot(delta, R))
EnvS(eta, a) == IF eta = NaN THEN NaN ELSE FMul(a, EnvQ)
EnvLinS(cc)  == XDot(delta, XSub(fext, IF IsNaNVec(cc) THEN cc ELSE VScale(EnvK0, cc)))
EnvLS(A(_,_,_,_), ab) ==
    IF Env = "linear" THEN A(EnvC1, EnvC2, EnvLinS(EnvC1), EnvLinS(EnvC2))
    ELSE A(EnvC1, EnvC2, EnvS(eta1, ab[1]), EnvS(eta2, ab[2]))
EnvUpdate  == UpdateC(VAxpy(c, eta2, delta))
EnvPostKT  == PostStepKT(EnvKT)
EnvRestartLinear == LET f == Fext(inc) IN RestartFromLinear(f, Solve(k0, f))

LSChoices == IF Env = "linear" THEN {<<RZero, RZero>>} ELSE LSAlphabet

NextDet ==      \* everything in which the environment makes no choice
    \/ EnvInit \/ EnvBegin \/ MaxIter \/ EnvRefresh \/ SkipKT
    \/ (Env = "linear" /\ EnvEvalLinear)
    \/ Converged \/ Diverged \/ TooSlow \/ Continue
    \/ EnvSolve \/ EnvUpdate \/ Report \/ Finish \/ Grow
    \/ EnvPostKT \/ PostStepNoKT
    \/ StopMinInc \/ Bisect \/ BisectAgain
    \/ RestartFromLast \/ EnvRestartLinear
NextEval(r) == Env = "scripted" /\ EnvEval(r)
NextLS(ab) ==
    \/ EnvLS(LineSearchDone, ab)
    \/ EnvLS(LineSearchGiveUp, ab)
    \/ EnvLS(LineSearchIter, ab)

Next == \/ NextDet
        \/ \E r \in ResidAlphabet : NextEval(r)
        \/ \E ab \in LSChoices : NextLS(ab)
        \/ Terminated

Spec == Init /\ [][Next]_vars /\ WF_vars(Next)

-----------------------------------------------------------------------------
(* THE PROPERTY (C09), literally, with the narrow signature of each known  *)
(* finding as the only escape.                                             *)

LastOf(s) == s[Len(s)]
AboveOne == RLt(ROne, initialInc)
(* signature of KF_C09_InitialIncAboveOne: the report of the first attempt *)
(* at load factor initialInc > 1, and the report that follows it           *)
SigInitAbove(incs) == /\ KF_C09_InitialIncAboveOne /\ AboveOne
                      /\ Len(incs) \in {1, 2} /\ incs[1] = initialInc
(* signature of KF_C09_StopsShortOfFullLoad: the run was closed by         *)
(* |total-1| < 1e-3 at a load factor that is not 1                         *)
SigStopsShort == /\ KF_C09_StopsShortOfFullLoad
                 /\ Len(increments) > 0 /\ LastOf(increments) # ROne /\ NearOne(LastOf(increments))

ReportStepOK ==     \* what must hold of a step that reports
    /\ iter >= 2 /\ RLt(rmax, absTOL)
    /\ evalC = LastOf(cs') /\ evalT = LastOf(increments')
    /\ Len(cs') = Len(increments')
ReportedEquilibrated == [][Len(increments') > Len(increments) => ReportStepOK]_vars

IncreasingAt(incs) ==   \* the last element of incs is a legal next load factor
    LET n == Len(incs)
    IN \/ /\ RLt(RZero, incs[n]) /\ RLe(incs[n], ROne)
          /\ (n > 1 => RLt(incs[n-1], incs[n]))
       \/ SigInitAbove(incs)
IncrementsIncreasing == [][Len(increments') > Len(increments) => IncreasingAt(increments')]_vars
IncreasingAll == \A n \in 1..Len(increments) : IncreasingAt(SubSeq(increments, 1, n))

Snapshots == [][/\ Len(cs') >= Len(cs) /\ Len(increments') >= Len(increments)
                /\ \A i \in 1..Len(cs) : cs'[i] = cs[i]
                /\ \A i \in 1..Len(increments) : increments'[i] = increments[i]]_vars

DoneOK == pc = "done" =>
            \/ (Len(increments) > 0 /\ LastOf(increments) = ROne)
            \/ RLt(inc, minInc)
            \/ SigStopsShort
Termination == <>(pc = "done")

(* linear problem: solved to full load with the linear solution (2^-40 of  *)
(* the solution's magnitude: the last correction is rounded)               *)
LinSol == Solve(EnvK0, Fext(ROne))
LinearSolved == (Env = "linear" /\ pc = "done" /\ RLt(RZero, absTOL)) =>
                  \/ /\ Len(increments) > 0 /\ LastOf(increments) = ROne
                     /\ \A i \in 1..Dim : RClose(LastOf(cs)[i], LinSol[i], RAbs(LinSol[i]), 40)
                  \/ SigStopsShort

(* consequences used for vacuity control and sanity *)
BisectAgainDead == ~(pc = "bisect" /\ ~RLt(BisectVals.i1, minInc) /\ ~RLt(BisectVals.t2, maxTotal))
AttemptInRange == pc \in {"iter", "resid", "judge", "solve", "ls", "update", "report"} =>
                    \/ (RLt(RZero, total) /\ RLe(total, ROne) /\ RLt(RZero, inc))
                    \/ (KF_C09_InitialIncAboveOne /\ AboveOne /\ Len(increments) <= 1)
=============================================================================
