------------------------------- MODULE Bardell -------------------------------
(***************************************************************************)
(* Bardell's hierarchical polynomials and exact integrals of products of   *)
(* them and their derivatives (property C10; used by every panel module).  *)
(*                                                                         *)
(* Code index i = 0..29.  i = 0..3 are the Hermite cubics carrying the     *)
(* edge flags (translation/rotation at xi=-1, translation/rotation at      *)
(* xi=+1); i >= 4 is Bardell's f_r with r = i+1:                           *)
(*   f_r = SUM_{n=0}^{r div 2} (-1)^n (2r-2n-7)!! / (2^n n! (r-2n-1)!)     *)
(*                               * xi^(r-2n-1)                             *)
(* (terms with a negative exponent dropped, (-1)!! = 1).                   *)
(* Independently, the Legendre construction: f_i'' = P_(i-2),              *)
(* f_i(-1) = f_i'(-1) = 0.  BardellFormsAgree states they coincide.        *)
(***************************************************************************)
EXTENDS Poly

CONSTANT NFun      \* number of functions the client needs (1..30); sizes every table below


Hermite == << <<RQ(1,2), RQ(-3,4), RZero, RQ(1,4)>>,
              <<RQ(1,8), RQ(-1,8), RQ(-1,8), RQ(1,8)>>,
              <<RQ(1,2), RQ(3,4),  RZero, RQ(-1,4)>>,
              <<RQ(-1,8), RQ(-1,8), RQ(1,8), RQ(1,8)>> >>

RECURSIVE Fact(_)
Fact(n) == IF n <= 0 THEN BOne ELSE BMul(BFromInt(n), Fact(n-1))
RECURSIVE DFact(_)
DFact(n) == IF n <= 0 THEN BOne ELSE BMul(BFromInt(n), DFact(n-2))   \* n odd or -1

(* coefficient of xi^p in Bardell's f_r *)
BardellCoef(r, p) ==
    IF (r - 1 - p) % 2 # 0 \/ p > r - 1 THEN RZero
    ELSE LET n == (r - 1 - p) \div 2
             num == DFact(2*r - 2*n - 7)
             den == BMul(BMul(BPowNat(BFromInt(2), n), Fact(n)), Fact(r - 2*n - 1))
         IN RMk(IF n % 2 = 0 THEN num ELSE BNeg(num), den)
FormulaF(i) == IF i < 4 THEN Hermite[i+1]
               ELSE PTrim([k \in 1..(i+1) |-> BardellCoef(i+1, k-1)])

(* Legendre polynomials by Bonnet's recursion: n P_n = (2n-1) x P_(n-1) - (n-1) P_(n-2);
   LegSeq(n) = <<P_0, .., P_n>> built iteratively *)
RECURSIVE LegSeq(_)
LegSeq(n) == IF n = 0 THEN << <<ROne>> >>
             ELSE IF n = 1 THEN << <<ROne>>, PX >>
             ELSE LET s == LegSeq(n-1)
                  IN Append(s, PScale(RQ(1, n), PSub(PScale(RFromInt(2*n-1), PMul(PX, s[n])),
                                                    PScale(RFromInt(n-1), s[n-1]))))
LegAll == LegSeq(IF NFun > 3 THEN NFun - 3 ELSE 0)
Leg(n) == LegAll[n+1]

(* antiderivative vanishing at -1 *)
AntiFromMinusOne(p) == LET P == PAnti(p) IN PSub(P, PConst(PEval(P, RFromInt(-1))))
LegendreF(i) == IF i < 4 THEN Hermite[i+1]
                ELSE AntiFromMinusOne(AntiFromMinusOne(Leg(i-2)))

FTab == Fn([i \in 0..(NFun-1) |-> LegendreF(i)])
BardellFormsAgree == \A i \in 0..(NFun-1) : FormulaF(i) = FTab[i]

(* d-th derivative of function i, unit flags *)
DTab == Fn([d \in 0..2 |-> Fn([i \in 0..(NFun-1) |-> PDerivN(FTab[i], d)])])
D(i, d) == DTab[d][i]

(* edge-flag multiplier of function i : flags = <<t1, r1, t2, r2>> of Rat *)
Flag(i, flags) == IF i < 4 THEN flags[i+1] ELSE ROne
UnitFlags == <<ROne, ROne, ROne, ROne>>

(* value of the d-th derivative at xi, with flags *)
FVal(i, d, xi, flags) == RMul(Flag(i, flags), PEval(D(i, d), xi))
FScale(i, d, xi, flags) == RMul(RAbs(Flag(i, flags)), PAbsEval(D(i, d), xi))

(* products f_i^(di) * g_j^(dj) (unit flags), their antiderivatives, and the
   antiderivatives of the coefficient-wise absolute products: constant tables *)
ProdTab == Fn([di \in 0..2 |-> Fn([dj \in 0..2 |->
              Fn([i \in 0..(NFun-1) |-> Fn([j \in 0..(NFun-1) |-> PMul(D(i, di), D(j, dj))])])])])
Prod(i, di, j, dj) == ProdTab[di][dj][i][j]
AntiTab == Fn([di \in 0..2 |-> Fn([dj \in 0..2 |->
              Fn([i \in 0..(NFun-1) |-> Fn([j \in 0..(NFun-1) |-> PAnti(Prod(i, di, j, dj))])])])])
AbsAntiTab == Fn([di \in 0..2 |-> Fn([dj \in 0..2 |->
              Fn([i \in 0..(NFun-1) |-> Fn([j \in 0..(NFun-1) |-> PAnti(PAbs(Prod(i, di, j, dj)))])])])])

(* integral over [x1, x2] of  f_i^(di) * g_j^(dj), unit flags *)
IntSub(i, di, j, dj, x1, x2) ==
    LET P == AntiTab[di][dj][i][j] IN RSub(PEval(P, x2), PEval(P, x1))
(* scale of the tolerance rule: sum_k |c_k| (|x1|^(k+1) + |x2|^(k+1))/(k+1), the
   term magnitudes of evaluating the antiderivative at both ends *)
IntSubScale(i, di, j, dj, x1, x2) ==
    LET P == AbsAntiTab[di][dj][i][j] IN RAdd(PEval(P, RAbs(x1)), PEval(P, RAbs(x2)))

MinusOne == RFromInt(-1)
IntFull(i, di, j, dj) == IntSub(i, di, j, dj, MinusOne, ROne)

(* the full-interval families as constant tables, computed once *)
FullTab == Fn([di \in 0..2 |-> Fn([dj \in 0..2 |->
              Fn([i \in 0..(NFun-1) |-> Fn([j \in 0..(NFun-1) |-> IntFull(i, di, j, dj)])])])])
IF_(i, di, j, dj) == FullTab[di][dj][i][j]

(* mapped-argument family: integral over [-1,1] of f_i^(di)(xi) * g_j^(dj)(c0 + c1 xi),
   the derivative of g being with respect to its own argument *)
IntMapped(i, di, j, dj, c0, c1) ==
    PIntegrate(PMul(D(i, di), PComposeLin(D(j, dj), c0, c1)), MinusOne, ROne)
=============================================================================
