------------------------------ MODULE Quadrature ------------------------------
(***************************************************************************)
(* Property C10, quadrature part.                                          *)
(*  - Gauss-Legendre: an n-point table <<x_k, w_k>> is correct iff it      *)
(*    integrates x^p over [-1,1] exactly for every p <= 2n-1.  Moment(p)   *)
(*    is the exact integral; GaussAccepts is the exactness statement       *)
(*    evaluated on a table (used on the observed table by the trace spec). *)
(*  - composite trapezoid / Simpson 2-D point sets: Points(rule, g) is the *)
(*    exact set of <<x, y, weight>> for a grid g; TLC checks on the spec   *)
(*    that the weights sum to the area and that linear (cubic) integrands  *)
(*    are integrated exactly.                                              *)
(***************************************************************************)
EXTENDS Poly, FiniteSets, SequencesExt

R(n, d) == RFrac(n, d)
Moment(p) == IF p % 2 = 0 THEN R(2, p+1) ELSE RZero

(* sum_k w_k x_k^p and its scale sum_k |w_k||x_k|^p for a table of Rat pairs *)
TableMoment(xs, ws, p) == RDot(ws, Fn([k \in 1..Len(xs) |-> RPow(xs[k], p)]))
TableMomentAbs(xs, ws, p) == RDot(Fn([k \in 1..Len(ws) |-> RAbs(ws[k])]),
                                  Fn([k \in 1..Len(xs) |-> RPow(RAbs(xs[k]), p)]))
GaussFailures(xs, ws, n, t) ==
    { p \in 0..(2*n-1) :
        ~RClose(TableMoment(xs, ws, p), Moment(p), TableMomentAbs(xs, ws, p), t) }
GaussShapeOk(xs, ws, n) ==
    /\ Len(xs) = n /\ Len(ws) = n
    /\ \A k \in 1..n : RSign(ws[k]) > 0 /\ RLt(RAbs(xs[k]), ROne)

(* ---- composite rules on [xmin,xmax] x [ymin,ymax] ------------------------ *)
(* trapezoid with n points: nodes a + (b-a) k/(n-1), weights h/2, h, .., h, h/2 *)
Trap1(a, b, n) ==
    LET h == RDiv(RSub(b, a), RFromInt(n-1))
    IN Fn([k \in 0..(n-1) |-> <<RAdd(a, RMul(RFromInt(k), h)),
                                 IF k = 0 \/ k = n-1 THEN RMul(h, R(1,2)) ELSE h>>])
(* Simpson: the package rounds an odd point request up to the next even number N of
   intervals, uses N+1 nodes, weights h/3 * (1,4,2,4,..,2,4,1) *)
SimpsN(n) == IF n % 2 = 0 THEN n ELSE n + 1
Simp1(a, b, n) ==
    LET N == SimpsN(n)
        h == RDiv(RSub(b, a), RFromInt(N))
    IN Fn([k \in 0..N |-> <<RAdd(a, RMul(RFromInt(k), h)),
                             RMul(RMul(h, R(1,3)),
                                  IF k = 0 \/ k = N THEN ROne
                                  ELSE IF k % 2 = 1 THEN RFromInt(4) ELSE RFromInt(2))>>])
Rule1(rule, a, b, n) == IF rule = "trapz" THEN Trap1(a, b, n) ELSE Simp1(a, b, n)
(* tensor product: set of <<x, y, w>> *)
Points(rule, g) ==
    LET X == Rule1(rule, g.xmin, g.xmax, g.nx)
        Y == Rule1(rule, g.ymin, g.ymax, g.ny)
    IN { <<X[i][1], Y[j][1], RMul(X[i][2], Y[j][2])>> : i \in DOMAIN X, j \in DOMAIN Y }

(* exact integral of x^a y^b over the rectangle *)
MonoInt(g, a, b) ==
    RMul(RDiv(RSub(RPow(g.xmax, a+1), RPow(g.xmin, a+1)), RFromInt(a+1)),
         RDiv(RSub(RPow(g.ymax, b+1), RPow(g.ymin, b+1)), RFromInt(b+1)))
RECURSIVE WMonoSum(_,_,_)
WMonoSum(S, a, b) == IF S = {} THEN RZero
                   ELSE LET p == CHOOSE q \in S : TRUE
                        IN RAdd(RMul(p[3], RMul(RPow(p[1], a), RPow(p[2], b))), WMonoSum(S \ {p}, a, b))
ExactDegree(rule) == IF rule = "trapz" THEN 1 ELSE 3

(* ---- state machine: a client asks for a point set ------------------------ *)
CONSTANTS Grids, Rules
VARIABLES ask, pts
qvars == <<ask, pts>>
QInit == ask = [rule |-> "none"] /\ pts = {}
QAsk(rule, g) == /\ ask' = [rule |-> rule, g |-> g]
                 /\ pts' = Points(rule, g)
QNext == \E rule \in Rules, g \in Grids : QAsk(rule, g)
QSpec == QInit /\ [][QNext]_qvars
MCQNext == ask.rule = "none" /\ QNext
MCQSpec == QInit /\ [][MCQNext]_qvars

WeightsSumToArea ==
    ask.rule # "none" => WMonoSum(pts, 0, 0) = MonoInt(ask.g, 0, 0)
ExactForLowDegree ==
    ask.rule # "none" =>
        \A a \in 0..ExactDegree(ask.rule), b \in 0..ExactDegree(ask.rule) :
            WMonoSum(pts, a, b) = MonoInt(ask.g, a, b)
PointCount ==
    ask.rule # "none" =>
        Cardinality(pts) = IF ask.rule = "trapz" THEN ask.g.nx * ask.g.ny
                           ELSE (SimpsN(ask.g.nx) + 1) * (SimpsN(ask.g.ny) + 1)
=============================================================================
